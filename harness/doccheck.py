"""Shared skeleton of the document-level checks (C01-C12, C15, C16): generate documents, run the real code in a
process pool, evaluate oracle + correspondence, shrink, report (DESIGN.md §2)."""
from __future__ import annotations

import copy
import io
import json
import traceback

from . import common, gen, ooxml
from .pool import pmap


def make_case(seed, index, profile=None, stream="gen"):
    doc, feats, rng = gen.gen_document(seed, index, profile)
    return {"seed": seed, "index": index, "stream": stream, "doc": doc, "features": feats}


def doc_bytes(doc):
    return ooxml.write_docx(doc)


class safe:
    """wrap a worker so that an exception inside the harness is reported, not lost in the pool"""

    def __init__(self, fn):
        self.fn = fn

    def __call__(self, case):
        try:
            return self.fn(case)
        except Exception as e:  # noqa
            return {"case": case, "harness_error": f"{type(e).__name__}: {e}", "tb": traceback.format_exc()[-1500:]}


def light_case(case):
    d = {k: v for k, v in case.items() if k not in ("doc",)}
    return d


# ---------------------------------------------------------------------------------------------- shrinking
def _paras(blocks, path=()):
    for i, b in enumerate(blocks):
        if "p" in b:
            yield path + (i,), b
        elif "tbl" in b:
            for ri, row in enumerate(b["tbl"]["rows"]):
                for ci, c in enumerate(row["cells"]):
                    yield from _paras(c["blocks"], path + (i, ri, ci))


def shrink_doc(doc, still_fails, budget=60):
    """Greedy structural shrinking: drop stories, blocks, rows, nodes while the failure persists."""
    cur = copy.deepcopy(doc)
    tries = 0

    def attempt(cand):
        nonlocal cur, tries
        if tries >= budget:
            return False
        tries += 1
        try:
            if still_fails(cand):
                cur = cand
                return True
        except Exception:
            pass
        return False

    changed = True
    while changed and tries < budget:
        changed = False
        for key in ("headers", "footers"):
            if cur.get(key):
                c = copy.deepcopy(cur)
                c[key] = []
                if attempt(c):
                    changed = True
        i = 0
        while i < len(cur["body"]) and tries < budget:
            if len(cur["body"]) > 1:
                c = copy.deepcopy(cur)
                del c["body"][i]
                if attempt(c):
                    changed = True
                    continue
            i += 1
        for bi, b in enumerate(list(cur["body"])):
            if "p" in b:
                j = 0
                while j < len(cur["body"][bi]["p"]["nodes"]) and tries < budget:
                    c = copy.deepcopy(cur)
                    del c["body"][bi]["p"]["nodes"][j]
                    if attempt(c):
                        changed = True
                        continue
                    j += 1
            elif "tbl" in b:
                rows = cur["body"][bi]["tbl"]["rows"]
                j = 0
                while j < len(rows) and len(rows) > 1 and tries < budget:
                    c = copy.deepcopy(cur)
                    del c["body"][bi]["tbl"]["rows"][j]
                    if attempt(c):
                        changed = True
                        rows = cur["body"][bi]["tbl"]["rows"]
                        continue
                    j += 1
    return cur


def describe_doc(doc):
    """short human-readable rendering used in evidence samples"""
    def para(p):
        out = []
        for n in p["nodes"]:
            k = n["k"]
            if k == "r":
                out.append("".join(a.get("s", {"tab": "\\t", "br": "\\n", "cr": "\\n"}.get(a["k"], "<" + a["k"] + ">")) for a in n["run"]["ch"]))
            elif k == "ins":
                out.append("{+" + "".join(para({"nodes": [c]}) if c["k"] == "r" else "<" + c["k"] + ">" for c in n["ch"]) + "+}")
            elif k == "del":
                out.append("{-" + "".join(a.get("s", "") for r in n["runs"] for a in r["ch"]) + "-}")
            else:
                out.append("<" + k + ">")
        return "|".join(out)

    def blocks(bs):
        o = []
        for b in bs:
            if "p" in b:
                o.append(para(b["p"]))
            elif "tbl" in b:
                o.append("TBL[" + " / ".join(" ; ".join(blocks(c["blocks"])[0] if c["blocks"] else "" for c in r["cells"]) for r in b["tbl"]["rows"]) + "]")
        return o
    return {"body": blocks(doc["body"])[:8], "headers": len(doc.get("headers", [])), "footers": len(doc.get("footers", [])),
            "comments": len(doc.get("comments", []))}


# ---------------------------------------------------------------------------------------------- runner
def run_doc_check(prop, tier, seed, driver_ok, *, n_quick, n_thorough, profiles, work, oracle, driver_line=None,
                  compare=None, classify=None, witnesses=(), rule="", nontrivial=None, assumptions=(), extra_cases=(),
                  keep_results=False):
    """profiles: list of (name, profile dict, weight). work(case)->result dict (top-level function).
    oracle(result)->list of failure strings. classify(case)->finding key or None (open findings' domains)."""
    n = {"quick": n_quick, "thorough": n_thorough, "search": 3 * n_quick}[tier]
    cases = []
    # committed witnesses of known findings / past failures run first
    known = []
    open_keys = {k["key"] for k in common.known_findings(prop) if k["status"] == "open"}
    for k in common.known_findings(prop):
        wfile = k.get("witness_file")
        if not wfile:
            continue
        wdoc = json.loads((common.VERIF / wfile).read_text())
        res = safe(work)({"seed": -1, "index": -1, "stream": "witness:" + k["key"], "doc": wdoc["doc"], "features": [],
                          **{kk: vv for kk, vv in wdoc.items() if kk != "doc"}})
        fails = oracle(res) if "harness_error" not in res else ["harness error " + res["harness_error"]]
        known.append({"key": k["key"], "status": k["status"], "what": k["what"], "reproduces": bool(fails),
                      "detail": fails[:1], "case": {"witness_file": wfile}})
    total_w = sum(w for _, _, w in profiles)
    idx = 0
    for name, prof, w in profiles:
        cnt = max(1, round(n * w / total_w))
        for _ in range(cnt):
            cases.append({"seed": seed, "index": idx, "stream": name, "profile": name})
            idx += 1
    cases = list(extra_cases) + cases
    results = pmap(safe(work), cases, chunksize=max(1, min(16, len(cases) // (common.NCPU * 4) or 1)))
    oracle_failures, mism, harness_errors = [], [], []
    dist = {"by_stream": {}, "features": {}, "out_of_domain": {}}
    distinct = set()
    samples = []
    usable = []
    for r in results:
        if "harness_error" in r:
            harness_errors.append(r)
            continue
        c = r["case"]
        dist["by_stream"][c["stream"]] = dist["by_stream"].get(c["stream"], 0) + 1
        for f in c.get("features", []):
            dist["features"][f] = dist["features"].get(f, 0) + 1
        key = classify(r) if classify else None
        fails = oracle(r)
        if key is not None and key in open_keys:
            d = dist["out_of_domain"].setdefault(key, {"cases": 0, "failing": 0})
            d["cases"] += 1
            d["failing"] += bool(fails)
        else:
            for f in fails[:1]:
                oracle_failures.append({"name": f"{prop} oracle", "case": light_case(c) | {"doc": c["doc"]}, "what": f,
                                        "all": fails[:5]})
        usable.append(r)
        if nontrivial is None or nontrivial(r):
            distinct.add(r.get("digest") or json.dumps(describe_doc(c["doc"]), sort_keys=True))
        if len(samples) < 4 and c["index"] % max(1, len(cases) // 4) == 0:
            samples.append({"stream": c["stream"], "index": c["index"], "features": c.get("features"),
                            "doc": describe_doc(c["doc"]), **(r.get("sample") or {})})
    if harness_errors:
        raise common.HarnessError(f"{len(harness_errors)} harness errors, first: " + harness_errors[0]["harness_error"] +
                                  "\n" + harness_errors[0].get("tb", ""))
    compared = 0
    hyp = {}
    heur_stats = None
    for r in usable:
        # hypotheses of interest the property module counted itself
        for k, v in (r.get("hyp") or {}).items():
            hyp[k] = hyp.get(k, 0) + bool(v)
    if driver_ok:
        # heuristic / mixed batches against Adeu.Doc.applyEdits (results carry a "heur" entry: edits + recorded run)
        from . import heur

        hs = [r for r in usable if r.get("heur")]
        if hs:
            hlines = [heur.driver_line(r["case"]["doc"], r["heur"]["edits"], r["heur"]["res"], r["heur"].get("author")) for r in hs]
            houts = common.run_driver_parallel(hlines)
            heur_stats = {"cases": len(hs), "compared": 0, "dropped_no_recorder": 0}
            for r, ln, o in zip(hs, hlines, houts):
                if ln.get("op") == "ping":
                    heur_stats["dropped_no_recorder"] += 1
                    continue
                heur_stats["compared"] += 1
                compared += 1
                for k, v in (o.get("concl") or {}).items():
                    hyp["searched_path:" + k] = hyp.get("searched_path:" + k, 0) + bool(v)
                for d in heur.compare(r["case"]["doc"], r["heur"]["res"], o, r["heur"].get("author")):
                    mism.append({"corr": d[0], "case": light_case(r["case"]) | {"doc": r["case"]["doc"], "edits": r["heur"]["edits"]},
                                 "what": d[1]})
    if driver_ok and driver_line and compare:
        lines = [driver_line(r) for r in usable]
        outs = common.run_driver_parallel(lines)
        for r, o in zip(usable, outs):
            compared += 1
            for d in compare(r, o):
                mism.append({"corr": d[0], "case": light_case(r["case"]) | {"doc": r["case"]["doc"]}, "what": d[1]})
            for k, v in (o.get("concl") or {}).items():
                hyp[k] = hyp.get(k, 0) + bool(v)
    return {
        "known": known,
        "evaluations": len(results),
        "distinct_nontrivial": len(distinct),
        "rule": rule,
        "samples": samples or [{"note": "no sample"}],
        "compared": compared,
        "corr_mismatches": mism,
        "oracle_failures": oracle_failures,
        "hypothesis_hits": hyp,
        "input_distribution": dist,
        "out_of_domain": dist["out_of_domain"],
        "heuristic_correspondence": heur_stats,
        "assumptions": list(assumptions),
        **({"_results": usable} if keep_results else {}),
    }
