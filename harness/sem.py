"""Independent reference semantics on the abstract document (harness side, used by the oracles):
canonical content streams, per-character views, accepted / rejected readings, CriticMarkup parsing.

Nothing here imports adeu or python-docx."""
from __future__ import annotations

import re

# ------------------------------------------------------------------------------------------------
# canonical stream (mirror of Lean `canonDoc`): everything except run boundaries
# ------------------------------------------------------------------------------------------------

def fmt_of(run):
    return (run.get("b"), run.get("i"), run.get("rest", ""), bool(run.get("empty_rpr")))


def canon_run(run, out, ctx=None):
    f = fmt_of(run)
    for a in run["ch"]:
        k = a["k"]
        if k == "t":
            out.extend(("ch", c, False, f) for c in a["s"])
        elif k == "dt":
            out.extend(("ch", c, True, f) for c in a["s"])
        else:
            out.append(("atom", tuple(sorted(a.items())), f))


def canon_nodes(nodes):
    out = []
    for n in nodes:
        k = n["k"]
        if k == "r":
            canon_run(n["run"], out)
        elif k == "ins":
            out.append(("ins_open", n["id"], n.get("author"), n.get("date")))
            for c in n["ch"]:
                if c["k"] == "r":
                    canon_run(c["run"], out)
                else:
                    out.append((c["k"], c.get("id"), c.get("xml")))
            out.append(("ins_close",))
        elif k == "del":
            out.append(("del_open", n["id"], n.get("author"), n.get("date")))
            for r in n["runs"]:
                canon_run(r, out)
            out.append(("del_close",))
        elif k in ("cs", "ce"):
            out.append((k, n["id"]))
        elif k == "proof":
            pass
        elif k == "hl":
            out.append(("hl_open", n.get("rid"), n.get("anchor")))
            for r in n["runs"]:
                canon_run(r, out)
            out.append(("hl_close",))
        else:
            out.append(("other", n.get("xml")))
    return out


def canon_blocks(blocks):
    out = []
    for b in blocks:
        if "p" in b:
            p = b["p"]
            out.append(("p_open", p.get("style"), p.get("ppr", "")))
            out.extend(canon_nodes(p["nodes"]))
            out.append(("p_close",))
        elif "tbl" in b:
            t = b["tbl"]
            out.append(("tbl_open", t.get("pr", ""), t.get("grid", "")))
            for row in t["rows"]:
                out.append(("row_open", row.get("pr", "")))
                for c in row["cells"]:
                    out.append(("cell_open", c.get("pr", ""), c.get("span", 1), c.get("vmerge")))
                    out.extend(canon_blocks(c["blocks"]))
                    out.append(("cell_close",))
                out.append(("row_close",))
            out.append(("tbl_close",))
        else:
            out.append(("other_block", b.get("other")))
    return out


def canon_doc(doc):
    return {"headers": [(s["type"], canon_blocks(s["blocks"])) for s in doc.get("headers", [])],
            "body": canon_blocks(doc["body"]),
            "footers": [(s["type"], canon_blocks(s["blocks"])) for s in doc.get("footers", [])]}


def first_diff(a, b):
    for i, (x, y) in enumerate(zip(a, b)):
        if x != y:
            return i, x, y
    if len(a) != len(b):
        i = min(len(a), len(b))
        return i, (a[i] if i < len(a) else None), (b[i] if i < len(b) else None)
    return None


# ------------------------------------------------------------------------------------------------
# per-character views
# ------------------------------------------------------------------------------------------------

def run_chars(run):
    """visible characters of a run as adeu's projection counts them: text, tab -> ' ', br/cr -> '\\n'."""
    out = []
    for a in run["ch"]:
        k = a["k"]
        if k in ("t", "dt"):
            out.extend(a["s"].replace("\t", " "))
        elif k == "tab":
            out.append(" ")
        elif k in ("br", "cr"):
            out.append("\n")
    return out


def is_page_instr(instr):
    parts = instr.upper().strip().split()
    return bool(parts) and parts[0] in ("PAGE", "NUMPAGES")


def para_chars(p):
    """[(char, state, frozenset(open comment ids), rev id or None)] for one paragraph in document order;
    state in {'plain','ins','del'}. Results of PAGE/NUMPAGES complex fields are not counted as document
    text (dynamic page numbers); hyperlink text is not part of adeu's projection (documented limitation)."""
    out = []
    open_c = []
    fld = {"in": False, "instr": "", "hide": False}

    def do_run(run, state, rid, field_logic=True):
        if field_logic:
            for a in run["ch"]:
                if a["k"] == "fld":
                    if a["type"] == "begin":
                        fld.update({"in": True, "instr": "", "hide": False})
                    elif a["type"] == "separate":
                        if is_page_instr(fld["instr"]):
                            fld["hide"] = True
                    elif a["type"] == "end":
                        fld.update({"in": False, "instr": "", "hide": False})
            if fld["in"] and not fld["hide"]:
                for a in run["ch"]:
                    if a["k"] == "instr":
                        fld["instr"] += a["s"]
            if fld["hide"]:
                return
        for c in run_chars(run):
            out.append((c, state, frozenset(open_c), rid))

    for n in p["nodes"]:
        k = n["k"]
        if k == "r":
            do_run(n["run"], "plain", None)
        elif k == "ins":
            for c in n["ch"]:
                if c["k"] == "r":
                    do_run(c["run"], "ins", n["id"])
                elif c["k"] == "cs":
                    open_c.append(c["id"])
                elif c["k"] == "ce" and c["id"] in open_c:
                    open_c.remove(c["id"])
        elif k == "del":
            for r in n["runs"]:
                do_run(r, "del", n["id"], field_logic=False)
        elif k == "cs":
            open_c.append(n["id"])
        elif k == "ce" and n["id"] in open_c:
            open_c.remove(n["id"])
    return out


def iter_paragraphs(blocks, expand_vmerge=False):
    """paragraphs in document order, tables row-major; a vMerge-continue cell shows nothing of its own."""
    for b in blocks:
        if "p" in b:
            yield b["p"]
        elif "tbl" in b:
            for row in b["tbl"]["rows"]:
                for c in row["cells"]:
                    if c.get("vmerge") == "continue" and not expand_vmerge:
                        continue
                    yield from iter_paragraphs(c["blocks"], expand_vmerge)


def active_stories(doc):
    def pick(ss):
        out = []
        for ty in ("default", "first", "even"):
            if ty == "first" and not doc.get("title_pg"):
                continue
            if ty == "even" and not doc.get("even_odd"):
                continue
            for s in ss:
                if s["type"] == ty:
                    out.append(s["blocks"])
                    break
        return out
    return pick(doc.get("headers", [])) + [doc["body"]] + pick(doc.get("footers", []))


def doc_chars(doc):
    out = []
    for blocks in active_stories(doc):
        for p in iter_paragraphs(blocks):
            out.extend(para_chars(p))
    return out


def accepted_text_of_para(p):
    return "".join(c for c, st, _, _ in para_chars(p) if st != "del")


def rejected_text_of_para(p):
    return "".join(c for c, st, _, _ in para_chars(p) if st != "ins")


SKEL = re.compile(r"[^0-9A-Za-zÀ-￿]")


def skeleton(s):
    """letters and digits only: what remains when every marker, separator and space is ignored"""
    return SKEL.sub("", s)


# ------------------------------------------------------------------------------------------------
# CriticMarkup parsing (flat; nested or unbalanced delimiters are errors)
# ------------------------------------------------------------------------------------------------
OPENERS = {"{++": ("ins", "++}"), "{--": ("del", "--}"), "{==": ("hl", "==}"), "{>>": ("meta", "<<}")}


class CriticError(Exception):
    pass


def parse_critic(s):
    """-> list of (kind, text) with kind in plain/ins/del/hl/meta. Raises CriticError when delimiters are
    unbalanced or nested."""
    out = []
    i = 0
    buf = []
    n = len(s)
    while i < n:
        tri = s[i:i + 3]
        if tri in OPENERS:
            kind, closer = OPENERS[tri]
            j = s.find(closer, i + 3)
            if j < 0:
                raise CriticError(f"unclosed {tri} at {i}")
            inner = s[i + 3:j]
            for op in OPENERS:
                if op in inner:
                    raise CriticError(f"nested {op} inside {tri} at {i}")
            if buf:
                out.append(("plain", "".join(buf)))
                buf = []
            out.append((kind, inner))
            i = j + 3
        elif tri in ("++}", "--}", "==}", "<<}"):
            raise CriticError(f"stray closer {tri} at {i}")
        else:
            buf.append(s[i])
            i += 1
    if buf:
        out.append(("plain", "".join(buf)))
    return out


def critic_accept(segs):
    return "".join(t for k, t in segs if k in ("plain", "ins", "hl"))


def critic_reject(segs):
    return "".join(t for k, t in segs if k in ("plain", "del", "hl"))


META_ID = re.compile(r"\[(Chg|Com):([^\]]+)\]")


def listed_ids(segs):
    chg, com = [], []
    for k, t in segs:
        if k == "meta":
            for kind, ident in META_ID.findall(t):
                (chg if kind == "Chg" else com).append(ident)
    return chg, com


# ------------------------------------------------------------------------------------------------
# per-character view with formatting and run identity (for edit generation and the engine oracles)
# ------------------------------------------------------------------------------------------------

def onoff_true(v):
    return v is not None and v in ("", "1", "true", "on")


def para_chars_ex(p):
    """list of dicts: c, state (plain/ins/del), rid, comments (frozenset), fmt (b,i,rest,empty), marked (bold or
    italic markers are rendered around the run), run (index of the run in document order inside the paragraph),
    hidden (PAGE/NUMPAGES result)."""
    out = []
    open_c = []
    fld = {"in": False, "instr": "", "hide": False}
    run_no = [0]

    def do_run(run, state, rid, field_logic=True):
        run_no[0] += 1
        hidden = False
        if field_logic:
            for a in run["ch"]:
                if a["k"] == "fld":
                    if a["type"] == "begin":
                        fld.update({"in": True, "instr": "", "hide": False})
                    elif a["type"] == "separate":
                        if is_page_instr(fld["instr"]):
                            fld["hide"] = True
                    elif a["type"] == "end":
                        fld.update({"in": False, "instr": "", "hide": False})
            if fld["in"] and not fld["hide"]:
                for a in run["ch"]:
                    if a["k"] == "instr":
                        fld["instr"] += a["s"]
            hidden = fld["hide"]
        f = fmt_of(run)
        marked = onoff_true(run.get("b")) or onoff_true(run.get("i"))
        for a in run["ch"]:
            k = a["k"]
            if k in ("t", "dt"):
                cs = [(ch if ch != "\t" else " ", "text") for ch in a["s"]]
            elif k == "tab":
                cs = [(" ", "tab")]
            elif k in ("br", "cr"):
                cs = [("\n", k)]
            else:
                continue
            for ch, kind in cs:
                out.append({"c": ch, "kind": kind, "state": state, "rid": rid, "comments": frozenset(open_c), "fmt": f,
                            "marked": marked, "run": run_no[0], "hidden": hidden})

    for n in p["nodes"]:
        k = n["k"]
        if k == "r":
            do_run(n["run"], "plain", None)
        elif k == "ins":
            for c in n["ch"]:
                if c["k"] == "r":
                    do_run(c["run"], "ins", n["id"])
                elif c["k"] == "cs":
                    open_c.append(c["id"])
                elif c["k"] == "ce" and c["id"] in open_c:
                    open_c.remove(c["id"])
        elif k == "del":
            for r in n["runs"]:
                do_run(r, "del", n["id"], field_logic=False)
        elif k == "cs":
            open_c.append(n["id"])
        elif k == "ce" and n["id"] in open_c:
            open_c.remove(n["id"])
    return out


def all_paragraphs(doc):
    """[(story index, paragraph)] of the stories adeu reads, vMerge-continue cells skipped"""
    out = []
    for si, blocks in enumerate(active_stories(doc)):
        for p in iter_paragraphs(blocks):
            out.append((si, p))
    return out


def body_story_index(doc):
    n = 0
    hs = doc.get("headers", [])
    for ty in ("default", "first", "even"):
        if ty == "first" and not doc.get("title_pg"):
            continue
        if ty == "even" and not doc.get("even_odd"):
            continue
        if any(s["type"] == ty for s in hs):
            n += 1
    return n


def max_rev_id(doc, body_only=True):
    m = 0
    stories = [doc["body"]] if body_only else [doc["body"]] + [s["blocks"] for s in doc.get("headers", []) + doc.get("footers", [])]
    for blocks in stories:
        for p in iter_paragraphs(blocks, expand_vmerge=True):
            for n in p["nodes"]:
                if n["k"] in ("ins", "del"):
                    try:
                        m = max(m, int(n["id"]))
                    except (TypeError, ValueError):
                        pass
    return m


def max_comment_id(doc):
    m = 0
    for c in doc.get("comments", []):
        try:
            m = max(m, int(c["id"]))
        except (TypeError, ValueError):
            pass
    return m
