"""Runs the real engine on an abstract document + edit batch / review actions and reads the result back."""
from __future__ import annotations

import io

from . import ooxml


def texts_of(data):
    from adeu.ingest import extract_text_from_stream

    return {"raw": extract_text_from_stream(io.BytesIO(data)),
            "clean": extract_text_from_stream(io.BytesIO(data), clean_view=True)}


def make_edits(edits):
    from adeu.models import DocumentEdit

    out = []
    for e in edits:
        de = DocumentEdit(target_text=e["target"], new_text=e["new"], comment=e.get("comment"))
        if e.get("index") is not None:
            de._match_start_index = e["index"]
        out.append(de)
    return out


def run_edits(data, edits, author="Q7"):
    """-> dict(applied, skipped, err, out_bytes, out_doc, fz, fz_ok); fz = per submitted edit, what the non-literal
    matching stages returned in the raw / accepted view (parameters of the Lean model, see heur.py)"""
    from . import heur

    return heur.run_edits_recorded(data, edits, author=author)


def run_actions(data, actions, author="Q7"):
    from adeu.models import ReviewAction
    from adeu.redline.engine import RedlineEngine

    res = {"applied": None, "skipped": None, "err": None, "out_doc": None, "out_bytes": None}
    try:
        eng = RedlineEngine(io.BytesIO(data), author=author)
        acts = [ReviewAction(action=a["action"], target_id=a["target_id"], text=a.get("text")) for a in actions]
        ap, sk = eng.apply_review_actions(acts)
        res["applied"], res["skipped"] = ap, sk
        out = eng.save_to_stream().getvalue()
        res["out_bytes"] = out
        res["out_doc"] = ooxml.strip_volatile(ooxml.read_docx(out))
    except Exception as e:
        import traceback

        res["err"] = f"{type(e).__name__}: {e}"
        res["tb"] = traceback.format_exc()[-1200:]
    return res
