"""C09 — saved output is structurally valid revision and comment markup.

Model: Adeu.Doc (engine + review) for ids / attribution / comment lists; theorems: Props/C09.lean.
Correspondence: indexed edit batches and review sessions vs the model (whole document incl. the four comment lists).
Oracle: a package validator on the saved bytes and on the independently read document (zip loads, parts well-formed,
content types and relationship targets exist, revision ids unique per part when the input's were, session marks carry
the session's author and an ISO date, no nesting, deleted-text only in deletions, comment triples complete, new
comments listed exactly once in each auxiliary part) — after edit batches, review actions, replies, accept-all and a
second round on the saved result."""
from __future__ import annotations

import io
import random

from .. import canon_session, doccheck, editgen, engine_oracles, engine_run, gen, ooxml, sem
from . import c06, c10

PROFILE = {"vmerge": 0.0, "point_comment": 0.0, "para_mark_rev": 0.12, "comment": 0.25, "reply": 0.5, "ins": 0.2, "del": 0.2, "subst": 0.1,
           "header": 0.0, "footer": 0.0, "odd_rev_id": 0.06, "shuffle_comments": 0.35, "comment_id_gap": 0.25,
           "comment_in_ins": 0.6}
PROFILES = {"default": PROFILE, "stories": dict(PROFILE, header=0.6, footer=0.5)}


def work(case):
    if "doc" not in case:
        doc, feats, rng = gen.gen_document(case["seed"], case["index"], PROFILES[case["profile"]])
        case = dict(case, doc=doc, features=feats)
    else:
        rng = random.Random(case.get("index", 0))
    doc = case["doc"]
    data = ooxml.write_docx(doc)
    texts = engine_run.texts_of(data)
    edits = case.get("edits")
    if edits is None:
        # (targets may lie inside another reviewer's pending insertion: validity must hold there too)
        edits = editgen.gen_mixed_batch(rng, doc, texts, rng.randint(1, 3), comment_p=0.5, states=("plain", "ins"))
        if rng.random() < 0.65:
            # a quote from the accepted view that ends with another reviewer's pending insertion / reaches into, out of or
            # over one (an insertion may hold one end of a comment range: the markers must survive when its text is used up)
            x = editgen.gen_cross_ins_edit(rng, doc, texts) + editgen.gen_cross_ins_any(rng, doc, texts) + editgen.gen_cross_ins_any(rng, doc, texts)
            edits += [e for e in x if not any(e["pi"] == y.get("pi") for y in edits)]
    actions = case.get("actions")
    if actions is None:
        actions = c06.gen_actions(rng, doc) + c10.gen_replies(rng, doc)
        rng.shuffle(actions)
    outs = {}
    r1 = engine_run.run_edits(data, edits)
    outs["edits"] = r1
    outs["actions"] = engine_run.run_actions(data, actions)
    # second round by another author on the saved result of the first
    if r1["out_bytes"]:
        t2 = engine_run.texts_of(r1["out_bytes"])
        e2 = editgen.gen_mixed_batch(rng, r1["out_doc"], t2, rng.randint(1, 2), comment_p=0.5, states=("plain", "ins"))
        if rng.random() < 0.4:
            x = editgen.gen_cross_ins_edit(rng, r1["out_doc"], t2)
            e2 += [e for e in x if not any(e["pi"] == y.get("pi") for y in e2)]
        outs["round2"] = dict(engine_run.run_edits(r1["out_bytes"], e2, author="Q8"), base=r1["out_doc"], author="Q8")
    # (the Lean engine model covers edits on text that is not part of a pending insertion)
    ix = [dict(e, index=texts["raw"].find(e["target"])) for e in edits
          if e.get("locatable") and e.get("in_raw") and e.get("state", "plain") == "plain"]
    rix = engine_run.run_edits(data, ix) if ix else None
    fails = []
    for name, r in outs.items():
        if r["err"]:
            fails.append(f"{name}: raised {r['err']}")
            continue
        base = r.get("base", doc)
        for f in engine_oracles.validate_package(r["out_bytes"], base, r["out_doc"], r.get("author", engine_oracles.SESSION_AUTHOR)):
            fails.append(f"{name}: {f}")
    strip = lambda x: {k: v for k, v in x.items() if k not in ("out_bytes", "base")}
    case = dict(case, edits=edits, actions=actions)
    return {"case": case, "fails": fails, "indexed": {"edits": ix, "res": strip(rix)} if rix else None,
            "heur": {"edits": edits, "res": strip(r1)},
            "has_story_edit": any(e.get("si", 0) != sem.body_story_index(doc) for e in edits if e.get("locatable")),
            "sample": {"edits": [(e["target"][:20], e["new"][:20], e["kind"]) for e in edits], "actions": [(a["action"], a["target_id"]) for a in actions]}}


def oracle(res):
    return res["fails"]


def classify(res):
    """Domain of the open finding F-reply-anchor-in-insertion: the document has a comment range inside a pending
    insertion and the session replies to comments and resolves changes."""
    acts = res["case"]["actions"]
    if "comment_in_ins" in res["case"].get("features", []) or _comment_in_ins(res["case"]["doc"]):
        if any(a["action"] == "REPLY" for a in acts) and any(a["action"] in ("REJECT", "ACCEPT") for a in acts):
            return "F-reply-anchor-in-insertion"
    return None


def _comment_in_ins(doc):
    for p in sem.iter_paragraphs(doc["body"], expand_vmerge=True):
        for n in p["nodes"]:
            if n["k"] == "ins" and any(c["k"] in ("cs", "ce") for c in n["ch"]):
                return True
    return False


driver_line = c10.driver_line.__globals__["driver_line"] if False else None


def driver_line(res):  # noqa: F811
    ix = res.get("indexed")
    if not ix:
        return {"op": "review", "doc": res["case"]["doc"], "author": engine_oracles.SESSION_AUTHOR, "actions": []}
    return {"op": "apply_indexed", "doc": res["case"]["doc"], "author": engine_oracles.SESSION_AUTHOR,
            "edits": [{"index": e["index"], "target": e["target"], "new": e["new"], "comment": e.get("comment")} for e in ix["edits"]]}


def compare(res, out):
    ix = res.get("indexed")
    if not ix:
        return []
    name = "apply_edits(indexed) vs Adeu.Doc.applyEditsIndexed (ids, attribution, comment lists)"
    if "err" in out:
        return [("driver", out["err"])]
    r = ix["res"]
    if r["err"]:
        return [(name, f"implementation raised {r['err']}")]
    if (out["applied"], out["skipped"]) != (r["applied"], r["skipped"]):
        return [(name, f"counts: model {(out['applied'], out['skipped'])} implementation {(r['applied'], r['skipped'])}")]
    d = canon_session.diff_docs(out["doc"], canon_session.canon_out(r["out_doc"], res["case"]["doc"], engine_oracles.SESSION_AUTHOR))
    return [(name, d)] if d else []


def run(tier, seed, driver_ok):
    return doccheck.run_doc_check(
        "C09", tier, seed, driver_ok, n_quick=260, n_thorough=4000,
        profiles=[("default", PROFILES["default"], 3), ("stories", PROFILES["stories"], 1)],
        work=work, oracle=oracle, classify=classify, driver_line=driver_line, compare=compare,
        rule="seeded generated documents (already carrying revision marks, comments, 0 / 1 / 2 / 4 comment parts, related or "
             "only typed) x {mixed edit batch, review actions + replies, second round by another author on the saved "
             "result}; every saved package is validated; non-trivial = distinct document shape",
        assumptions=["freshness of the random paragraph / durable ids is not proved (collision probability <= n^2 / 2^32)",
                     "Word's own schema validation is not available offline; the validator checks the clauses of the property"])


def search(res, tier, seed):
    r = run("search" if tier == "quick" else "thorough", seed + 1, False)
    return r["oracle_failures"][:3]


def replay(payload):
    case = payload.get("case") or {}
    if "doc" not in case:
        return {"fails": False, "note": "no input in replay (proof/correspondence break)"}
    r = work({"seed": -1, "index": case.get("index", 0), "stream": "replay", "doc": case["doc"], "features": [],
              "edits": case.get("edits"), "actions": case.get("actions")})
    f = oracle(r)
    return {"fails": bool(f), "what": f}
