"""C01 — tracked edits are fully reversible: the engine patches, it never rewrites.

Oracle: from the saved package (independent reader) drop this run's insertions (and paragraphs made only of them),
restore this run's deletions, remove this run's comments: the canonical content stream (text, per-character
format, paragraph/table skeleton and properties, earlier revisions and comments, non-text content, order) must
equal the input's.  Batches mix found / not-found / empty / multi-line / Markdown / heading / commented edits."""
from __future__ import annotations

import random

from .. import canon_session, doccheck, editgen, engine_oracles, engine_run, gen, ooxml, sem

PROFILE = {"vmerge": 0.0, "point_comment": 0.0}
PROFILES = {"default": PROFILE,
            "rich": dict(PROFILE, split_identical=0.4, tab=0.3, br=0.25, fmt=0.6, opaque=0.2, bookmark=0.15, hyperlink=0.1,
                         table=0.35, nested_table=0.3, comment=0.25, **{"del": 0.2}, ins=0.1, subst=0.1, header=0.5, footer=0.4,
                         para_mark_rev=0.15)}


def touches_foreign_insertion(doc, edits):
    """the documented exception: an edit that lands in someone else's pending insertion replaces that insertion"""
    return any(e.get("state") == "ins" for e in edits)


def work(case):
    if "doc" not in case:
        doc, feats, rng = gen.gen_document(case["seed"], case["index"], PROFILES[case["profile"]])
        case = dict(case, doc=doc, features=feats)
    else:
        rng = random.Random(case.get("index", 0))
    data = ooxml.write_docx(case["doc"])
    texts = engine_run.texts_of(data)
    edits = case.get("edits")
    if edits is None:
        edits = editgen.gen_mixed_batch(rng, case["doc"], texts, rng.randint(1, 4), comment_p=0.35)
    r = engine_run.run_edits(data, edits)
    # the same found edits addressed by offset (the path the Lean model Adeu.Doc.applyEditsIndexed covers)
    ix = [dict(e, index=texts["raw"].find(e["target"])) for e in edits if e.get("locatable") and e.get("in_raw")]
    rix = engine_run.run_edits(data, ix) if ix else None
    case = dict(case, edits=edits)
    return {"case": case, "res": {k: v for k, v in r.items() if k != "out_bytes"},
            "indexed": {"edits": ix, "res": {k: v for k, v in rix.items() if k != "out_bytes"}} if rix else None,
            "heur": {"edits": edits, "res": {k: v for k, v in r.items() if k != "out_bytes"}},
            "sample": {"edits": [(e["target"], e["new"], e["kind"], e.get("comment")) for e in edits]}}


def oracle(res):
    r = res["res"]
    if r["err"]:
        return [f"apply_edits / save raised {r['err']}"]
    fails = engine_oracles.oracle_reversible(res["case"]["doc"], r["out_doc"])
    ix = res.get("indexed")
    if ix:
        if ix["res"]["err"]:
            fails.append(f"indexed batch raised {ix['res']['err']}")
        else:
            fails.extend("indexed batch: " + f for f in engine_oracles.oracle_reversible(res["case"]["doc"], ix["res"]["out_doc"]))
    return fails


def driver_line(res):
    ix = res.get("indexed")
    if not ix:
        return {"op": "ping"}
    return {"op": "apply_indexed", "doc": res["case"]["doc"], "author": engine_oracles.SESSION_AUTHOR,
            "edits": [{"index": e["index"], "target": e["target"], "new": e["new"], "comment": e.get("comment")} for e in ix["edits"]]}


def compare(res, out):
    ix = res.get("indexed")
    if not ix:
        return []
    name = "apply_edits(indexed) vs Adeu.Doc.applyEditsIndexed"
    if "err" in out:
        return [("driver", out["err"])]
    r = ix["res"]
    if r["err"]:
        return [(name, f"implementation raised {r['err']}")]
    if (out["applied"], out["skipped"]) != (r["applied"], r["skipped"]):
        return [(name, f"counts: model {(out['applied'], out['skipped'])} implementation {(r['applied'], r['skipped'])}")]
    d = canon_session.diff_docs(out["doc"], canon_session.canon_out(r["out_doc"], res["case"]["doc"], engine_oracles.SESSION_AUTHOR))
    return [(name, d)] if d else []


def nontrivial(res):
    return bool(res["case"]["edits"]) and (res["res"].get("applied") or 0) > 0


def run(tier, seed, driver_ok):
    return doccheck.run_doc_check(
        "C01", tier, seed, driver_ok, n_quick=450, n_thorough=8000,
        profiles=[("default", PROFILES["default"], 1), ("rich", PROFILES["rich"], 2)],
        work=work, oracle=oracle, driver_line=driver_line, compare=compare, nontrivial=nontrivial,
        rule="seeded generated documents x batches of 1-4 found edits of every kind (replace, delete, extend, prefix, "
             "shared context, unchanged, multi-line, Markdown, heading line, literal punctuation; 35% with comment) plus "
             "not-found and empty-target edits; non-trivial = distinct document+batch with >= 1 applied edit",
        assumptions=["targets of this check lie in plain text (the documented exception 'edit inside someone else's pending "
                     "insertion' is exercised by C15/C08 streams and judged there)",
                     "the comparison ignores run boundaries and proofing marks (normalisation, C05)"])


def search(res, tier, seed):
    r = run("search" if tier == "quick" else "thorough", seed + 1, False)
    return r["oracle_failures"][:3]


def replay(payload):
    case = payload.get("case") or {}
    if "doc" not in case:
        return {"fails": False, "note": "no input in replay (proof/correspondence break)"}
    r = work({"seed": -1, "index": case.get("index", 0), "stream": "replay", "doc": case["doc"], "features": [],
              "edits": case.get("edits")})
    f = oracle(r)
    return {"fails": bool(f), "what": f}
