"""C06 — accept and reject act exactly on the addressed change.

Model: Adeu.Doc.Sess.applyActions / acceptChange / rejectChange / acceptAll (lean/AdeuModel/Model/{Review,Engine}.lean);
theorems: Props/C06.lean.  Correspondence: apply_review_actions / accept_all_revisions + save, read back ==
model (whole document).  Oracle: per-character reference on the independent reader's view — every character keeps
its state unless its change id was resolved by the first action addressed to it; counts; accept-each == accept-all ==
accepted view; no marks left."""
from __future__ import annotations

import itertools
import random

from .. import canon_session, doccheck, engine_oracles, engine_run, gen, ooxml, sem

PROFILE = {"vmerge": 0.0, "point_comment": 0.0, "hyperlink": 0.02, "ins": 0.3, "del": 0.25, "subst": 0.2, "comment": 0.1,
           "header": 0.3, "footer": 0.2, "blocks": (1, 4), "shared_rev_id": 0.35, "tab": 0.2, "br": 0.15}
PROFILES = {"default": PROFILE, "small": dict(PROFILE, blocks=(1, 2), runs=(2, 4), table=0.1, header=0.0, footer=0.0)}


def body_rev_ids(doc):
    ids = []
    for p in sem.iter_paragraphs(doc["body"], expand_vmerge=True):
        for n in p["nodes"]:
            if n["k"] in ("ins", "del") and n["id"] not in ids:
                ids.append(n["id"])
    return ids


def header_rev_ids(doc):
    ids = []
    for s in doc.get("headers", []) + doc.get("footers", []):
        for p in sem.iter_paragraphs(s["blocks"], expand_vmerge=True):
            for n in p["nodes"]:
                if n["k"] in ("ins", "del") and n["id"] not in ids:
                    ids.append(n["id"])
    return ids


def gen_actions(rng, doc, exhaustive_len=None):
    ids = body_rev_ids(doc)
    pool = [("ACCEPT", f"Chg:{i}") for i in ids] + [("REJECT", f"Chg:{i}") for i in ids]
    odd = [("ACCEPT", "Chg:99999"), ("REJECT", "Chg:0"), ("ACCEPT", "Chg:"), ("REJECT", "Chg:abc"), ("ACCEPT", "Com:1"),
           ("REJECT", "Com:2"), ("ACCEPT", "nonsense"), ("ACCEPT", "Chg:1'x"), ("REJECT", "Chg:2\"]"), ("ACCEPT", "Chg:' or '1'='1")]
    if ids:
        odd.append(("ACCEPT", ids[0]))       # unprefixed id is tried as a change
        odd.append(("REJECT", " Chg:" + ids[0]))
    n = rng.randint(1, 6)
    acts = []
    for _ in range(n):
        a = rng.choice(pool) if pool and rng.random() < 0.75 else rng.choice(odd)
        acts.append({"action": a[0], "target_id": a[1], "text": None})
    return acts


def chars_of(doc):
    """[(char, state, rev id, fmt, comments)] of the body in document order; header/footer stories separately"""
    out = []
    for p in sem.iter_paragraphs(doc["body"], expand_vmerge=True):
        out.append([(c["c"], c["state"], c["rid"], c["fmt"], c["comments"]) for c in sem.para_chars_ex(p)])
    return out


def expected_chars(doc, actions):
    ids = set(body_rev_ids(doc))
    resolved = {}
    applied = skipped = 0
    for a in actions:
        t = a["target_id"]
        if t.startswith("Chg:"):
            tid, is_change = t[4:], True
        elif t.startswith("Com:"):
            tid, is_change = t[4:], False
        else:
            tid, is_change = t, True
        if a["action"] in ("ACCEPT", "REJECT") and is_change and tid in ids and tid not in resolved:
            resolved[tid] = a["action"]
            applied += 1
        else:
            skipped += 1
    out = []
    for para in chars_of(doc):
        res = []
        for c, st, rid, fmt, com in para:
            if rid in resolved:
                act = resolved[rid]
                keep = (st == "ins" and act == "ACCEPT") or (st == "del" and act == "REJECT")
                if keep:
                    res.append((c, "plain", None, fmt, com))
            else:
                res.append((c, st, rid, fmt, com))
        out.append(res)
    return out, applied, skipped


def work(case):
    if "doc" not in case:
        doc, feats, rng = gen.gen_document(case["seed"], case["index"], PROFILES[case["profile"]])
        case = dict(case, doc=doc, features=feats)
    else:
        rng = random.Random(case.get("index", 0))
    data = ooxml.write_docx(case["doc"])
    actions = case.get("actions")
    if actions is None:
        actions = gen_actions(rng, case["doc"])
    r = engine_run.run_actions(data, actions)
    # accept every pending id one by one vs accept-all
    ids = body_rev_ids(case["doc"])
    each = engine_run.run_actions(data, [{"action": "ACCEPT", "target_id": f"Chg:{i}", "text": None} for i in ids])
    allr = accept_all(data)
    case = dict(case, actions=actions)
    strip = lambda x: {k: v for k, v in x.items() if k != "out_bytes"}
    return {"case": case, "res": strip(r), "each": strip(each), "all": strip(allr),
            "sample": {"actions": [(a["action"], a["target_id"]) for a in actions]}}


def accept_all(data):
    import io

    from adeu.redline.engine import RedlineEngine

    res = {"err": None, "out_doc": None}
    try:
        eng = RedlineEngine(io.BytesIO(data), author=engine_oracles.SESSION_AUTHOR)
        eng.accept_all_revisions()
        res["out_doc"] = ooxml.strip_volatile(ooxml.read_docx(eng.save_to_stream().getvalue()))
    except Exception as e:
        res["err"] = f"{type(e).__name__}: {e}"
    return res


def oracle(res):
    r = res["res"]
    doc, actions = res["case"]["doc"], res["case"]["actions"]
    if r["err"]:
        return [f"apply_review_actions raised {r['err']}"]
    fails = []
    exp, ap, sk = expected_chars(doc, actions)
    if (r["applied"], r["skipped"]) != (ap, sk):
        fails.append(f"counts: reported applied={r['applied']} skipped={r['skipped']}, expected {ap}/{sk} "
                     f"(an action on an unknown or already resolved id is skipped)")
    got = chars_of(r["out_doc"])
    if got != exp:
        k = next((j for j, (a, b) in enumerate(zip(got, exp)) if a != b), None)
        if k is None:
            fails.append(f"paragraph count changed: {len(got)} vs {len(exp)}")
        else:
            d = sem.first_diff(exp[k], got[k])
            fails.append(f"paragraph {k}: characters / states after the actions differ from 'exactly the addressed change': "
                         f"first difference {str(d)[:300]}")
    # what a rejected deletion restores is ordinary text again (no w:delText left outside a deletion, no w:t inside one)
    before = set(engine_oracles.nesting_problems(doc))
    for pr in engine_oracles.nesting_problems(r["out_doc"]):
        if pr not in before:
            fails.append("after the actions: " + pr)
            break
    # headers / footers untouched
    for part in ("headers", "footers"):
        a, b = sem.canon_doc(doc)[part], sem.canon_doc(r["out_doc"])[part]
        if a != b:
            fails.append(f"{part} changed by review actions on body ids")
    # accept each == accept all == accepted view; no marks left in the body
    if res["each"]["err"] or res["all"]["err"]:
        fails.append(f"accept-each / accept-all raised {res['each']['err'] or res['all']['err']}")
    else:
        acc = [[(c, fmt) for c, st, rid, fmt, com in para if st != "del"] for para in chars_of(doc)]
        e1 = [[(c, fmt) for c, st, rid, fmt, com in para] for para in chars_of(res["each"]["out_doc"])]
        e2 = [[(c, fmt) for c, st, rid, fmt, com in para] for para in chars_of(res["all"]["out_doc"])]
        if e1 != acc:
            fails.append("accepting every change id does not give the accepted view")
        if e2 != acc:
            fails.append("accept-all does not give the accepted view")
        if body_rev_ids(res["each"]["out_doc"]) or body_rev_ids(res["all"]["out_doc"]):
            fails.append("revision marks left behind after accepting everything")
    return fails


def classify(res):
    return None


def driver_line(res):
    return {"op": "review", "doc": res["case"]["doc"], "author": engine_oracles.SESSION_AUTHOR, "actions": res["case"]["actions"]}


def compare(res, out):
    name = "apply_review_actions vs Adeu.Doc.Sess.applyActions"
    if "err" in out:
        return [("driver", out["err"])]
    r = res["res"]
    if r["err"]:
        return [(name, f"implementation raised {r['err']}")]
    if (out["applied"], out["skipped"]) != (r["applied"], r["skipped"]):
        return [(name, f"counts: model {(out['applied'], out['skipped'])} implementation {(r['applied'], r['skipped'])}")]
    d = canon_session.diff_docs(out["doc"], canon_session.canon_out(r["out_doc"], res["case"]["doc"], engine_oracles.SESSION_AUTHOR))
    return [(name, d)] if d else []


def exhaustive_cases(seed, maxlen):
    """all action sequences up to `maxlen` over the ids of a few small documents (+ one unknown id)"""
    out = []
    for k in range(6):
        doc, feats, rng = gen.gen_document(seed + 1000, k, PROFILES["small"])
        ids = body_rev_ids(doc)[:3]
        alpha = [("ACCEPT", f"Chg:{i}") for i in ids] + [("REJECT", f"Chg:{i}") for i in ids] + [("ACCEPT", "Chg:777")]
        if not ids:
            continue
        for n in range(1, maxlen + 1):
            for seq in itertools.product(alpha, repeat=n):
                out.append({"seed": seed, "index": len(out), "stream": "exhaustive", "doc": doc, "features": feats,
                            "actions": [{"action": a, "target_id": t, "text": None} for a, t in seq]})
    return out


def run(tier, seed, driver_ok):
    ex = exhaustive_cases(seed, 2 if tier != "thorough" else 3)
    if tier != "thorough":
        ex = ex[:: max(1, len(ex) // 250)]
    return doccheck.run_doc_check(
        "C06", tier, seed, driver_ok, n_quick=300, n_thorough=5000,
        profiles=[("default", PROFILES["default"], 2), ("small", PROFILES["small"], 1)],
        work=work, oracle=oracle, driver_line=driver_line, compare=compare, extra_cases=ex,
        rule="seeded generated documents with tracked changes x random sequences of 1-6 ACCEPT/REJECT actions "
             "(orderings, repetitions, unknown / unprefixed / malformed ids) + all sequences up to length "
             f"{2 if tier != 'thorough' else 3} over the ids of small documents (sampled in the quick tier); "
             "each case also runs accept-each and accept-all; non-trivial = distinct document shape",
        assumptions=["changes in headers/footers are listed by the reader but cannot be addressed (known limitation, judged under C09/C07)",
                     "paragraph-mark revisions (w:pPr/w:rPr/w:ins) are not generated for this check"])


def search(res, tier, seed):
    r = run("search" if tier == "quick" else "thorough", seed + 1, False)
    return r["oracle_failures"][:3]


def replay(payload):
    case = payload.get("case") or {}
    if "doc" not in case:
        return {"fails": False, "note": "no input in replay (proof/correspondence break)"}
    r = work({"seed": -1, "index": case.get("index", 0), "stream": "replay", "doc": case["doc"], "features": [],
              "actions": case.get("actions")})
    f = oracle(r)
    return {"fails": bool(f), "what": f}
