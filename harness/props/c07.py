"""C07 — multi-round negotiation keeps the document consistent.

A history = generated document, then 2..6 rounds (edit batch by author A or B, ACCEPT / REJECT of a pending id, REPLY,
accept-all), each followed by save and reload.  Model: Adeu.Doc.runHistory / stepDoc (lean/AdeuModel/Model/History.lean);
theorems: Props/C07.lean.  Correspondence: (a) every round of the real history vs Adeu.Doc.stepDoc on the document the
real history had reached (saved bytes read back independently, indexed variant of the edits), (b) comment-free histories
as a whole vs Adeu.Doc.runHistory.  Oracle: every round satisfies its single-step contract relative to the document
before it (reversibility, accepted text == string replacement, counts, addressed change only, replies threaded, package
validity with unique ids), pending changes of earlier rounds stay resolvable, and the final accepted text equals the
replay of the operations on plain strings."""
from __future__ import annotations

import itertools
import random

from .. import canon_session, common, doccheck, editgen, engine_oracles, engine_run, gen, ooxml, sem
from ..pool import pmap
from . import c06, c10

AUTHORS = ["Q7", "Q8"]
PROFILE = {"vmerge": 0.0, "point_comment": 0.0, "hyperlink": 0.0, "field": 0.0, "blocks": (1, 3), "runs": (2, 5), "table": 0.15,
           "comment": 0.15, "ins": 0.15, "del": 0.12, "subst": 0.08, "header": 0.2, "footer": 0.1, "caps_heading": 0.0}
PROFILES = {"default": PROFILE, "clean_start": dict(PROFILE, ins=0.0, subst=0.0, comment=0.0, **{"del": 0.0})}
PROFILES["indexed"] = PROFILES["default"]
KINDS = ["replace", "replace", "delete", "extend", "prefix", "shared"]
OPS = ["edit", "edit", "edit", "accept", "reject", "reply", "accept_all"]


def pending_ids(doc):
    return c06.body_rev_ids(doc)


def gen_step(rng, kind, doc, texts, round_no, indexed=False):
    author = AUTHORS[round_no % 2] if rng.random() < 0.8 else AUTHORS[(round_no + 1) % 2]
    if kind == "edit":
        edits = [e for e in editgen.gen_batch(rng, doc, texts, rng.randint(1, 2), KINDS, comment_p=0.0 if indexed else 0.3)
                 if e.get("in_raw")]
        if not indexed and rng.random() < 0.6:
            # a quote from the accepted view that ends with a pending insertion of an earlier round
            for e in editgen.gen_cross_ins_edit(rng, doc, texts) + editgen.gen_cross_ins_any(rng, doc, texts):
                if not any(e["pi"] == y["pi"] for y in edits):
                    edits.append(e)
            bad = set(editgen.batch_collisions(doc, edits))
            edits = [e for i, e in enumerate(edits) if i not in bad]
        for i, e in enumerate(edits):
            if e.get("comment"):
                e["comment"] = f"r{round_no} {e['comment']}"
        return {"kind": "edits", "author": author, "edits": edits}
    if kind in ("accept", "reject"):
        ids = pending_ids(doc)
        if not ids:
            return None
        n = 1 if rng.random() < 0.7 else min(2, len(ids))
        return {"kind": "actions", "author": author,
                "actions": [{"action": kind.upper(), "target_id": "Chg:" + i, "text": None} for i in rng.sample(ids, n)]}
    if kind == "reply":
        ids = [c["id"] for c in doc.get("comments", [])]
        if not ids:
            return None
        return {"kind": "actions", "author": author,
                "actions": [{"action": "REPLY", "target_id": "Com:" + rng.choice(ids), "text": f"reply r{round_no} {rng.randint(0, 999)}"}]}
    if kind == "accept_all":
        return {"kind": "accept_all", "author": author}
    return None


def run_step(data, step):
    if step["kind"] == "edits":
        return engine_run.run_edits(data, step["edits"], author=step["author"])
    if step["kind"] == "actions":
        return engine_run.run_actions(data, step["actions"], author=step["author"])
    return accept_all(data)


def accept_all(data):
    import io

    from adeu.redline.engine import RedlineEngine

    res = {"applied": 0, "skipped": 0, "err": None, "out_doc": None, "out_bytes": None}
    try:
        eng = RedlineEngine(io.BytesIO(data))
        eng.accept_all_revisions()
        res["out_bytes"] = eng.save_to_stream().getvalue()
        res["out_doc"] = ooxml.strip_volatile(ooxml.read_docx(res["out_bytes"]))
    except Exception as e:  # noqa
        res["err"] = f"{type(e).__name__}: {e}"
    return res


def acc_paras(doc):
    return editgen.accepted_paragraph_texts(doc)


def step_oracle(in_doc, step, r, raw_out, ref):
    """single-step contract relative to the document before the step; -> (fails, new reference accepted paragraphs)"""
    fails = []
    if r["err"]:
        return [f"round raised {r['err']}"], ref
    out = r["out_doc"]
    if step["kind"] == "edits":
        edits = step["edits"]
        if (r["applied"], r["skipped"]) != (len(edits), 0):
            fails.append(f"{len(edits)} exact unique non-overlapping edits, reported applied={r['applied']} skipped={r['skipped']}")
        if not any(e.get("state") == "cross_ins" and e.get("shape") for e in edits):
            # (an edit that reaches into someone else's pending insertion takes that text out of it: the exception
            # documented with C01 — the round is then not reversible by construction)
            fails += engine_oracles.oracle_reversible(in_doc, out, author=step["author"])
        exp = editgen.expected_accepted(in_doc, edits)
        got = acc_paras(out)
        if got != exp:
            k = next((j for j, (a, b) in enumerate(zip(got, exp)) if a != b), None)
            fails.append(f"accepted text after the edits != string replacement (paragraph {k}: {got[k] if k is not None else len(got)!r} vs "
                         f"{exp[k] if k is not None else len(exp)!r})")
        # the replay on plain strings: replace in the reference, which must still contain the target where the edit saw it
        new_ref = list(ref)
        for e in sorted(edits, key=lambda e: (e["pi"], -e["a"])):
            if e["pi"] >= len(new_ref) or new_ref[e["pi"]][e["a"]:e["b"]] != e["target"]:
                fails.append(f"string replay diverged before this round: paragraph {e['pi']} does not hold {e['target']!r} at {e['a']}")
                break
            new_ref[e["pi"]] = new_ref[e["pi"]][:e["a"]] + e["new"] + new_ref[e["pi"]][e["b"]:]
        want_comments = sorted(e["comment"] for e in edits if e.get("comment"))
        oldc = {c["id"] for c in in_doc.get("comments", [])}
        got_comments = sorted("".join(t for p in c["paras"] for t in p["text"]) for c in out["comments"] if c["id"] not in oldc)
        if got_comments != want_comments:
            fails.append(f"comments created {got_comments} != requested {want_comments}")
        return fails, new_ref
    if step["kind"] == "actions":
        acts = step["actions"]
        if all(a["action"] == "REPLY" for a in acts):
            fails += c10.oracle_replies({"case": {"doc": in_doc, "replies": acts}, "reply": r, "raw_reply": raw_out, "author": step["author"]})
            if acc_paras(out) != acc_paras(in_doc):
                fails.append("a reply changed the accepted text")
            return fails, ref
        exp, ap, sk = c06.expected_chars(in_doc, acts)
        if (r["applied"], r["skipped"]) != (ap, sk):
            fails.append(f"actions: reported applied={r['applied']} skipped={r['skipped']}, expected {ap}/{sk}")
        got = c06.chars_of(out)
        if got != exp:
            k = next((j for j, (a, b) in enumerate(zip(got, exp)) if a != b), None)
            fails.append(f"after the actions paragraph {k} differs from 'exactly the addressed change'")
        new_ref = ["".join(c for c, st, rid, fmt, com in para if st != "del") for para in exp]
        # paragraphs of headers / footers are not addressed by body ids: keep the reference for them
        body_n = len(new_ref)
        all_ref = list(ref)
        # reference paragraphs are listed stories-first as sem.all_paragraphs does: map the body ones
        idx = [i for i, (si, p) in enumerate(sem.all_paragraphs(in_doc)) if si == sem.body_story_index(in_doc)]
        if len(idx) == body_n:
            for i, t in zip(idx, new_ref):
                all_ref[i] = t
        else:
            all_ref = acc_paras(out)
        return fails, all_ref
    # accept-all
    if pending_ids(out):
        fails.append("revision marks left after accept-all")
    if [t for t in acc_paras(out)] != [t for t in acc_paras(in_doc)]:
        # accept-all also removes comments; the text must stay
        fails.append("accept-all changed the accepted text")
    return fails, ref


def work(case):
    import io

    from adeu.ingest import extract_text_from_stream

    if "doc" not in case:
        doc, feats, rng = gen.gen_document(case["seed"], case["index"], PROFILES[case["profile"]])
        case = dict(case, doc=doc, features=feats)
    else:
        rng = random.Random(case.get("index", 0))
    doc0 = case["doc"]
    data = ooxml.write_docx(doc0)
    plan = case.get("plan")            # fixed list of op kinds (exhaustive stream) or None (random)
    given = case.get("steps")          # replay: explicit steps
    n_steps = len(given) if given else (len(plan) if plan else rng.randint(2, case.get("max_steps", 4)))
    steps, rounds, fails = [], [], []
    indexed = case.get("stream") == "indexed"     # every edit addressed by offset, no comments: compared as a whole history
    cur_doc = ooxml.strip_volatile(ooxml.read_docx(data))
    ref = acc_paras(cur_doc)
    for k in range(n_steps):
        texts = engine_run.texts_of(data)
        if given:
            step = given[k]
        else:
            kind = plan[k] if plan else rng.choice(OPS if not indexed else ["edit", "edit", "accept", "reject"])
            step = gen_step(rng, kind, cur_doc, texts, k, indexed)
            if step is None or (step["kind"] == "edits" and not step["edits"]):
                step = gen_step(rng, "edit", cur_doc, texts, k, indexed)
                if step is None or not step["edits"]:
                    continue
        if indexed and step["kind"] == "edits":
            for e in step["edits"]:
                e["index"] = texts["raw"].find(e["target"])
        r = run_step(data, step)
        raw_out = extract_text_from_stream(io.BytesIO(r["out_bytes"])) if r.get("out_bytes") else None
        f, ref = step_oracle(cur_doc, step, r, raw_out, ref)
        fails += [f"round {k} ({step['kind']} by {step.get('author')}): {x}" for x in f]
        ix = None
        if step["kind"] == "edits" and not r["err"] and all(e.get("in_raw") for e in step["edits"]):
            # the same edits addressed by offset: the path the Lean model covers; must give the same document
            ie = [dict(e, index=texts["raw"].find(e["target"])) for e in step["edits"]]
            rix = engine_run.run_edits(data, ie, author=step["author"])
            ix = {"edits": [{"index": e["index"], "target": e["target"], "new": e["new"], "comment": e.get("comment")} for e in ie],
                  "res": {kk: v for kk, v in rix.items() if kk != "out_bytes"}}
            if rix["err"]:
                fails.append(f"round {k}: indexed variant raised {rix['err']}")
            elif acc_paras(rix["out_doc"]) != acc_paras(r["out_doc"]):
                # (the two paths trim shared context differently and number the marks of a batch in different orders:
                # only the accepted text is compared)
                fails.append(f"round {k}: addressing the same edits by offset gives a different document")
        if not r["err"]:
            for x in engine_oracles.validate_package(r["out_bytes"], cur_doc, r["out_doc"], step.get("author") or AUTHORS[0]):
                fails.append(f"round {k}: {x}")
        rounds.append({"step": step, "in_doc": cur_doc, "res": {kk: v for kk, v in r.items() if kk != "out_bytes"}, "indexed": ix})
        steps.append(step)
        if r["err"] or not r.get("out_bytes"):
            break
        data, cur_doc = r["out_bytes"], r["out_doc"]
    final = acc_paras(cur_doc)
    if not fails and final != ref:
        k = next((j for j, (a, b) in enumerate(zip(final, ref)) if a != b), None)
        fails.append(f"final accepted text differs from the replay on plain strings (paragraph {k}: "
                     f"{final[k] if k is not None and k < len(final) else None!r} vs {ref[k] if k is not None and k < len(ref) else None!r})")
    # earlier rounds' pending changes stay addressable: accepting every pending id one by one == accept-all == accepted view
    ids = pending_ids(cur_doc)
    if ids and not fails:
        each = engine_run.run_actions(data, [{"action": "ACCEPT", "target_id": f"Chg:{i}", "text": None} for i in ids], author="Q9")
        if each["err"]:
            fails.append(f"resolving the pending changes raised {each['err']}")
        else:
            if each["applied"] != len(ids):
                fails.append(f"{len(ids)} pending ids, {each['applied']} could be accepted individually")
            if pending_ids(each["out_doc"]):
                fails.append("pending marks left after accepting every id")
            if acc_paras(each["out_doc"]) != final:
                fails.append("accepting every pending id changes the accepted text")
    case = dict(case, steps=steps)
    return {"case": case, "rounds": rounds, "fails": fails[:6], "final_doc": cur_doc,
            "sample": {"steps": [(s["kind"], s.get("author"), len(s.get("edits", s.get("actions", [])) or [])) for s in steps]}}


def oracle(res):
    return res["fails"]


# ---------------------------------------------------------------------------------------------- model
def model_step(step):
    if step["kind"] == "edits":
        return None
    return step


def driver_line(res):
    """(b) a comment-free history as a whole; otherwise a no-op"""
    rounds = res["rounds"]
    if not rounds or any(r["res"]["err"] for r in rounds) or res["case"].get("stream") != "indexed":
        return {"op": "ping"}
    comment_free = all((r["step"]["kind"] == "edits" and not any(e.get("comment") for e in r["step"]["edits"])) or
                       (r["step"]["kind"] == "actions" and all(a["action"] != "REPLY" for a in r["step"]["actions"])) or
                       r["step"]["kind"] == "accept_all" for r in rounds)
    if not comment_free or any(r["step"]["kind"] == "accept_all" for r in rounds[:-1]):
        return {"op": "ping"}
    steps = []
    for r in rounds:
        st = r["step"]
        if st["kind"] == "edits":
            steps.append({"kind": "edits", "author": st["author"], "edits": r["indexed"]["edits"]})
        elif st["kind"] == "actions":
            steps.append({"kind": "actions", "author": st["author"], "actions": st["actions"]})
        else:
            steps.append({"kind": "accept_all"})
    return {"op": "history", "doc": res["case"]["doc"], "steps": steps}


def canon_hist(doc, in_doc):
    d = doc
    for a in AUTHORS:
        d = canon_session.canon_out(d, in_doc, a)
    return d


def compare(res, out):
    if "pong" in out:
        return []
    name = "history of sessions (save / reload between rounds) vs Adeu.Doc.runHistory"
    if "err" in out:
        return [("driver", out["err"])]
    rounds = res["rounds"]
    counts = [[r["res"]["applied"], r["res"]["skipped"]] for r in rounds]
    if out["counts"] != counts:
        return [(name, f"counts per round: model {out['counts']} implementation {counts}")]
    d = canon_session.diff_docs(out["doc"], canon_hist(res["final_doc"], res["case"]["doc"]))
    return [(name, "final document: " + d)] if d else []


def step_lines(res):
    """(a) every round on the document the real history had reached"""
    lines = []
    for r in res["rounds"]:
        st = r["step"]
        if r["res"]["err"]:
            continue
        if st["kind"] == "edits":
            if not r["indexed"]:
                continue
            lines.append((r, {"op": "apply_indexed", "doc": r["in_doc"], "author": st["author"], "edits": r["indexed"]["edits"]}))
        elif st["kind"] == "actions":
            lines.append((r, {"op": "review", "doc": r["in_doc"], "author": st["author"], "actions": st["actions"]}))
        else:
            lines.append((r, {"op": "review", "doc": r["in_doc"], "author": "", "accept_all": True, "actions": []}))
    return lines


def compare_step(r, out):
    name = "one round on a reached document vs Adeu.Doc.stepDoc"
    if "err" in out:
        return (name, "driver: " + out["err"])
    st = r["step"]
    real = r["indexed"]["res"] if st["kind"] == "edits" else r["res"]
    if real["err"]:
        return None
    if st["kind"] != "accept_all" and (out["applied"], out["skipped"]) != (real["applied"], real["skipped"]):
        return (name, f"counts: model {(out['applied'], out['skipped'])} implementation {(real['applied'], real['skipped'])} ({st['kind']})")
    d = canon_session.diff_docs(out["doc"], canon_session.canon_out(real["out_doc"], r["in_doc"], st.get("author") or AUTHORS[0]))
    return (name, f"{st['kind']}: {d}") if d else None


def exhaustive_cases(seed, n_docs, maxlen):
    out = []
    alpha = ["edit", "accept", "reject", "reply", "accept_all"]
    idx = 0
    for k in range(n_docs):
        for n in range(2, maxlen + 1):
            for seq in itertools.product(alpha, repeat=n):
                out.append({"seed": seed + 7000, "index": k, "stream": "exhaustive", "profile": "default", "plan": list(seq), "case_no": idx})
                idx += 1
    return out


MAX_STEPS = 4


def run(tier, seed, driver_ok):
    global MAX_STEPS
    MAX_STEPS = 4 if tier == "quick" else 6
    extra = exhaustive_cases(seed, 2 if tier == "quick" else 6, 2 if tier == "quick" else 3)
    # minimised past failures run first (corpus/C07/*.json: doc + steps)
    import json as _json

    for i, f in enumerate(sorted((common.VERIF / "corpus" / "C07").glob("*.json"))):
        c = _json.loads(f.read_text())
        extra.insert(0, {"seed": -2, "index": i, "stream": "corpus:" + f.stem, "doc": c["doc"], "features": [], "steps": c["steps"]})
    res = doccheck.run_doc_check(
        "C07", tier, seed, driver_ok, n_quick=160, n_thorough=2500,
        profiles=[("default", dict(PROFILES["default"]), 3), ("clean_start", dict(PROFILES["clean_start"]), 1),
                  ("indexed", dict(PROFILES["default"]), 2)],
        work=work_stream, oracle=oracle, driver_line=driver_line, compare=compare, classify=lambda r: None,
        nontrivial=lambda r: len(r["rounds"]) >= 2, extra_cases=extra, keep_results=True,
        rule=(f"generated documents x histories of 2..{4 if tier == 'quick' else 6} rounds drawn from {{edit batch by A or B "
              "(1-2 exact unique edits, some with comments), ACCEPT / REJECT of pending ids, REPLY, accept-all}} with save and "
              f"reload between rounds; plus every sequence of 2..{2 if tier == 'quick' else 3} rounds over that alphabet on "
              f"{2 if tier == 'quick' else 6} fixed documents (exhaustive); non-trivial = at least two rounds ran"),
        assumptions=["edits of a history address text that is not part of a pending insertion (the exception documented with "
                     "C01) and are single-line; the string replay of REJECT uses the independent reader's view of the "
                     "document before that round",
                     "whole-history comparison with Adeu.Doc.runHistory is done for comment-free histories (new comments get "
                     "random paragraph ids that the model names per session); every round of every history is compared with "
                     "Adeu.Doc.stepDoc on the reached document"])
    # (a) per-round correspondence on the reached documents
    results = res.pop("_results", [])
    if driver_ok:
        pairs = []
        for r in results:
            pairs += step_lines(r)
        outs = common.run_driver_parallel([ln for _, ln in pairs])
        for (rd, _), o in zip(pairs, outs):
            res["compared"] += 1
            d = compare_step(rd, o)
            if d:
                res["corr_mismatches"].append({"corr": d[0], "case": {"step": rd["step"], "doc": rd["in_doc"]}, "what": d[1]})
        # (c) every edit round as submitted (searched targets) against Adeu.Doc.applyEdits on the reached document
        from .. import heur

        hp = [rd for r in results for rd in r["rounds"] if rd["step"]["kind"] == "edits" and not rd["res"]["err"]]
        hl = [heur.driver_line(rd["in_doc"], rd["step"]["edits"], rd["res"], rd["step"]["author"]) for rd in hp]
        ho = common.run_driver_parallel(hl)
        nh = 0
        for rd, ln, o in zip(hp, hl, ho):
            if ln.get("op") == "ping":
                continue
            nh += 1
            res["compared"] += 1
            for d in heur.compare(rd["in_doc"], rd["res"], o, rd["step"]["author"]):
                res["corr_mismatches"].append({"corr": d[0] + " (round of a history)", "case": {"step": rd["step"], "doc": rd["in_doc"]}, "what": d[1]})
        res["heuristic_correspondence"] = {"rounds_compared": nh}
    res["hypothesis_hits"] = {"rounds": sum(len(r["rounds"]) for r in results),
                              "whole_histories_compared": sum(1 for r in results if driver_line(r).get("op") == "history")}
    return res


def work_stream(case):
    return work(dict(case, max_steps=MAX_STEPS))


def search(res, tier, seed):
    r = doccheck.run_doc_check(
        "C07", "search", seed + 1, False, n_quick=160, n_thorough=2500,
        profiles=[("default", dict(PROFILES["default"]), 3), ("clean_start", dict(PROFILES["clean_start"]), 1)],
        work=work_stream, oracle=oracle, classify=lambda r: None, nontrivial=lambda r: len(r["rounds"]) >= 2)
    return r["oracle_failures"][:3]


def replay(payload):
    case = payload.get("case") or {}
    if "doc" not in case:
        import json

        return {"fails": False, "note": "replay file carries no input (proof/correspondence break): " +
                json.dumps(payload.get("no_longer_checks"), default=str)[:600]}
    res = work({"seed": case.get("seed", 0), "index": case.get("index", 0), "stream": "replay", "doc": case["doc"], "features": [],
                "steps": case.get("steps")})
    return {"fails": bool(res["fails"]), "what": res["fails"]}
