"""C18 — 'adeu init' never loses the user's Claude Desktop configuration.

Model: Adeu.Init.handleInit (lean/AdeuModel/Model/Init.lean); theorems: Props/C18.lean.
Correspondence: real handle_init run in a temp dir for every generated prior state x both modes:
  (a) clean run: outcome + final bytes of config and backup == model's final state;
  (b) crash at every intercepted file-system event (and partial copy / partial write variants):
      the observed directory state must be one of the model's crash states `crashAfter k`.
Oracle (independent of the model): previous bytes available in config or a backup sibling after every
crash; success => valid JSON == previous with only mcpServers.adeu set; second run leaves bytes unchanged."""
from __future__ import annotations

import builtins
import contextlib
import io
import json
import os
import random
import shutil
import sys
import tempfile
from pathlib import Path

from .. import common
from ..pool import pmap


class Crash(BaseException):
    pass


# ------------------------------------------------------------------ prior-state generator
KEYS = ["theme", "globalShortcut", "mcpServers", "scale", "a b", "ключ", "\U0001F600", "", "adeu", "x\"y", "tab\tkey"]
STRINGS = ["", "x", "päth\\to", "line\nbreak", "q\"uote", "\U0001F600 emoji", "\x7f\x01", "/usr/bin",
           "https://example.com/a//b?x=1#frag", "// not a comment", "/* neither */ x", "# hash", "a,}", "b,]", "{\"k\": 1}",
           "${HOME}/x", "%APPDATA%\\Claude", "~/cfg", "\\u0041", "True", "None", "NaN", "  padded  ", "tab\there",
           "C:\\Users\\me", "'single'", "<!-- x -->", "\ufeffbom", "trailing\\"]
SERVERS = ["filesystem", "adeu", "git", "other-server", "ünï", "adeu2", "Adeu"]


def rand_json(rng, depth=0):
    k = rng.random()
    if depth > 2 or k < 0.35:
        c = rng.random()
        if c < 0.25:
            return rng.choice([0, 1, -7, 42, 10 ** 20, -(10 ** 25)])
        if c < 0.35:
            return rng.choice([1.5, -0.25, 1e100, 3.0])
        if c < 0.7:
            return rng.choice(STRINGS)
        if c < 0.8:
            return None
        return rng.choice([True, False])
    if k < 0.6:
        return [rand_json(rng, depth + 1) for _ in range(rng.randint(0, 3))]
    return {rng.choice(KEYS): rand_json(rng, depth + 1) for _ in range(rng.randint(0, 3))}


def rand_server(rng):
    return {"command": rng.choice(["npx", "uvx", "/usr/bin/python3", "C:\\x\\y.exe"]),
            "args": [rng.choice(["-y", "--from", "srv", "ä"] + STRINGS) for _ in range(rng.randint(0, 3))],
            **({"url": rng.choice(STRINGS)} if rng.random() < 0.4 else {}),
            **({"env": {"K": "v"}} if rng.random() < 0.3 else {})}


def rand_config(rng):
    d = {}
    order = []
    n = rng.randint(0, 4)
    for _ in range(n):
        order.append(rng.choice(KEYS))
    if rng.random() < 0.75:
        order.insert(rng.randint(0, len(order)), "mcpServers")
    for k in order:
        if k == "mcpServers":
            srv = {}
            names = rng.sample(SERVERS, rng.randint(0, 4))
            for nm in names:
                srv[nm] = rand_server(rng) if rng.random() < 0.85 else rand_json(rng, 2)
            d[k] = srv
        else:
            d[k] = rand_json(rng, 1)
    return d


def dump_variant(rng, obj):
    c = rng.random()
    if c < 0.4:
        return json.dumps(obj, indent=2)
    if c < 0.6:
        return json.dumps(obj, ensure_ascii=False, indent=4)
    if c < 0.8:
        return json.dumps(obj, separators=(",", ":"))
    return "\n  " + json.dumps(obj, ensure_ascii=False) + "  \n"


FIXED_PRIORS = [
    ("absent", None), ("absent_nodir", None),
    ("bytes", b""), ("bytes", b"   \n\t "), ("bytes", b"{"), ("bytes", b'{"mcpServers": {"a": 1},}'),
    ("bytes", b"\xef\xbb\xbf{}"), ("bytes", b"\xff\xfe\x00{"), ("bytes", b"{}\xc3"),
    ("bytes", b"[]"), ("bytes", b'"str"'), ("bytes", b"17"), ("bytes", b"null"), ("bytes", b"true"),
    ("bytes", b'{"mcpServers": []}'), ("bytes", b'{"mcpServers": "x"}'), ("bytes", b'{"mcpServers": null}'),
    ("bytes", b'{"mcpServers": 3, "k": 1}'), ("bytes", b'{"mcpServers": {}}'), ("bytes", b"{}"),
    ("bytes", b'{"a": 1, "mcpServers": {"adeu": {"command": "old"}, "z": {}}, "a": 2}'),
    ("bytes", b'{"mcpServers": {"x": 1}, "mcpServers": {"y": 2}}'),
    ("bytes", b'{"n": NaN, "i": -Infinity, "big": 123456789012345678901234567890, "f": 1.0e5, "e": 1E-7}'),
    ("bytes", b'{"mcpServers": {"adeu": {"command": "uvx", "args": ["--from", "adeu", "adeu-server"]}}}'),
    ("bytes", '{"ü": "\u2028", "mcpServers": {"ädeu": {}}}'.encode("utf-8")),
    ("bytes", b'{"a": "\\ud83d\\ude00", "b": "\\u0000"}'),
]


def gen_priors(tier, seed):
    rng = random.Random(seed * 31 + 5)
    out = list(FIXED_PRIORS)
    n = 60 if tier == "quick" else 800
    for _ in range(n):
        cfg = rand_config(rng)
        out.append(("bytes", dump_variant(rng, cfg).encode("utf-8")))
    for _ in range(n // 6):
        raw = dump_variant(rng, rand_config(rng)).encode("utf-8")
        cut = rng.randint(0, max(0, len(raw) - 1))
        out.append(("bytes", raw[:cut]))
    for _ in range(n // 10):
        out.append(("bytes", json.dumps(rand_json(rng)).encode()))
    return out


# ------------------------------------------------------------------ J wire format
def to_wire(v):
    if v is None:
        return {"t": "null"}
    if isinstance(v, bool):
        return {"t": "bool", "b": v}
    if isinstance(v, (int, float)):
        return {"t": "num", "r": json.dumps(v)}
    if isinstance(v, str):
        return {"t": "str", "s": v}
    if isinstance(v, list):
        return {"t": "arr", "xs": [to_wire(x) for x in v]}
    if isinstance(v, dict):
        return {"t": "obj", "kvs": [{"k": k, "v": to_wire(x)} for k, x in v.items()]}
    raise TypeError(type(v))


def has_surrogate(v):
    if isinstance(v, str):
        return any(0xD800 <= ord(c) <= 0xDFFF for c in v)
    if isinstance(v, list):
        return any(has_surrogate(x) for x in v)
    if isinstance(v, dict):
        return any(has_surrogate(k) or has_surrogate(x) for k, x in v.items())
    return False


def classify(raw):
    """Python's decoding and json.loads are parameters of the model: classify the prior state with them."""
    if raw is None:
        return {"kind": "absent"}
    rb = raw.hex()
    try:
        text = raw.decode("utf-8")
    except UnicodeDecodeError:
        return {"kind": "undecodable", "raw": rb}
    # open(..., 'r') uses universal newlines
    text = text.replace("\r\n", "\n").replace("\r", "\n")
    content = text.strip()
    if not content:
        return {"kind": "blank", "raw": rb}
    try:
        v = json.loads(content)
    except json.JSONDecodeError:
        return {"kind": "invalid", "raw": rb}
    return {"kind": "value", "raw": rb, "v": to_wire(v), "_py": v}


# ------------------------------------------------------------------ running the real command
class FileProxy:
    def __init__(self, f, ctl, path):
        self._f, self._ctl, self._path = f, ctl, path

    def write(self, data):
        def partial():
            self._f.write(data[: len(data) // 2])
            self._f.flush()
        self._ctl.tick("write-partial", partial if len(data) > 1 else None)
        r = self._f.write(data)
        self._f.flush()
        self._ctl.tick("write-done")
        return r

    def __enter__(self):
        return self

    def __exit__(self, *a):
        return self._f.__exit__(*a)

    def __iter__(self):
        return iter(self._f)

    def __getattr__(self, n):
        return getattr(self._f, n)


class Ctl:
    """Counts file-system events; raises Crash at event `target` (1-based)."""

    def __init__(self, root, target=None):
        self.root = str(root)
        self.target = target
        self.n = 0
        self.kinds = []

    def tick(self, kind, partial=None):
        self.n += 1
        self.kinds.append(kind)
        if self.target is not None and self.n == self.target:
            if partial:
                partial()
            raise Crash(kind)

    def inside(self, p):
        try:
            return str(os.fspath(p)).startswith(self.root)
        except TypeError:
            return False


@contextlib.contextmanager
def intercept(ctl):
    real_open = builtins.open
    real = {"copy2": shutil.copy2, "copy": shutil.copy, "copyfile": shutil.copyfile, "move": shutil.move,
            "replace": os.replace, "rename": os.rename, "remove": os.remove, "unlink": os.unlink,
            "mkdir": os.mkdir, "makedirs": os.makedirs}

    def open_w(file, mode="r", *a, **k):
        if not ctl.inside(file) or isinstance(file, int):
            return real_open(file, mode, *a, **k)
        ctl.tick("open-pre:" + mode)
        f = real_open(file, mode, *a, **k)
        ctl.tick("open-post:" + mode)
        if any(c in mode for c in "wax+"):
            return FileProxy(f, ctl, file)
        return f

    def copier(name):
        def w(src, dst, *a, **k):
            if not (ctl.inside(src) or ctl.inside(dst)):
                return real[name](src, dst, *a, **k)
            ctl.tick(name + "-pre")
            try:
                data = real_open(src, "rb").read()
            except Exception:
                data = None
            if data is not None and name != "move":
                target = dst
                if os.path.isdir(dst):
                    target = os.path.join(dst, os.path.basename(src))

                def trunc():
                    real_open(target, "wb").close()

                def half():
                    with real_open(target, "wb") as f:
                        f.write(data[: len(data) // 2])
                ctl.tick(name + "-mid-truncated", trunc)
                if len(data) > 1:
                    ctl.tick(name + "-mid-half", half)
            r = real[name](src, dst, *a, **k)
            ctl.tick(name + "-post")
            return r
        return w

    def simple(name):
        def w(*a, **k):
            if not any(ctl.inside(x) for x in a if isinstance(x, (str, os.PathLike))):
                return real[name](*a, **k)
            ctl.tick(name + "-pre")
            r = real[name](*a, **k)
            ctl.tick(name + "-post")
            return r
        return w

    builtins.open = open_w
    io.open = open_w
    for n in ("copy2", "copy", "copyfile", "move"):
        setattr(shutil, n, copier(n))
    for n in ("replace", "rename", "remove", "unlink", "mkdir", "makedirs"):
        setattr(os, n, simple(n))
    try:
        yield
    finally:
        builtins.open = real_open
        io.open = real_open
        for n in ("copy2", "copy", "copyfile", "move"):
            setattr(shutil, n, real[n])
        for n in ("replace", "rename", "remove", "unlink", "mkdir", "makedirs"):
            setattr(os, n, real[n])


def snapshot(cfgdir):
    """directory content: {name: bytes}; None if the directory does not exist."""
    if not os.path.isdir(cfgdir):
        return None
    out = {}
    for n in sorted(os.listdir(cfgdir)):
        p = os.path.join(cfgdir, n)
        if os.path.isfile(p):
            with open(p, "rb") as f:
                out[n] = f.read()
    return out


CFG = "claude_desktop_config.json"


def run_once(prior, mode, target=None, second=False):
    """Runs handle_init in a fresh temp dir. Returns dict(outcome, snap, events, ...)."""
    import argparse

    import adeu.cli as cli

    kind, raw = prior
    top = tempfile.mkdtemp(prefix="c18_")
    try:
        cfgdir = os.path.join(top, "Claude")
        cfgpath = Path(cfgdir) / CFG
        if kind != "absent_nodir":
            os.makedirs(cfgdir)
        if raw is not None:
            with open(cfgpath, "wb") as f:
                f.write(raw)
        saved = cli._get_claude_config_path
        cli._get_claude_config_path = lambda: cfgpath
        ctl = Ctl(top, target)
        err = io.StringIO()
        outcome = "ok"
        old_err, old_out = sys.stderr, sys.stdout
        sys.stderr, sys.stdout = err, err
        try:
            with intercept(ctl):
                cli.handle_init(argparse.Namespace(local=(mode == "local")))
        except Crash:
            outcome = "crash"
        except SystemExit as e:
            outcome = f"SystemExit({e.code})"
        except Exception as e:
            outcome = type(e).__name__
        finally:
            sys.stderr, sys.stdout = old_err, old_out
        snap1 = snapshot(cfgdir)
        res = {"outcome": outcome, "snap": snap1, "events": ctl.n, "kinds": ctl.kinds}
        if second and outcome == "ok":
            sys.stderr, sys.stdout = err, err
            try:
                cli.handle_init(argparse.Namespace(local=(mode == "local")))
                res["second"] = "ok"
            except BaseException as e:
                res["second"] = type(e).__name__
            finally:
                sys.stderr, sys.stdout = old_err, old_out
            res["snap2"] = snapshot(cfgdir)
            # the user then edits the file by hand (a tuned adeu entry, or a slip that leaves invalid JSON) and runs
            # the command once more - possibly within the same second, certainly on the same day
            edited = (b'{"mcpServers": {"adeu": {"command": "my-own-wrapper", "args": ["--tuned"]}, "keep": {"command": "x"}}, "hand": true}'
                      if len(raw or b"") % 2 == 0 else b'{"mcpServers": {"keep": {"command": "x"}},, "oops": }')
            with open(cfgpath, "wb") as f:
                f.write(edited)
            sys.stderr, sys.stdout = err, err
            try:
                cli.handle_init(argparse.Namespace(local=(mode == "local")))
                res["third"] = "ok"
            except BaseException as e:
                res["third"] = type(e).__name__
            finally:
                sys.stderr, sys.stdout = old_err, old_out
            res["user_edit"] = edited
            res["snap3"] = snapshot(cfgdir)
        cli._get_claude_config_path = saved
        return res
    finally:
        shutil.rmtree(top, ignore_errors=True)


def observed_state(snap):
    """(cfg bytes|None, backup bytes|None, dir) as the model sees the directory. More than one backup file or
    any other file is outside the model (reported as a mismatch by the caller)."""
    if snap is None:
        return {"cfg": None, "bak": None, "dir": False}, []
    others = [n for n in snap if n != CFG]
    st = {"cfg": snap[CFG].hex() if CFG in snap else None,
          "bak": snap[others[0]].hex() if others else None, "dir": True}
    return st, others


def expected_entry(mode):
    if mode == "local":
        return {"command": sys.executable, "args": ["-m", "adeu.server"], "cwd": str(Path.cwd().resolve())}
    return {"command": "uvx", "args": ["--from", "adeu", "adeu-server"]}


def work(item):
    """One prior state x mode: clean run (+ second run) and a crash at every event."""
    idx, prior, mode = item
    kind, raw = prior
    cl = classify(raw)
    clean = run_once(prior, mode, None, second=True)
    crashes = []
    for k in range(1, clean["events"] + 1):
        r = run_once(prior, mode, k)
        crashes.append({"k": k, "kind": r["kinds"][-1] if r["kinds"] else "?", "outcome": r["outcome"], "snap": r["snap"]})
    return {"idx": idx, "prior": prior, "mode": mode, "class": {k: v for k, v in cl.items() if k != "_py"},
            "py": cl.get("_py"), "clean": clean, "crashes": crashes}


def is_backup_name(n):
    return n != CFG and n.startswith(CFG) and n.endswith(".bak")


def oracle(w):
    """Property clauses on the implementation's observable behaviour. Returns list of failure strings."""
    fails = []
    kind, raw = w["prior"]
    mode = w["mode"]

    def available(snap):
        if raw is None:
            return True
        if snap is None:
            return False
        if snap.get(CFG) == raw:
            return True
        return any(is_backup_name(n) and b == raw for n, b in snap.items())

    for c in w["crashes"]:
        if not available(c["snap"]):
            fails.append(f"after a crash at event {c['k']} ({c['kind']}) the previous content is neither in the "
                         f"configuration file nor in a backup next to it")
            break
    clean = w["clean"]
    if not available(clean["snap"]):
        fails.append(f"after the run (outcome {clean['outcome']}) the previous content is neither in the configuration "
                     "file nor in a backup")
    if clean["outcome"] == "ok":
        snap = clean["snap"] or {}
        try:
            got = json.loads(snap[CFG].decode("utf-8"))
        except Exception as e:
            fails.append(f"successful run left a configuration that is not valid JSON: {e}")
            return fails
        prev = w["py"] if isinstance(w["py"], dict) else {"mcpServers": {}}
        exp = json.loads(json.dumps(prev))
        if not isinstance(exp.get("mcpServers", {}), dict):
            fails.append("success reported although mcpServers is not an object")
            return fails
        exp.setdefault("mcpServers", {})["adeu"] = expected_entry(mode)
        if json.dumps(got, sort_keys=True) != json.dumps(exp, sort_keys=True):
            fails.append("successful run: configuration is not the previous one with only mcpServers.adeu set: "
                         f"got {json.dumps(got)[:300]} expected {json.dumps(exp)[:300]}")
        if clean.get("second") != "ok":
            fails.append(f"second run did not succeed: {clean.get('second')}")
        elif (clean.get("snap2") or {}).get(CFG) != snap.get(CFG):
            fails.append("running the command again changed the configuration file")
        if clean.get("user_edit") is not None and clean["user_edit"] not in (clean.get("snap3") or {}).values():
            fails.append(f"a later run (outcome {clean.get('third')}) after the user edited the file: the edited content is neither "
                         "in the configuration file nor in a backup next to it")
    elif clean["outcome"] not in ("AttributeError", "TypeError", "UnicodeDecodeError"):
        # the command may refuse unexpected shapes, but then the file must be untouched (checked above) ...
        if (clean["snap"] or {}).get(CFG) != raw and raw is not None:
            fails.append(f"run failed with {clean['outcome']} and altered the configuration file")
    if clean["outcome"] != "ok" and raw is not None and (clean["snap"] or {}).get(CFG) != raw:
        fails.append(f"run failed with {clean['outcome']} but the configuration file was altered")
    return fails


def driver_line(w):
    obs = []
    st, others = observed_state(w["clean"]["snap"])
    obs.append(st)
    for c in w["crashes"]:
        st, _ = observed_state(c["snap"])
        obs.append(st)
    return {"op": "init", "mode": "local" if w["mode"] == "local" else "prod", "python": sys.executable,
            "cwd": str(Path.cwd().resolve()), "prior": w["class"],
            "cmp_dir": w["prior"][0] == "absent_nodir", "observed": obs}


def compare(w, out):
    if "err" in out:
        return [f"driver error: {out['err']}"]
    mism = []
    clean = w["clean"]
    if out["outcome"] != clean["outcome"]:
        mism.append(f"outcome: model {out['outcome']} implementation {clean['outcome']}")
    st, others = observed_state(clean["snap"])
    if len(others) > 1:
        mism.append(f"more than one sibling file next to the configuration: {others}")
    fin = out["final"]
    if fin["cfg"] != st["cfg"]:
        mism.append("final configuration bytes differ: model "
                    f"{bytes.fromhex(fin['cfg'] or '')[:200]!r} implementation {bytes.fromhex(st['cfg'] or '')[:200]!r}")
    if fin["bak"] != st["bak"]:
        mism.append("final backup bytes differ")
    for c, k in zip(w["crashes"], out["found"][1:]):
        if k is None:
            mism.append(f"state after a crash at event {c['k']} ({c['kind']}) is not a crash state of the model")
            break
    return mism


def light(w):
    kind, raw = w["prior"]
    return {"prior_kind": kind if raw is None else w["class"]["kind"], "mode": w["mode"],
            "raw": (raw or b"")[:160].decode("utf-8", "replace"), "outcome": w["clean"]["outcome"],
            "events": w["clean"]["events"]}


def run(tier, seed, driver_ok):
    priors = gen_priors(tier, seed)
    items = [(i, p, m) for i, p in enumerate(priors) for m in ("prod", "local")]
    works = pmap(work, items, chunksize=4)
    oracle_failures, mism = [], []
    dist = {"priors": len(priors), "runs": 0, "crash_runs": 0, "by_kind": {}, "by_outcome": {}, "event_kinds": {}}
    distinct = set()
    hyp = {"crash_safe_all_k": 0, "prior_present": 0, "success": 0}
    for w in works:
        dist["runs"] += 1 + len(w["crashes"])
        dist["crash_runs"] += len(w["crashes"])
        kd = w["class"]["kind"]
        dist["by_kind"][kd] = dist["by_kind"].get(kd, 0) + 1
        oc = w["clean"]["outcome"]
        dist["by_outcome"][oc] = dist["by_outcome"].get(oc, 0) + 1
        for c in w["crashes"]:
            ek = c["kind"]
            dist["event_kinds"][ek] = dist["event_kinds"].get(ek, 0) + 1
            distinct.add((w["idx"], w["mode"], c["k"]))
        for f in oracle(w):
            oracle_failures.append({"name": "C18 clauses on handle_init", "case": light(w) | {"raw_hex": (w["prior"][1] or b"").hex(), "prior_tag": w["prior"][0]}, "what": f})
        if w["prior"][1] is not None:
            hyp["prior_present"] += 1
        if oc == "ok":
            hyp["success"] += 1
    compared = 0
    if driver_ok:
        usable = [w for w in works if not has_surrogate(w["py"])]
        outs = common.run_driver_parallel([driver_line(w) for w in usable])
        for w, o in zip(usable, outs):
            compared += 1 + len(w["crashes"])
            for d in compare(w, o):
                mism.append({"corr": "handle_init vs Adeu.Init.handleInit", "case": light(w) | {"raw_hex": (w["prior"][1] or b"").hex(), "prior_tag": w["prior"][0]}, "what": d})
            if o.get("concl", {}).get("crash_safe_all_k"):
                hyp["crash_safe_all_k"] += 1
    return {
        "known": [],
        "evaluations": dist["runs"],
        "distinct_nontrivial": len(distinct),
        "rule": ("prior states: fixed list (absent, empty, invalid, non-object, wrong-typed mcpServers, undecodable, "
                 "duplicate keys, NaN/big numbers, ...) + seeded random configurations and truncations; x {default, --local}; "
                 "for each, one clean run + second run and one run per intercepted file-system event (open/copy/mkdir/"
                 "write incl. truncated and half-written copies and half-written chunks) with a crash at that event "
                 "(exhaustive in events). non-trivial = distinct (prior, mode, crash event)"),
        "exhaustive": False,
        "samples": [light(w) for w in works[:: max(1, len(works) // 5)]][:6],
        "compared": compared,
        "corr_mismatches": mism,
        "oracle_failures": oracle_failures,
        "hypothesis_hits": hyp,
        "input_distribution": dist,
        "assumptions": [
            "file-system operations are atomic steps (create/truncate, append, mkdir); a crash is modelled as an "
            "exception at an intercepted call followed by normal unwinding (buffers flushed); no model of caches/fsync",
            "Python's UTF-8 decoding and json.loads/json.dump are parameters: the prior state is classified with them "
            "and json.dump's output format is re-implemented in the model and compared byte for byte",
            "backup name collision within one second (same timestamp) is outside the model",
        ],
    }


def search(res, tier, seed):
    r = run("thorough" if tier == "quick" else tier, seed + 1, False)
    return r["oracle_failures"][:3]


def replay(payload):
    case = payload.get("case") or {}
    if "raw_hex" not in case:
        return {"fails": False, "note": "no input in replay (proof/correspondence break)"}
    raw = bytes.fromhex(case["raw_hex"]) if case.get("prior_tag") == "bytes" else None
    w = work((0, (case["prior_tag"], raw), case["mode"]))
    f = oracle(w)
    return {"fails": bool(f), "what": f, "case": case}
