"""C11 — everything outside the edited stories is preserved at package level.

Model: Adeu.Pkg.save (lean/AdeuModel/Model/Package.lean): a save replaces exactly the rewritten stories and the comment
parts, appends new comment parts and their relationships and leaves every other part and relationship alone; theorems:
Props/C11.lean.  Correspondence: abstract view of the real input package (part names, content types, canonical content,
relationships of the main document) + what the engine produced for stories / comment parts -> the model's package must be
the abstract view of the real saved package.  Oracle: member list, content types, relationship files and canonical XML
of every member before / after; stories without a targeted edit keep their canonical content; section, paragraph and
table properties of edited stories retained."""
from __future__ import annotations

import hashlib
import io
import random
import re
import zipfile

from lxml import etree

from .. import doccheck, editgen, engine_oracles, engine_run, gen, ooxml, sem
from . import c06, c10

PROFILE = {"vmerge": 0.0, "point_comment": 0.0, "hyperlink": 0.03, "comment": 0.2, "header": 0.5, "footer": 0.4, "table": 0.25,
           "sect_break": 0.1, "para_mark_rev": 0.2}
PROFILES = {"default": PROFILE, "no_comments": dict(PROFILE, comment=0.0), "no_headings": dict(PROFILE, heading=0.0)}
STORY = re.compile(r"^word/(document|header\d*|footer\d*)\.xml$")
COMMENT_PART = re.compile(r"^word/comments\w*\.xml$")
PNG = bytes.fromhex("89504e470d0a1a0a0000000d4948445200000001000000010802000000907753de0000000c4944415408d763f8cfc000000301010018dd8db00000000049454e44ae426082")
RT = "http://schemas.openxmlformats.org/officeDocument/2006/relationships/"
W_NS = 'xmlns:w="http://schemas.openxmlformats.org/wordprocessingml/2006/main"'


# ---------------------------------------------------------------------------------------------- packages
def add_optional_parts(rng, doc):
    """optional parts a real document may carry (all related from the main document)"""
    mem, ov, rels, feats = {}, {}, [], []
    if rng.random() < 0.6:
        mem["word/media/image1.png"] = "hex:" + PNG.hex()
        ov["/word/media/image1.png"] = "image/png"
        rels.append({"type": RT + "image", "target": "media/image1.png", "rid": "rId901"})
        feats.append("media")
    if rng.random() < 0.4:
        mem["word/embeddings/oleObject1.bin"] = "hex:" + bytes(rng.getrandbits(8) for _ in range(64)).hex()
        ov["/word/embeddings/oleObject1.bin"] = "application/vnd.openxmlformats-officedocument.oleObject"
        rels.append({"type": RT + "oleObject", "target": "embeddings/oleObject1.bin", "rid": "rId902"})
        feats.append("ole")
    if rng.random() < 0.5:
        mem["word/footnotes.xml"] = (f'<?xml version="1.0" encoding="UTF-8" standalone="yes"?>\n<w:footnotes {W_NS}>\n  <w:footnote w:id="2">'
                                     '<w:p><w:r><w:t>a footnote with the word alpha</w:t></w:r></w:p></w:footnote>\n</w:footnotes>')
        ov["/word/footnotes.xml"] = "application/vnd.openxmlformats-officedocument.wordprocessingml.footnotes+xml"
        rels.append({"type": RT + "footnotes", "target": "footnotes.xml", "rid": "rId903"})
        feats.append("footnotes")
    if rng.random() < 0.4:
        mem["customXml/item7.xml"] = '<?xml version="1.0"?><deal xmlns="urn:example:deal"><id>42</id>  <party>Seller</party></deal>'
        rels.append({"type": RT + "customXml", "target": "../customXml/item7.xml", "rid": "rId904"})
        feats.append("custom_xml")
    if rng.random() < 0.3:
        mem["word/glossary/unknownPart.dat"] = "hex:" + b"opaque bytes \x00\x01\x02".hex()
        ov["/word/glossary/unknownPart.dat"] = "application/octet-stream"
        rels.append({"type": "urn:example:unknown-relationship", "target": "glossary/unknownPart.dat", "rid": "rId905"})
        feats.append("unknown_part")
    if rng.random() < 0.4:
        # an external relationship (what every hyperlink in the text leaves in document.xml.rels); no part behind it
        rels.append({"type": RT + "hyperlink", "target": "https://example.com/terms?id=7", "mode": "External", "rid": "rId906"})
        feats.append("external_rel")
    doc["extra_members"], doc["extra_overrides"], doc["extra_rels"] = mem, ov, rels
    return feats


def drop_optional_parts(rng, data):
    """removes some of the template's optional parts together with their relationship and content type"""
    z = zipfile.ZipFile(io.BytesIO(data))
    members = {n: z.read(n) for n in z.namelist()}
    drops = []
    for prob, names, target in ((0.3, ["customXml/item1.xml", "customXml/itemProps1.xml", "customXml/_rels/item1.xml.rels"], "../customXml/item1.xml"),
                                (0.3, ["word/theme/theme1.xml"], "theme/theme1.xml"),
                                (0.3, ["word/webSettings.xml"], "webSettings.xml"),
                                (0.3, ["word/stylesWithEffects.xml"], "stylesWithEffects.xml"),
                                (0.25, ["word/numbering.xml"], "numbering.xml"),
                                (0.3, ["word/fontTable.xml"], "fontTable.xml")):
        if rng.random() < prob:
            drops.append((names, target))
    if not drops:
        return data, []
    rels = etree.fromstring(members["word/_rels/document.xml.rels"])
    ct = etree.fromstring(members["[Content_Types].xml"])
    feats = []
    for names, target in drops:
        for n in names:
            members.pop(n, None)
            for e in list(ct):
                if e.get("PartName") == "/" + n:
                    ct.remove(e)
        for e in list(rels):
            if e.get("Target") == target:
                rels.remove(e)
        feats.append("no_" + names[0].rsplit("/", 1)[-1].split(".")[0])
    members["word/_rels/document.xml.rels"] = etree.tostring(rels, xml_declaration=True, encoding="UTF-8", standalone=True)
    members["[Content_Types].xml"] = etree.tostring(ct, xml_declaration=True, encoding="UTF-8", standalone=True)
    out = io.BytesIO()
    with zipfile.ZipFile(out, "w", zipfile.ZIP_DEFLATED) as zz:
        for n in ["[Content_Types].xml"] + [n for n in members if n != "[Content_Types].xml"]:
            zz.writestr(zipfile.ZipInfo(n, date_time=(2020, 1, 1, 0, 0, 0)), members[n])
    return out.getvalue(), feats


def canon_bytes(name, b):
    """canonical XML without insignificant white space; relationship files as sorted tuples; other members as they are"""
    if name.endswith(".rels"):
        try:
            root = etree.fromstring(b)
            return repr(sorted((e.get("Id"), e.get("Type"), e.get("Target"), e.get("TargetMode") or "") for e in root)).encode()
        except Exception:
            return b
    if name.endswith(".xml") or b[:5] == b"<?xml":
        try:
            return etree.tostring(etree.fromstring(b, etree.XMLParser(remove_blank_text=True)), method="c14n")
        except Exception:
            return b
    return b


def abstract(data):
    pkg = ooxml.Package(data)
    parts = []
    for n in pkg.names:
        if n == "[Content_Types].xml" or n == "word/_rels/document.xml.rels":
            continue
        parts.append({"name": n, "ct": pkg.content_type(n) or "", "hash": hashlib.sha1(canon_bytes(n, pkg.members[n])).hexdigest()})
    rels = [{"id": r["id"], "type": r["type"], "target": r["target"], "mode": r["mode"] or ""} for r in pkg.doc_rels]
    return {"parts": parts, "rels": rels, "defaults": dict(pkg.defaults), "overrides": dict(pkg.overrides)}


# ---------------------------------------------------------------------------------------------- work
def work(case):
    if "doc" not in case:
        doc, feats, rng = gen.gen_document(case["seed"], case["index"], PROFILES[case["profile"]])
        feats = list(feats) + add_optional_parts(rng, doc)
        if case.get("stream") == "no_headings":
            # a document whose styles part does not define the built-in heading styles (usual for files made in Word)
            doc["styles_variant"] = "no_headings"
            feats.append("no_heading_styles")
        case = dict(case, doc=doc, features=sorted(feats), drop_seed=rng.randint(0, 1 << 30))
    else:
        rng = random.Random(case.get("index", 0))
    doc = case["doc"]
    data = ooxml.write_docx(doc)
    data, dropped = drop_optional_parts(random.Random(case.get("drop_seed", 0)), data)
    try:
        texts = engine_run.texts_of(data)
    except Exception as e:  # noqa  (a package the reader cannot even open: judged by the oracle, not a harness error)
        import traceback

        case = dict(case, op=case.get("op") or {"kind": "read"}, features=sorted(set(case.get("features", [])) | set(dropped)))
        return {"err": f"reading the document raised {type(e).__name__}: {e}", "tb": traceback.format_exc()[-800:], "case": case,
                "sample": {"op": "read", "optional_parts": []}}
    op = case.get("op")
    if op is None:
        kind = rng.choice(["edits", "edits", "edits", "actions", "replies", "accept_all", "mixed"])
        if case.get("stream") == "no_headings":
            kind = "edits"
        op = {"kind": kind}
        if kind in ("edits", "mixed"):
            op["edits"] = editgen.gen_mixed_batch(rng, doc, texts, rng.randint(1, 3), comment_p=0.5)
            if case.get("stream") == "no_headings":
                op["edits"] += [e for e in editgen.gen_batch(rng, doc, texts, 1, ["heading"]) if not any(e["pi"] == y.get("pi") for y in op["edits"])]
                for e in op["edits"]:
                    e.setdefault("locatable", True)
            if rng.random() < 0.4:
                # new paragraphs / a heading in front of a paragraph (the first paragraph of the body behind a header)
                op["edits"] += [e for e in editgen.gen_block_prefix_edit(rng, doc, texts)
                                if not any(e["pi"] == y.get("pi") for y in op["edits"])]
        if kind in ("actions", "mixed"):
            op["actions"] = c06.gen_actions(rng, doc)
        if kind == "replies":
            op["actions"] = c10.gen_replies(rng, doc)
    res = {"err": None}
    try:
        from adeu.models import ReviewAction
        from adeu.redline.engine import RedlineEngine

        eng = RedlineEngine(io.BytesIO(data), author=engine_oracles.SESSION_AUTHOR)
        if op.get("edits"):
            res["edits_result"] = eng.apply_edits(engine_run.make_edits(op["edits"]))
        if op.get("actions"):
            res["actions_result"] = eng.apply_review_actions([ReviewAction(action=a["action"], target_id=a["target_id"], text=a.get("text"))
                                                              for a in op["actions"]])
        if op["kind"] == "accept_all":
            eng.accept_all_revisions()
        out = eng.save_to_stream().getvalue()
        res["before"], res["after"] = abstract(data), abstract(out)
        res["in_doc"] = ooxml.strip_volatile(ooxml.read_docx(data))
        res["out_doc"] = ooxml.strip_volatile(ooxml.read_docx(out))
    except Exception as e:  # noqa
        import traceback

        res["err"] = f"{type(e).__name__}: {e}"
        res["tb"] = traceback.format_exc()[-800:]
    case = dict(case, op=op, features=sorted(set(case.get("features", [])) | set(dropped)))
    res["case"] = case
    res["sample"] = {"op": op["kind"], "optional_parts": [f for f in case["features"] if f in
                     ("media", "ole", "footnotes", "custom_xml", "unknown_part", "external_rel") or f.startswith("no_")]}
    return res


def targeted_stories(case):
    """names of the stories an edit of this session addresses (si: story index of the edit generator)"""
    si = {e.get("si") for e in (case["op"].get("edits") or []) if e.get("locatable", True) and e.get("si") is not None}
    return si


# ---------------------------------------------------------------------------------------------- oracle
def oracle(res):
    if res["err"]:
        return [f"session raised {res['err']}"]
    a, b = res["before"], res["after"]
    fails = []
    pa, pb = {p["name"]: p for p in a["parts"]}, {p["name"]: p for p in b["parts"]}
    for n, p in pa.items():
        if n not in pb:
            fails.append(f"package member {n} is lost")
            continue
        if STORY.match(n) or COMMENT_PART.match(n):
            continue
        if pb[n]["hash"] != p["hash"]:
            fails.append(f"package member {n} changed (canonical content differs)")
        if pb[n]["ct"] != p["ct"]:
            fails.append(f"content type of {n} changed: {p['ct']} -> {pb[n]['ct']}")
    for n in pb:
        if n not in pa and not COMMENT_PART.match(n) and not n.endswith(".rels"):
            fails.append(f"unexpected new package member {n}")
    ra = {(r["id"], r["type"], r["target"], r["mode"]) for r in a["rels"]}
    rb = {(r["id"], r["type"], r["target"], r["mode"]) for r in b["rels"]}
    for r in sorted(ra - rb):
        fails.append(f"relationship of the main document lost or changed: {r}")
    for r in sorted(rb - ra):
        if "comments" not in r[1].lower():
            fails.append(f"unexpected new relationship {r}")
    if len({r[0] for r in rb}) != len(rb):
        fails.append("relationship ids of the main document are not unique")
    for k, v in a["overrides"].items():
        if b["overrides"].get(k, b["defaults"].get(k.rsplit(".", 1)[-1].lower())) != v:
            fails.append(f"content type override for {k} lost or changed")
    # stories: no edit targeted them -> canonical content unchanged; an accept/reject session addresses body ids only
    cin, cout = sem.canon_doc(res["in_doc"]), sem.canon_doc(res["out_doc"])
    op = res["case"]["op"]
    if op["kind"] not in ("accept_all",):
        edited = targeted_stories(res["case"])
        body_touched = bool(op.get("actions")) or 0 in edited or any(e.get("si") is None for e in (op.get("edits") or []))
        for part in ("headers", "footers"):
            stories_in, stories_out = cin[part], cout[part]
            if len(stories_in) != len(stories_out):
                fails.append(f"number of {part} changed")
            elif not (op.get("edits")) and stories_in != stories_out:
                fails.append(f"{part} changed although no edit was submitted")
        if op.get("edits") and not op.get("actions"):
            # a story none of whose text is targeted keeps exactly its content
            sin, sout = sem.active_stories(res["in_doc"]), sem.active_stories(res["out_doc"])
            if len(sin) == len(sout):
                for i, (x, y) in enumerate(zip(sin, sout)):
                    if i not in edited and sem.canon_blocks(x) != sem.canon_blocks(y):
                        fails.append(f"story {i} (body is {sem.body_story_index(res['in_doc'])}) changed although no edit targets its text")
    # section / paragraph / table properties inside the stories
    if res["in_doc"].get("sect") != res["out_doc"].get("sect") or res["in_doc"].get("title_pg") != res["out_doc"].get("title_pg"):
        fails.append("section properties of the main document changed")
    # (a tracked paragraph mark is a w:rPr/w:ins|w:del inside w:pPr: accept-all resolves it, everything else stays)
    mark = re.compile(r"<w:rPr>\s*(<w:(ins|del)\b[^>]*/>\s*)*</w:rPr>|<w:rPr/>") if op["kind"] == "accept_all" else None
    norm = (lambda x: mark.sub("", x or "")) if mark else (lambda x: x)
    pin = [(p.get("style"), norm(p.get("ppr"))) for _, p in sem.all_paragraphs(res["in_doc"])]
    pout = [(p.get("style"), norm(p.get("ppr"))) for _, p in sem.all_paragraphs(res["out_doc"])]
    it = iter(pout)
    if not all(any(x == y for y in it) for x in pin):
        fails.append("paragraph properties (style / numbering / section break) of an original paragraph are not retained in order")
    # the sections of a story are the section breaks its paragraphs carry: same breaks, same order, none added
    sect = re.compile(r"<w:sectPr\b.*?</w:sectPr>|<w:sectPr\b[^>]*/>", re.S)
    sin_ = [m for _, p in sem.all_paragraphs(res["in_doc"]) for m in sect.findall(p.get("ppr") or "")]
    sout_ = [m for _, p in sem.all_paragraphs(res["out_doc"]) for m in sect.findall(p.get("ppr") or "")]
    if sin_ != sout_:
        fails.append(f"section breaks inside the story changed: {len(sin_)} section break(s) before, {len(sout_)} after "
                     "(a paragraph created by the session carries a copy of a section break)")
    # (likewise a tracked row: w:ins / w:del inside the row properties is resolved by accept-all)
    rmark = re.compile(r"<w:(ins|del)\b[^>]*/>") if op["kind"] == "accept_all" else None
    rn = (lambda x: rmark.sub("", x or "")) if rmark else (lambda x: x)
    tin = [(t["pr"], t.get("grid"), [rn(r["pr"]) for r in t["rows"]], [[c["pr"] for c in r["cells"]] for r in t["rows"]]) for t in all_tables(res["in_doc"])]
    tout = [(t["pr"], t.get("grid"), [rn(r["pr"]) for r in t["rows"]], [[c["pr"] for c in r["cells"]] for r in t["rows"]]) for t in all_tables(res["out_doc"])]
    if tin != tout:
        fails.append("table / row / cell properties changed")
    return fails[:6]


def all_tables(doc):
    out = []

    def walk(blocks):
        for b in blocks:
            if "tbl" in b:
                out.append(b["tbl"])
                for r in b["tbl"]["rows"]:
                    for c in r["cells"]:
                        walk(c["blocks"])
    walk(doc["body"])
    for s in doc.get("headers", []) + doc.get("footers", []):
        walk(s["blocks"])
    return out


# ---------------------------------------------------------------------------------------------- model
def driver_line(res):
    if res["err"]:
        return {"op": "ping"}
    a, b = res["before"], res["after"]
    pa = {p["name"] for p in a["parts"]}
    stories = [p for p in b["parts"] if STORY.match(p["name"])]
    comments = [p for p in b["parts"] if COMMENT_PART.match(p["name"])]
    old = {(r["id"], r["type"], r["target"], r["mode"]) for r in a["rels"]}
    cnames = {p["name"].split("/", 1)[1] for p in comments if p["name"] not in pa}
    new_rels = [r for r in b["rels"] if (r["id"], r["type"], r["target"], r["mode"]) not in old and r["target"] in cnames]
    return {"op": "pkgsave", "parts": a["parts"], "rels": a["rels"], "stories": stories, "comments": comments, "new_rels": new_rels}


def compare(res, out):
    if res["err"]:
        return []
    name = "RedlineEngine.save_to_stream (package level) vs Adeu.Pkg.save"
    if "err" in out:
        return [("driver", out["err"])]
    b = res["after"]
    key = lambda p: (p["name"], p["ct"], p["hash"])
    m, r = sorted(map(key, out["parts"])), sorted(map(key, b["parts"]))
    if m != r:
        d = sorted(set(m) ^ set(r))[:4]
        return [(name, f"parts differ (name, content type, canonical content): {d}")]
    rk = lambda x: (x["id"], x["type"], x["target"], x["mode"])
    if sorted(map(rk, out["rels"])) != sorted(map(rk, b["rels"])):
        d = sorted(set(map(rk, out["rels"])) ^ set(map(rk, b["rels"])))[:4]
        return [(name, f"relationships of the main document differ: {d}")]
    return []


def classify(res):
    return None


def nontrivial(res):
    return not res["err"] and res["before"] != res["after"]


def run(tier, seed, driver_ok):
    return doccheck.run_doc_check(
        "C11", tier, seed, driver_ok, n_quick=300, n_thorough=5000,
        profiles=[("default", PROFILES["default"], 3), ("no_comments", PROFILES["no_comments"], 1), ("no_headings", PROFILES["no_headings"], 1)],
        work=work, oracle=oracle, driver_line=driver_line, compare=compare, classify=classify, nontrivial=nontrivial,
        rule=("generated packages: the template's parts with some optional ones removed (custom XML, theme, web settings, "
              "styles with effects, numbering, font table) and others added (media, embedded object, footnotes, custom XML, a "
              "part of unknown type), headers / footers, with or without pre-existing comment parts x sessions (edit batches "
              "with comments, accept / reject actions, replies, accept-all, mixed); non-trivial = the saved package differs"),
        assumptions=["canonical XML = C14N after dropping white-space-only text nodes; relationship files compared as sets of "
                     "(id, type, target, mode); [Content_Types].xml compared as the effective type of every part",
                     "the engine's results for stories and comment parts are parameters of the package model"])


def search(res, tier, seed):
    r = doccheck.run_doc_check(
        "C11", "search", seed + 1, False, n_quick=300, n_thorough=5000,
        profiles=[("default", PROFILES["default"], 3), ("no_comments", PROFILES["no_comments"], 1)],
        work=work, oracle=oracle, classify=classify, nontrivial=nontrivial)
    return r["oracle_failures"][:3]


def replay(payload):
    case = payload.get("case") or {}
    if "doc" not in case:
        import json

        return {"fails": False, "note": "replay file carries no input (proof/correspondence break): " +
                json.dumps(payload.get("no_longer_checks"), default=str)[:600]}
    res = work({"seed": case.get("seed", 0), "index": case.get("index", 0), "stream": "replay", "doc": case["doc"], "features": case.get("features", []),
                "op": case.get("op"), "drop_seed": case.get("drop_seed", 0)})
    f = oracle(res)
    return {"fails": bool(f), "what": f}
