"""C02 — accepting the changes yields exactly the requested text.

Lean: Adeu.Trim.trim (model of _trim_common_context) with the contract theorems of Props/C02.lean.
Correspondence (a): _trim_common_context vs the model, exhaustively over all pairs of strings of length <= 3 (quick) /
<= 4 (thorough) over {a, b, space, newline, *, _, #} plus random longer pairs; Python's str.isspace table vs the model's.
Oracle (b): for batches of exact, unique, non-overlapping single-paragraph targets (every position relative to run /
format / tab / deletion / cell / paragraph boundaries), in several orders of the batch: all applied and the accepted
paragraphs of the saved package == string replacement."""
from __future__ import annotations

import itertools
import random

from .. import common, doccheck, editgen, engine_oracles, engine_run, gen, ooxml, sem
from ..pool import pmap

ALPHA = ["a", "b", " ", "\n", "*", "_", "#"]
PROFILE = {"hyperlink": 0.0, "vmerge": 0.0, "point_comment": 0.0}
PROFILES = {"default": PROFILE,
            "redlined": dict(PROFILE, **{"del": 0.4, "blocks": (1, 3), "runs": (3, 7)}, subst=0.15, split_identical=0.3, table=0.1),
            # long paragraphs full of pending deletions, several edits in one paragraph that are found only in the
            # accepted view, most of them reducing to an insertion after context trimming
            "bridges": dict(PROFILE, **{"del": 0.45, "blocks": (1, 2), "runs": (6, 10)}, ins=0.0, subst=0.05, table=0.0, comment=0.0,
                            split_identical=0.15, fmt=0.2, header=0.0, footer=0.0),
            "boundaries": dict(PROFILE, split_identical=0.5, tab=0.3, br=0.2, fmt=0.6, **{"del": 0.3}, subst=0.15, table=0.35,
                               opaque=0.15, empty_run=0.1)}


# ------------------------------------------------------------------ (a) trim
def trim_impl(pairs):
    from adeu.redline.engine import _trim_common_context

    out = []
    for t, n in pairs:
        try:
            out.append(tuple(_trim_common_context(t, n)))
        except Exception as e:
            out.append(("err", f"{type(e).__name__}: {e}"))
    return out


def trim_contract(t, n, r):
    if r[0] == "err":
        return f"raised {r[1]}"
    p, s = r
    if p < 0 or s < 0 or p + s > min(len(t), len(n)):
        return f"prefix {p} + suffix {s} exceed the shorter string"
    if t[:p] != n[:p]:
        return f"trimmed prefix is not common: {t[:p]!r} vs {n[:p]!r}"
    if t[len(t) - s:] != n[len(n) - s:]:
        return f"trimmed suffix is not common: {t[len(t)-s:]!r} vs {n[len(n)-s:]!r}"
    return None


def enum_strings(k):
    out = []
    for n in range(k + 1):
        out.extend("".join(x) for x in itertools.product(ALPHA, repeat=n))
    return out


def rand_pair(rng):
    words = ["alpha", "beta", "**bold**", "_it_", "# Head", "x", "a_b", "**", "the", "Section 2"]
    seps = [" ", " ", "\n", "  ", "\t", ""]
    base = "".join(rng.choice(words) + rng.choice(seps) for _ in range(rng.randint(1, 6)))
    toks = base.split(" ")
    k = rng.randint(0, len(toks) - 1)
    toks2 = list(toks)
    c = rng.random()
    if c < 0.4:
        toks2[k] = rng.choice(words)
    elif c < 0.6:
        toks2.insert(k, rng.choice(words))
    elif c < 0.8 and len(toks2) > 1:
        del toks2[k]
    else:
        toks2 = toks2 + [rng.choice(words)]
    return base, " ".join(toks2)


def _chunks(xs, n):
    size = max(1, (len(xs) + n - 1) // n)
    return [xs[i:i + size] for i in range(0, len(xs), size)]


def run_trim(tier, seed, driver_ok):
    rng = random.Random(seed * 101 + 7)
    strs = enum_strings(4 if tier == "thorough" else 3)
    if tier == "thorough":
        # 2801^2 = 7.8M pairs: the oracle runs on all of them, the model comparison on a 1/6 sample + all pairs <= 3
        small = enum_strings(3)
        pairs = [(a, b) for a in small for b in small]
        pairs += [(a, b) for a in strs for b in rng.sample(strs, 450)]
    else:
        pairs = [(a, b) for a in strs for b in strs]
    pairs += [rand_pair(rng) for _ in range(300000 if tier == "thorough" else 20000)]
    outs = [x for part in pmap(trim_impl, _chunks(pairs, common.NCPU * 4)) for x in part]
    fails, mism = [], []
    nontrivial = 0
    for (t, n), r in zip(pairs, outs):
        f = trim_contract(t, n, r)
        if f and len(fails) < 5:
            fails.append({"name": "C02 trim contract on _trim_common_context", "case": {"target": t, "new": n}, "observed": r, "what": f})
        if r[0] != "err" and (r[0] or r[1]):
            nontrivial += 1
    compared = 0
    if driver_ok:
        # whitespace table
        sp = common.run_driver([{"op": "isspace", "hi": 0x3100}])[0]["spaces"]
        py = [c for c in range(0x3100) if chr(c).isspace()]
        if sp != py:
            mism.append({"corr": "str.isspace table vs Adeu.Trim.pyIsSpace", "what": f"model {sp} python {py}"})
        lines = [{"op": "trim", "t": t, "n": n} for t, n in pairs]
        res = common.run_driver_parallel(lines)
        for (t, n), r, o in zip(pairs, outs, res):
            compared += 1
            if "err" in o or r[0] == "err" or (o["p"], o["s"]) != tuple(r):
                if len(mism) < 20:
                    mism.append({"corr": "_trim_common_context vs Adeu.Trim.trim", "case": {"target": t, "new": n},
                                 "what": f"model {o} implementation {r}"})
    return {"pairs": len(pairs), "nontrivial": nontrivial, "fails": fails, "mism": mism, "compared": compared,
            "strings": len(strs)}


# ------------------------------------------------------------------ (b) engine
def orders_of(rng, edits):
    if len(edits) <= 3:
        return [list(p) for p in itertools.permutations(edits)]
    out = [list(edits)]
    for _ in range(3):
        p = list(edits)
        rng.shuffle(p)
        out.append(p)
    return out


def fuzzy_raw_hit(texts, e):
    """Domain of the open finding F-fuzzy-raw-precedence: the target is not an exact piece of the raw view (it spans
    deleted text) but the raw view matches it when whitespace runs are treated as equal."""
    import re

    if e.get("in_raw") or not e.get("over_del"):
        return False
    pat = r"\s+".join(re.escape(x) for x in re.split(r"\s+", e["target"]))
    return re.search(pat, texts["raw"]) is not None


def work(case):
    if "doc" not in case:
        doc, feats, rng = gen.gen_document(case["seed"], case["index"], PROFILES[case["profile"]])
        case = dict(case, doc=doc, features=feats)
        if case.get("stream") == "bridges" and rng.random() < 0.3:
            case["bridge_edits"] = editgen.inject_bridge_paragraph(rng, doc)
    else:
        rng = random.Random(case.get("index", 0))
    data = ooxml.write_docx(case["doc"])
    texts = engine_run.texts_of(data)
    edits = case.get("edits")
    if edits is None:
        if case.get("stream") == "bridges" and case.get("bridge_edits"):
            edits = list(case["bridge_edits"])
        elif case.get("stream") == "bridges":
            edits = editgen.gen_bridge_pair(rng, case["doc"], texts)
        if edits is None or (case.get("stream") == "bridges" and not edits):
          if case.get("stream") == "bridges":
            edits = editgen.gen_batch(rng, case["doc"], texts, rng.randint(2, 3), ["extend", "prefix", "shared", "shared", "replace"],
                                      allow_collisions=True, same_para_bias=1.0)
          else:
            edits = editgen.gen_batch(rng, case["doc"], texts, rng.randint(1, 4), editgen.KINDS_C02, allow_collisions=True)
            if rng.random() < 0.5:
                # a target that crosses the boundary of another reviewer's pending insertion
                edits += [e for e in editgen.gen_cross_ins_any(rng, case["doc"], texts) if not any(e["pi"] == y["pi"] for y in edits)]
            if rng.random() < 0.5:
                # text of a pending insertion in a header / footer (the nested-edit path looks it up in its own story)
                edits += [e for e in editgen.gen_hf_ins_edit(rng, case["doc"], texts) if not any(e["pi"] == y["pi"] for y in edits)]
            if rng.random() < 0.4:
                # a target quoted with the bold / italic markers of a formatted run (text put behind / before the markers)
                edits += editgen.gen_marked_edit(rng, case["doc"], texts, avoid_pi={e["pi"] for e in edits})
    runs = []
    hz = None
    for order in (orders_of(rng, edits) if edits else []):
        r = engine_run.run_edits(data, order)
        runs.append({"order": [e["target"] for e in order], "res": {k: v for k, v in r.items() if k != "out_bytes"}})
        # the last order of the batch goes to the Lean model of the heuristic path as well
        hz = {"edits": order, "res": runs[-1]["res"]}
    case = dict(case, edits=edits)
    body = sem.body_story_index(case["doc"])
    in_hf = any(e.get("state") in ("cross_ins", "ins") and e.get("si") is not None and e["si"] != body for e in edits)
    return {"case": case, "runs": runs, "heur": hz, "fuzzy_dom": any(fuzzy_raw_hit(texts, e) for e in edits),
            "hyp": {"edit_touching_insertion_in_header_or_footer": in_hf},
            "sample": {"edits": [(e["target"], e["new"], e["kind"]) for e in edits]}}


def oracle(res):
    fails = []
    edits = res["case"]["edits"]
    for run in res["runs"]:
        f = engine_oracles.oracle_accept_exact(res["case"]["doc"], edits, run["res"])
        if f:
            fails.append(f"order {run['order']}: " + f[0])
            break
    return fails


def classify(res):
    """Domains of findings: (fixed) fuzzy/raw precedence; (open) the target of one edit also occurs in the new text of
    another edit of the batch — the engine matches against the document as it evolves, so the later edit can meet the
    text the earlier one inserted."""
    if res.get("fuzzy_dom"):
        return "F-fuzzy-raw-precedence"
    edits = res["case"]["edits"]
    for i, e in enumerate(edits):
        if any(j != i and e["target"] and e["target"] in (o["new"] or "") for j, o in enumerate(edits)):
            return "F-target-in-new-text-of-batch"
    if editgen.batch_collisions(res["case"]["doc"], edits):
        # (the target comes about next to another edit's new text: 'ribbon ' + '1 fjord' makes ' 1')
        return "F-target-in-new-text-of-batch"
    return None


def nontrivial(res):
    return bool(res["case"]["edits"])


def run(tier, seed, driver_ok):
    tr = run_trim(tier, seed, driver_ok)
    out = doccheck.run_doc_check(
        "C02", tier, seed, driver_ok, n_quick=320, n_thorough=4000,
        profiles=[("default", PROFILES["default"], 1), ("boundaries", PROFILES["boundaries"], 2), ("redlined", PROFILES["redlined"], 2),
                  ("bridges", PROFILES["bridges"], 2)],
        work=work, oracle=oracle, classify=classify, nontrivial=nontrivial,
        rule="(b) seeded generated documents x batches of 1-4 exact, unique, non-overlapping single-paragraph targets "
             "(replace / delete / extend / prefix / shared prefix-suffix), every order of the batch for <= 3 edits; "
             f"(a) trim: all {tr['strings']}^2 pairs of strings over {ALPHA!r} up to the tier's length bound "
             "(exhaustive; thorough tier compares the model on all pairs <= 3 and a sample above) + random pairs; "
             "non-trivial = distinct document+batch with at least one edit",
        assumptions=["targets consist of real characters only (no marker / wrapper / metadata strictly inside) and are "
                     "unique in both views, also after whitespace normalisation",
                     "str.isspace is a parameter of the trim model (table compared on every run)"])
    out["evaluations"] += tr["pairs"]
    out["distinct_nontrivial"] += tr["nontrivial"]
    out["compared"] += tr["compared"]
    out["oracle_failures"] = tr["fails"] + out["oracle_failures"]
    out["corr_mismatches"] = tr["mism"] + out["corr_mismatches"]
    out["input_distribution"]["trim_pairs"] = tr["pairs"]
    out["exhaustive"] = True
    return out


def search(res, tier, seed):
    r = run("search" if tier == "quick" else "thorough", seed + 1, False)
    return r["oracle_failures"][:3]


def replay(payload):
    case = payload.get("case") or {}
    if "target" in case:
        r = trim_impl([(case["target"], case["new"])])[0]
        f = trim_contract(case["target"], case["new"], r)
        return {"fails": f is not None, "what": f, "observed": r}
    if "doc" not in case:
        return {"fails": False, "note": "no input in replay (proof/correspondence break)"}
    r = work({"seed": -1, "index": case.get("index", 0), "stream": "replay", "doc": case["doc"], "features": [],
              "edits": case.get("edits")})
    f = oracle(r)
    return {"fails": bool(f), "what": f}
