"""C03 — reader offsets and writer offsets denote the same characters.

Model: Adeu.Doc.extractText / mapperText (lean/AdeuModel/Model/{Extract,Mapper}.lean); theorems: Props/C03.lean.
Correspondence: extract_text_from_stream (both views) == model extractText(normalize d); DocumentMapper.full_text
(both views) == model mapperText(normalize d).  Oracle: reader text == engine index text (both views); an indexed
edit addressed by a range of the extracted text changes exactly those characters (by content)."""
from __future__ import annotations

import io

import random
import re

from .. import doccheck, editgen, engine_oracles, engine_run, gen, ooxml, sem

PROFILES = {"default": {}, "breaks": {"br": 0.45, "br_typed": 0.5, "tab": 0.2, "fmt": 0.8, "ins": 0.05, "del": 0.05, "subst": 0.0, "comment": 0.1,
                                      "hyperlink": 0.0, "vmerge": 0.0, "point_comment": 0.0, "runs": (2, 5)}, "tables": {"table": 0.5, "nested_table": 0.3, "empty_para": 0.15, "header": 0.5, "footer": 0.5},
            "markup": {"fmt": 0.7, "comment": 0.3, "reply": 0.6, "ins": 0.3, "del": 0.3, "subst": 0.25, "br": 0.2, "empty_run": 0.15,
                       "comment_on_del": 0.4, "overlap_comment": 0.15}}


def work(case):
    from adeu.ingest import extract_text_from_stream
    from adeu.redline.engine import RedlineEngine
    from adeu.redline.mapper import DocumentMapper

    if "doc" not in case:
        doc, feats, _ = gen.gen_document(case["seed"], case["index"], PROFILES[case["profile"]])
        case = dict(case, doc=doc, features=feats)
    data = ooxml.write_docx(case["doc"])
    out = {"case": case, "err": None}
    try:
        out["raw"] = extract_text_from_stream(io.BytesIO(data))
        out["clean"] = extract_text_from_stream(io.BytesIO(data), clean_view=True)
        eng = RedlineEngine(io.BytesIO(data), author="Verifier")
        out["map_raw"] = getattr(eng.mapper, "full_text", None)
        try:
            out["map_clean"] = DocumentMapper(eng.doc, clean_view=True).full_text
        except Exception:
            out["map_clean"] = None
        spans = getattr(eng.mapper, "spans", None)
        if spans is not None:
            # the span list must partition the text: offsets are what an indexed edit uses
            pos, ok = 0, True
            for s in spans:
                if s.start != pos or s.end != pos + len(s.text) or out["map_raw"][s.start:s.end] != s.text:
                    ok = False
                    break
                if s.run is not None:
                    from adeu.utils.docx import get_run_text
                    if s.text not in get_run_text(s.run):
                        ok = False
                        break
                pos = s.end
            out["spans_ok"] = ok and pos == len(out["map_raw"])
        out["indexed"] = indexed_edit_case(case, data, out["raw"])
        out["appended"] = append_case(case, data, out["raw"])
        ix = out["indexed"]
        out["hyp"] = {"indexed_edit": bool(ix), "indexed_edit_inside_pending_insertion": bool(ix and ix.get("in_ins")),
                      "indexed_edit_crossing_line_break": bool(ix and ix.get("crosses_break")),
                      "indexed_edit_range_with_markers": bool(ix and ix.get("with_markers")),
                      "insertion_at_paragraph_end_offset": bool(out["appended"]),
                      "insertion_behind_paragraph_final_deletion": bool(out["appended"] and out["appended"]["ends_with_deletion"])}
    except Exception as e:
        out["err"] = f"{type(e).__name__}: {e}"
    return out


WORD = re.compile(r"[A-Za-z0-9]{3,}")


def indexed_edit_case(case, data, raw):
    """An edit addressed by a character range of the extracted text (chosen by content: from the start of one unique
    word to the end of another in the same paragraph, possibly across formatting markers, tabs and line breaks of
    one run sequence) must change exactly those characters."""
    rng = random.Random((case["seed"] << 16) ^ case["index"] ^ 0x5bd1)
    pvs = [editgen.ParaView(si, pi, p) for pi, (si, p) in enumerate(sem.all_paragraphs(case["doc"]))]
    rng.shuffle(pvs)
    for pv in pvs[:6]:
        txt = "".join(c["c"] for c in pv.chars)
        words = [(m.start(), m.end(), m.group()) for m in WORD.finditer(txt)]
        words = [w for w in words if editgen.count_occ(raw, w[2]) == 1]
        if len(words) < 2:
            continue
        i = rng.randrange(len(words) - 1)
        j = rng.randrange(i + 1, min(len(words), i + 4))
        # prefer a range that crosses a line break inside one formatted run (several spans of the engine's index, one run)
        cross = [(x, y) for x in range(len(words) - 1) for y in range(x + 1, min(len(words), x + 4))
                 if any(c["c"] == "\n" for c in pv.chars[words[x][0]:words[y][1]])
                 and len({c["run"] for c in pv.chars[words[x][0]:words[y][1]] if c["c"] != "\n"}) == 1]
        if cross and rng.random() < 0.7:
            i, j = rng.choice(cross)
        a, b = words[i][0], words[j][1]
        seg = pv.chars[a:b]
        in_ins = all(c["state"] == "ins" for c in seg) and len({c["rid"] for c in seg}) == 1
        if (any(c["state"] != "plain" for c in seg) and not in_ins) or len({c["comments"] for c in seg}) > 1:
            continue
        ta, tb = raw.find(words[i][2]), raw.find(words[j][2]) + len(words[j][2])
        if not (0 <= ta < tb) or "\n\n" in raw[ta:tb] or " | " in raw[ta:tb]:
            continue
        # the two words must have been found where the paragraph has them: the slice of the extracted text, emphasis
        # markers aside, is exactly the paragraph's characters (a word that is a prefix of another word elsewhere —
        # 'quiver' / 'quiver1' — or that sits in annotation text would otherwise address a different place)
        if raw[ta:tb].replace("*", "").replace("_", "") != "".join(c["c"] for c in seg).replace("*", "").replace("_", ""):
            continue
        with_markers = False
        if rng.random() < 0.5:
            # the client may quote the words together with the emphasis markers around them: virtual characters at
            # both ends of the range (also the closing marker of one line of a formatted run that goes on after a break)
            ta0, tb0 = ta, tb
            while ta > 0 and raw[ta - 1] in "*_":
                ta -= 1
            while tb < len(raw) and raw[tb] in "*_":
                tb += 1
            with_markers = (ta, tb) != (ta0, tb0)
        new = rng.choice(["", "", "SWAPPED", "x y"])
        edit = {"target": raw[ta:tb], "new": new, "comment": None, "index": ta}
        r = engine_run.run_edits(data, [edit])
        exp = "".join(c["c"] for c in pv.chars[:a] if c["state"] != "del") + new + "".join(c["c"] for c in pv.chars[b:] if c["state"] != "del")
        return {"edit": {"target": edit["target"], "new": new, "index": ta}, "pi": pv.pi, "expected": exp,
                "res": {k: v for k, v in r.items() if k != "out_bytes"},
                "crosses_break": any(c["c"] == "\n" for c in seg), "crosses_runs": len({c["run"] for c in seg}) > 1,
                "in_ins": in_ins, "with_markers": with_markers}
    return None


def append_case(case, data, raw):
    """Text inserted at the offset where a paragraph's raw rendering ends (an insertion addressed by an offset, what the
    text-file workflow produces for appended words) must become the end of that paragraph's text - also when the
    paragraph ends with another reviewer's pending deletion and its metadata."""
    rng = random.Random((case["seed"] << 16) ^ case["index"] ^ 0x2f3d)
    doc = case["doc"]
    if any("tbl" in b for b in doc["body"]) and rng.random() < 0.5:
        pass
    pvs = [editgen.ParaView(si, pi, p) for pi, (si, p) in enumerate(sem.all_paragraphs(doc))]
    body = sem.body_story_index(doc)
    top = [id(b["p"]) for b in doc["body"] if "p" in b]
    cands = [pv for pv in pvs if pv.si == body and id(pv.p) in top and pv.chars]
    # prefer paragraphs that end with a pending deletion
    enders = [pv for pv in cands if pv.chars[-1]["state"] == "del"]
    rng.shuffle(cands)
    for pv in ([rng.choice(enders)] if enders and rng.random() < 0.8 else []) + cands[:4]:
        txt = "".join(c["c"] for c in pv.chars)
        words = [(m.start(), m.end(), m.group()) for m in WORD.finditer(txt)]
        words = [w for w in words if editgen.count_occ(raw, w[2]) == 1]
        if not words:
            continue
        w = words[-1]
        if any(c["c"] == "\n" for c in pv.chars[w[0]:]):
            continue
        p0 = raw.find(w[2])
        e = raw.find("\n\n", p0)
        e = len(raw) if e < 0 else e
        tail = raw[p0:e]
        if " | " in tail or "\n" in re.sub(r"\{>>.*?<<\}", "", tail, flags=re.S):
            continue
        # the word must have been found where this paragraph has it: from there to the end of the block the raw text,
        # metadata and markers aside, is the rest of this paragraph ('oscar' also occurs in 'oscar1' elsewhere)
        if sem.skeleton(re.sub(r"\{>>.*?<<\}", "", tail, flags=re.S)) != sem.skeleton(txt[w[0]:]):
            continue
        new = rng.choice([" Zq9 appended", " Wy8", ", Vx7 more"])
        edit = {"target": "", "new": new, "comment": None, "index": e}
        r = engine_run.run_edits(data, [edit])
        exp = "".join(c["c"] for c in pv.chars if c["state"] != "del") + new
        return {"edit": {"new": new, "index": e}, "pi": pv.pi, "expected": exp, "ends_with_deletion": pv.chars[-1]["state"] == "del",
                "res": {k: v for k, v in r.items() if k != "out_bytes"}}
    return None


def oracle_append(res):
    ap = res.get("appended")
    if not ap:
        return []
    r = ap["res"]
    if r["err"]:
        return [f"insertion addressed by offset raised {r['err']}"]
    if (r["applied"], r["skipped"]) != (1, 0):
        return [f"an insertion addressed by the offset at the end of a paragraph was not applied: {(r['applied'], r['skipped'])}"]
    got = editgen.accepted_paragraph_texts(r["out_doc"])
    exp = list(editgen.accepted_paragraph_texts(res["case"]["doc"]))
    exp[ap["pi"]] = ap["expected"]
    if got != exp:
        k = next((j for j, (x, y) in enumerate(zip(got, exp)) if x != y), None)
        return [f"text inserted at offset {ap['edit']['index']} (end of paragraph {ap['pi']}"
                f"{', behind a pending deletion' if ap['ends_with_deletion'] else ''}) is not the end of that paragraph's accepted text: "
                f"paragraph {k} is {got[k] if k is not None and k < len(got) else None!r}, expected {exp[k] if k is not None else None!r}"]
    return engine_oracles.oracle_reversible(res["case"]["doc"], r["out_doc"])[:1]


def oracle_indexed(res):
    ix = res.get("indexed")
    if not ix:
        return []
    r = ix["res"]
    if r["err"]:
        return [f"indexed edit raised {r['err']}"]
    fails = []
    if (r["applied"], r["skipped"]) != (1, 0):
        fails.append(f"an edit addressed by a range of real characters was not applied: {(r['applied'], r['skipped'])}")
        return fails
    got = editgen.accepted_paragraph_texts(r["out_doc"])
    before = editgen.accepted_paragraph_texts(res["case"]["doc"])
    exp = list(before)
    exp[ix["pi"]] = ix["expected"]
    if got != exp:
        k = next((j for j, (x, y) in enumerate(zip(got, exp)) if x != y), None)
        fails.append(f"an edit addressed by the range [{ix['edit']['index']}, +{len(ix['edit']['target'])}) of the extracted text "
                     f"({ix['edit']['target']!r} -> {ix['edit']['new']!r}) did not change exactly those characters: paragraph {k} is "
                     f"{got[k] if k is not None and k < len(got) else None!r}, expected {exp[k] if k is not None else None!r}")
    if not ix.get("in_ins"):
        # (a range inside another reviewer's pending insertion rewrites that insertion: rejecting this run's marks
        # cannot bring the other reviewer's mark back - the exception stated in C01)
        fails.extend(engine_oracles.oracle_reversible(res["case"]["doc"], r["out_doc"])[:1])
    return fails


def oracle(res):
    if res["err"]:
        return [f"raised {res['err']}"]
    fails = []
    for v, m in (("raw", "map_raw"), ("clean", "map_clean")):
        if res.get(m) is not None and res[v] != res[m]:
            a, b = res[v], res[m]
            k = next((j for j in range(min(len(a), len(b))) if a[j] != b[j]), min(len(a), len(b)))
            fails.append(f"{v} view: text read by the client differs from the text indexed by the engine at offset {k}: "
                         f"reader …{a[max(0,k-40):k+40]!r}… engine …{b[max(0,k-40):k+40]!r}…")
    if res.get("spans_ok") is False:
        fails.append("the engine's spans do not partition its text / a real span's text is not in its run")
    fails.extend(oracle_indexed(res))
    fails.extend(oracle_append(res))
    return fails


def driver_line(res):
    return {"op": "extract", "doc": res["case"]["doc"]}


def compare(res, out):
    if "err" in out:
        return [("driver", out["err"])]
    if res["err"]:
        return [("extract/map vs model", f"implementation raised {res['err']}")]
    m = []
    for key, name in (("raw", "extract_text_from_stream(raw) vs Adeu.Doc.extractText"),
                      ("clean", "extract_text_from_stream(clean) vs Adeu.Doc.extractText"),
                      ("map_raw", "DocumentMapper.full_text(raw) vs Adeu.Doc.mapperText"),
                      ("map_clean", "DocumentMapper.full_text(clean) vs Adeu.Doc.mapperText")):
        if res.get(key) is None:
            continue
        a, b = out[key], res[key]
        if a != b:
            k = next((j for j in range(min(len(a), len(b))) if a[j] != b[j]), min(len(a), len(b)))
            m.append((name, f"differs at {k}: model …{a[max(0,k-50):k+60]!r}… implementation …{b[max(0,k-50):k+60]!r}…"))
    return m


def run(tier, seed, driver_ok):
    return doccheck.run_doc_check(
        "C03", tier, seed, driver_ok, n_quick=400, n_thorough=6000,
        profiles=[("default", PROFILES["default"], 2), ("tables", PROFILES["tables"], 1), ("markup", PROFILES["markup"], 1),
                  ("breaks", PROFILES["breaks"], 2)],
        work=work, oracle=oracle, driver_line=driver_line, compare=compare,
        rule="seeded generated documents (three profiles: default, table/empty-block heavy, markup/comment-thread heavy), "
             "both views; non-trivial = distinct document shape",
        assumptions=["revision and comment ids are non-empty strings (an empty w:id is treated as 'no id' by the mapper "
                     "only)", "the mapper's full_text/spans attributes are read from the harness (dropped if absent)"])


def search(res, tier, seed):
    r = run("search" if tier == "quick" else "thorough", seed + 1, False)
    return r["oracle_failures"][:3]


def replay(payload):
    case = payload.get("case") or {}
    if "doc" not in case:
        return {"fails": False, "note": "no input in replay (proof/correspondence break)"}
    r = work({"seed": case.get("seed", 1), "index": case.get("index", 1), "stream": "replay", "doc": case["doc"], "features": []})
    f = oracle(r)
    return {"fails": bool(f), "what": f}
