"""C13 — computed diffs are exact, non-overlapping edit scripts.

Model: Adeu.Diff.editsOfDiffs (lean/AdeuModel/Model/Diff.lean); theorems: Props/C13.lean.
Correspondence: generate_edits_from_text(a, b) vs the model run on the diff list that
diff-match-patch produced for (a, b) (recorded from the real call; contract monitored).
Oracle: the clauses of the property evaluated directly on (a, b, returned edits)."""
from __future__ import annotations

import itertools
import random
import re

from .. import common
from ..pool import pmap

TOKENS = ["a", "b", "ab", " ", "  ", "\n", ".", ",", "\U0001D4B3", "é"]
SPLIT = re.compile(r"(\s+|\w+|[^\w\s])")
OPN = {0: "eq", -1: "del", 1: "ins"}

_rec = {}
_patched = False


def _isword(c):
    return c.isalnum() or c == "_"


def tokens(s, structure=True):
    """The token classes of the diff, written out by hand (independent of the implementation's regular expression):
    a Markdown heading prefix at the start of a line, the table cell separator ' | ', a run of line breaks, a run of
    other whitespace, a word, or a single other character."""
    out, p, n = [], 0, len(s)
    while p < n:
        c = s[p]
        q = p
        if structure and c == "#" and (p == 0 or s[p - 1] == "\n"):
            while q < n and s[q] == "#":
                q += 1
            if q < n and s[q] == " ":
                out.append(s[p:q + 1])
                p = q + 1
                continue
            q = p
        if structure and s.startswith(" | ", p):
            q = p + 3
        elif c == "\n":
            while q < n and s[q] == "\n":
                q += 1
        elif c.isspace():
            while q < n and s[q].isspace() and s[q] != "\n":
                q += 1
        elif _isword(c):
            while q < n and _isword(s[q]):
                q += 1
        else:
            q = p + 1
        out.append(s[p:q])
        p = q
    return out


def _install_recorder():
    global _patched
    if _patched:
        return
    import diff_match_patch as dmpmod

    cls = dmpmod.diff_match_patch
    orig = cls.diff_charsToLines

    def wrapped(self, diffs, line_array):
        try:
            _rec["tok"] = [(op, [line_array[ord(c)] for c in text]) for op, text in diffs]
        except Exception:
            _rec["tok"] = None
        r = orig(self, diffs, line_array)
        _rec["chr"] = [(op, text) for op, text in diffs]
        return r

    cls.diff_charsToLines = wrapped
    _patched = True


def own_diffs(a, b):
    """Fallback source of the diff list when the implementation no longer goes through the recorded call."""
    from diff_match_patch import diff_match_patch

    arr, h = [], {}

    def enc(t):
        out = []
        for tok in tokens(t):
            if tok not in h:
                h[tok] = len(arr)
                arr.append(tok)
            out.append(chr(h[tok]))
        return "".join(out)

    d = diff_match_patch()
    ds = d.diff_main(enc(a), enc(b), False)
    d.diff_cleanupSemantic(ds)
    return [(op, [arr[ord(c)] for c in text]) for op, text in ds]


def impl(pair):
    a, b = pair
    _install_recorder()
    from adeu.diff import generate_edits_from_text

    _rec.clear()
    try:
        edits = generate_edits_from_text(a, b)
        out = [(e._match_start_index, e.target_text, e.new_text) for e in edits]
        err = None
    except Exception as ex:  # the property is about a total function of two texts
        out, err = None, f"{type(ex).__name__}: {ex}"
    tok = _rec.get("tok")
    recorded = tok is not None
    if not recorded:
        try:
            tok = own_diffs(a, b)
        except Exception:
            tok = None
    return {"a": a, "b": b, "edits": out, "err": err, "tok": tok, "recorded": recorded}


def apply_edits(a, edits):
    out, pos = [], 0
    for idx, t, n in edits:
        if idx < pos:
            return None
        out.append(a[pos:idx])
        out.append(n)
        pos = idx + len(t)
    out.append(a[pos:])
    return "".join(out)


def token_blocks(s):
    """set of (start,end) char ranges that are concatenations of contiguous whole tokens (incl. empty)."""
    # the oracle's tokens: words, single punctuation characters, runs of line breaks, runs of other whitespace; the
    # structural tokens of the extracted text (heading prefix '# ' at the start of a line, cell separator ' | ') may
    # take one blank out of a whitespace run, so their boundaries count as well.  A word is never cut.
    bounds = [0]
    for structure in (False, True):
        pos = 0
        for t in tokens(s, structure=structure):
            pos += len(t)
            bounds.append(pos)
    k = s.find(" | ")
    while k >= 0:
        bounds += [k, k + 3]
        k = s.find(" | ", k + 1)
    return set(bounds)


def oracle(case):
    """Returns None if the property's clauses hold on the implementation's output, else a description."""
    a, b, edits = case["a"], case["b"], case["edits"]
    if edits is None:
        return f"raised {case['err']}"
    if a == b and edits:
        return "identical texts gave edits"
    for idx, t, n in edits:
        if not isinstance(idx, int) or idx < 0:
            return f"edit without a position in the first text: {(idx, t, n)!r}"
        if a[idx:idx + len(t)] != t:
            return f"target {t!r} is not the first text at index {idx} (found {a[idx:idx+len(t)]!r})"
    for (i1, t1, _), (i2, t2, _) in zip(edits, edits[1:]):
        if i1 + len(t1) > i2:
            return f"edits overlap or are out of order: [{i1},{i1+len(t1)}) then [{i2},{i2+len(t2)})"
    got = apply_edits(a, edits)
    if got != b:
        return f"replacing targets gives {got!r}, expected the second text {b!r}"
    ba, bb = token_blocks(a), token_blocks(b)
    for idx, t, n in edits:
        ok = False
        # common trailing context c copied unchanged (start-of-document anchor); differing parts whole tokens
        maxc = 0
        while maxc < min(len(t), len(n)) and t[len(t) - 1 - maxc] == n[len(n) - 1 - maxc]:
            maxc += 1
        for c in range(0, maxc + 1):
            blk, blk2 = t[:len(t) - c], n[:len(n) - c]
            if idx in ba and idx + len(blk) in ba:
                # blk' must be a block of b: find it at some token boundary of b
                if blk2 == "" or any(b.startswith(blk2, s) and s + len(blk2) in bb for s in bb):
                    ok = True
                    break
        if not ok:
            return f"edit {(idx, t, n)!r} cuts through a token"
    return None


def contract(case):
    """diff-match-patch contract assumed by the theorems (parameter of the model)."""
    tok = case["tok"]
    if tok is None:
        return "no diff list available"
    src = [t for op, ts in tok if op in (0, -1) for t in ts]
    dst = [t for op, ts in tok if op in (0, 1) for t in ts]
    if src != tokens(case["a"]):
        return "src tokens of the diff list are not the tokens of the first text"
    if dst != tokens(case["b"]):
        return "dst tokens of the diff list are not the tokens of the second text"
    if case["a"] == case["b"] and any(op != 0 for op, _ in tok):
        return "identical texts but non-equal diff entries"
    return None


def driver_line(case):
    return {"op": "diff", "diffs": [{"o": OPN[op], "t": "".join(ts)} for op, ts in case["tok"]]}


def compare(case, out):
    if "err" in out:
        return f"driver error {out['err']}"
    model = [(e["idx"], e["target"], e["new"]) for e in out["edits"]]
    if case["edits"] is None:
        return f"implementation raised {case['err']}, model gives {model!r}"
    if model != [tuple(x) for x in case["edits"]]:
        return f"model {model!r} != implementation {case['edits']!r}"
    return None


def enum_strings(maxlen, toks=None, seen=None, s=None):
    seen = [] if seen is None else seen
    s = set() if s is None else s
    for n in range(maxlen + 1):
        for seq in itertools.product(toks or TOKENS, repeat=n):
            x = "".join(seq)
            if x not in s:
                s.add(x)
                seen.append(x)
    return seen


WORDS = ["alpha", "beta", "Gamma", "delta", "x", "42", "naïve", "\U0001D4B3y", "ét", "snake_case"]
SEPS = [" ", " ", " ", "  ", "\n", "\n\n", ", ", ". ", "\t", "-", " | ", "("]


def rand_text(rng, n):
    parts = []
    for i in range(n):
        parts.append(rng.choice(WORDS))
        parts.append(rng.choice(SEPS))
    if rng.random() < 0.5 and parts:
        parts.pop()
    if rng.random() < 0.15:
        parts.insert(0, rng.choice(SEPS))
    text = "".join(parts)
    if rng.random() < 0.3:
        # Markdown headings at the start of some lines
        text = "\n".join((rng.choice(["# ", "## ", "#", "# # "]) if rng.random() < 0.4 else "") + ln for ln in text.split("\n"))
    return text


def mutate(rng, s):
    toks = tokens(s)
    for _ in range(rng.randint(1, 4)):
        k = rng.random()
        pos = rng.randint(0, len(toks))
        if k < 0.35:
            toks[pos:pos] = [rng.choice(WORDS), rng.choice(SEPS)] if rng.random() < 0.7 else [rng.choice(WORDS)]
        elif k < 0.65 and toks:
            del toks[pos:pos + rng.randint(1, 3)]
        elif toks:
            pos = min(pos, len(toks) - 1)
            toks[pos] = rng.choice(WORDS + SEPS)
    return "".join(toks)


def gen_pairs(tier, seed):
    rng = random.Random(seed * 7919 + 13)
    ex = enum_strings(2)
    if tier != "quick":
        ex = enum_strings(3, TOKENS[:10], ex, set(ex))
    pairs = [(a, b) for a in ex for b in ex]
    nrand = 3000 if tier == "quick" else 60000
    rnd = []
    for _ in range(nrand):
        a = rand_text(rng, rng.randint(0, 14))
        b = mutate(rng, a) if rng.random() < 0.85 else rand_text(rng, rng.randint(0, 14))
        rnd.append((a, b))
    # highly repetitive texts: these make diff-match-patch emit unmerged runs (e.g. two deletions in a row)
    for _ in range(nrand // 2):
        voc = rng.sample(["yes", "no", ".", ",", "a", "bb", "\n"], rng.randint(2, 3))
        sep = rng.choice([" ", " ", ""])
        a = sep.join(rng.choice(voc) for _ in range(rng.randint(3, 12)))
        b = sep.join(rng.choice(voc) for _ in range(rng.randint(2, 10)))
        rnd.append((a, b))
    return pairs, rnd, len(ex)


CORPUS = [
    ("snake_case snake_case | snake_case beta, 42(alpha 42 42 snake_case\tsnake_case, 42 | snake_case-",
     "naïvesnake_case snake_case | snake_case beta\t 42(alpha 42 42snake_case, 42 |deltasnake_case-"),
    ("Hello world", "Hello big world"),
    ("Contract", "Big Contract"),
    ("a b", "x a b"),
    (" a", "b a"),
    ("one two three", "one three"),
    ("", "x"),
    ("x", ""),
    ("aaaaaaaaaaaaaaaaaaaaaaaaaaaaaaaaaaaa", "b aaaaaaaaaaaaaaaaaaaaaaaaaaaaaaaaaaaa"),
]


def known_status():
    out = []
    for k in common.known_findings("C13"):
        w = k.get("witness", {})
        case = impl((w["a"], w["b"]))
        fails = oracle(case)
        out.append({"key": k["key"], "status": k["status"], "what": k["what"], "reproduces": fails is not None,
                    "detail": fails, "case": {"a": w["a"], "b": w["b"]}})
    return out


def run(tier, seed, driver_ok):
    known = known_status()
    ex_pairs, rnd_pairs, nstrings = gen_pairs(tier, seed)
    pairs = CORPUS + ex_pairs + rnd_pairs
    cases = pmap(impl, pairs)
    oracle_failures, mism, contract_breaks = [], [], 0
    nontrivial = set()
    dist = {"identical": 0, "with_edits": 0, "recorded_diffs": 0, "own_diffs": 0, "edits_total": 0,
            "ins": 0, "del": 0, "repl": 0, "start_of_doc_anchor": 0, "max_len": 0}
    comparable = []
    for c in cases:
        f = oracle(c)
        if f:
            oracle_failures.append({"name": "C13 clauses on generate_edits_from_text", "case": {"a": c["a"], "b": c["b"]},
                                    "observed": c["edits"], "what": f})
        dist["max_len"] = max(dist["max_len"], len(c["a"]), len(c["b"]))
        if c["a"] == c["b"]:
            dist["identical"] += 1
        if c["edits"]:
            dist["with_edits"] += 1
            dist["edits_total"] += len(c["edits"])
            nontrivial.add((c["a"], c["b"]))
            for idx, t, n in c["edits"]:
                if not t:
                    dist["ins"] += 1
                elif not n:
                    dist["del"] += 1
                else:
                    dist["repl"] += 1
                    if idx == 0 and n.endswith(t) and len(n) > len(t):
                        dist["start_of_doc_anchor"] += 1
        dist["recorded_diffs" if c["recorded"] else "own_diffs"] += 1
        cb = contract(c)
        if cb:
            contract_breaks += 1
            mism.append({"corr": "diff-match-patch contract (parameter of Adeu.Diff.editsOfDiffs)",
                         "case": {"a": c["a"], "b": c["b"]}, "what": cb})
        else:
            comparable.append(c)
    hyp = {"Normal": 0, "concl_apply": 0, "concl_sorted": 0, "concl_targets_at": 0}
    compared = 0
    if driver_ok:
        got = [tuple(r) for r in common.run_driver([{"op": "isword", "hi": 0x110000}])[0]["ranges"]]
        want, start = [], None
        for cp in range(0x110000):
            w = not (0xD800 <= cp <= 0xDFFF) and _isword(chr(cp))
            if w and start is None:
                start = cp
            if not w and start is not None:
                want.append((start, cp - 1))
                start = None
        if start is not None:
            want.append((start, 0x10FFFF))
        if got != want:
            bad = [x for x in set(got) ^ set(want)][:5]
            mism.append({"corr": "Python \\w table vs Adeu.pyIsWord", "case": {"a": "", "b": ""},
                         "what": f"word tables differ, e.g. {sorted(bad)}"})
        outs = common.run_driver_parallel([driver_line(c) for c in comparable])
        for c, o in zip(comparable, outs):
            compared += 1
            d = compare(c, o)
            if d:
                mism.append({"corr": "generate_edits_from_text vs Adeu.Diff.editsOfRaw",
                             "case": {"a": c["a"], "b": c["b"]}, "what": d})
            if "hyp" in o:
                hyp["Normal"] += bool(o["hyp"]["Normal"])
                hyp["concl_apply"] += bool(o["concl"]["apply"])
                hyp["concl_sorted"] += bool(o["concl"]["sorted"])
                hyp["concl_targets_at"] += bool(o["concl"]["targets_at"])
    samples = [{"a": c["a"], "b": c["b"], "edits": c["edits"]} for c in cases if c["edits"]][:: max(1, len(cases) // 6)][:6]
    return {
        "known": known,
        "evaluations": len(cases),
        "distinct_nontrivial": len(nontrivial),
        "rule": (f"all pairs of the {nstrings} distinct strings made of <= 2 tokens of {TOKENS!r}"
                 + ("" if tier == "quick" else " and <= 3 tokens of its first ten") + " (exhaustive), plus {len(rnd_pairs)} seeded random word-level rewrites and a fixed corpus; "
                 "non-trivial = distinct pair that produced at least one edit"),
        "exhaustive": True,
        "samples": samples or [{"a": cases[0]["a"], "b": cases[0]["b"], "edits": cases[0]["edits"]}],
        "compared": compared,
        "corr_mismatches": mism,
        "oracle_failures": oracle_failures,
        "hypothesis_hits": hyp,
        "input_distribution": dist,
        "assumptions": [
            "diff-match-patch is a parameter of the model: its output satisfies src=first text, dst=second text, "
            "token-wise entries (monitored on every case of this run: "
            f"{contract_breaks} breaks)",
            "the oracle tokenises by hand (words, single punctuation characters, runs of line breaks, runs of other "
            "whitespace); Python's \\w table (all code points) is compared with Adeu.pyIsWord on every run",
        ],
    }


def search(res, tier, seed):
    """Proof or correspondence broke without an oracle failure: widen the search around the mismatching inputs."""
    rng = random.Random(seed + 99)
    seeds = [m["case"] for m in res.get("corr_mismatches", []) if "case" in m][:50]
    pairs = []
    for s in seeds:
        for _ in range(40):
            pairs.append((mutate(rng, s["a"]), mutate(rng, s["b"])))
            pairs.append((s["a"], mutate(rng, s["a"])))
    for _ in range(20000 if tier == "quick" else 200000):
        a = rand_text(rng, rng.randint(0, 20))
        pairs.append((a, mutate(rng, a)))
    found = []
    for c in pmap(impl, pairs):
        f = oracle(c)
        if f:
            found.append({"name": "C13 clauses on generate_edits_from_text", "case": {"a": c["a"], "b": c["b"]},
                          "observed": c["edits"], "what": f})
            if len(found) >= 3:
                break
    return found


def replay(payload):
    case = payload.get("case") or {}
    if "a" not in case:
        return {"fails": False, "note": "replay file carries no input (proof/correspondence break): " +
                json_short(payload.get("no_longer_checks"))}
    c = impl((case["a"], case["b"]))
    f = oracle(c)
    return {"fails": f is not None, "what": f, "edits": c["edits"], "case": case}


def json_short(x):
    import json

    return json.dumps(x, default=str)[:600]
