"""C16 — inserted text blends in: context formatting inherited, Markdown rendered.

Model: Adeu.Doc.insRuns / applyRunProps / lineParas inside applyIndexed; theorems: Props/C16.lean.
Correspondence: single edits addressed by offset vs the model (whole document, run properties included).
Oracle: run properties (font, size, colour, style) of every inserted run equal those of an original neighbour in the
same paragraph; well-formed **bold** / _italic_ spans are rendered, their markers do not appear; text without spans
is inserted literally; '# ' lines become heading paragraphs."""
from __future__ import annotations

import random

from .. import canon_session, doccheck, editgen, engine_oracles, engine_run, gen, ooxml, sem

PROFILE = {"vmerge": 0.0, "point_comment": 0.0, "hyperlink": 0.0, "fmt": 0.85, "split_identical": 0.4, "runs": (2, 6)}
PROFILES = {"default": PROFILE, "localized": PROFILE}
KINDS = ["replace", "literal", "literal", "markdown", "markdown", "extend", "prefix", "multiline", "heading"]
LITERALS = ["[___] fee", "snake_case_name", "2*3*4", "a_b", "__init__", "**", "f(x) = y_1", "#1 priority", "#hashtag", "_ lone",
            "x ** y ** z", "50% *net*", "__", "a * b * c", "_x", "x_"]
MARKDOWN = ["**Bold** plain", "plain _it_", "**B1** and _i2_", "_it_", "**a b** c **d**", "**_both_** x", "pre **mid** post"]


def gen_para_start_prefix(rng, doc, texts):
    """an inline word put in front of the first words of a paragraph that follows another paragraph / table cell (the run in
    front of the offset then belongs to the previous paragraph); -> list with 0 or 1 edit"""
    word = editgen.WordSource(rng)
    pvs = [editgen.ParaView(si, pi, p) for pi, (si, p) in enumerate(sem.all_paragraphs(doc))]
    cands = [pv for k, pv in enumerate(pvs) if k > 0 and pvs[k - 1].si == pv.si and pvs[k - 1].acc]
    rng.shuffle(cands)
    for pv in cands[:6]:
        acc = pv.acc
        b = 0
        while b < len(acc) and b < 14 and (acc[b]["c"] != " " or b < 3):
            b += 1
        seg = acc[:b]
        if not seg or not editgen.stretch_ok(seg) or seg[0]["state"] != "plain":
            continue
        target = "".join(c["c"] for c in seg)
        if not target.strip() or target != target.strip():
            continue
        if editgen.count_occ(texts["clean"], target) != 1 or editgen.count_occ(texts["raw"], target) != 1 or editgen.annot_hit(texts, target):
            continue
        if editgen.count_occ(editgen.fuzzy_norm(texts["clean"]), editgen.fuzzy_norm(target)) != 1:
            continue
        return [{"si": pv.si, "pi": pv.pi, "a": 0, "b": b, "target": target, "new": rng.choice([word() + " ", "(" + word() + ")", word() + "-", word() + " "]) + target, "kind": "prefix", "comment": None,
                 "locatable": True, "in_raw": True, "over_del": False, "state": "plain", "rid": None, "at_para_start": True}]
    return []


def work(case):
    if "doc" not in case:
        doc, feats, rng = gen.gen_document(case["seed"], case["index"], PROFILES[case["profile"]])
        if case.get("stream") == "localized":
            # the built-in heading styles under localised ids (name 'heading 1', id 'Titre1')
            doc["styles_variant"] = "localized"
            feats = sorted(set(feats) | {"localized_style_ids"})
        case = dict(case, doc=doc, features=feats)
    else:
        rng = random.Random(case.get("index", 0))
    data = ooxml.write_docx(case["doc"])
    texts = engine_run.texts_of(data)
    edits = case.get("edits")
    if edits is None:
        edits = editgen.gen_para_end_extend(rng, case["doc"], texts) if rng.random() < 0.2 else []
        if not edits and rng.random() < 0.2:
            edits = gen_para_start_prefix(rng, case["doc"], texts)
        edits = edits or editgen.gen_batch(rng, case["doc"], texts, 1, ["heading", "heading", "multiline", "replace"]
                                           if case.get("stream") == "localized" else KINDS)
        for e in edits:
            e["locatable"] = True
            if e["kind"] == "literal":
                e["new"] = rng.choice(LITERALS)
            elif e["kind"] == "markdown":
                e["new"] = rng.choice(MARKDOWN)
    r = engine_run.run_edits(data, edits)
    style_fails = []
    if r.get("out_bytes"):
        dangling = set(ooxml.undefined_paragraph_styles(r["out_bytes"])) - set(ooxml.undefined_paragraph_styles(data))
        if dangling and case["doc"].get("styles_variant") != "no_headings":
            style_fails.append(f"a paragraph created by the session refers to style id(s) {sorted(dangling)} that the document does not "
                               "define although it defines the built-in heading styles: it is not heading-styled")
    ix = [dict(e, index=texts["raw"].find(e["target"])) for e in edits if e.get("in_raw")]
    rix = engine_run.run_edits(data, ix) if ix else None
    strip = lambda x: {k: v for k, v in x.items() if k != "out_bytes"}
    case = dict(case, edits=edits)
    return {"case": case, "res": strip(r), "indexed": {"edits": ix, "res": strip(rix)} if rix else None,
            "heur": {"edits": edits, "res": strip(r)}, "style_fails": style_fails,
            "sample": {"edits": [(e["target"], e["new"], e["kind"]) for e in edits]}}


def oracle(res):
    r = res["res"]
    edits = res["case"]["edits"]
    if not edits:
        return []
    if r["err"]:
        return [f"apply_edits raised {r['err']}"]
    if (r["applied"], r["skipped"]) != (1, 0):
        return []
    return engine_oracles.oracle_formatting(res["case"]["doc"], edits[0], r) + res.get("style_fails", [])


def driver_line(res):
    ix = res.get("indexed")
    if not ix:
        return {"op": "ping"}
    return {"op": "apply_indexed", "doc": res["case"]["doc"], "author": engine_oracles.SESSION_AUTHOR,
            "edits": [{"index": e["index"], "target": e["target"], "new": e["new"], "comment": e.get("comment")} for e in ix["edits"]]}


def compare(res, out):
    ix = res.get("indexed")
    if not ix:
        return []
    name = "apply_edits(indexed) vs Adeu.Doc.applyEditsIndexed (run properties of inserted runs)"
    if "err" in out:
        return [("driver", out["err"])]
    r = ix["res"]
    if r["err"]:
        return [(name, f"implementation raised {r['err']}")]
    if (out["applied"], out["skipped"]) != (r["applied"], r["skipped"]):
        return [(name, f"counts: model {(out['applied'], out['skipped'])} implementation {(r['applied'], r['skipped'])}")]
    d = canon_session.diff_docs(out["doc"], canon_session.canon_out(r["out_doc"], res["case"]["doc"], engine_oracles.SESSION_AUTHOR))
    return [(name, d)] if d else []


def nontrivial(res):
    return bool(res["case"]["edits"])


def run(tier, seed, driver_ok):
    return doccheck.run_doc_check(
        "C16", tier, seed, driver_ok, n_quick=420, n_thorough=6000,
        profiles=[("default", PROFILES["default"], 5), ("localized", PROFILES["default"], 1)],
        work=work, oracle=oracle, driver_line=driver_line, compare=compare, nontrivial=nontrivial,
        rule="seeded generated documents with varied run formatting x one edit at a random position (relative to "
             "formatting boundaries) x new text with none / one / several well-formed spans, heading lines, multi-line "
             "text and literal punctuation ([___], snake_case, 2*3*4, #hashtag, ...); non-trivial = distinct case with an edit",
        assumptions=["'well-formed span' = **x** / _x_ with non-empty content that neither starts nor ends with white space; "
                     "an italic underscore touches no word character or underscore on its outer side (written next to the "
                     "theorem in Props/C16.lean)"])


def search(res, tier, seed):
    r = run("search" if tier == "quick" else "thorough", seed + 1, False)
    return r["oracle_failures"][:3]


def replay(payload):
    case = payload.get("case") or {}
    if "doc" not in case:
        return {"fails": False, "note": "no input in replay (proof/correspondence break)"}
    r = work({"seed": -1, "index": case.get("index", 0), "stream": "replay", "doc": case["doc"], "features": [],
              "edits": case.get("edits")})
    f = oracle(r)
    return {"fails": bool(f), "what": f}
