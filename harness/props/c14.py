"""C14 — the CriticMarkup preview is faithful to the text and to the edits.

Model: Adeu.Markup.previewStr / previewSegs (lean/AdeuModel/Model/Markup.lean); theorems: Props/C14.lean.
Correspondence: apply_edits_to_markdown(text, edits, include_index, highlight_only) vs the model's string; the span of
the fuzzy regular expression is the model's parameter and is recorded per edit from the real `_make_fuzzy_regex`.
Oracle: the clauses of the property on the real output, read with an independent CriticMarkup parser."""
from __future__ import annotations

import itertools
import random
import re

from .. import common, sem
from ..pool import pmap

ALPHA = ["foo", "bar", " ", "\n", "**", "_", "__", "- ", "\"", "“", "[___]", "."]
ALPHA_T = ALPHA + ["*", "”", "Term", "snake_case", "1. ", "'", "’", "  "]
NEWS = ["", "X", "**X**", "_X y_", "foo"]
ARB_TARGETS = ["__", "**", "foo bar", "**foo**", "_bar_", "\"foo\"", "foo\nbar", "zzz", "*", "_"]
EDIT_RE = re.compile(r"\[Edit:(\d+)\]$")   # the displayed index closes the metadata block (a comment may quote another)


# ---------------------------------------------------------------------------------------------- implementation
def fuzzy_span(text, target):
    from adeu.markup import _make_fuzzy_regex

    try:
        m = re.search(_make_fuzzy_regex(target), text)
    except re.error:
        return None
    return [m.start(), m.end()] if m else None


def impl(case):
    from adeu.markup import apply_edits_to_markdown
    from adeu.models import DocumentEdit

    text, edits, inc, hl = case["text"], case["edits"], case["include_index"], case["highlight_only"]
    des = [DocumentEdit(target_text=t, new_text=n, comment=(c or None)) for t, n, c in edits]
    out = dict(case)
    try:
        out["out"] = apply_edits_to_markdown(text, des, include_index=inc, highlight_only=hl)
        out["err"] = None
    except Exception as e:  # noqa
        out["out"], out["err"] = None, f"{type(e).__name__}: {e}"
    out["fz"] = [fuzzy_span(text, t) if t else None for t, _, _ in edits]
    # metamorphic partner for the no-trace clause: the same call without the edits that cannot match
    dead = [i for i, (t, _, _) in enumerate(edits) if cannot_match(text, t)]
    out["dead"] = dead
    if dead and not inc and out["err"] is None:
        try:
            out["out_without_dead"] = apply_edits_to_markdown(
                text, [d for i, d in enumerate(des) if i not in dead], include_index=inc, highlight_only=hl)
        except Exception as e:  # noqa
            out["out_without_dead"] = f"raised {type(e).__name__}: {e}"
    return out


# ---------------------------------------------------------------------------------------------- oracle
def cannot_match(text, target):
    """independent sufficient criterion: the target is empty, or contains a letter/digit word that is nowhere in the
    text (every matching stage needs the words of the target literally)."""
    if not target:
        return True
    return any(w not in text for w in re.findall(r"[A-Za-z0-9]+", target))


def occurrences(text, target):
    return [m.start() for m in re.finditer("(?=" + re.escape(target) + ")", text)] if target else []


def exact_list(text, edits):
    """exact, unique, non-overlapping targets whose formatting markers are balanced (so that the matched range is the
    occurrence itself): -> list of (start, end) or None"""
    spans = []
    for t, _, _ in edits:
        occ = occurrences(text, t)
        if len(occ) != 1:
            return None
        if any(t.count(m) % 2 for m in ("**", "__", "_", "*")):
            return None
        spans.append((occ[0], occ[0] + len(t)))
    ss = sorted(spans)
    if any(a[1] > b[0] for a, b in zip(ss, ss[1:])):
        return None
    return spans


def oracle(c):
    text, edits, out = c["text"], c["edits"], c["out"]
    if c["err"]:
        return f"raised {c['err']}"
    try:
        segs = sem.parse_critic(out)
    except sem.CriticError as e:
        return f"suggestion blocks unbalanced / nested / cut: {e}"
    if sem.critic_reject(segs) != text:
        return f"reject view {sem.critic_reject(segs)!r} is not the input text"
    kinds = [k for k, _ in segs]
    if c["highlight_only"] and any(k in ("ins", "del") for k in kinds):
        return "highlight-only mode produced an insertion / deletion block"
    if c["highlight_only"] and sem.critic_accept(segs) != text:
        return "highlight-only mode changed the text"
    if "out_without_dead" in c and c["out_without_dead"] != out:
        return (f"an edit that cannot match left a trace: with it {out!r}, without it {c['out_without_dead']!r} "
                f"(dead edits {c['dead']})")
    if all(i in c["dead"] for i in range(len(edits))) and out != text:
        return f"no edit can match, but the preview differs from the text: {out!r}"
    shown = [int(x) for k, t in segs if k == "meta" for x in EDIT_RE.findall(t)]
    if c["include_index"]:
        if len(shown) != len(set(shown)):
            return f"an edit index is displayed twice: {shown}"
        for i in shown:
            if i >= len(edits) or i in c["dead"]:
                return f"displayed index {i} is not the position of an edit that can match"
    elif any(k == "meta" and t not in [cm for _, _, cm in edits] for k, t in segs):
        return "metadata other than the edits' comments displayed although indexes were not requested"
    spans = exact_list(text, edits)
    if spans is not None:
        n_sugg = sum(1 for k in kinds if k == ("hl" if c["highlight_only"] else "del"))
        if n_sugg != len(edits):
            return f"{len(edits)} exact, unique, non-overlapping edits but {n_sugg} suggestions in {out!r}"
        if not c["highlight_only"]:
            exp, pos = [], 0
            for (a, b), (_, n, _) in sorted(zip(spans, edits)):
                exp.append(text[pos:a])
                exp.append(n)
                pos = b
            exp.append(text[pos:])
            if sem.critic_accept(segs) != "".join(exp):
                return f"accept view {sem.critic_accept(segs)!r} != text with targets replaced {''.join(exp)!r}"
        if c["include_index"]:
            # the index shown after a suggestion is the position of the edit whose target it marks
            last = None
            for k, t in segs:
                if k in ("del", "hl"):
                    last = t
                elif k == "meta" and last is not None:
                    for x in EDIT_RE.findall(t):
                        tgt = edits[int(x)][0]
                        if last not in tgt:
                            return f"[Edit:{x}] is shown next to {last!r}, but edit {x} targets {tgt!r}"
                    last = None
            if sorted(shown) != list(range(len(edits))):
                return f"indexes shown {shown} for {len(edits)} exact edits"
    return None


# ---------------------------------------------------------------------------------------------- model
def driver_line(c):
    return {"op": "preview", "text": c["text"], "include_index": c["include_index"], "highlight_only": c["highlight_only"],
            "edits": [{"target": t, "new": n, "comment": cm or "", "fz": fz} for (t, n, cm), fz in zip(c["edits"], c["fz"])]}


def compare(c, o):
    if "err" in o:
        return f"driver error {o['err']}"
    if c["err"]:
        return f"implementation raised {c['err']}, model gives {o['out']!r}"
    if o["out"] != c["out"]:
        return f"model {o['out']!r} != implementation {c['out']!r}"
    if o["render"] != o["out"]:
        return f"model: render(previewSegs) {o['render']!r} != previewStr {o['out']!r}"
    # the model's reader (Adeu.Markup.parse) against the harness' independent parser, on the real output
    try:
        segs = sem.parse_critic(c["out"])
        mine = (sem.critic_reject(segs), sem.critic_accept(segs))
    except sem.CriticError:
        mine = (None, None)
    if (o.get("read_reject"), o.get("read_accept")) != mine and mine[0] is not None:
        return f"readers differ on {c['out']!r}: model {(o.get('read_reject'), o.get('read_accept'))!r}, harness parser {mine!r}"
    return None


# ---------------------------------------------------------------------------------------------- generation
def substrings(toks):
    out = []
    for i in range(len(toks)):
        for j in range(i + 1, len(toks) + 1):
            s = "".join(toks[i:j])
            if s.strip() and s not in out:
                out.append(s)
    return out


def gen_exhaustive(tier):
    n = 3
    alpha = ALPHA if tier != "quick" else ALPHA[:10]
    seen, cases = set(), []
    for k in range(1, n + 1):
        for seq in itertools.product(alpha, repeat=k):
            text = "".join(seq)
            if text in seen:
                continue
            seen.add(text)
            targets = substrings(list(seq))[:6] + ARB_TARGETS[:4]
            for t in targets:
                for new in (NEWS[:3] if tier == "quick" else NEWS):
                    for hl in ((False,) if new else (False, True)):
                        cases.append({"text": text, "edits": [(t, new, "")], "include_index": False, "highlight_only": hl})
            # two edits: first an arbitrary target, then a substring (interference)
            subs = substrings(list(seq))
            for t1 in ARB_TARGETS[:3] + subs[:2] + [""]:
                for t2 in subs[:3]:
                    cases.append({"text": text, "edits": [(t1, "X", ""), (t2, "Q", "c")], "include_index": True,
                                  "highlight_only": False})
    return cases, len(seen)


WORDS = ["alpha", "beta", "Gamma", "delta", "Term", "the", "party", "x", "42", "naïve", "snake_case", "[___]", "Seller"]


def rand_text(rng):
    parts = []
    for _ in range(rng.randint(1, 5)):
        line = []
        if rng.random() < 0.25:
            line.append(rng.choice(["- ", "* ", "1. ", "  - ", "> ", "# "]))
        for _ in range(rng.randint(1, 6)):
            w = " ".join(rng.choice(WORDS) for _ in range(rng.randint(1, 3)))
            r = rng.random()
            if r < 0.15:
                w = "**" + w + "**"
            elif r < 0.27:
                w = "_" + w + "_"
            elif r < 0.32:
                w = "\"" + w + "\""
            elif r < 0.36:
                w = "“" + w + "”"
            elif r < 0.38:
                w = "__" + w + "__"
            elif r < 0.40:
                w = "**_" + w + "_**"
            line.append(w)
            line.append(rng.choice([" ", " ", " ", ", ", ". ", "  ", ": ", ""]))
        parts.append("".join(line).rstrip(" ") if rng.random() < 0.7 else "".join(line))
    return rng.choice(["\n", "\n\n", "\n"]).join(parts)


def rand_target(rng, text):
    r = rng.random()
    toks = [t for t in re.split(r"(\s+|\*\*|__|[_*\"“”.,:])", text) if t]
    if not toks:
        return "x"
    i = rng.randrange(len(toks))
    j = min(len(toks), i + rng.randint(1, 6))
    t = "".join(toks[i:j])
    if r < 0.45:
        return t.strip() or t
    if r < 0.6:      # markers dropped / added: the fuzzy stage
        return t.replace("**", "").replace("_", "").strip() or "x"
    if r < 0.7:      # quote style changed
        return t.replace("\"", "“", 1).replace("“", "\"").strip() or "x"
    if r < 0.8:      # whitespace changed
        return re.sub(r"\s+", lambda m: rng.choice([" ", "  ", "\n"]), t).strip() or "x"
    if r < 0.9:
        return rng.choice(ARB_TARGETS)
    return rng.choice(WORDS) + " " + rng.choice(WORDS)


def gen_random(tier, seed):
    rng = random.Random(seed * 104729 + 14)
    n = 6000 if tier == "quick" else 120000
    cases = []
    for _ in range(n):
        text = rand_text(rng)
        k = rng.randint(1, 3)
        edits = []
        for _ in range(k):
            t = rand_target(rng, text) if rng.random() > 0.06 else ""
            new = rng.choice(["", "X", "revised", "**X**", "_it_", t.upper(), "two words", "a\nb", "__init__", "“q”"])
            edits.append((t, new, rng.choice(["", "", "why", "see [Edit:9]"]) if rng.random() < 0.5 else ""))
        cases.append({"text": text, "edits": edits, "include_index": rng.random() < 0.5, "highlight_only": rng.random() < 0.25})
    return cases


CORPUS = [
    {"text": "a_b c", "edits": [("__", "X", ""), ("b c", "Q", "")], "include_index": False, "highlight_only": False},
    {"text": "a_b c", "edits": [("__", "X", "")], "include_index": False, "highlight_only": False},
    {"text": "A **Term** here", "edits": [("**Term**", "Name", "")], "include_index": False, "highlight_only": False},
    {"text": "A **Term** here", "edits": [("**Term**", "", "")], "include_index": True, "highlight_only": False},
    {"text": "The **quick brown fox** jumped.", "edits": [("quick brown fox", "slow red dog", "")], "include_index": False,
     "highlight_only": False},
]


def known_status():
    out = []
    for k in common.known_findings("C14"):
        w = k.get("witness")
        if not w:
            continue
        c = impl({"text": w["text"], "edits": [tuple(e) for e in w["edits"]], "include_index": w.get("include_index", False),
                  "highlight_only": w.get("highlight_only", False)})
        f = oracle(c)
        out.append({"key": k["key"], "status": k["status"], "what": k["what"], "reproduces": f is not None, "detail": f,
                    "case": {kk: w[kk] for kk in w}})
    return out


def classify(c):
    return None


def light(c):
    return {k: c[k] for k in ("text", "edits", "include_index", "highlight_only")}


def run(tier, seed, driver_ok):
    known = known_status()
    open_keys = {k["key"] for k in common.known_findings("C14") if k["status"] == "open"}
    ex, ntexts = gen_exhaustive(tier)
    rnd = gen_random(tier, seed)
    cases = pmap(impl, CORPUS + ex + rnd, chunksize=256)
    oracle_failures, mism = [], []
    dist = {"single_edit": 0, "multi_edit": 0, "highlight_only": 0, "with_index": 0, "changed": 0, "exact_lists": 0,
            "with_dead_edit": 0, "fuzzy_span_present": 0, "unchanged": 0, "max_text": 0}
    ood = {}
    nontrivial = set()
    for c in cases:
        f = oracle(c)
        key = classify(c) if f else None
        if f and key in open_keys:
            d = ood.setdefault(key, {"cases": 0, "failing": 0})
            d["cases"] += 1
            d["failing"] += 1
        elif f:
            oracle_failures.append({"name": "C14 clauses on apply_edits_to_markdown", "case": light(c), "observed": c["out"],
                                    "what": f})
        dist["single_edit" if len(c["edits"]) == 1 else "multi_edit"] += 1
        dist["highlight_only"] += c["highlight_only"]
        dist["with_index"] += c["include_index"]
        dist["changed" if c["out"] != c["text"] else "unchanged"] += 1
        dist["exact_lists"] += exact_list(c["text"], c["edits"]) is not None
        dist["with_dead_edit"] += bool(c["dead"])
        dist["fuzzy_span_present"] += any(x is not None for x in c["fz"])
        dist["max_text"] = max(dist["max_text"], len(c["text"]))
        if c["out"] != c["text"]:
            nontrivial.add((c["text"], repr(c["edits"]), c["include_index"], c["highlight_only"]))
    compared = 0
    hyp = {"reject_is_text": 0, "kept_some": 0}
    if driver_ok:
        outs = common.run_driver_parallel([driver_line(c) for c in cases])
        for c, o in zip(cases, outs):
            compared += 1
            d = compare(c, o)
            if any(z is not None and not (0 <= z[0] <= z[1] <= len(c["text"])) for z in c["fz"]):
                d = "contract: a recorded fuzzy span is out of bounds " + repr(c["fz"])
            if d:
                mism.append({"corr": "apply_edits_to_markdown vs Adeu.Markup.previewStr", "case": light(c), "what": d})
            if "reject" in o:
                hyp["reject_is_text"] += o["reject"] == c["text"]
                hyp["kept_some"] += bool(o["kept"])
    samples = [{"text": c["text"], "edits": c["edits"], "out": c["out"]} for c in cases if c["out"] != c["text"]]
    samples = samples[:: max(1, len(samples) // 6)][:6]
    return {
        "known": known,
        "evaluations": len(cases),
        "distinct_nontrivial": len(nontrivial),
        "rule": (f"all {ntexts} distinct texts of <= 3 tokens of {ALPHA if tier != 'quick' else ALPHA[:10]!r} x (every token "
                 f"substring and fixed arbitrary targets) x new texts {NEWS!r} x modes, single edits and interfering pairs "
                 f"(exhaustive); plus {len(rnd)} seeded random Markdown texts with 1..3 edits (exact, marker-less, re-quoted, "
                 "re-spaced, arbitrary targets) and a fixed corpus; non-trivial = preview differs from the text"),
        "exhaustive": True,
        "samples": samples or [{"text": cases[0]["text"], "edits": cases[0]["edits"], "out": cases[0]["out"]}],
        "compared": compared,
        "corr_mismatches": mism,
        "oracle_failures": oracle_failures,
        "hypothesis_hits": hyp,
        "input_distribution": dist,
        "out_of_domain": ood,
        "assumptions": [
            "the span of the fuzzy regular expression (re.search(_make_fuzzy_regex(target), text)) is a parameter of the "
            "model, recorded from the real function for every edit of every case",
            "texts, targets and comments of the generated cases contain no CriticMarkup delimiter (the reader of the "
            "oracle is only defined for those)",
        ],
    }


def search(res, tier, seed):
    found = []
    for c in pmap(impl, gen_random("quick", seed + 1) + gen_random("quick", seed + 2), chunksize=256):
        f = oracle(c)
        if f and classify(c) is None:
            found.append({"name": "C14 clauses on apply_edits_to_markdown", "case": light(c), "observed": c["out"], "what": f})
            if len(found) >= 3:
                break
    return found


def replay(payload):
    case = payload.get("case") or {}
    if "text" not in case:
        import json

        return {"fails": False, "note": "replay file carries no input (proof/correspondence break): " +
                json.dumps(payload.get("no_longer_checks"), default=str)[:600]}
    c = impl({"text": case["text"], "edits": [tuple(e) for e in case["edits"]], "include_index": case["include_index"],
              "highlight_only": case["highlight_only"]})
    f = oracle(c)
    return {"fails": f is not None, "what": f, "out": c["out"], "case": case}
