"""C08 — edit accounting is honest and skipped edits leave no trace.

Oracle: never raises; applied + skipped == submitted; not-found / empty-target edits skipped; all skipped => canonical
content unchanged; otherwise the accepted paragraphs equal the input with some pairwise non-overlapping subset of the
locatable edits applied whose size is the applied count (exhaustive subset search, batches <= 8); no revision mark
nested in another, deleted-text elements only inside deletions."""
from __future__ import annotations

import random

from .. import canon_session, doccheck, editgen, engine_oracles, engine_run, gen, ooxml, sem

PROFILE = {"hyperlink": 0.0, "vmerge": 0.0, "point_comment": 0.0}
PROFILES = {"default": PROFILE, "odd": PROFILE, "redlined": dict(PROFILE, **{"del": 0.3}, subst=0.2, ins=0.15, table=0.3, split_identical=0.4),
            # long paragraphs full of pending deletions: conflicting edits that are found only in the accepted view
            "bridges": dict(PROFILE, **{"del": 0.45, "blocks": (1, 2), "runs": (6, 10)}, ins=0.0, subst=0.05, table=0.0, comment=0.0,
                            split_identical=0.15, fmt=0.2, header=0.0, footer=0.0)}

ODD = ["tab\tinside", "nl\nx", "quote\"'<>&", "emoji \U0001F600", "{++fake++}", "{>>x<<}", "**", "_", " nbsp", "x" * 300]


def work(case):
    if "doc" not in case:
        doc, feats, rng = gen.gen_document(case["seed"], case["index"], PROFILES[case["profile"]])
        case = dict(case, doc=doc, features=feats)
    else:
        rng = random.Random(case.get("index", 0))
    data = ooxml.write_docx(case["doc"])
    texts = engine_run.texts_of(data)
    edits = case.get("edits")
    if edits is None:
        edits = editgen.gen_mixed_batch(rng, case["doc"], texts, 3 if case.get("stream") == "bridges" else rng.randint(1, 3),
                                        comment_p=0.1, conflicts=True)
        if case.get("stream") == "redlined" and rng.random() < 0.4:
            # an edit on text inside another reviewer's pending insertion (replace / delete, also the whole insertion)
            x = editgen.gen_whole_ins_edit(rng, case["doc"], texts) if rng.random() < 0.6 else \
                editgen.gen_batch(rng, case["doc"], texts, 1, ["delete", "replace"], states=("ins",))
            for e in x:
                e["locatable"] = True
            edits += [e for e in x if not any(e["pi"] == y.get("pi") for y in edits)]
        if case.get("stream") == "redlined" and rng.random() < 0.5:
            # a target that crosses the boundary of another reviewer's pending insertion
            edits += [e for e in editgen.gen_cross_ins_any(rng, case["doc"], texts) if not any(e["pi"] == y.get("pi") for y in edits)]
        if case.get("stream") == "odd":
            # malformed / unusual stream: XML-compatible odd characters as not-found targets and as new text
            for _ in range(rng.randint(1, 3)):
                edits.append({"target": rng.choice(ODD) + "Qzx", "new": rng.choice(ODD), "kind": "odd_not_found", "comment": rng.choice([None, rng.choice(ODD)]),
                              "locatable": False, "pi": -1, "a": -1, "b": -1})
            if rng.random() < 0.5:
                # pure Markdown syntax that is not in the document text
                t = rng.choice(["#", "## ", "###", "# "])
                if t not in texts["raw"]:
                    edits.append({"target": t, "new": "Qzx heading", "kind": "odd_not_found", "comment": None, "locatable": False, "pi": -1, "a": -1, "b": -1})
        edits = edits[:8]
    r = engine_run.run_edits(data, edits)
    # the locatable edits addressed by offset (conflicts included): the overlap filter of the indexed path
    ix = [dict(e, index=texts["raw"].find(e["target"])) for e in edits if e.get("locatable") and e.get("in_raw")]
    rix = engine_run.run_edits(data, ix) if ix else None
    case = dict(case, edits=edits)
    return {"case": case, "res": {k: v for k, v in r.items() if k != "out_bytes"},
            "indexed": {"edits": ix, "res": {k: v for k, v in rix.items() if k != "out_bytes"}} if rix else None,
            "heur": {"edits": edits, "res": {k: v for k, v in r.items() if k != "out_bytes"}},
            "sample": {"edits": [(e["target"][:30], e["new"][:30], e["kind"]) for e in edits]}}


def oracle(res):
    fails = engine_oracles.oracle_accounting(res["case"]["doc"], res["case"]["edits"], res["res"])
    ix = res.get("indexed")
    if ix:
        # the same locatable edits submitted with their offsets (what the diff workflow produces): same contract
        fails += ["batch addressed by offset: " + f for f in engine_oracles.oracle_accounting(res["case"]["doc"], ix["edits"], ix["res"])]
    return fails


def driver_line(res):
    ix = res.get("indexed")
    if not ix:
        return {"op": "ping"}
    return {"op": "apply_indexed", "doc": res["case"]["doc"], "author": engine_oracles.SESSION_AUTHOR,
            "edits": [{"index": e["index"], "target": e["target"], "new": e["new"], "comment": e.get("comment")} for e in ix["edits"]]}


def compare(res, out):
    ix = res.get("indexed")
    if not ix:
        return []
    name = "apply_edits(indexed, conflicting) vs Adeu.Doc.applyEditsIndexed"
    if "err" in out:
        return [("driver", out["err"])]
    r = ix["res"]
    if r["err"]:
        return [(name, f"implementation raised {r['err']}")]
    if (out["applied"], out["skipped"]) != (r["applied"], r["skipped"]):
        return [(name, f"counts: model {(out['applied'], out['skipped'])} implementation {(r['applied'], r['skipped'])}")]
    d = canon_session.diff_docs(out["doc"], canon_session.canon_out(r["out_doc"], res["case"]["doc"], engine_oracles.SESSION_AUTHOR))
    return [(name, d)] if d else []


def classify(res):
    """Domain of the open finding F-fuzzy-after-conflict: two edits of the batch overlap and one of the targets has
    leading / trailing / repeated whitespace, so that after the other one is applied the whitespace-tolerant matcher
    can still find a shorter variant of it."""
    es = [e for e in res["case"]["edits"] if e.get("locatable")]
    for i, x in enumerate(es):
        for y in es[i + 1:]:
            if x["pi"] == y["pi"] and x["a"] < y["b"] and y["a"] < x["b"]:
                for t in (x["target"], y["target"]):
                    if t != " ".join(t.split()):
                        return "F-fuzzy-after-conflict"
    return None


def nontrivial(res):
    kinds = {e["kind"] for e in res["case"]["edits"]}
    return len(res["case"]["edits"]) >= 2 and bool(kinds & {"dup", "in_deleted", "not_found", "empty_target", "odd_not_found"} or len(kinds) > 1)


def run(tier, seed, driver_ok):
    return doccheck.run_doc_check(
        "C08", tier, seed, driver_ok, n_quick=450, n_thorough=8000,
        profiles=[("default", PROFILES["default"], 2), ("redlined", PROFILES["redlined"], 2), ("odd", PROFILES["default"], 1),
                  ("bridges", PROFILES["bridges"], 2)],
        work=work, oracle=oracle, classify=classify, driver_line=driver_line, compare=compare, nontrivial=nontrivial,
        rule="seeded generated documents x batches mixing locatable edits with duplicate, overlapping, nested, "
             "inside-deleted-text, not-found, empty-target edits (shuffled), plus a stream with XML-compatible odd "
             "characters; non-trivial = distinct batch with >= 2 edits of which at least one conflicts or is unlocatable",
        assumptions=["'never raises' is observed on every executed case (runtime), not proved: the Lean model is total by construction",
                     "conflict subsets are searched exhaustively over the locatable edits of the batch (<= 8 edits)"])


def search(res, tier, seed):
    r = run("search" if tier == "quick" else "thorough", seed + 1, False)
    return r["oracle_failures"][:3]


def replay(payload):
    case = payload.get("case") or {}
    if "doc" not in case:
        return {"fails": False, "note": "no input in replay (proof/correspondence break)"}
    r = work({"seed": -1, "index": case.get("index", 0), "stream": "replay", "doc": case["doc"], "features": [],
              "edits": case.get("edits")})
    f = oracle(r)
    return {"fails": bool(f), "what": f}
