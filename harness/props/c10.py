"""C10 — comments requested with an edit or a reply are never lost or misattached.

Model: Adeu.Doc.applyEditsIndexed / Sess.applyActions (comments store, anchors); theorems: Props/C10.lean.
Correspondence: (a) commented edits addressed by offset vs model, (b) REPLY actions vs model — whole documents incl.
comments parts.  Oracle: every applied commented edit => exactly one new comment with that text and the session's
author, anchored on marks of that edit and shown with them in the raw view; replies threaded under the thread and
shown with it; reply to unknown comment skipped; existing comments untouched."""
from __future__ import annotations

import io
import random

from .. import canon_session, doccheck, editgen, engine_oracles, engine_run, gen, ooxml, sem

PROFILE = {"vmerge": 0.0, "point_comment": 0.0, "hyperlink": 0.0, "comment": 0.3, "reply": 0.5, "overlap_comment": 0.05,
           "shuffle_comments": 0.35, "comment_id_gap": 0.3}
PROFILES = {"default": PROFILE, "threads": dict(PROFILE, comment=0.5, reply=0.7, blocks=(1, 4))}
KINDS = ["replace", "replace", "delete", "delete", "extend", "prefix", "shared", "multiline", "heading", "markdown"]


def raw_of(b):
    from adeu.ingest import extract_text_from_stream

    return extract_text_from_stream(io.BytesIO(b))


def gen_replies(rng, doc):
    ids = [c["id"] for c in doc.get("comments", [])]
    acts = []
    for _ in range(rng.randint(1, 3)):
        if ids and rng.random() < 0.75:
            acts.append({"action": "REPLY", "target_id": "Com:" + rng.choice(ids), "text": "reply " + str(rng.randint(0, 999))})
        else:
            nums = [int(i) for i in ids if i.isdigit()]
            # (ids below the maximum only: a reply of this very batch takes max + 1)
            gaps = [str(k) for k in range(0, max(nums, default=0)) if str(k) not in ids]
            acts.append({"action": "REPLY", "target_id": rng.choice(["Com:9999", "Com:", "Chg:1", "9998"] + ["Com:" + g for g in gaps[:3]]),
                         "text": "lost?"})
    return acts


def gen_inside_ins_commented(rng, doc, texts):
    """a commented edit that quotes context around another reviewer's pending insertion and only adds a word strictly
    inside that insertion (after trimming: a pure insertion inside the insertion); -> list with 0 or 1 edit"""
    pvs = [editgen.ParaView(si, pi, p) for pi, (si, p) in enumerate(sem.all_paragraphs(doc))]
    rng.shuffle(pvs)
    word = editgen.WordSource(rng)
    for pv in pvs[:8]:
        t = editgen.pick_cross_ins_any(rng, pv, texts)
        if not t or t["shape"] != "over":
            continue
        seg = pv.acc[t["a"]:t["b"]]
        inside = [k for k, c in enumerate(seg) if c["state"] == "ins"]
        if len(inside) < 3:
            continue
        k0, k1 = inside[0], inside[-1]
        spaces = [k for k in range(k0 + 1, k1) if seg[k]["c"] == " " and seg[k - 1]["c"] != " "]
        if not spaces:
            continue
        pos = rng.choice(spaces)
        new = t["target"][:pos] + " " + word() + t["target"][pos:]
        return [{**t, "kind": "inside_ins", "new": new, "comment": "inside note " + word(), "locatable": True}]
    return []


def work(case):
    if "doc" not in case:
        doc, feats, rng = gen.gen_document(case["seed"], case["index"], PROFILES[case["profile"]])
        case = dict(case, doc=doc, features=feats)
    else:
        rng = random.Random(case.get("index", 0))
    data = ooxml.write_docx(case["doc"])
    texts = engine_run.texts_of(data)
    edits = case.get("edits")
    if edits is None:
        # a third of the batches may also address text inside another reviewer's pending insertion (a counter-proposal)
        # (whole-target replacements only: the engine replaces the insertion — the exception documented with C01 —
        # and a deletion or a partial change there leaves no mark of this run a comment could explain)
        if rng.random() < 0.3:
            edits = editgen.gen_batch(rng, case["doc"], texts, 1, ["replace"], comment_p=0.9, states=("ins",))
            more = [e for e in editgen.gen_batch(rng, case["doc"], texts, 1, KINDS, comment_p=0.75)
                    if not any(e["pi"] == x["pi"] for x in edits)]
            for e in more:     # (comment texts identify the edits in the oracle: keep them distinct)
                if e.get("comment"):
                    e["comment"] += " second"
            edits += more
        else:
            edits = editgen.gen_batch(rng, case["doc"], texts, rng.randint(1, 3), KINDS, comment_p=0.75)
        if rng.random() < 0.35:
            edits += [e for e in gen_inside_ins_commented(rng, case["doc"], texts) if not any(e["pi"] == x["pi"] for x in edits)]
        for e in edits:
            e["locatable"] = True
    r = engine_run.run_edits(data, edits)
    raw_out = raw_of(r["out_bytes"]) if r["out_bytes"] else None
    ix = [dict(e, index=texts["raw"].find(e["target"])) for e in edits if e.get("in_raw")]
    rix = engine_run.run_edits(data, ix) if ix else None
    replies = case.get("replies")
    if replies is None:
        replies = gen_replies(rng, case["doc"])
    rr = engine_run.run_actions(data, replies)
    raw_rr = raw_of(rr["out_bytes"]) if rr["out_bytes"] else None
    strip = lambda x: {k: v for k, v in x.items() if k != "out_bytes"}
    case = dict(case, edits=edits, replies=replies)
    return {"case": case, "res": strip(r), "raw_out": raw_out, "indexed": {"edits": ix, "res": strip(rix)} if rix else None,
            "heur": {"edits": edits, "res": strip(r)},
            "reply": strip(rr), "raw_reply": raw_rr,
            "sample": {"edits": [(e["target"], e["new"], e["kind"], e.get("comment")) for e in edits], "replies": replies}}


def thread_root(doc, cid):
    """comment id of the root of the thread `cid` belongs to (commentsExtended first, then legacy w15:p)"""
    pid_of, cid_of = {}, {}
    for c in doc.get("comments", []):
        for p in c["paras"]:
            if p.get("para_id"):
                pid_of.setdefault(c["id"], p["para_id"])
                cid_of[p["para_id"]] = c["id"]
    parent = {}
    for e in doc.get("comments_ex", []):
        if e.get("parent") and e.get("para_id") in cid_of and e["parent"] in cid_of:
            parent[cid_of[e["para_id"]]] = cid_of[e["parent"]]
    for c in doc.get("comments", []):
        if c.get("legacy_parent") and c["id"] not in parent:
            parent[c["id"]] = c["legacy_parent"]
    seen = set()
    while cid in parent and cid not in seen:
        seen.add(cid)
        cid = parent[cid]
    return cid


def oracle_replies(res):
    fails = []
    doc, acts, r = res["case"]["doc"], res["case"]["replies"], res["reply"]
    if r["err"]:
        return [f"apply_review_actions(REPLY) raised {r['err']}"]
    known = {c["id"] for c in doc.get("comments", [])}
    exp_applied = sum(1 for a in acts if a["target_id"].startswith("Com:") and a["target_id"][4:] in known or
                      (not a["target_id"].startswith(("Com:", "Chg:")) and a["target_id"] in known))
    if (r["applied"], r["skipped"]) != (exp_applied, len(acts) - exp_applied):
        fails.append(f"replies: reported applied={r['applied']} skipped={r['skipped']}, expected {exp_applied}/{len(acts) - exp_applied} "
                     "(a reply to a comment that does not exist is skipped)")
    out = r["out_doc"]
    if [c for c in out["comments"] if c["id"] in known] != doc.get("comments", []):
        fails.append("existing comments changed by replies")
    new = [c for c in out["comments"] if c["id"] not in known]
    good = [a for a in acts if (a["target_id"][4:] if a["target_id"].startswith("Com:") else a["target_id"]) in known and not a["target_id"].startswith("Chg:")]
    if len(new) != len(good):
        fails.append(f"{len(new)} comments added for {len(good)} replies to existing comments")
        return fails
    for a, c in zip(good, new):
        tid = a["target_id"][4:] if a["target_id"].startswith("Com:") else a["target_id"]
        if "".join(t for p in c["paras"] for t in p["text"]) != a["text"] or c.get("author") != res.get("author", engine_oracles.SESSION_AUTHOR):
            fails.append(f"reply {a['text']!r}: wrong text or author in the new comment")
        if thread_root(out, c["id"]) != thread_root(out, tid):
            fails.append(f"reply {a['text']!r} is not threaded under the thread of comment {tid}")
        # shown with the thread in the raw view (when the parent is shown at all)
        raw = res["raw_reply"] or ""
        if f"[Com:{tid}]" in raw:
            try:
                metas = [t for k, t in sem.parse_critic(raw) if k == "meta" and f"[Com:{tid}]" in t]
            except sem.CriticError as e:
                fails.append(f"raw view after replies is not balanced CriticMarkup: {e}")
                break
            if not any(f"[Com:{c['id']}]" in t for t in metas):
                fails.append(f"reply {a['text']!r} is not shown with the comment it answers")
    # (a reply creates no revision mark: only the new comments are taken out again)
    d = engine_oracles.canon_diff(doc, engine_oracles.reject_session(out, set(), {c["id"] for c in new}, author="\x00nobody"))
    if d:
        fails.append("replies changed document content: " + d)
    return fails


def oracle(res):
    r = res["res"]
    if r["err"]:
        return [f"apply_edits raised {r['err']}"]
    edits = res["case"]["edits"]
    fails = []
    if (r["applied"], r["skipped"]) == (len(edits), 0):
        fails += engine_oracles.oracle_edit_comments(res["case"]["doc"], edits, r, res["raw_out"])
    fails += oracle_replies(res)
    return fails


def driver_line(res):
    ix = res.get("indexed")
    if not ix:
        return {"op": "review", "doc": res["case"]["doc"], "author": engine_oracles.SESSION_AUTHOR, "actions": res["case"]["replies"]}
    return {"op": "apply_indexed", "doc": res["case"]["doc"], "author": engine_oracles.SESSION_AUTHOR,
            "edits": [{"index": e["index"], "target": e["target"], "new": e["new"], "comment": e.get("comment")} for e in ix["edits"]]}


def compare(res, out):
    if "err" in out:
        return [("driver", out["err"])]
    ix = res.get("indexed")
    r, name = (ix["res"], "apply_edits(indexed, with comments) vs Adeu.Doc.applyEditsIndexed") if ix else \
        (res["reply"], "apply_review_actions(REPLY) vs Adeu.Doc.Sess.applyActions")
    if r["err"]:
        return [(name, f"implementation raised {r['err']}")]
    if (out["applied"], out["skipped"]) != (r["applied"], r["skipped"]):
        return [(name, f"counts: model {(out['applied'], out['skipped'])} implementation {(r['applied'], r['skipped'])}")]
    d = canon_session.diff_docs(out["doc"], canon_session.canon_out(r["out_doc"], res["case"]["doc"], engine_oracles.SESSION_AUTHOR))
    return [(name, d)] if d else []


def _ins_has_break(doc, rid):
    for _, p in engine_oracles._story_nodes(doc):
        for n in p["nodes"]:
            if n["k"] == "ins" and n.get("id") == rid:
                for c in n["ch"]:
                    if c["k"] == "r" and any(a["k"] in ("br", "cr") or "\n" in a.get("s", "") for a in c["run"]["ch"]):
                        return True
    return False


def classify(res):
    """Domain of the open finding F-comment-lost-in-multiline-insertion: a commented edit addresses text inside another
    reviewer's pending insertion that contains a line break (the insertion is re-inserted as several lines)."""
    for e in res["case"]["edits"]:
        if e.get("state") == "ins" and e.get("comment") and _ins_has_break(res["case"]["doc"], e.get("rid")):
            return "F-comment-lost-in-multiline-insertion"
    return None


def nontrivial(res):
    return any(e.get("comment") for e in res["case"]["edits"]) or bool(res["case"]["replies"])


def run(tier, seed, driver_ok):
    return doccheck.run_doc_check(
        "C10", tier, seed, driver_ok, n_quick=360, n_thorough=6000,
        profiles=[("default", PROFILES["default"], 2), ("threads", PROFILES["threads"], 1)],
        work=work, oracle=oracle, driver_line=driver_line, compare=compare, nontrivial=nontrivial, classify=classify,
        rule="seeded generated documents (comment ranges, reply threads: modern and legacy) x batches of 1-3 exact unique "
             "edits of every operation kind (replacement, deletion, insertion, multi-line, heading line; 75% with a "
             "comment) and x sequences of 1-3 REPLY actions (existing and non-existing comments); non-trivial = "
             "distinct case with at least one commented edit or reply",
        assumptions=["which edit a comment belongs to is decided by its text (generated comment texts are unique per batch)"])


def search(res, tier, seed):
    r = run("search" if tier == "quick" else "thorough", seed + 1, False)
    return r["oracle_failures"][:3]


def replay(payload):
    case = payload.get("case") or {}
    if "doc" not in case:
        return {"fails": False, "note": "no input in replay (proof/correspondence break)"}
    r = work({"seed": -1, "index": case.get("index", 0), "stream": "replay", "doc": case["doc"], "features": [],
              "edits": case.get("edits"), "replies": case.get("replies")})
    f = oracle(r)
    return {"fails": bool(f), "what": f}
