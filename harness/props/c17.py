"""C17 — tool front-ends are safe: errors are reported, files are never clobbered.

Model: Adeu.Tools.run (lean/AdeuModel/Model/Tools.lean): steps of one call (read, nCompute library calls, save protocol
with a temporary sibling file), failure of the k-th step for every k; theorems: Props/C17.lean.
Correspondence: every MCP tool / CLI command x source state x path configuration x fault position k (a fault injected
at the k-th internal call: every function / method of the adeu modules the front-ends go through, every open-for-write,
write and os.replace) — outcome class, file-system delta and the shape of the fault-free step trace vs the model.
Oracle: the clauses of the property on the observed return value, stdout, exit status and directory snapshot."""
from __future__ import annotations

import builtins
import contextlib
import functools
import hashlib
import io
import json
import os
import random
import re
import shutil
import sys
import tempfile
import types
from pathlib import Path

from .. import canon_session, common, editgen, engine_oracles, engine_run, gen, ooxml, sem
from ..pool import pmap

MCP_TOOLS = ["read_docx", "diff_docx_files", "apply_structured_edits", "manage_review_actions", "accept_all_changes",
             "apply_edits_as_markdown"]
CLI_TOOLS = ["cli_apply_json", "cli_apply_text", "cli_markup", "cli_extract", "cli_diff"]
WRITERS = {"apply_structured_edits", "manage_review_actions", "accept_all_changes", "apply_edits_as_markdown",
           "cli_apply_json", "cli_apply_text", "cli_markup"}
MODEL_TOOL = {"read_docx": "readDocx", "diff_docx_files": "diffDocx", "apply_structured_edits": "applyEdits",
              "manage_review_actions": "reviewActions", "accept_all_changes": "acceptAll", "apply_edits_as_markdown": "markupMd",
              "cli_apply_json": "cliApply", "cli_apply_text": "cliApply", "cli_markup": "cliMarkup", "cli_extract": "cliExtract",
              "cli_diff": "cliDiff"}
SUFFIX = {"apply_structured_edits": "_redlined", "manage_review_actions": "_reviewed", "cli_apply_json": "_redlined",
          "cli_apply_text": "_redlined"}
AUTHOR = "Q7"
PROFILE = {"vmerge": 0.0, "point_comment": 0.0, "hyperlink": 0.0, "blocks": (2, 4), "table": 0.1, "ins": 0.25, "del": 0.2,
           "comment": 0.3, "header": 0.2}


class Injected(Exception):
    pass


_SERVER_LOG_CFG = None


# ---------------------------------------------------------------------------------------------- environment
def stub_mcp():
    """adeu.server needs `mcp.server.fastmcp.FastMCP` (mcp 1.x); the installed mcp 2.x no longer has it. The stub
    registers tools without changing them."""
    if "mcp.server.fastmcp" in sys.modules:
        return
    try:
        import mcp.server.fastmcp  # noqa
        return
    except Exception:
        pass
    for name in ("mcp", "mcp.server"):
        if name not in sys.modules:
            try:
                __import__(name)
            except Exception:
                sys.modules[name] = types.ModuleType(name)
    m = types.ModuleType("mcp.server.fastmcp")

    class FastMCP:
        def __init__(self, *a, **k):
            self.tools = {}

        def tool(self, *a, **k):
            def deco(fn):
                self.tools[fn.__name__] = fn
                return fn
            return deco

        def run(self, *a, **k):
            raise RuntimeError("stub")

    m.FastMCP = FastMCP
    sys.modules["mcp.server.fastmcp"] = m


class Faults:
    def __init__(self, k, root):
        self.k, self.n, self.trace, self.root, self.depth = k, 0, [], str(root), 0

    def tick(self, label):
        i = self.n
        self.n += 1
        self.trace.append(label)
        if i == self.k:
            raise Injected(f"injected fault at internal step {i} ({label})")

    def rel(self, p):
        p = str(p)
        return p[len(self.root) + 1:] if p.startswith(self.root) else None


class FileProxy:
    def __init__(self, f, faults, rel):
        self._f, self._faults, self._rel = f, faults, rel

    def write(self, data):
        self._faults.tick("write:" + self._rel)
        return self._f.write(data)

    def __enter__(self):
        self._f.__enter__()
        return self

    def __exit__(self, *a):
        return self._f.__exit__(*a)

    def __getattr__(self, k):
        return getattr(self._f, k)


def _wrap(fn, faults, label):
    @functools.wraps(fn)
    def w(*a, **k):
        faults.tick(label)
        return fn(*a, **k)
    w.__wrapped_by_c17__ = True
    return w


@contextlib.contextmanager
def instrumented(faults):
    """every function and method of the adeu modules behind the front-ends counts as one internal step per call"""
    import adeu.cli as cli
    import adeu.diff as diffm
    import adeu.ingest as ingest
    import adeu.markup as markup
    import adeu.redline.comments as comments
    import adeu.redline.engine as engine
    import adeu.redline.mapper as mapper
    import adeu.server as server
    try:
        import adeu.utils.files as files
    except ImportError:
        files = None

    saved = []

    def patch(obj, name, new):
        saved.append((obj, name, obj.__dict__[name] if isinstance(obj, type) else getattr(obj, name)))
        setattr(obj, name, new)

    libs = [diffm, ingest, markup, comments, engine, mapper] + ([files] if files else [])
    for mod in libs:
        for name, v in list(vars(mod).items()):
            if isinstance(v, types.FunctionType) and v.__module__ == mod.__name__:
                patch(mod, name, _wrap(v, faults, f"{mod.__name__.split('.')[-1]}.{name}"))
            elif isinstance(v, type) and v.__module__ == mod.__name__:
                for mn, mv in list(vars(v).items()):
                    if isinstance(mv, types.FunctionType) and (not mn.startswith("__") or mn == "__init__"):
                        patch(v, mn, _wrap(mv, faults, f"{v.__name__}.{mn}"))
    # names the front-ends imported directly
    for fe in (server, cli):
        for name, v in list(vars(fe).items()):
            if isinstance(v, types.FunctionType) and v.__module__ in [m.__name__ for m in libs]:
                src = sys.modules[v.__module__]
                patch(fe, name, getattr(src, v.__name__ if hasattr(src, v.__name__) else name))
        for name in ("_read_file_bytes", "_read_docx_text", "_load_edits_from_json"):
            if hasattr(fe, name):
                patch(fe, name, _wrap(getattr(fe, name), faults, f"{fe.__name__.split('.')[-1]}.{name}"))
    # the alias `_apply_edits_to_markdown` of the server
    if hasattr(server, "_apply_edits_to_markdown"):
        patch(server, "_apply_edits_to_markdown", markup.apply_edits_to_markdown)
    real_open, real_replace = builtins.open, os.replace

    def open_(file, mode="r", *a, **k):
        rel = faults.rel(file) if isinstance(file, (str, os.PathLike)) else None
        if rel is not None and any(c in mode for c in "wax+"):
            faults.tick("open_w:" + rel)
            return FileProxy(real_open(file, mode, *a, **k), faults, rel)
        return real_open(file, mode, *a, **k)

    def replace_(a, b, *x, **k):
        ra, rb = faults.rel(a), faults.rel(b)
        if ra is not None or rb is not None:
            faults.tick(f"replace:{ra}->{rb}")
        return real_replace(a, b, *x, **k)

    builtins.open, os.replace = open_, replace_
    try:
        yield
    finally:
        builtins.open, os.replace = real_open, real_replace
        for obj, name, old in reversed(saved):
            setattr(obj, name, old)


def snapshot(root):
    out = {}
    for p in sorted(Path(root).rglob("*")):
        if p.is_file():
            out[str(p.relative_to(root))] = hashlib.sha1(p.read_bytes()).hexdigest()
    return out


# ---------------------------------------------------------------------------------------------- one call
def src_name(tool, outcfg):
    if tool in ("cli_markup",) and outcfg == "md_input":
        return "doc.md"
    if outcfg == "inplace" and tool in SUFFIX:
        return "doc" + SUFFIX[tool] + ".docx"
    if outcfg == "other_suffix" and tool in SUFFIX:
        # the working copy of the *other* tool: not this tool's in-place case
        return "doc" + ("_reviewed" if SUFFIX[tool] == "_redlined" else "_redlined") + ".docx"
    if outcfg == "suffix_inside" and tool in SUFFIX:
        return "doc" + SUFFIX[tool] + "_v2.docx"      # carries the suffix, but not at the end: not the in-place case
    return "doc.docx"


def expected_out(tool, outcfg, srcname):
    """documented output path (relative), independent of the model"""
    stem, suffix = os.path.splitext(srcname)
    if outcfg in ("explicit_new", "explicit_existing"):
        return "chosen.md" if tool in ("apply_edits_as_markdown", "cli_markup") else "chosen.docx"
    if tool in ("apply_structured_edits", "cli_apply_json", "cli_apply_text"):
        return srcname if stem.endswith("_redlined") else stem + "_redlined" + (suffix if tool == "apply_structured_edits" else ".docx")
    if tool == "manage_review_actions":
        return srcname if stem.endswith("_reviewed") else stem + "_reviewed" + suffix
    if tool == "accept_all_changes":
        return stem + "_clean" + suffix
    if tool == "apply_edits_as_markdown":
        return stem + "_markup.md"
    if tool == "cli_markup":
        return stem + "_markup.md" if suffix.lower() == ".md" else stem + ".md"
    return None


def call_tool(case, k, want_trace=False):
    """runs one front-end call in a fresh sandbox with a fault at step k (None: no fault)"""
    stub_mcp()
    import argparse

    import adeu.cli as cli
    import adeu.server as server
    from adeu.models import DocumentEdit, ReviewAction

    # the fault-free call runs under the server's own logging configuration (its stdout must stay clean); the
    # fault runs are silenced (rendering every debug line as JSON dominates the run time otherwise)
    import structlog

    global _SERVER_LOG_CFG
    if _SERVER_LOG_CFG is None:
        _SERVER_LOG_CFG = structlog.get_config()
    if k is None:
        structlog.configure(**_SERVER_LOG_CFG)
    else:
        common.use_repo_sources()
    tool, state, outcfg = case["tool"], case["src_state"], case["outcfg"]
    root = Path(tempfile.mkdtemp(prefix="c17_"))
    try:
        name = src_name(tool, outcfg)
        src = root / name
        data = bytes.fromhex(case["docx_hex"])
        if state == "valid":
            src.write_bytes(data if not name.endswith(".md") else case["md_text"].encode())
        elif state == "not_docx":
            src.write_bytes(b"this is not a zip archive\n")
        elif state == "corrupt":
            src.write_bytes(data[: len(data) // 2])
        (root / "other.txt").write_text("bystander")
        (root / "edits.json").write_text(json.dumps([{"target_text": t, "new_text": n, "comment": c} for t, n, c in case["edits"]]))
        (root / "modified.txt").write_text(case["modified_text"], encoding="utf-8")
        (root / "second.docx").write_bytes(data)
        out_rel = expected_out(tool, outcfg, name)
        explicit = None
        if outcfg in ("explicit_new", "explicit_existing"):
            explicit = root / out_rel
            if outcfg == "explicit_existing":
                explicit.write_bytes(b"previous content of the chosen output")
        before = snapshot(root)
        edits = [DocumentEdit(target_text=t, new_text=n, comment=c) for t, n, c in case["edits"]]
        actions = [ReviewAction(action=a, target_id=t, text=x) for a, t, x in case["actions"]]
        author = AUTHOR if case.get("author_ok", True) else "  "
        faults = Faults(k, root)
        ret, exc, code = None, None, None
        so, se = io.StringIO(), io.StringIO()
        real_out, real_err = sys.stdout, sys.stderr
        sys.stdout, sys.stderr = so, se
        # a logger or handle created at import time keeps the process's original stdout object: file descriptor 1 is
        # captured too (that is where the protocol stream of the MCP server lives)
        fd_out = b""
        try:
            real_out.flush()
        except Exception:  # noqa
            pass
        fd_saved = os.dup(1)
        fd_tmp = tempfile.TemporaryFile()
        os.dup2(fd_tmp.fileno(), 1)
        try:
            with instrumented(faults):
                try:
                    if tool == "read_docx":
                        ret = server.read_docx(str(src), clean_view=False)
                    elif tool == "diff_docx_files":
                        ret = server.diff_docx_files(str(src), str(root / "second.docx"))
                    elif tool == "apply_structured_edits":
                        ret = server.apply_structured_edits(str(src), edits, author, str(explicit) if explicit else None)
                    elif tool == "manage_review_actions":
                        ret = server.manage_review_actions(str(src), actions, author, str(explicit) if explicit else None)
                    elif tool == "accept_all_changes":
                        ret = server.accept_all_changes(str(src), str(explicit) if explicit else None)
                    elif tool == "apply_edits_as_markdown":
                        ret = server.apply_edits_as_markdown(str(src), edits, str(explicit) if explicit else None, include_index=True)
                    elif tool in ("cli_apply_json", "cli_apply_text"):
                        ch = root / ("edits.json" if tool == "cli_apply_json" else "modified.txt")
                        cli.handle_apply(argparse.Namespace(original=src, changes=ch, output=explicit, author=AUTHOR))
                        code = 0
                    elif tool == "cli_markup":
                        cli.handle_markup(argparse.Namespace(input=src, edits=root / "edits.json", output=explicit, index=True, highlight=False))
                        code = 0
                    elif tool == "cli_extract":
                        cli.handle_extract(argparse.Namespace(input=src, output=None))
                        code = 0
                    elif tool == "cli_diff":
                        cli.handle_diff(argparse.Namespace(original=src, modified=root / "modified.txt", json=False))
                        code = 0
                except SystemExit as e:
                    code = e.code if isinstance(e.code, int) else 1
                except Exception as e:  # an exception that leaves the front-end
                    exc = f"{type(e).__name__}: {e}"
                    if tool.startswith("cli_"):
                        code = 1          # the interpreter prints the traceback and exits with status 1
        finally:
            sys.stdout, sys.stderr = real_out, real_err
            try:
                real_out.flush()
            except Exception:  # noqa
                pass
            os.dup2(fd_saved, 1)
            os.close(fd_saved)
            fd_tmp.seek(0)
            fd_out = fd_tmp.read()
            fd_tmp.close()
        after = snapshot(root)
        delta = {"created": sorted(set(after) - set(before)), "removed": sorted(set(before) - set(after)),
                 "altered": sorted(n for n in before if n in after and before[n] != after[n])}
        out_doc = None
        out_text = None
        if out_rel and (root / out_rel).exists() and (out_rel in delta["created"] or out_rel in delta["altered"]):
            b = (root / out_rel).read_bytes()
            if out_rel.endswith(".md"):
                out_text = b.decode("utf-8", "replace")
            else:
                try:
                    out_doc = ooxml.strip_volatile(ooxml.read_docx(b))
                except Exception as e:  # noqa
                    out_doc = {"unreadable": str(e)}
        return {"k": k, "ret": ret if isinstance(ret, str) or ret is None else repr(type(ret)), "ret_is_str": isinstance(ret, str),
                "exc": exc, "code": code, "stdout": so.getvalue() + fd_out.decode("utf-8", "replace"), "stderr_tail": se.getvalue()[-300:], "delta": delta,
                "steps": faults.n, "trace_tail": faults.trace[-6:], "trace_head": faults.trace[:2], "fault_hit": k is not None and faults.n > k,
                "src": name, "out_rel": out_rel, "out_doc": out_doc, "out_text": out_text,
                "io_steps": [t for t in faults.trace if t.startswith(("open_w:", "write:", "replace:"))],
                **({"trace": list(faults.trace)} if want_trace else {})}
    finally:
        shutil.rmtree(root, ignore_errors=True)


def library_result(case):
    """what the library produces for the same input (canonical form)"""
    from adeu.ingest import extract_text_from_stream
    from adeu.markup import apply_edits_to_markdown
    from adeu.models import DocumentEdit, ReviewAction
    from adeu.redline.engine import RedlineEngine

    tool = case["tool"]
    data = bytes.fromhex(case["docx_hex"])
    edits = [DocumentEdit(target_text=t, new_text=n, comment=c) for t, n, c in case["edits"]]
    if tool in ("apply_edits_as_markdown", "cli_markup"):
        if case["outcfg"] == "md_input":
            text = case["md_text"]
        else:
            text = extract_text_from_stream(io.BytesIO(data), clean_view=(tool == "apply_edits_as_markdown"))
        if tool == "cli_markup":
            edits = [DocumentEdit(target_text=t or "", new_text=n or "", comment=c) for t, n, c in case["edits"]]
        return {"text": apply_edits_to_markdown(text, edits, include_index=True, highlight_only=False)}
    eng = RedlineEngine(io.BytesIO(data), author=AUTHOR) if tool != "accept_all_changes" else RedlineEngine(io.BytesIO(data))
    skipped = 0
    if tool in ("apply_structured_edits", "cli_apply_json"):
        if tool == "cli_apply_json":
            edits = [DocumentEdit(target_text=t or "", new_text=n or "", comment=c) for t, n, c in case["edits"]]
        _, skipped = eng.apply_edits(edits)
    elif tool == "cli_apply_text":
        from adeu.diff import generate_edits_from_text

        _, skipped = eng.apply_edits(generate_edits_from_text(extract_text_from_stream(io.BytesIO(data)), case["modified_text"]))
    elif tool == "manage_review_actions":
        _, skipped = eng.apply_review_actions([ReviewAction(action=a, target_id=t, text=x) for a, t, x in case["actions"]])
    elif tool == "accept_all_changes":
        eng.accept_all_revisions()
    return {"doc": ooxml.strip_volatile(ooxml.read_docx(eng.save_to_stream().getvalue())), "skipped": skipped}


def canon(doc, in_doc, author):
    return canon_session.canon_out(doc, in_doc, author)


# ---------------------------------------------------------------------------------------------- oracle
def reports_error(tool, r):
    if tool.startswith("cli_"):
        return r["code"] not in (0, None) and "Saved" not in r["stderr_tail"]
    return isinstance(r["ret"], str) and r["ret"].startswith("Error")


def oracle(case, r, lib):
    tool = case["tool"]
    fails = []
    if not tool.startswith("cli_"):
        if r["exc"]:
            fails.append(f"the tool raised {r['exc']} instead of returning a string")
        elif not r["ret_is_str"]:
            fails.append(f"the tool returned {r['ret']!r}, not a string")
        if r["stdout"]:
            fails.append(f"the tool wrote to standard output: {r['stdout'][:80]!r}")
    changed = r["delta"]["created"] + r["delta"]["removed"] + r["delta"]["altered"]
    err = reports_error(tool, r) or bool(r["exc"])
    unusable = case["src_state"] != "valid" or not case.get("author_ok", True)
    if (unusable or r["fault_hit"]) and not err:
        fails.append(f"unusable input / internal failure at step {r['k']} but no error is reported (returned {str(r['ret'])[:80]!r}, exit {r['code']})")
    if err and changed:
        fails.append(f"an error is reported ({(r['ret'] or r['exc'] or r['stderr_tail'])[:90]!r}) but the directory changed: {r['delta']}")
    if not err:
        want = [r["out_rel"]] if tool in WRITERS else []
        if sorted(changed) != sorted(want):
            fails.append(f"files touched {r['delta']}, expected exactly the designated output {want} (source {r['src']})")
        if tool in WRITERS and lib is not None and not fails:
            if "text" in lib:
                if r["out_text"] != lib["text"]:
                    fails.append("the Markdown written differs from what apply_edits_to_markdown produces for the same input")
            else:
                in_doc = case["in_doc"]
                a = canon(r["out_doc"], in_doc, AUTHOR) if r["out_doc"] and "unreadable" not in r["out_doc"] else r["out_doc"]
                b = canon(lib["doc"], in_doc, AUTHOR)
                if a != b:
                    fails.append("the document written differs from what the library produces for the same input: " +
                                 str(canon_session.diff_docs(b, a) if isinstance(a, dict) and "unreadable" not in a else a)[:200])
    if tool.startswith("cli_"):
        skipped = (lib or {}).get("skipped", 0) if tool.startswith("cli_apply") else 0
        want_nonzero = unusable or r["fault_hit"] or skipped > 0
        if (r["code"] not in (0, None)) != bool(want_nonzero):
            fails.append(f"exit status {r['code']} but skipped={skipped}, unusable={unusable}, internal failure={r['fault_hit']}")
    return fails


# ---------------------------------------------------------------------------------------------- model
def driver_line(case, r0, k):
    name = r0["src"]
    stem, suffix = os.path.splitext(name)
    nio = len(r0["io_steps"])
    n_compute = r0["steps"] - nio - 1 if case["tool"] in WRITERS else r0["steps"] - 1
    explicit = case["outcfg"] in ("explicit_new", "explicit_existing")
    return {"op": "tool", "tool": MODEL_TOOL[case["tool"]], "dir": "D", "stem": stem, "suffix": suffix,
            "src_state": case["src_state"], "out": ("D/" + r0["out_rel"]) if explicit else None,
            "author_ok": case.get("author_ok", True), "n_compute": max(0, n_compute), "skipped": 0, "fault": k,
            "existing": ["D/" + name, "D/other.txt", "D/edits.json", "D/modified.txt", "D/second.docx"] +
                        (["D/" + r0["out_rel"]] if case["outcfg"] == "explicit_existing" else []),
            "src_present": case["src_state"] != "missing"}


def compare(case, r, o):
    if "err" in o:
        return f"driver error {o['err']}"
    tool = case["tool"]
    err = reports_error(tool, r) or bool(r["exc"])
    if (o["outcome"] == "error") != err:
        return f"outcome: model {o['outcome']}, implementation {'error' if err else 'ok'} (k={r['k']}, returned {str(r['ret'])[:60]!r}, exit {r['code']})"
    changed = sorted("D/" + n for n in r["delta"]["created"] + r["delta"]["removed"] + r["delta"]["altered"])
    if sorted(o["changed"]) != changed:
        return f"file-system delta: model {o['changed']}, implementation {changed} (k={r['k']})"
    if tool.startswith("cli_") and not tool.startswith("cli_apply") and (o["exit"] != 0) != (r["code"] not in (0, None)):
        return f"exit status: model {o['exit']}, implementation {r['code']}"
    return None


# ---------------------------------------------------------------------------------------------- cases
def base_inputs(seed, index):
    doc, feats, rng = gen.gen_document(seed + 17, index, PROFILE)
    data = ooxml.write_docx(doc)
    texts = engine_run.texts_of(data)
    batch = editgen.gen_batch(rng, doc, texts, 2, ["replace", "delete", "extend"], comment_p=0.5)
    edits = [(e["target"], e["new"], e.get("comment")) for e in batch]
    # an echoed, unchanged passage (a no-op edit: counted as applied, occupies its range) plus a change inside it
    echo = None
    pvs = {pv.pi: pv for pv in (editgen.ParaView(si, pi, p) for pi, (si, p) in enumerate(sem.all_paragraphs(doc)))}
    rng2 = random.Random(seed * 7919 + index)
    candidates = [e for e in batch if e["kind"] == "replace"]
    for _ in range(6):       # (the batch may hold no replacement, or none with room around it: look for more)
        candidates += editgen.gen_batch(rng2, doc, texts, 1, ["replace"], comment_p=0.0)
    for e in candidates:
        pv = pvs[e["pi"]]
        for k in (8, 5, 3):
            outer = editgen._range_edit(rng, pv, texts, max(0, e["a"] - k), min(len(pv.acc), e["b"] + k), editgen.WordSource(rng), kind="same")
            if outer and outer["target"] != e["target"] and outer["in_raw"]:
                echo = [(outer["target"], outer["target"], None), (e["target"], e["new"], None)]
                break
        if echo:
            break
    flat = [n["id"] for p in sem.iter_paragraphs(doc["body"], expand_vmerge=True) for n in p["nodes"] if n["k"] in ("ins", "del")]
    actions = [("ACCEPT", f"Chg:{flat[0]}", None)] if flat else []
    actions.append(("REJECT", "Chg:99999", None))
    words = texts["raw"].split(" ")
    modified = texts["raw"]
    return {"docx_hex": data.hex(), "in_doc": doc, "edits": edits, "echo_edits": echo, "actions": actions, "modified_text": modified,
            "md_text": "Plain **Markdown** text with " + (edits[0][0] if edits else "nothing") + " inside.\n"}


def gen_cases(tier, seed):
    cases = []
    n_docs = 1 if tier == "quick" else 3
    for di in range(n_docs):
        base = base_inputs(seed, di)
        for tool in MCP_TOOLS + CLI_TOOLS:
            cfgs = ["default"]
            if tool in WRITERS:
                cfgs += ["explicit_new", "explicit_existing"]
            if tool in SUFFIX:
                cfgs += ["inplace", "suffix_inside", "other_suffix"]
            if tool == "cli_markup":
                cfgs.append("md_input")
            for outcfg in cfgs:
                for state in ("valid", "missing", "not_docx", "corrupt"):
                    if outcfg == "md_input" and state != "valid":
                        continue
                    if state != "valid" and outcfg not in ("default", "explicit_existing", "inplace"):
                        continue
                    c = dict(base, tool=tool, outcfg=outcfg, src_state=state, doc_index=di)
                    if tool == "cli_apply_text":
                        c["edits"] = []
                    cases.append(c)
                    if tool in ("apply_structured_edits", "cli_apply_json") and outcfg == "default" and state == "valid" and base.get("echo_edits"):
                        cases.append(dict(c, edits=base["echo_edits"], outcfg="default", variant="echo"))
                    if tool in ("apply_structured_edits", "manage_review_actions") and state == "valid" and outcfg == "default":
                        cases.append(dict(c, author_ok=False))
                    if tool in ("apply_structured_edits", "cli_apply_json") and state == "valid" and outcfg == "default":
                        cases.append(dict(c, edits=c["edits"] + [("Qzx not in the document", "x", None)], with_skipped=True))
    return cases


def fault_positions(tier, n, n_io, rng):
    if n <= 0:
        return []
    if tier != "quick":
        ks = list(range(n)) if n <= 1500 else sorted(set(list(range(200)) + list(range(n - 200, n)) + rng.sample(range(n), 1100)))
    else:
        ks = sorted(set(list(range(min(n, 4))) + list(range(max(0, n - n_io - 3), n)) + rng.sample(range(n), min(n, 8))))
    return ks


def work(case):
    """fault-free run, library reference, then one run per fault position"""
    import zlib

    rng = random.Random(zlib.crc32(f"{case['tool']}|{case['outcfg']}|{case['src_state']}|{common.seed()}".encode()))
    r0 = call_tool(case, None)
    lib = None
    if case["src_state"] == "valid" and case.get("author_ok", True):
        try:
            lib = library_result(case)
        except Exception as e:  # noqa
            lib = {"lib_error": f"{type(e).__name__}: {e}"}
    runs = [r0]
    if case["src_state"] == "valid" and case.get("author_ok", True) and not case.get("with_skipped"):
        for k in fault_positions(case["tier"], r0["steps"], len(r0["io_steps"]), rng):
            runs.append(call_tool(case, k))
    light = {k: v for k, v in case.items() if k not in ("docx_hex", "in_doc")}
    results = []
    for r in runs:
        f = oracle(case, r, lib if r["k"] is None and lib and "lib_error" not in lib else None)
        rr = {k: v for k, v in r.items() if k not in ("out_doc", "out_text")}
        results.append({"run": rr, "fails": f, "line": driver_line(case, r0, r["k"])})
    return {"case": light, "steps": r0["steps"], "io_steps": r0["io_steps"], "results": results,
            "lib_error": (lib or {}).get("lib_error")}


def known_status():
    """replays the committed witnesses: a fault at the first step whose label starts with the recorded prefix"""
    out = []
    base = None
    for k in common.known_findings("C17"):
        w = k.get("witness")
        if not w:
            continue
        if base is None:
            base = base_inputs(0, 0)
        c = dict(base, tool=w["tool"], outcfg=w["outcfg"], src_state="valid", tier="quick")
        faults = Faults(None, "/nonexistent")
        r0 = call_tool(c, None)
        full = call_trace(c)
        idx = next((i for i, lab in enumerate(full) if lab.startswith(w["fault_label_prefix"])), None)
        fails = []
        if idx is not None:
            fails = oracle(c, call_tool(c, idx), None)
        out.append({"key": k["key"], "status": k["status"], "what": k["what"], "reproduces": bool(fails), "detail": fails[:1],
                    "case": {"tool": w["tool"], "outcfg": w["outcfg"], "src_state": "valid", "fault_at": idx}})
    return out


def call_trace(case):
    """labels of all steps of the fault-free call"""
    r = call_tool(dict(case), None, want_trace=True)
    return r["trace"]


# ---------------------------------------------------------------------------------------------- fresh-process probe
PROBE_SRC = r"""
import sys, types, json, os
sys.path.insert(0, os.environ["ADEU_SRC"])
try:
    import mcp.server.fastmcp  # noqa
except Exception:
    for name in ("mcp", "mcp.server"):
        if name not in sys.modules:
            try:
                __import__(name)
            except Exception:
                sys.modules[name] = types.ModuleType(name)
    m = types.ModuleType("mcp.server.fastmcp")
    class FastMCP:
        def __init__(self, *a, **k): pass
        def tool(self, *a, **k):
            return lambda f: f
        def run(self, *a, **k): pass
    m.FastMCP = FastMCP
    sys.modules["mcp.server.fastmcp"] = m
import adeu.server as server          # the import order of the real server process
from adeu.models import DocumentEdit
root = sys.argv[1]
calls = [
    lambda: server.read_docx(root + "/valid.docx", clean_view=False),
    lambda: server.read_docx(root + "/broken.docx", clean_view=False),
    lambda: server.read_docx(root + "/missing.docx", clean_view=True),
    lambda: server.diff_docx_files(root + "/broken.docx", root + "/valid.docx"),
    lambda: server.apply_structured_edits(root + "/valid.docx", [DocumentEdit(target_text="quick", new_text="slow", comment="c")], "Q7", None),
    lambda: server.apply_structured_edits(root + "/broken.docx", [DocumentEdit(target_text="quick", new_text="slow")], "Q7", None),
    lambda: server.apply_edits_as_markdown(root + "/broken.docx", [DocumentEdit(target_text="quick", new_text="slow")], None),
    lambda: server.accept_all_changes(root + "/broken.docx", None),
]
rets = []
for c in calls:
    try:
        r = c()
        rets.append(isinstance(r, str))
    except BaseException as e:
        rets.append("raised " + type(e).__name__)
sys.stderr.write("PROBE-RETS " + json.dumps(rets) + "\n")
"""


def stdout_probe():
    """The MCP tools called in a fresh interpreter that imports adeu.server first, the way the server process does
    (loggers and handles created at import time see the process's real standard output): file descriptor 1 of that
    process must stay empty, and every call must return a string. -> list of failure strings"""
    import subprocess

    root = Path(tempfile.mkdtemp(prefix="c17_probe_"))
    try:
        doc, _, _ = gen.gen_document(0, 1, {"hyperlink": 0.0})
        data = ooxml.write_docx(doc)
        (root / "valid.docx").write_bytes(data)
        (root / "broken.docx").write_bytes(b"this is not a zip archive")
        env = dict(os.environ, ADEU_SRC=str(common.REPO / "src"))
        p = subprocess.run([sys.executable, "-c", PROBE_SRC, str(root)], capture_output=True, env=env, timeout=120)
        fails = []
        if p.stdout:
            fails.append(f"an MCP tool wrote to standard output of the server process: {p.stdout[:160]!r}")
        m = re.search(r"PROBE-RETS (\[.*\])", p.stderr.decode("utf-8", "replace"))
        if not m:
            return fails + ["harness: probe did not finish: " + p.stderr.decode("utf-8", "replace")[-300:]]
        for i, r in enumerate(json.loads(m.group(1))):
            if r is not True:
                fails.append(f"probe call {i} did not return a string: {r}")
        return fails
    finally:
        shutil.rmtree(root, ignore_errors=True)


def run(tier, seed, driver_ok):
    cases = [dict(c, tier=tier) for c in gen_cases(tier, seed)]
    outs = pmap(work, cases, chunksize=1)
    oracle_failures, mism = [], []
    dist = {"calls": 0, "fault_runs": 0, "by_tool": {}, "by_state": {}, "by_outcfg": {}, "max_steps": 0, "io_shapes": {}}
    lines, owners = [], []
    nontrivial = 0
    for w in outs:
        c = w["case"]
        dist["by_tool"][c["tool"]] = dist["by_tool"].get(c["tool"], 0) + len(w["results"])
        dist["by_state"][c["src_state"]] = dist["by_state"].get(c["src_state"], 0) + len(w["results"])
        dist["by_outcfg"][c["outcfg"]] = dist["by_outcfg"].get(c["outcfg"], 0) + len(w["results"])
        dist["max_steps"] = max(dist["max_steps"], w["steps"])
        shape = ",".join(s.split(":")[0] for s in w["io_steps"])
        dist["io_shapes"][shape] = dist["io_shapes"].get(shape, 0) + 1
        if w["lib_error"]:
            oracle_failures.append({"name": "C17 reference run of the library", "case": c, "what": w["lib_error"]})
        if c["tool"] in WRITERS and c["src_state"] == "valid" and c.get("author_ok", True):
            want = "open_w,write,replace"
            if shape != want:
                mism.append({"corr": "save protocol of the front-end vs Adeu.Tools.save (steps of a fault-free call)",
                             "case": c, "what": f"i/o steps of a successful call are [{shape}] ({w['io_steps']}), the model's protocol is [{want}] "
                                                "(temporary file, write, move into place)"})
        for res in w["results"]:
            dist["calls"] += 1
            dist["fault_runs"] += res["run"]["k"] is not None
            nontrivial += bool(res["run"]["delta"]["created"] or res["run"]["delta"]["altered"] or res["run"]["fault_hit"])
            for f in res["fails"][:1]:
                oracle_failures.append({"name": "C17 clauses on the front-end call", "case": dict(c, fault_at=res["run"]["k"]),
                                        "observed": {k: res["run"][k] for k in ("ret", "exc", "code", "delta", "trace_tail")}, "what": f,
                                        "all": res["fails"][:4]})
            lines.append(res["line"])
            owners.append((c, res["run"]))
    probe_fails = stdout_probe()
    if any(f.startswith("harness:") for f in probe_fails):
        raise common.HarnessError(probe_fails[-1])
    for f in probe_fails:
        oracle_failures.insert(0, {"name": "C17 fresh-process probe (stdout of the server process)", "case": {"tool": "probe", "probe": True}, "what": f})
    compared = 0
    if driver_ok:
        for (c, r), o in zip(owners, common.run_driver_parallel(lines)):
            compared += 1
            d = compare(c, r, o)
            if d:
                mism.append({"corr": "front-end call with a fault at step k vs Adeu.Tools.run", "case": dict(c, fault_at=r["k"]), "what": d})
    samples = [{"tool": w["case"]["tool"], "outcfg": w["case"]["outcfg"], "src_state": w["case"]["src_state"], "steps": w["steps"],
                "io_steps": w["io_steps"], "runs": len(w["results"])} for w in outs[:: max(1, len(outs) // 6)]][:6]
    return {
        "known": known_status(),
        "evaluations": dist["calls"],
        "distinct_nontrivial": nontrivial,
        "rule": ("every MCP tool and CLI command x {valid, missing, non-DOCX, truncated} source x {default, explicit new, "
                 "explicit existing, in-place suffix, suffix inside the name, .md input} output configuration x fault positions: "
                 + ("every internal step k" if tier != "quick" else "the first steps, every step of the save phase and a sample in between")
                 + " of the fault-free call (a step = one call of any function or method of adeu.diff/ingest/markup/"
                 "redline.*, of the front-end's own helpers, an open-for-write, a write, an os.replace); non-trivial = the call "
                 "wrote something or a fault was hit"),
        "exhaustive": tier != "quick",
        "samples": samples,
        "compared": compared,
        "corr_mismatches": mism,
        "oracle_failures": oracle_failures[:50],
        "hypothesis_hits": {"error_runs": sum(1 for c, r in owners if reports_error(c["tool"], r) or r["exc"])},
        "input_distribution": dist,
        "assumptions": [
            "faults are Python exceptions (subclasses of Exception) raised at the entry of the k-th internal call; "
            "process kills and OS-level partial writes are outside this check (the save protocol is atomic by os.replace)",
            "adeu.server is imported with a stub for mcp.server.fastmcp.FastMCP (the installed mcp 2.x no longer has it); "
            "tools are called as plain functions, the JSON-RPC transport is not exercised",
            "CLI commands are called through their handler functions; an exception leaving a handler counts as exit status 1",
        ],
    }


def search(res, tier, seed):
    cases = [dict(c, tier="quick") for c in gen_cases("quick", seed + 1) if c["src_state"] == "valid"]
    found = []
    for w in pmap(work, cases, chunksize=1):
        for r in w["results"]:
            if r["fails"]:
                found.append({"name": "C17 clauses on the front-end call", "case": dict(w["case"], fault_at=r["run"]["k"]), "what": r["fails"][0]})
                break
        if len(found) >= 3:
            break
    return found


def replay(payload):
    case = payload.get("case") or {}
    if "tool" not in case:
        return {"fails": False, "note": "replay file carries no input (proof/correspondence break): " +
                json.dumps(payload.get("no_longer_checks"), default=str)[:600]}
    if case.get("probe"):
        f = stdout_probe()
        return {"fails": bool(f), "what": f}
    base = base_inputs(common.seed(), case.get("doc_index", 0))
    c = dict(base, **{k: v for k, v in case.items() if k not in ("fault_at", "tier")})
    r = call_tool(c, case.get("fault_at"))
    lib = library_result(c) if c["src_state"] == "valid" and c.get("author_ok", True) and case.get("fault_at") is None else None
    f = oracle(c, r, lib)
    return {"fails": bool(f), "what": f, "observed": {k: r[k] for k in ("ret", "exc", "code", "delta", "trace_tail")}}
