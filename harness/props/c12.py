"""C12 — applying the diff of a rewritten text reproduces that text.

Pipeline under test: extract_text_from_stream -> (user rewrites the text) -> generate_edits_from_text -> apply_edits
(indexed) -> save -> extract_text_from_stream(clean_view=True); also through the CLI text-file path (handle_apply).
Model: Adeu.Diff.editsOfDiffs (C13) composed with Adeu.Doc.applyEditsIndexed and Adeu.Doc.extractText, run end to
end by the Lean driver on the diff list recorded from diff-match-patch.  Oracle: extracted text of the result == the
modified text (bold/italic markers aside), every edit applied."""
from __future__ import annotations

import io
import os
import random
import re
import shutil
import sys
import tempfile

from .. import canon_session, doccheck, editgen, engine_oracles, engine_run, gen, ooxml, sem
from . import c13

PROFILE = {"vmerge": 0.0, "point_comment": 0.0, "hyperlink": 0.0, "ins": 0.0, "del": 0.0, "subst": 0.0, "comment": 0.0,
           "overlap_comment": 0.0, "field": 0.0, "opaque": 0.0, "empty_run": 0.02, "br": 0.0, "literal_tab": 0.0}
PROFILES = {"default": PROFILE,
            # line breaks inside (formatted) runs: several spans of the index point at one run
            "breaks": dict(PROFILE, br=0.25, fmt=0.7, table=0.0, runs=(2, 4)),
            # short paragraphs next to one another, nearly all of them changed: changes merge across separators
            "dense": dict(PROFILE, blocks=(3, 7), runs=(1, 2), table=0.0, heading=0.1, empty_para=0.1, header=0.0, footer=0.0),
            "cell_edges": dict(PROFILE, table=0.6, heading=0.25), "tables": dict(PROFILE, table=0.45, nested_table=0.25, heading=0.25, fmt=0.6, header=0.4, footer=0.3)}
WORD = re.compile(r"[A-Za-z0-9]+")
NEWW = ["Omega", "revised", "42nd", "carefully", "the parties"]


def rewrite(rng, text, cell_edges=False, skip_p=0.35, lead_p=0.0):
    """1..k word-level changes inside paragraphs / table cells (start, middle, end; insert, delete, replace); heading
    prefixes, markers and separators (blank lines, ' | ') are left exactly as they are."""
    changed = 0

    def rewrite_segment(seg, in_table=False):
        nonlocal changed
        ws = [(m.start(), m.end()) for m in WORD.finditer(seg)]
        if in_table and not cell_edges:
            # in-domain stream: the first and the last word of a table cell are left alone (open finding
            # F-diff-cell-edge: a change next to the virtual ' | ' / '# ' text of a cell is placed inside it)
            ws = ws[1:-1]
        if re.match(r"^(\*\*_?|_\*\*)[^a-z*_]+(_?\*\*|\*\*_)", seg):
            # the paragraph starts with a bold run without lower-case letters ('**P**rice'): rewriting the rest could
            # leave only that run as direct text and flip the ALL-CAPS heading heuristic of the paragraph in the middle
            # of a batch — the indexed loop then works on a map that is rebuilt only when a run is split, which the
            # model (always a fresh map) does not reproduce (DESIGN.md §12.6)
            return seg
        if not ws or rng.random() < skip_p or (seg.startswith("## ") and seg.upper() == seg):
            # (an ALL-CAPS bold paragraph is a heading only by heuristic: rewriting its words would change that)
            return seg
        if seg[:1] in "*_" and not in_table and rng.random() < 0.5:
            # a word put in front of a paragraph that begins with a bold / italic run (before the opening marker)
            changed += 1
            return rng.choice(NEWW) + " " + seg
        k = rng.randint(1, min(3, len(ws)))
        picks = set(rng.sample(range(len(ws)), k))
        if rng.random() < 0.3:
            picks.add(0)
        if rng.random() < 0.3:
            picks.add(len(ws) - 1)
        n_words = len(ws)
        for pi in sorted(picks, reverse=True):
            a, b = ws[pi]
            c = rng.random()
            if c < 0.35:
                seg = seg[:a] + rng.choice(NEWW) + seg[b:]
            elif c < 0.6 and n_words > 1 and not in_table:
                # delete the word together with one space next to it inside the segment
                if b < len(seg) and seg[b] == " " and b + 1 < len(seg):
                    seg = seg[:a] + seg[b + 1:]
                elif a > 1 and seg[a - 1] == " " and WORD.search(seg[:a - 1]):
                    seg = seg[:a - 1] + seg[b:]
                else:
                    seg = seg[:a] + rng.choice(NEWW) + seg[b:]
            elif c < 0.8 and (cell_edges or not (a > 0 and seg[a - 1] in "*_")):
                seg = seg[:a] + rng.choice(NEWW) + " " + seg[a:]
            elif cell_edges or not (b < len(seg) and seg[b] in "*_"):
                seg = seg[:b] + " " + rng.choice(NEWW) + seg[b:]
            else:
                seg = seg[:a] + rng.choice(NEWW) + seg[b:]
            changed += 1
        return seg

    out = []
    if lead_p and rng.random() < lead_p and text and not text.startswith(("#", "\n", " ", "*", "_")):
        # a word put in front of everything, also when the text starts with punctuation such as '(a) '
        text = rng.choice(NEWW) + " " + text
        changed += 1
    for ln in text.split("\n"):
        cells = []
        for cell in ln.split(" | "):
            m = re.match(r"^(#+ )", cell)
            head, body = (m.group(1), cell[m.end():]) if m else ("", cell)
            if head == "## " and body.upper() == body:
                cells.append(cell)
            else:
                cells.append(head + rewrite_segment(body, in_table=" | " in ln))
        out.append(" | ".join(cells))
    return "\n".join(out), changed


def strip_markers(s):
    return s.replace("*", "").replace("_", "")


def work(case):
    from adeu.diff import generate_edits_from_text
    from adeu.ingest import extract_text_from_stream
    from adeu.redline.engine import RedlineEngine

    if "doc" not in case:
        doc, feats, rng = gen.gen_document(case["seed"], case["index"], PROFILES[case["profile"]])
        if case.get("stream") in ("default", "dense") and rng.random() < 0.3:
            # the text of the document starts with punctuation ('(a) …')
            b0 = doc["body"][0]
            if "p" in b0 and not b0["p"].get("style") and b0["p"]["nodes"] and b0["p"]["nodes"][0]["k"] == "r":
                ch = b0["p"]["nodes"][0]["run"]["ch"]
                run0 = b0["p"]["nodes"][0]["run"]
                if ch and ch[0]["k"] == "t" and ch[0]["s"][:1].isalpha() and run0.get("b") is None and run0.get("i") is None \
                        and ch[0]["s"].upper() != ch[0]["s"]:
                    ch[0]["s"] = "(a) " + ch[0]["s"]
                    feats = sorted(set(feats) | {"lead_punct"})
        case = dict(case, doc=doc, features=feats)
    else:
        rng = random.Random(case.get("index", 0))
    data = ooxml.write_docx(case["doc"])
    out = {"case": case, "err": None}
    try:
        orig = extract_text_from_stream(io.BytesIO(data))
        modified = case.get("modified")
        if modified is None:
            st = case.get("stream")
            modified, _ = rewrite(rng, orig, cell_edges=(st == "cell_edges"), skip_p=0.08 if st == "dense" else 0.35,
                                  lead_p=0.25 if st in ("dense", "default") else 0.0)
        c13._install_recorder()
        c13._rec.clear()
        edits = generate_edits_from_text(orig, modified)
        tok = c13._rec.get("tok")
        eng = RedlineEngine(io.BytesIO(data), author=engine_oracles.SESSION_AUTHOR)
        ap, sk = eng.apply_edits(edits)
        saved = eng.save_to_stream().getvalue()
        final = extract_text_from_stream(io.BytesIO(saved), clean_view=True)
        out.update(orig=orig, modified=modified, n_edits=len(edits), applied=ap, skipped=sk, final=final, tok=tok,
                   out_doc=ooxml.strip_volatile(ooxml.read_docx(saved)),
                   edits=[(e._match_start_index, e.target_text, e.new_text, e.comment) for e in edits])
        # the CLI text-file path
        top = tempfile.mkdtemp(prefix="c12_")
        try:
            import argparse
            from pathlib import Path

            import adeu.cli as cli

            p_in, p_txt, p_out = Path(top) / "in.docx", Path(top) / "mod.txt", Path(top) / "out.docx"
            p_in.write_bytes(data)
            p_txt.write_text(modified, encoding="utf-8")
            old = sys.stderr
            sys.stderr = io.StringIO()
            code = 0
            try:
                cli.handle_apply(argparse.Namespace(original=p_in, changes=p_txt, output=p_out, author=engine_oracles.SESSION_AUTHOR))
            except SystemExit as e:
                code = e.code
            finally:
                sys.stderr = old
            out["cli_exit"] = code
            out["cli_final"] = extract_text_from_stream(io.BytesIO(p_out.read_bytes()), clean_view=True) if p_out.exists() else None
        finally:
            shutil.rmtree(top, ignore_errors=True)
    except Exception as e:
        import traceback

        out["err"] = f"{type(e).__name__}: {e}"
        out["tb"] = traceback.format_exc()[-800:]
    case = dict(case, modified=out.get("modified"))
    out["case"] = case
    out["sample"] = {"edits": out.get("edits", [])[:4]}
    return out


def oracle(res):
    if res["err"]:
        return [f"diff/apply pipeline raised {res['err']}"]
    fails = []
    if res["skipped"] or res["applied"] != res["n_edits"]:
        fails.append(f"{res['n_edits']} edits computed from the rewritten text, applied={res['applied']} skipped={res['skipped']}")
    if strip_markers(res["final"]) != strip_markers(res["modified"]):
        a, b = strip_markers(res["final"]), strip_markers(res["modified"])
        k = next((j for j in range(min(len(a), len(b))) if a[j] != b[j]), min(len(a), len(b)))
        fails.append(f"extracted text of the result differs from the rewritten text at {k}: result …{a[max(0,k-40):k+40]!r}… "
                     f"rewritten …{b[max(0,k-40):k+40]!r}…")
    if res.get("cli_final") is not None and strip_markers(res["cli_final"]) != strip_markers(res["modified"]):
        fails.append("CLI text-file path: extracted text of the result differs from the rewritten text")
    if res.get("cli_exit") not in (0, None) and not res["skipped"]:
        fails.append(f"CLI exited with {res['cli_exit']} although no edit was skipped")
    return fails


def driver_line(res):
    if res["err"] or not res.get("tok"):
        return {"op": "ping"}
    return {"op": "diff_apply", "doc": res["case"]["doc"], "author": engine_oracles.SESSION_AUTHOR,
            "diffs": [{"o": c13.OPN[op], "t": "".join(ts)} for op, ts in res["tok"]]}


def compare(res, out):
    if res["err"] or not res.get("tok"):
        return []
    name = "generate_edits_from_text + apply_edits + extract vs Adeu.Diff.editsOfDiffs + Adeu.Doc.applyEditsIndexed + extractText"
    if "err" in out:
        return [("driver", out["err"])]
    if any((e[1] or "") and not (e[1] or "").replace("*", "").replace("_", "").strip() for e in res.get("edits", [])):
        # marker variant of the open finding F-diff-cell-edge (a computed edit whose target is a bold / italic marker alone):
        # the engine is handed a range that holds no real character; what it does there is the finding, and the model - which
        # rebuilds its map before every edit (§12.6) - need not do the same. Counted under the finding, not compared.
        return []
    m = []
    if out["raw_before"] != res["orig"] or out["src"] != res["orig"]:
        m.append((name, "text before: model and implementation (or diff source) differ"))
    model_edits = [(e["idx"], e["target"], e["new"], e["comment"]) for e in out["edits"]]
    if model_edits != [tuple(x) for x in res["edits"]]:
        m.append((name, f"edits: model {model_edits[:3]} implementation {res['edits'][:3]}"))
    if (out["applied"], out["skipped"]) != (res["applied"], res["skipped"]):
        m.append((name, f"counts: model {(out['applied'], out['skipped'])} implementation {(res['applied'], res['skipped'])}"))
    elif out["clean_after"].replace("*", "").replace("_", "") == res["final"].replace("*", "").replace("_", "") and \
            out["clean_after"] != res["final"]:
        # same characters, different emphasis markers around inserted words: C12 speaks about the text "bold/italic markers
        # aside"; which run an inserted word takes its emphasis from is C16's subject and compared there. Not a mismatch here.
        pass
    elif out["clean_after"] != res["final"]:
        a, b = out["clean_after"], res["final"]
        k = next((j for j in range(min(len(a), len(b))) if a[j] != b[j]), min(len(a), len(b)))
        m.append((name, f"final text differs at {k}: model …{a[max(0,k-50):k+50]!r}… implementation …{b[max(0,k-50):k+50]!r}…"))
    elif len({e[0] for e in res["edits"]}) == len(res["edits"]):
        # (two computed edits at one offset: the implementation keeps its initial index for the whole batch of indexed
        # edits, the model re-indexes after every edit — they then differ in an empty run left by a split at a run's end
        # and in the neighbour the second insertion takes its formatting from; texts and counts are still compared)
        d = canon_session.diff_docs(out["doc"], canon_session.canon_out(res["out_doc"], res["case"]["doc"], engine_oracles.SESSION_AUTHOR))
        if d:
            m.append((name, d))
    return m


def classify(res):
    """Domains of the open findings: (a) the cell-edge stream; (b) the word-level diff aligned a repeated word across
    a paragraph / row separator, so that a computed edit spans the separator (Dom: some computed edit contains a line
    break in its target or new text)."""
    if res["case"].get("stream") == "cell_edges":
        return "F-diff-cell-edge"
    # (same finding, marker variant: words inserted on both sides of a bold / italic marker; the word-level diff then
    # aligns on the marker itself and a computed edit has nothing but marker characters as its target)
    if any((e[1] or "") and not (e[1] or "").replace("*", "").replace("_", "").strip() for e in res.get("edits", [])):
        return "F-diff-cell-edge"
    if any("\n" in (e[1] or "") or "\n" in (e[2] or "") for e in res.get("edits", [])):
        return "F-diff-crosses-paragraph"
    return None


def nontrivial(res):
    return not res["err"] and res.get("n_edits", 0) > 0


def run(tier, seed, driver_ok):
    return doccheck.run_doc_check(
        "C12", tier, seed, driver_ok, n_quick=300, n_thorough=5000,
        profiles=[("breaks", PROFILES["breaks"], 1), ("default", PROFILES["default"], 2), ("dense", PROFILES["dense"], 2), ("tables", PROFILES["tables"], 4),
                  ("cell_edges", PROFILES["cell_edges"], 1)],
        work=work, oracle=oracle, classify=classify, driver_line=driver_line, compare=compare, nontrivial=nontrivial,
        rule="seeded generated documents without prior revisions (paragraphs, tables, nested tables, headings, bold/"
             "italic runs, headers/footers) x a rewritten version of the extracted text with 1-3 word-level changes per "
             "paragraph (start / middle / end; insert, delete, replace); library path and CLI text-file path; "
             "non-trivial = distinct case with at least one computed edit",
        assumptions=["diff-match-patch is a parameter (its diff list is recorded and fed to the model)",
                     "markers '*' and '_' are ignored in the comparison (replaced words need not keep their emphasis)"])


def search(res, tier, seed):
    r = run("search" if tier == "quick" else "thorough", seed + 1, False)
    return r["oracle_failures"][:3]


def replay(payload):
    case = payload.get("case") or {}
    if "doc" not in case:
        return {"fails": False, "note": "no input in replay (proof/correspondence break)"}
    r = work({"seed": -1, "index": case.get("index", 0), "stream": "replay", "doc": case["doc"], "features": [],
              "modified": case.get("modified")})
    f = oracle(r)
    return {"fails": bool(f), "what": f}
