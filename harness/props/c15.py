"""C15 — preview and commit agree on what will change.

Same document, same edits (exact, unique, non-overlapping targets) through apply_edits_to_markdown(extract(clean)) and
through RedlineEngine.  Model: Adeu.Markup (preview side; theorems Props/C15.lean: every such edit is marked at its
occurrence and the accepted reading is the simultaneous replacement); the commit side is tied by the engine checks
(C01/C02/C08 correspondences).  Correspondence here: the preview of the accepted view vs the model.  Oracle: the set of
edits the preview marks == the set of edits the commit applies (each edit committed on its own, since the engine only
reports counts; and the counts of the whole batch), accepted preview == accepted view of the committed document,
formatting markers aside."""
from __future__ import annotations

import io
import random
import re

from .. import doccheck, editgen, engine_oracles, engine_run, gen, ooxml, sem
from . import c14

# (an ALL-CAPS bold paragraph is shown as a heading only by heuristic: rewriting its words changes that, in the commit only)
PROFILE = {"hyperlink": 0.0, "vmerge": 0.0, "point_comment": 0.0, "field": 0.0, "caps_heading": 0.0}
PROFILES = {"default": PROFILE,
            "redlined": dict(PROFILE, **{"del": 0.35, "blocks": (1, 3), "runs": (3, 7)}, ins=0.25, subst=0.15, split_identical=0.3,
                             table=0.1, comment=0.2),
            "formatted": dict(PROFILE, fmt=0.8, split_identical=0.4, heading=0.25, table=0.3, tab=0.2, br=0.1),
            # long paragraphs with many pending deletions, three edits in one paragraph: targets that bridge deletions
            # (found only in the accepted view) next to targets found in the raw text
            "bridges": dict(PROFILE, **{"del": 0.45, "blocks": (1, 2), "runs": (6, 10)}, ins=0.0, subst=0.05, table=0.0,
                            comment=0.0, split_identical=0.15, fmt=0.2, header=0.0, footer=0.0),
            # the same phrase once in typographic and once in straight quotes
            "quotes": dict(PROFILE, blocks=(2, 4), table=0.1)}
KINDS = ["replace", "replace", "delete", "extend", "prefix", "shared", "shared", "markdown", "literal", "same"]
EDIT_RE = re.compile(r"\[Edit:(\d+)\]$")


def add_quoted_pair(rng, doc):
    """appends a paragraph `… “W V” … "W V" …` to the body; -> an edit on the straight-quoted phrase (exact, unique)"""
    w = rng.choice(["Effective Date", "Closing", "Seller Group", "the Premises"])
    new = rng.choice(["Start Date", "Completion", "Buyer Group"])
    f = {"b": None, "i": None, "rest": ""}
    text = f"in this Agreement “{w}” means the date; \"{w}\" is used below"
    doc["body"].append({"p": {"style": None, "ppr": "", "nodes": [{"k": "r", "run": {**f, "ch": [{"k": "t", "s": text}]}}]}})
    pi = sum(1 for _ in sem.all_paragraphs(doc)) - 1
    # position of the paragraph among all paragraphs: the body comes after the headers in all_paragraphs? look it up
    for idx, (si, p) in enumerate(sem.all_paragraphs(doc)):
        if p is doc["body"][-1]["p"]:
            pi = idx
    a = text.index('"' + w)
    tgt = '"' + w + '"'
    return {"si": 0, "pi": pi, "a": a, "b": a + len(tgt), "target": tgt, "new": '"' + new + '"', "kind": "replace", "comment": None,
            "in_raw": True, "over_del": False, "state": "plain", "locatable": True}


def strip_markers(s):
    return s.replace("*", "").replace("_", "")


def work(case):
    from adeu.markup import apply_edits_to_markdown
    from adeu.models import DocumentEdit

    if "doc" not in case:
        doc, feats, rng = gen.gen_document(case["seed"], case["index"], PROFILES[case["profile"]])
        case = dict(case, doc=doc, features=feats)
        if case.get("stream") == "bridges" and rng.random() < 0.35:
            # a paragraph with two pending deletions and three edits: accepted-view match, raw-view match that splits
            # the run in between, accepted-view match in that same run
            case["bridge_edits"] = editgen.inject_bridge_paragraph(rng, doc)
            case["bridge_para"] = True
    else:
        rng = random.Random(case.get("index", 0))
    quoted = None
    if case.get("stream") == "quotes" and "edits" not in case:
        quoted = add_quoted_pair(rng, case["doc"])
    data = ooxml.write_docx(case["doc"])
    texts = engine_run.texts_of(data)
    edits = case.get("edits")
    if edits is None:
        if case.get("stream") == "bridges":
            edits = editgen.gen_bridge_pair(rng, case["doc"], texts) if rng.random() < 0.4 else []
            edits = edits or editgen.gen_batch(rng, case["doc"], texts, 3, KINDS, comment_p=0.2, same_para_bias=1.0)
            if case.get("bridge_para"):
                edits = list(case["bridge_edits"])
        else:
            edits = editgen.gen_batch(rng, case["doc"], texts, rng.randint(1, 3), KINDS, comment_p=0.3)
        if rng.random() < 0.3:
            edits += [e for e in editgen.gen_cell_start_prefix(rng, case["doc"], texts) if not any(e["pi"] == y.get("pi") for y in edits)]
        if quoted and texts["clean"].count(quoted["target"]) == 1 and texts["raw"].count(quoted["target"]) == 1:
            edits = [e for e in edits if e["pi"] != quoted["pi"]] + [quoted]
    out = {"case": dict(case, edits=edits), "err": None, "clean": texts["clean"]}
    try:
        des = [DocumentEdit(target_text=e["target"], new_text=e["new"], comment=e.get("comment")) for e in edits]
        out["preview"] = apply_edits_to_markdown(texts["clean"], des, include_index=True)
        out["fz"] = [c14.fuzzy_span(texts["clean"], e["target"]) for e in edits]
        r = engine_run.run_edits(data, edits)
        out["commit"] = {k: r[k] for k in ("applied", "skipped", "err")}
        out["heur"] = {"edits": edits, "res": {k: v for k, v in r.items() if k != "out_bytes"}}
        out["final"] = engine_run.texts_of(r["out_bytes"])["clean"] if r["out_bytes"] else None
        singles = []
        for e in edits:
            r1 = engine_run.run_edits(data, [e])
            singles.append(None if r1["err"] else r1["applied"] == 1)
        out["singles"] = singles
    except Exception as ex:  # noqa
        import traceback

        out["err"] = f"{type(ex).__name__}: {ex}"
        out["tb"] = traceback.format_exc()[-800:]
    out["sample"] = {"edits": [(e["target"], e["new"], e["kind"]) for e in edits], "preview": (out.get("preview") or "")[:200]}
    return out


def oracle(res):
    if res["err"]:
        return [f"preview/commit raised {res['err']}"]
    edits = res["case"]["edits"]
    if not edits:
        return []
    fails = []
    try:
        segs = sem.parse_critic(res["preview"])
    except sem.CriticError as e:
        return [f"preview is not balanced CriticMarkup: {e}"]
    marked = sorted({int(x) for k, t in segs if k == "meta" for x in EDIT_RE.findall(t)})
    c = res["commit"]
    if c["err"]:
        return [f"commit raised {c['err']}"]
    applied_single = sorted(i for i, ok in enumerate(res["singles"]) if ok)
    if marked != applied_single:
        fails.append(f"the preview marks edits {marked}, the commit applies edits {applied_single} (each committed on its own) "
                     f"of {[(e['target'], e['new']) for e in edits]}")
    if c["applied"] != len(marked):
        fails.append(f"the preview marks {len(marked)} edits, the commit of the batch reports applied={c['applied']} skipped={c['skipped']}")
    if not fails and c["applied"] == len(edits):
        acc = sem.critic_accept(segs)
        if strip_markers(acc) != strip_markers(res["final"] or ""):
            a, b = strip_markers(acc), strip_markers(res["final"] or "")
            k = next((j for j in range(min(len(a), len(b))) if a[j] != b[j]), min(len(a), len(b)))
            fails.append(f"accepted preview differs from the accepted view of the committed document at {k}: preview "
                         f"…{a[max(0, k - 30):k + 30]!r}… commit …{b[max(0, k - 30):k + 30]!r}…")
    return fails


def driver_line(res):
    if res["err"]:
        return {"op": "ping"}
    return {"op": "preview", "text": res["clean"], "include_index": True, "highlight_only": False,
            "edits": [{"target": e["target"], "new": e["new"], "comment": e.get("comment") or "", "fz": fz}
                      for e, fz in zip(res["case"]["edits"], res["fz"])]}


def compare(res, out):
    if res["err"]:
        return []
    name = "apply_edits_to_markdown(accepted view) vs Adeu.Markup.previewStr"
    if "err" in out:
        return [("driver", out["err"])]
    if out["out"] != res["preview"]:
        return [(name, f"model {out['out'][:200]!r} != implementation {res['preview'][:200]!r}")]
    # hypotheses of C15_all_marked on this case: every edit matched at an exact occurrence, pairwise disjoint
    return []


def _tables(blocks):
    for b in blocks:
        if "tbl" in b:
            yield [b]
            for row in b["tbl"]["rows"]:
                for c in row["cells"]:
                    yield from _tables(c["blocks"])


def classify(res):
    """Domain of the open finding F-deleted-only-container (same defect as in C04): the batch deletes every visible
    character of a story (header / footer / body) or of a table; the accepted view then drops that container together with
    its separator, the preview - which works on the text - keeps the separator."""
    doc = res["case"]["doc"]
    dels = [sem.skeleton(e["target"]) for e in res["case"]["edits"] if not sem.skeleton(e.get("new") or "")]
    if not any(dels):
        return None
    containers = list(sem.active_stories(doc))
    for blocks in sem.active_stories(doc):
        containers.extend(_tables(blocks))
    for blocks in containers:
        vis = sem.skeleton("".join(sem.accepted_text_of_para(p) for p in sem.iter_paragraphs(blocks)))
        rest = vis
        for t in dels:
            if t and t in rest:
                rest = rest.replace(t, "", 1)
        if vis and not rest:
            return "F-deleted-only-container"
    return None
    containers = list(sem.active_stories(doc))
    for blocks in sem.active_stories(doc):
        containers.extend(_tables(blocks))
    for blocks in containers:
        vis = sem.skeleton("".join(sem.accepted_text_of_para(p) for p in sem.iter_paragraphs(blocks)))
        if vis and all(sem.skeleton(e["target"]) in vis for e in res["case"]["edits"] if e.get("new", "") == "") and \
                len(vis) <= len(gone) and sorted(vis) == sorted("".join(sem.skeleton(e["target"]) for e in res["case"]["edits"]
                                                                       if e.get("new", "") == "" and sem.skeleton(e["target"]) in vis)):
            return "F-deleted-only-container"
    return None


def nontrivial(res):
    return not res["err"] and bool(res["case"]["edits"])


def run(tier, seed, driver_ok):
    return doccheck.run_doc_check(
        "C15", tier, seed, driver_ok, n_quick=300, n_thorough=5000,
        profiles=[("default", PROFILES["default"], 2), ("redlined", PROFILES["redlined"], 2), ("formatted", PROFILES["formatted"], 1),
                  ("bridges", PROFILES["bridges"], 2), ("quotes", PROFILES["quotes"], 1)],
        work=work, oracle=oracle, driver_line=driver_line, compare=compare, classify=classify, nontrivial=nontrivial,
        rule=("generated documents (plain, redlined with pending insertions/deletions/comments, heavily formatted) x batches of "
              "1..3 exact, unique, non-overlapping single-line edits (replace, delete, extend, prefix, shared context, "
              "Markdown spans, literal punctuation, unchanged); preview on the accepted view with indexes vs commit of the "
              "batch and of each edit on its own"),
        assumptions=["the engine reports counts only: 'the edits the commit applies' is observed by committing each edit of "
                     "the batch on its own as well",
                     "the commit side of the Lean tie is the engine model's correspondence in the C01/C02/C08 checks"])


def search(res, tier, seed):
    r = doccheck.run_doc_check(
        "C15", "search", seed + 1, False, n_quick=300, n_thorough=5000,
        profiles=[("default", PROFILES["default"], 2), ("redlined", PROFILES["redlined"], 2), ("formatted", PROFILES["formatted"], 1)],
        work=work, oracle=oracle, classify=classify, nontrivial=nontrivial)
    return r["oracle_failures"][:3]


def replay(payload):
    case = payload.get("case") or {}
    if "doc" not in case:
        import json

        return {"fails": False, "note": "replay file carries no input (proof/correspondence break): " +
                json.dumps(payload.get("no_longer_checks"), default=str)[:600]}
    res = work({"seed": case.get("seed", 0), "index": case.get("index", 0), "stream": "replay", "doc": case["doc"],
                "features": [], "edits": case.get("edits")})
    f = oracle(res)
    return {"fails": bool(f), "what": f, "preview": res.get("preview"), "final": res.get("final")}
