"""C05 — opening and saving a document is content-neutral.

Model: Adeu.Doc.normalize (lean/AdeuModel/Model/Normalize.lean); theorems: Props/C05.lean.
Correspondence: RedlineEngine(bytes).save_to_stream() read back by the independent reader == model normalize(d),
run boundaries included.  Oracle: canonical content stream (everything except run boundaries) of the saved package
== that of the input; comments store unchanged."""
from __future__ import annotations

import io
import json

from .. import doccheck, gen, ooxml, sem

PROFILES = {
    "default": {"para_mark_rev": 0.08},
    "separated_identical": {"para_mark_rev": 0.08, "fmt": 0.35, "split_identical": 0.5, "bookmark": 0.2, "inline_other": 0.2, "proof": 0.2, "hyperlink": 0.15,
                            "comment": 0.25, "ins": 0.25, "del": 0.2, "opaque": 0.15, "empty_run": 0.1, "field": 0.1},
}


def work(case):
    from adeu.redline.engine import RedlineEngine

    if "doc" not in case:
        doc, feats, _ = gen.gen_document(case["seed"], case["index"], PROFILES[case["profile"]])
        case = dict(case, doc=doc, features=feats)
    data = ooxml.write_docx(case["doc"])
    err = None
    saved = None
    try:
        eng = RedlineEngine(io.BytesIO(data), author="Verifier")
        saved = ooxml.strip_volatile(ooxml.read_docx(eng.save_to_stream().getvalue()))
    except Exception as e:
        err = f"{type(e).__name__}: {e}"
    return {"case": case, "saved": saved, "err": err}


def oracle(res):
    if res["err"]:
        return [f"load/save raised {res['err']}"]
    a, b = sem.canon_doc(res["case"]["doc"]), sem.canon_doc(res["saved"])
    fails = []
    for part in ("headers", "body", "footers"):
        if a[part] != b[part]:
            if part == "body":
                d = sem.first_diff(a[part], b[part])
            else:
                d = next((sem.first_diff(x[1], y[1]) for x, y in zip(a[part], b[part]) if x != y), "story list differs")
            fails.append(f"content of {part} changed by load+save (first difference: {str(d)[:300]})")
    if res["case"]["doc"].get("comments", []) != res["saved"].get("comments", []):
        fails.append("comments store changed by load+save")
    return fails


def driver_line(res):
    return {"op": "normalize", "doc": res["case"]["doc"]}


def compare(res, out):
    if "err" in out:
        return [("driver", out["err"])]
    if res["err"]:
        return [("load_save vs Adeu.Doc.normalize", f"implementation raised {res['err']}")]
    m = []
    for part in ("headers", "body", "footers"):
        a = json.dumps(out["doc"][part], sort_keys=True)
        b = json.dumps(res["saved"][part], sort_keys=True)
        if a != b:
            k = next((j for j in range(min(len(a), len(b))) if a[j] != b[j]), min(len(a), len(b)))
            m.append(("load_save vs Adeu.Doc.normalize", f"{part} differs (run structure included): model …{a[max(0,k-120):k+120]}… "
                                                         f"implementation …{b[max(0,k-120):k+120]}…"))
    return m


def nontrivial(res):
    # the document contains at least one pair of adjacent runs (mergeable or not) or a separated identical pair
    return len(res["case"].get("features", [])) >= 2


def run(tier, seed, driver_ok):
    return doccheck.run_doc_check(
        "C05", tier, seed, driver_ok, n_quick=500, n_thorough=8000,
        profiles=[("default", PROFILES["default"], 1), ("separated_identical", PROFILES["separated_identical"], 2)],
        work=work, oracle=oracle, driver_line=driver_line, compare=compare, nontrivial=nontrivial,
        rule="seeded generated documents (two profiles; 'separated_identical' puts identically formatted runs next to "
             "tracked changes, comment anchors, bookmarks, hyperlinks, proofing marks, reference/drawing runs); "
             "non-trivial = distinct document shape with >= 2 features",
        assumptions=["python-docx load/save is the identity on the abstract document (validated on every case by the "
                     "independent reader)", "rPr identity is compared on (b, i, other children, empty-rPr) as the writer emits them"])


def search(res, tier, seed):
    r = run("search" if tier == "quick" else "thorough", seed + 1, False)
    return r["oracle_failures"][:3]


def replay(payload):
    case = payload.get("case") or {}
    if "doc" not in case:
        return {"fails": False, "note": "no input in replay (proof/correspondence break)"}
    r = work({"seed": -1, "index": -1, "stream": "replay", "doc": case["doc"], "features": []})
    f = oracle(r)
    return {"fails": bool(f), "what": f}
