"""C04 — the text projection is complete, ordered and correctly annotated.

Model: Adeu.Doc.extractText (lean/AdeuModel/Model/Extract.lean); theorems: Props/C04.lean.
Correspondence: extract_text_from_stream (raw and accepted view) == model.
Oracle (independent reading of the OOXML via the abstract document):
  (a) accepted view shows every visible character exactly once, in order;
  (b) raw view parses as flat balanced CriticMarkup and marks every character inserted / deleted / commented
      exactly as revision marks and comment ranges say;
  (c) listed identifiers = tracked changes that carry text + comments anchored in the text (and their threads);
  (d) raw view read with every annotation accepted == accepted view, character for character;
  (e) bold/italic markers never enclose a line break."""
from __future__ import annotations

import io

from .. import doccheck, gen, ooxml, sem

PROFILES = {
    "default": {"hyperlink": 0.0, "vmerge": 0.0, "point_comment": 0.0},
    "annotations": {"hyperlink": 0.0, "vmerge": 0.0, "point_comment": 0.0, "overlap_comment": 0.2, "comment": 0.35, "reply": 0.6, "ins": 0.3,
                    "del": 0.3, "subst": 0.2, "field": 0.15, "br": 0.2, "tab": 0.2, "fmt": 0.6, "empty_para": 0.15,
                    "table": 0.3, "nested_table": 0.3, "header": 0.5, "footer": 0.5},
    "vmerge": {"hyperlink": 0.0, "point_comment": 0.0, "table": 0.7, "vmerge": 0.5},
    "point": {"hyperlink": 0.0, "vmerge": 0.0, "point_comment": 0.25},
}


def work(case):
    from adeu.ingest import extract_text_from_stream

    if "doc" not in case:
        doc, feats, _ = gen.gen_document(case["seed"], case["index"], PROFILES[case["profile"]])
        case = dict(case, doc=doc, features=feats)
    data = ooxml.write_docx(case["doc"])
    out = {"case": case, "err": None}
    try:
        out["raw"] = extract_text_from_stream(io.BytesIO(data))
        out["clean"] = extract_text_from_stream(io.BytesIO(data), clean_view=True)
    except Exception as e:
        out["err"] = f"{type(e).__name__}: {e}"
    return out


def _all_deleted(blocks):
    chars = [st for p in sem.iter_paragraphs(blocks) for _, st, _, _ in sem.para_chars(p)]
    return bool(chars) and all(st == "del" for st in chars)


def _tables(blocks):
    for b in blocks:
        if "tbl" in b:
            yield b
            for row in b["tbl"]["rows"]:
                for c in row["cells"]:
                    yield from _tables(c["blocks"])


def has_vmerge(blocks):
    return any(c.get("vmerge") for t in _tables(blocks) for row in t["tbl"]["rows"] for c in row["cells"])


def has_point_comment(doc):
    for blocks in sem.active_stories(doc):
        for p in sem.iter_paragraphs(blocks, expand_vmerge=True):
            covered = set()
            for _, _, open_c, _ in sem.para_chars(p):
                covered |= set(open_c)
            starts = {n["id"] for n in p["nodes"] if n["k"] == "cs"} | {c["id"] for n in p["nodes"] if n["k"] == "ins" for c in n["ch"] if c["k"] == "cs"}
            if starts - covered:
                return True
    return False


def classify(res):
    """Domains of the open findings (Dom_* predicates of the _partial statements)."""
    doc = res["case"]["doc"]
    stories = sem.active_stories(doc)
    if any(has_vmerge(b) for b in stories):
        return "F-vmerge-dup"
    if has_point_comment(doc):
        return "F-point-comment"
    for blocks in stories:
        if _all_deleted(blocks) or any(_all_deleted([t]) for t in _tables(blocks)):
            return "F-deleted-only-container"
    return None


def expected_ids(doc):
    chg, anchored = set(), set()
    for blocks in sem.active_stories(doc):
        for p in sem.iter_paragraphs(blocks):
            for c, st, open_c, rid in sem.para_chars(p):
                if rid is not None:
                    chg.add(rid)
                anchored |= set(open_c)
            # point comments: a range with no character inside is still anchored in the text
            for n in p["nodes"]:
                if n["k"] == "cs":
                    anchored.add(n["id"])
                elif n["k"] == "ins":
                    anchored |= {c["id"] for c in n["ch"] if c["k"] == "cs"}
    known = {c["id"] for c in doc.get("comments", [])}
    anchored &= known
    # threads: replies are listed with the comment they answer
    parent = {}
    pid = {}
    for c in doc.get("comments", []):
        for p in c["paras"]:
            if p.get("para_id"):
                pid[p["para_id"]] = c["id"]
        if c.get("legacy_parent"):
            parent[c["id"]] = c["legacy_parent"]
    if doc.get("parts", {}).get("extended"):
        for e in doc.get("comments_ex", []):
            if e.get("para_id") and e.get("parent") and e["para_id"] in pid and e["parent"] in pid:
                parent[pid[e["para_id"]]] = pid[e["parent"]]
    listed = set(anchored)
    changed = True
    while changed:
        changed = False
        for c, p in parent.items():
            if p in listed and c not in listed and c in known:
                listed.add(c)
                changed = True
    return chg, listed


def oracle(res):
    if res["err"]:
        return [f"extraction raised {res['err']}"]
    doc = res["case"]["doc"]
    chars = sem.doc_chars(doc)
    fails = []
    # (a) completeness / order of the accepted view
    exp_clean = sem.skeleton("".join(c for c, st, _, _ in chars if st != "del"))
    got_clean = sem.skeleton(res["clean"])
    if exp_clean != got_clean:
        d = sem.first_diff(exp_clean, got_clean)
        fails.append(f"accepted view does not show every visible character exactly once in order (first difference at "
                     f"letter {d[0]}: document has {exp_clean[max(0,d[0]-15):d[0]+15]!r}, view has {got_clean[max(0,d[0]-15):d[0]+15]!r})")
    if "{++" in res["clean"] or "{--" in res["clean"] or "{>>" in res["clean"] or "{==" in res["clean"]:
        fails.append("accepted view contains annotations")
    # (b) raw view annotation
    try:
        segs = sem.parse_critic(res["raw"])
    except sem.CriticError as e:
        return fails + [f"raw view is not balanced, flat CriticMarkup: {e}"]
    kind_of = {"plain": "plain", "ins": "ins", "del": "del", "hl": "hl"}
    got = [(c, kind_of[k]) for k, t in segs if k != "meta" for c in t if sem.skeleton(c)]
    exp = [(c, "del" if st == "del" else "ins" if st == "ins" else ("hl" if open_c else "plain"))
           for c, st, open_c, _ in chars if sem.skeleton(c)]
    if got != exp:
        d = sem.first_diff(exp, got)
        fails.append(f"raw view marks characters differently from the document's revision marks / comment ranges "
                     f"(letter {d[0]}: document {d[1]}, view {d[2]})")
    # (c) identifiers
    chg, com = sem.listed_ids(segs)
    e_chg, e_com = expected_ids(doc)
    if set(chg) != e_chg:
        fails.append(f"listed change ids {sorted(set(chg))} != changes that carry text {sorted(e_chg)}")
    if set(com) != e_com:
        fails.append(f"listed comment ids {sorted(set(com))} != comments anchored in the text (with threads) {sorted(e_com)}")
    # (d) accept(raw) == clean
    acc = sem.critic_accept(segs)
    if acc != res["clean"]:
        d = sem.first_diff(acc, res["clean"])
        fails.append(f"raw view with every annotation accepted differs from the accepted view at offset {d[0]}: "
                     f"{acc[max(0,d[0]-30):d[0]+30]!r} vs {res['clean'][max(0,d[0]-30):d[0]+30]!r}")
    # (e) markers never enclose a line break
    for view in ("clean",):
        for line in res[view].split("\n"):
            if line.count("**") % 2 or line.replace("**", "").count("_") % 2:
                fails.append(f"{view} view: a bold/italic marker pair encloses a line break in line {line[:80]!r}")
                break
    for k, t in segs:
        if k != "meta":
            for line in t.split("\n"):
                if line.count("**") % 2 or line.replace("**", "").count("_") % 2:
                    fails.append(f"raw view: a bold/italic marker pair encloses a line break in {line[:80]!r}")
                    break
    return fails


def driver_line(res):
    return {"op": "extract", "doc": res["case"]["doc"]}


def compare(res, out):
    if "err" in out:
        return [("driver", out["err"])]
    if res["err"]:
        return [("extract_text_from_stream vs Adeu.Doc.extractText", f"implementation raised {res['err']}")]
    m = []
    for key in ("raw", "clean"):
        a, b = out[key], res[key]
        if a != b:
            k = next((j for j in range(min(len(a), len(b))) if a[j] != b[j]), min(len(a), len(b)))
            m.append((f"extract_text_from_stream({key}) vs Adeu.Doc.extractText",
                      f"differs at {k}: model …{a[max(0,k-50):k+60]!r}… implementation …{b[max(0,k-50):k+60]!r}…"))
    return m


def run(tier, seed, driver_ok):
    return doccheck.run_doc_check(
        "C04", tier, seed, driver_ok, n_quick=500, n_thorough=8000,
        profiles=[("default", PROFILES["default"], 3), ("annotations", PROFILES["annotations"], 4),
                  ("vmerge", PROFILES["vmerge"], 1), ("point", PROFILES["point"], 1)],
        work=work, oracle=oracle, driver_line=driver_line, compare=compare, classify=classify,
        rule="seeded generated documents: default and annotation-heavy profiles (in domain), plus vertically merged "
             "tables and point comments (domains of the open findings F-vmerge-dup / F-point-comment: executed and "
             "counted, judged by their committed witnesses); non-trivial = distinct document shape",
        assumptions=["results of PAGE/NUMPAGES complex fields are not counted as document text (dynamic page numbers)",
                     "hyperlink text is outside adeu's projection (documented in the repository's TODO.md) and outside "
                     "this property's quantifier; generated documents of this check contain no hyperlinks",
                     "words are alphanumeric, so completeness is compared on letters/digits independent of markers"])


def search(res, tier, seed):
    r = run("search" if tier == "quick" else "thorough", seed + 1, False)
    return r["oracle_failures"][:3]


def replay(payload):
    case = payload.get("case") or {}
    if "doc" not in case:
        return {"fails": False, "note": "no input in replay (proof/correspondence break)"}
    r = work({"seed": -1, "index": -1, "stream": "replay", "doc": case["doc"], "features": []})
    f = oracle(r)
    return {"fails": bool(f), "what": f}
