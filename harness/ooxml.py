"""Independent OOXML writer and reader for the abstract document (DESIGN.md Appendix C, tree form).

Neither imports python-docx nor adeu: zipfile + lxml.etree only.  `read_docx(write_docx(d)) == d` is checked
by the harness self-test and on generated documents.

Abstract document (JSON-able dict):
  Doc    = {"headers":[Story], "body":[Block], "footers":[Story], "title_pg":bool, "even_odd":bool,
            "comments":[Comment], "parts":{"comments":bool,"extended":bool,"ids":bool,"extensible":bool},
            "sect": str (extra sectPr children, raw xml)}
  Story  = {"type":"default|first|even", "blocks":[Block]}
  Block  = {"p":Para} | {"tbl":{"pr":str, "rows":[{"pr":str,"cells":[{"pr":str,"span":int,"vmerge":null|"restart"|"continue","blocks":[Block]}]}]}}
  Para   = {"style":str|null (style id), "ppr":str (other pPr children, raw xml), "nodes":[Node]}
  Node   = {"k":"r","run":Run} | {"k":"ins","id":str,"author":str|null,"date":str|null,"ch":[InsChild]}
         | {"k":"del","id":..,"author":..,"date":..,"runs":[Run]} | {"k":"cs","id":str} | {"k":"ce","id":str}
         | {"k":"proof","type":str} | {"k":"hl","rid":str|null,"anchor":str|null,"runs":[Run]} | {"k":"o","xml":str}
  InsChild = {"k":"r","run":Run} | {"k":"cs","id"} | {"k":"ce","id"} | {"k":"o","xml":str}
  Run    = {"b":null|str,"i":null|str,"rest":str,"ch":[Atom]}       b/i: null = absent, "" = present without w:val, else the w:val
  Atom   = {"k":"t","s":str} | {"k":"dt","s":str} | {"k":"tab"} | {"k":"br"[,"type":str]} | {"k":"cr"} | {"k":"cref","id":str}
         | {"k":"fld","type":"begin|separate|end"} | {"k":"instr","s":str} | {"k":"o","xml":str}
  Comment= {"id":str,"author":str|null,"date":str|null,"initials":str|null,"paras":[{"para_id":str|null,"text":[str]}],
            "legacy_parent":str|null,"done_attr":str|null}
  plus Doc["comments_ex"] = [{"para_id","parent":str|null,"done":str|null}], Doc["comments_ids"]=[{"para_id","durable"}],
       Doc["comments_cex"]=[{"durable","date"}]
"""
from __future__ import annotations

import copy
import io
import re
import zipfile
from pathlib import Path

from lxml import etree

ASSETS = Path(__file__).resolve().parent / "assets"

W = "http://schemas.openxmlformats.org/wordprocessingml/2006/main"
R = "http://schemas.openxmlformats.org/officeDocument/2006/relationships"
W14 = "http://schemas.microsoft.com/office/word/2010/wordml"
W15 = "http://schemas.microsoft.com/office/word/2012/wordml"
W16CID = "http://schemas.microsoft.com/office/word/2016/wordml/cid"
W16CEX = "http://schemas.microsoft.com/office/word/2018/wordml/cex"
W16DU = "http://schemas.microsoft.com/office/word/2023/wordml/word16du"
MC = "http://schemas.openxmlformats.org/markup-compatibility/2006"
WP = "http://schemas.openxmlformats.org/drawingml/2006/wordprocessingDrawing"
XML = "http://www.w3.org/XML/1998/namespace"
PKG_REL = "http://schemas.openxmlformats.org/package/2006/relationships"
CT_NS = "http://schemas.openxmlformats.org/package/2006/content-types"

NSMAP = {"w": W, "r": R, "w14": W14, "w15": W15, "w16cid": W16CID, "w16cex": W16CEX, "w16du": W16DU, "mc": MC, "wp": WP}
NSDECL = " ".join(f'xmlns:{k}="{v}"' for k, v in NSMAP.items())

CT_COMMENTS = "application/vnd.openxmlformats-officedocument.wordprocessingml.comments+xml"
CT_EXT = "application/vnd.openxmlformats-officedocument.wordprocessingml.commentsExtended+xml"
CT_IDS = "application/vnd.openxmlformats-officedocument.wordprocessingml.commentsIds+xml"
CT_CEX = "application/vnd.openxmlformats-officedocument.wordprocessingml.commentsExtensible+xml"
CT_HEADER = "application/vnd.openxmlformats-officedocument.wordprocessingml.header+xml"
CT_FOOTER = "application/vnd.openxmlformats-officedocument.wordprocessingml.footer+xml"
RT_COMMENTS = "http://schemas.openxmlformats.org/officeDocument/2006/relationships/comments"
RT_EXT = "http://schemas.microsoft.com/office/2011/relationships/commentsExtended"
RT_IDS = "http://schemas.microsoft.com/office/2016/09/relationships/commentsIds"
RT_CEX = "http://schemas.microsoft.com/office/2018/08/relationships/commentsExtensible"
RT_HEADER = "http://schemas.openxmlformats.org/officeDocument/2006/relationships/header"
RT_FOOTER = "http://schemas.openxmlformats.org/officeDocument/2006/relationships/footer"
RT_HYPERLINK = "http://schemas.openxmlformats.org/officeDocument/2006/relationships/hyperlink"


def q(tag: str) -> str:
    p, n = tag.split(":")
    return "{%s}%s" % (NSMAP[p] if p != "xml" else XML, n)


def esc(s: str) -> str:
    return s.replace("&", "&amp;").replace("<", "&lt;").replace(">", "&gt;")


def esca(s: str) -> str:
    return esc(s).replace('"', "&quot;").replace("\n", "&#10;").replace("\t", "&#9;").replace("\r", "&#13;")


# ------------------------------------------------------------------------------------------- writer
def w_text(tag, s):
    sp = ' xml:space="preserve"' if (s != s.strip() or s == "") else ""
    return f"<w:{tag}{sp}>{esc(s)}</w:{tag}>"


def w_atom(a):
    k = a["k"]
    if k == "t":
        return w_text("t", a["s"])
    if k == "dt":
        return w_text("delText", a["s"])
    if k == "br" and a.get("type") is not None:
        return f'<w:br w:type="{esca(a["type"])}"/>'
    if k in ("tab", "br", "cr"):
        return f"<w:{k}/>"
    if k == "nbh":
        return "<w:noBreakHyphen/>"
    if k == "cref":
        return f'<w:commentReference w:id="{esca(a["id"])}"/>'
    if k == "fld":
        return f'<w:fldChar w:fldCharType="{a["type"]}"/>'
    if k == "instr":
        return w_text("instrText", a["s"])
    if k == "o":
        return a["xml"]
    raise ValueError(k)


def w_onoff(tag, v):
    if v is None:
        return ""
    if v == "":
        return f"<w:{tag}/>"
    return f'<w:{tag} w:val="{esca(v)}"/>'


def w_run(r):
    inner = r.get("rest", "") + w_onoff("b", r.get("b")) + w_onoff("i", r.get("i"))
    rpr = f"<w:rPr>{inner}</w:rPr>" if (inner or r.get("empty_rpr")) else ""
    return "<w:r>" + rpr + "".join(w_atom(a) for a in r["ch"]) + "</w:r>"


def w_rev_attrs(n):
    s = f' w:id="{esca(n["id"])}"'
    if n.get("author") is not None:
        s += f' w:author="{esca(n["author"])}"'
    if n.get("date") is not None:
        s += f' w:date="{esca(n["date"])}"'
    return s


def w_node(n):
    k = n["k"]
    if k == "r":
        return w_run(n["run"])
    if k == "ins":
        return f"<w:ins{w_rev_attrs(n)}>" + "".join(w_node(c) for c in n["ch"]) + "</w:ins>"
    if k == "del":
        return f"<w:del{w_rev_attrs(n)}>" + "".join(w_run(r) for r in n["runs"]) + "</w:del>"
    if k == "cs":
        return f'<w:commentRangeStart w:id="{esca(n["id"])}"/>'
    if k == "ce":
        return f'<w:commentRangeEnd w:id="{esca(n["id"])}"/>'
    if k == "proof":
        return f'<w:proofErr w:type="{esca(n["type"])}"/>'
    if k == "hl":
        a = ""
        if n.get("rid") is not None:
            a += f' r:id="{esca(n["rid"])}"'
        if n.get("anchor") is not None:
            a += f' w:anchor="{esca(n["anchor"])}"'
        return f"<w:hyperlink{a}>" + "".join(w_run(r) for r in n["runs"]) + "</w:hyperlink>"
    if k == "o":
        return n["xml"]
    raise ValueError(k)


def w_para(p):
    ppr = ""
    if p.get("style") is not None:
        ppr += f'<w:pStyle w:val="{esca(p["style"])}"/>'
    ppr += p.get("ppr", "")
    attrs = ""
    if p.get("para_id"):
        attrs = f' w14:paraId="{esca(p["para_id"])}"'
    return f"<w:p{attrs}>" + (f"<w:pPr>{ppr}</w:pPr>" if ppr else "") + "".join(w_node(n) for n in p["nodes"]) + "</w:p>"


def w_block(b):
    if "p" in b:
        return w_para(b["p"])
    t = b["tbl"]
    out = ["<w:tbl>", f"<w:tblPr>{t.get('pr', '')}</w:tblPr>"]
    if t.get("grid"):
        out.append(t["grid"])
    for row in t["rows"]:
        out.append("<w:tr>")
        if row.get("pr"):
            out.append(f"<w:trPr>{row['pr']}</w:trPr>")
        for c in row["cells"]:
            tcpr = c.get("pr", "")
            if c.get("span", 1) != 1:
                tcpr += f'<w:gridSpan w:val="{c["span"]}"/>'
            if c.get("vmerge") == "restart":
                tcpr += '<w:vMerge w:val="restart"/>'
            elif c.get("vmerge") == "continue":
                tcpr += "<w:vMerge/>"
            out.append("<w:tc>" + (f"<w:tcPr>{tcpr}</w:tcPr>" if tcpr else "") + "".join(w_block(x) for x in c["blocks"]) + "</w:tc>")
        out.append("</w:tr>")
    out.append("</w:tbl>")
    return "".join(out)


def _xml_doc(root_tag, inner, extra_attrs=""):
    return (f'<?xml version="1.0" encoding="UTF-8" standalone="yes"?>\n<{root_tag} {NSDECL} '
            f'mc:Ignorable="w14 w15 w16cid w16cex w16du"{extra_attrs}>{inner}</{root_tag}>').encode("utf-8")


def w_comment(c):
    a = f' w:id="{esca(c["id"])}"'
    if c.get("author") is not None:
        a += f' w:author="{esca(c["author"])}"'
    if c.get("date") is not None:
        a += f' w:date="{esca(c["date"])}"'
    if c.get("initials") is not None:
        a += f' w:initials="{esca(c["initials"])}"'
    if c.get("legacy_parent") is not None:
        a += f' w15:p="{esca(c["legacy_parent"])}"'
    if c.get("done_attr") is not None:
        a += f' w15:done="{esca(c["done_attr"])}"'
    ps = []
    for p in c["paras"]:
        pa = f' w14:paraId="{esca(p["para_id"])}"' if p.get("para_id") else ""
        runs = "".join("<w:r>" + w_text("t", t) + "</w:r>" for t in p["text"])
        ps.append(f'<w:p{pa}><w:pPr><w:pStyle w:val="CommentText"/></w:pPr>'
                  '<w:r><w:rPr><w:rStyle w:val="CommentReference"/></w:rPr><w:annotationRef/></w:r>' + runs + "</w:p>")
    return f"<w:comment{a}>" + "".join(ps) + "</w:comment>"


def write_docx(doc: dict) -> bytes:
    base = zipfile.ZipFile(ASSETS / "base.docx")
    members = {n: base.read(n) for n in base.namelist()}
    ct = etree.fromstring(members["[Content_Types].xml"])
    rels = etree.fromstring(members["word/_rels/document.xml.rels"])
    used = {int(r.get("Id")[3:]) for r in rels if r.get("Id", "").startswith("rId") and r.get("Id")[3:].isdigit()}
    nxt = [max(used | {0}) + 1]

    def add_rel(rtype, target, mode=None, rid=None):
        if rid is None:
            rid = f"rId{nxt[0]}"
            nxt[0] += 1
        el = etree.SubElement(rels, "{%s}Relationship" % PKG_REL)
        el.set("Id", rid)
        el.set("Type", rtype)
        el.set("Target", target)
        if mode:
            el.set("TargetMode", mode)
        return rid

    def add_override(partname, ctype):
        el = etree.SubElement(ct, "{%s}Override" % CT_NS)
        el.set("PartName", partname)
        el.set("ContentType", ctype)

    sect_refs = []
    for kind, stories, tag, rt, ctype, root in (("header", doc.get("headers", []), "headerReference", RT_HEADER, CT_HEADER, "w:hdr"),
                                                ("footer", doc.get("footers", []), "footerReference", RT_FOOTER, CT_FOOTER, "w:ftr")):
        for i, st in enumerate(stories):
            name = f"word/{kind}{i + 1}.xml"
            members[name] = _xml_doc(root, "".join(w_block(b) for b in st["blocks"]))
            add_override("/" + name, ctype)
            rid = add_rel(rt, f"{kind}{i + 1}.xml")
            sect_refs.append(f'<w:{tag} w:type="{st["type"]}" r:id="{rid}"/>')

    for h in doc.get("hyperlinks", []):
        add_rel(RT_HYPERLINK, h["target"], "External", rid=h["rid"])

    parts = doc.get("parts", {})
    if parts.get("comments"):
        members["word/comments.xml"] = _xml_doc("w:comments", "".join(w_comment(c) for c in doc.get("comments", [])))
        add_override("/word/comments.xml", CT_COMMENTS)
        if parts.get("comments") != "unrelated":
            add_rel(RT_COMMENTS, "comments.xml")
    if parts.get("extended"):
        inner = "".join(
            f'<w15:commentEx w15:paraId="{esca(e["para_id"])}"' + (f' w15:paraIdParent="{esca(e["parent"])}"' if e.get("parent") else "")
            + (f' w15:done="{esca(e["done"])}"' if e.get("done") is not None else "") + "/>" for e in doc.get("comments_ex", []))
        members["word/commentsExtended.xml"] = _xml_doc("w15:commentsEx", inner)
        add_override("/word/commentsExtended.xml", CT_EXT)
        if parts.get("extended") != "unrelated":
            add_rel(RT_EXT, "commentsExtended.xml")
    if parts.get("ids"):
        inner = "".join(f'<w16cid:commentId w16cid:paraId="{esca(e["para_id"])}" w16cid:durableId="{esca(e["durable"])}"/>'
                        for e in doc.get("comments_ids", []))
        members["word/commentsIds.xml"] = _xml_doc("w16cid:commentsIds", inner)
        add_override("/word/commentsIds.xml", CT_IDS)
        if parts.get("ids") != "unrelated":
            add_rel(RT_IDS, "commentsIds.xml")
    if parts.get("extensible"):
        inner = "".join(f'<w16cex:commentExtensible w16cex:durableId="{esca(e["durable"])}" w16cex:dateUtc="{esca(e["date"])}"/>'
                        for e in doc.get("comments_cex", []))
        members["word/commentsExtensible.xml"] = _xml_doc("w16cex:commentsExtensible", inner)
        add_override("/word/commentsExtensible.xml", CT_CEX)
        if parts.get("extensible") != "unrelated":
            add_rel(RT_CEX, "commentsExtensible.xml")

    for name, data in (doc.get("extra_members") or {}).items():
        if isinstance(data, str) and data.startswith("hex:"):
            data = bytes.fromhex(data[4:])      # (binary members are kept as hex so that cases stay JSON)
        members[name] = data if isinstance(data, bytes) else data.encode("utf-8")
    for pn, ctype in (doc.get("extra_overrides") or {}).items():
        add_override(pn, ctype)
    for r in doc.get("extra_rels") or []:
        add_rel(r["type"], r["target"], r.get("mode"), r.get("rid"))

    sect = "".join(sect_refs) + '<w:pgSz w:w="12240" w:h="15840"/><w:pgMar w:top="1440" w:right="1800" w:bottom="1440" ' \
                                'w:left="1800" w:header="720" w:footer="720" w:gutter="0"/>'
    if doc.get("title_pg"):
        sect += "<w:titlePg/>"
    sect += doc.get("sect", "")
    body = "".join(w_block(b) for b in doc["body"]) + f"<w:sectPr>{sect}</w:sectPr>"
    members["word/document.xml"] = _xml_doc("w:document", f"<w:body>{body}</w:body>")

    if doc.get("even_odd"):
        st = members["word/settings.xml"].decode("utf-8")
        st = re.sub(r"(<w:settings[^>]*>)", r"\1<w:evenAndOddHeaders/>", st, count=1)
        members["word/settings.xml"] = st.encode("utf-8")

    members["[Content_Types].xml"] = etree.tostring(ct, xml_declaration=True, encoding="UTF-8", standalone=True)
    members["word/_rels/document.xml.rels"] = etree.tostring(rels, xml_declaration=True, encoding="UTF-8", standalone=True)

    # style sheet variants: the built-in headings under localised ids (as non-English Word writes them: name
    # 'heading 1', id 'Titre1'), or not defined at all. Abstract documents always use the canonical ids 'HeadingN'.
    variant = doc.get("styles_variant")
    if variant == "localized":
        st = members["word/styles.xml"].decode("utf-8")
        st = re.sub(r'(w:styleId|w:val)="Heading(\d)', r'\1="Titre\2', st)
        members["word/styles.xml"] = st.encode("utf-8")
        for n in list(members):
            if re.match(r"^word/(document|header\d*|footer\d*)\.xml$", n):
                x = members[n] if isinstance(members[n], str) else members[n].decode("utf-8")
                members[n] = re.sub(r'(<w:pStyle w:val=")Heading(\d")', r"\1Titre\2", x).encode("utf-8")
    elif variant == "no_headings":
        st = members["word/styles.xml"].decode("utf-8")
        st = re.sub(r'<w:style\b[^>]*w:styleId="Heading\d(?:Char)?"[^>]*>.*?</w:style>', "", st, flags=re.S)
        members["word/styles.xml"] = st.encode("utf-8")

    out = io.BytesIO()
    with zipfile.ZipFile(out, "w", zipfile.ZIP_DEFLATED) as z:
        order = ["[Content_Types].xml"] + [n for n in members if n != "[Content_Types].xml"]
        for n in order:
            z.writestr(zipfile.ZipInfo(n, date_time=(2020, 1, 1, 0, 0, 0)), members[n])
    return out.getvalue()


# ------------------------------------------------------------------------------------------- reader
def _ser(el) -> str:
    """Canonical string of an element (namespace prefixes normalised to ours, no tail)."""
    e = copy.deepcopy(el)
    e.tail = None
    s = etree.tostring(e, encoding="unicode")
    # strip namespace declarations that lxml repeats on the serialised root; prefixes in documents we handle
    # are the standard ones (w, r, w14, ...)
    s = re.sub(r'\sxmlns(:\w+)?="[^"]*"', "", s)
    return s


def _onoff(rpr, tag):
    if rpr is None:
        return None
    el = rpr.find(q(tag))
    if el is None:
        return None
    v = el.get(q("w:val"))
    return "" if v is None else v


def r_run(r) -> dict:
    rpr = r.find(q("w:rPr"))
    rest = ""
    if rpr is not None:
        rest = "".join(_ser(c) for c in rpr if c.tag not in (q("w:b"), q("w:i")))
    ch = []
    for c in r:
        t = c.tag
        if t == q("w:rPr"):
            continue
        if t == q("w:t"):
            ch.append({"k": "t", "s": c.text or ""})
        elif t == q("w:delText"):
            ch.append({"k": "dt", "s": c.text or ""})
        elif t in (q("w:tab"), q("w:br"), q("w:cr")) and len(c.attrib) == 0:
            ch.append({"k": etree.QName(c).localname})
        elif t == q("w:br") and list(c.attrib) == [q("w:type")]:
            # a typed break (page / column / textWrapping): text-wise a line break like the untyped one
            ch.append({"k": "br", "type": c.get(q("w:type"))})
        elif t == q("w:noBreakHyphen") and len(c.attrib) == 0:
            ch.append({"k": "nbh"})
        elif t == q("w:commentReference"):
            ch.append({"k": "cref", "id": c.get(q("w:id"))})
        elif t == q("w:fldChar") and set(c.attrib) == {q("w:fldCharType")}:
            ch.append({"k": "fld", "type": c.get(q("w:fldCharType"))})
        elif t == q("w:instrText"):
            ch.append({"k": "instr", "s": c.text or ""})
        else:
            ch.append({"k": "o", "xml": _ser(c)})
    out = {"b": _onoff(rpr, "w:b"), "i": _onoff(rpr, "w:i"), "rest": rest, "ch": ch}
    if rpr is not None and len(rpr) == 0:
        out["empty_rpr"] = True
    return out


def _rev(el, kind):
    return {"k": kind, "id": el.get(q("w:id")), "author": el.get(q("w:author")), "date": el.get(q("w:date"))}


def r_node(c, in_ins=False) -> dict:
    t = c.tag
    if t == q("w:r"):
        return {"k": "r", "run": r_run(c)}
    if t == q("w:commentRangeStart"):
        return {"k": "cs", "id": c.get(q("w:id"))}
    if t == q("w:commentRangeEnd"):
        return {"k": "ce", "id": c.get(q("w:id"))}
    if not in_ins:
        if t == q("w:ins"):
            n = _rev(c, "ins")
            n["ch"] = [r_node(x, True) for x in c]
            return n
        if t == q("w:del") and all(x.tag == q("w:r") for x in c):
            n = _rev(c, "del")
            n["runs"] = [r_run(x) for x in c]
            return n
        if t == q("w:proofErr"):
            return {"k": "proof", "type": c.get(q("w:type"))}
        if t == q("w:hyperlink") and all(x.tag == q("w:r") for x in c):
            return {"k": "hl", "rid": c.get(q("r:id")), "anchor": c.get(q("w:anchor")), "runs": [r_run(x) for x in c]}
    return {"k": "o", "xml": _ser(c)}


def r_para(p) -> dict:
    ppr = p.find(q("w:pPr"))
    style = None
    rest = ""
    if ppr is not None:
        ps = ppr.find(q("w:pStyle"))
        if ps is not None:
            style = ps.get(q("w:val"))
        rest = "".join(_ser(c) for c in ppr if c.tag != q("w:pStyle"))
    out = {"style": style, "ppr": rest, "nodes": [r_node(c) for c in p if c.tag != q("w:pPr")]}
    pid = p.get(q("w14:paraId"))
    if pid:
        out["para_id"] = pid
    return out


def r_blocks(parent) -> list:
    out = []
    for c in parent:
        if c.tag == q("w:p"):
            out.append({"p": r_para(c)})
        elif c.tag == q("w:tbl"):
            tblpr = c.find(q("w:tblPr"))
            grid = c.find(q("w:tblGrid"))
            rows = []
            for tr in c.findall(q("w:tr")):
                trpr = tr.find(q("w:trPr"))
                cells = []
                for tc in tr.findall(q("w:tc")):
                    tcpr = tc.find(q("w:tcPr"))
                    span, vm, pr = 1, None, ""
                    if tcpr is not None:
                        for x in tcpr:
                            if x.tag == q("w:gridSpan"):
                                span = int(x.get(q("w:val")))
                            elif x.tag == q("w:vMerge"):
                                vm = x.get(q("w:val")) or "continue"
                            else:
                                pr += _ser(x)
                    cells.append({"pr": pr, "span": span, "vmerge": vm, "blocks": r_blocks([x for x in tc if x.tag != q("w:tcPr")])})
                rows.append({"pr": "".join(_ser(x) for x in trpr) if trpr is not None else "", "cells": cells})
            t = {"pr": "".join(_ser(x) for x in tblpr) if tblpr is not None else "", "rows": rows}
            if grid is not None:
                t["grid"] = _ser(grid)
            out.append({"tbl": t})
        elif c.tag == q("w:sectPr"):
            continue
        else:
            out.append({"other": _ser(c)})
    return out


class Package:
    """Zip members, content types and relationships of a DOCX, for the reader and the package oracles."""

    def __init__(self, data: bytes):
        self.zip = zipfile.ZipFile(io.BytesIO(data))
        self.names = self.zip.namelist()
        self.members = {n: self.zip.read(n) for n in self.names}
        ct = etree.fromstring(self.members["[Content_Types].xml"])
        self.defaults = {e.get("Extension").lower(): e.get("ContentType") for e in ct if e.tag.endswith("Default")}
        self.overrides = {e.get("PartName"): e.get("ContentType") for e in ct if e.tag.endswith("Override")}
        self.doc_rels = self.rels_of("word/document.xml")

    def content_type(self, name):
        pn = "/" + name
        if pn in self.overrides:
            return self.overrides[pn]
        ext = name.rsplit(".", 1)[-1].lower()
        return self.defaults.get(ext)

    def rels_of(self, name):
        d, b = name.rsplit("/", 1) if "/" in name else ("", name)
        rn = (d + "/" if d else "") + "_rels/" + b + ".rels"
        if rn not in self.members:
            return []
        root = etree.fromstring(self.members[rn])
        return [{"id": e.get("Id"), "type": e.get("Type"), "target": e.get("Target"), "mode": e.get("TargetMode")} for e in root]

    def part_by_type(self, ctype):
        return [n for n in self.names if self.content_type(n) == ctype]

    def resolve(self, base, target):
        if target.startswith("/"):
            return target[1:]
        d = base.rsplit("/", 1)[0] if "/" in base else ""
        parts = (d + "/" + target).split("/")
        out = []
        for p in parts:
            if p == "..":
                out.pop()
            elif p and p != ".":
                out.append(p)
        return "/".join(out)


def read_docx(data: bytes) -> dict:
    pkg = Package(data)
    root = etree.fromstring(pkg.members["word/document.xml"])
    body = root.find(q("w:body"))
    sect = body.find(q("w:sectPr"))
    doc = {"headers": [], "footers": [], "body": r_blocks(body), "title_pg": False, "even_odd": False,
           "comments": [], "parts": {"comments": False, "extended": False, "ids": False, "extensible": False}, "sect": ""}
    relmap = {r["id"]: r for r in pkg.doc_rels}
    if sect is not None:
        known = ""
        for c in sect:
            if c.tag in (q("w:headerReference"), q("w:footerReference")):
                rel = relmap.get(c.get(q("r:id")))
                if rel is None:
                    continue
                name = pkg.resolve("word/document.xml", rel["target"])
                sroot = etree.fromstring(pkg.members[name])
                st = {"type": c.get(q("w:type")), "blocks": r_blocks(sroot), "part": name}
                (doc["headers"] if c.tag == q("w:headerReference") else doc["footers"]).append(st)
            elif c.tag == q("w:titlePg"):
                doc["title_pg"] = True
            elif c.tag in (q("w:pgSz"), q("w:pgMar")):
                known += ""
            else:
                doc["sect"] += _ser(c)
    if b"evenAndOddHeaders" in pkg.members.get("word/settings.xml", b""):
        doc["even_odd"] = True
    styles_xml = pkg.members.get("word/styles.xml", b"")
    if b'w:styleId="Titre1"' in styles_xml:
        doc["styles_variant"] = "localized"
        _map_para_styles(doc, lambda sid: re.sub(r"^Titre(\d)$", r"Heading\1", sid))
    elif styles_xml and b'w:styleId="Heading1"' not in styles_xml:
        doc["styles_variant"] = "no_headings"
    related = {pkg.resolve("word/document.xml", r["target"]) for r in pkg.doc_rels if r.get("mode") != "External"}

    def flag(names):
        if not names:
            return False
        return True if names[0] in related else "unrelated"

    cn = pkg.part_by_type(CT_COMMENTS)
    doc["parts"]["comments"] = flag(cn)
    if cn:
        croot = etree.fromstring(pkg.members[cn[0]])
        for c in croot.findall(q("w:comment")):
            paras = []
            for p in c.findall(q("w:p")):
                texts = [t.text or "" for r in p.findall(q("w:r")) for t in r.findall(q("w:t"))]
                paras.append({"para_id": p.get(q("w14:paraId")), "text": texts})
            doc["comments"].append({"id": c.get(q("w:id")), "author": c.get(q("w:author")), "date": c.get(q("w:date")),
                                    "initials": c.get(q("w:initials")), "paras": paras,
                                    "legacy_parent": c.get(q("w15:p")), "done_attr": c.get(q("w15:done"))})
    en = pkg.part_by_type(CT_EXT)
    doc["parts"]["extended"] = flag(en)
    doc["comments_ex"] = []
    if en:
        for e in etree.fromstring(pkg.members[en[0]]):
            doc["comments_ex"].append({"para_id": e.get(q("w15:paraId")), "parent": e.get(q("w15:paraIdParent")), "done": e.get(q("w15:done"))})
    inn = pkg.part_by_type(CT_IDS)
    doc["parts"]["ids"] = flag(inn)
    doc["comments_ids"] = []
    if inn:
        for e in etree.fromstring(pkg.members[inn[0]]):
            doc["comments_ids"].append({"para_id": e.get(q("w16cid:paraId")), "durable": e.get(q("w16cid:durableId"))})
    xn = pkg.part_by_type(CT_CEX)
    doc["parts"]["extensible"] = flag(xn)
    doc["comments_cex"] = []
    if xn:
        for e in etree.fromstring(pkg.members[xn[0]]):
            doc["comments_cex"].append({"durable": e.get(q("w16cex:durableId")), "date": e.get(q("w16cex:dateUtc"))})
    doc["hyperlinks"] = [{"rid": r["id"], "target": r["target"]} for r in pkg.doc_rels if r["type"] == RT_HYPERLINK]
    return doc


def _map_para_styles(doc, f):
    def walk(blocks):
        for b in blocks:
            if "p" in b:
                if b["p"].get("style") is not None:
                    b["p"]["style"] = f(b["p"]["style"])
            elif "tbl" in b:
                for row in b["tbl"]["rows"]:
                    for c in row["cells"]:
                        walk(c["blocks"])
    walk(doc["body"])
    for st in doc.get("headers", []) + doc.get("footers", []):
        walk(st["blocks"])


def undefined_paragraph_styles(data: bytes) -> list:
    """paragraph style ids used in the stories of a package that its styles part does not define (raw ids)"""
    pkg = Package(data)
    defined = set(re.findall(rb'w:styleId="([^"]*)"', pkg.members.get("word/styles.xml", b"")))
    used = set()
    for n, b in pkg.members.items():
        if re.match(r"^word/(document|header\d*|footer\d*)\.xml$", n):
            used |= set(re.findall(rb'<w:pStyle w:val="([^"]*)"', b))
    return sorted(x.decode("utf-8", "replace") for x in used - defined)


def strip_volatile(doc: dict) -> dict:
    """Drops reader-only bookkeeping so that a written document compares equal to its read-back."""
    d = copy.deepcopy(doc)
    for st in d.get("headers", []) + d.get("footers", []):
        st.pop("part", None)
    return d
