"""Canonical form of a saved session result for comparison with the Lean engine model: the session timestamp,
comment timestamps and random paragraph / durable ids are renamed (order-preservingly) to the model's placeholders."""
from __future__ import annotations

import copy
import json


def canon_out(out_doc, in_doc, author):
    d = copy.deepcopy(out_doc)
    # marks the same author left in an earlier round are part of the input: their dates stay
    old_marks = set()

    def collect(blocks):
        for b in blocks:
            if "p" in b:
                for n in b["p"]["nodes"]:
                    if n["k"] in ("ins", "del") and n.get("author") == author:
                        old_marks.add(n["id"])
            elif "tbl" in b:
                for row in b["tbl"]["rows"]:
                    for c in row["cells"]:
                        collect(c["blocks"])

    collect(in_doc["body"])
    for s in in_doc.get("headers", []) + in_doc.get("footers", []):
        collect(s["blocks"])

    def fix_blocks(blocks):
        for b in blocks:
            if "p" in b:
                for n in b["p"]["nodes"]:
                    if n["k"] in ("ins", "del") and n.get("author") == author and n["id"] not in old_marks:
                        n["date"] = "DATE"
            elif "tbl" in b:
                for row in b["tbl"]["rows"]:
                    for c in row["cells"]:
                        fix_blocks(c["blocks"])

    fix_blocks(d["body"])
    for s in d.get("headers", []) + d.get("footers", []):
        fix_blocks(s["blocks"])
    old_c = {c["id"] for c in in_doc.get("comments", [])}
    known_pids = {p.get("para_id") for c in in_doc.get("comments", []) for p in c["paras"]}
    known_dur = {e["durable"] for e in in_doc.get("comments_ids", [])}
    ren = {}

    def rn(x, known):
        if x is None or x in known:
            return x
        if x not in ren:
            ren[x] = f"NEW{len(ren)}"
        return ren[x]

    # order of allocation in add_comment: paraId, then durableId, per new comment in order
    ids_by_pid = {e["para_id"]: e["durable"] for e in d.get("comments_ids", [])}
    for c in d.get("comments", []):
        if c["id"] not in old_c:
            c["date"] = "NOW"
            for p in c["paras"]:
                pid = p.get("para_id")
                p["para_id"] = rn(pid, known_pids)
                if pid in ids_by_pid:
                    rn(ids_by_pid[pid], known_dur)
    for e in d.get("comments_ex", []):
        e["para_id"] = ren.get(e["para_id"], e["para_id"])
        if e.get("parent"):
            e["parent"] = ren.get(e["parent"], e["parent"])
    for e in d.get("comments_ids", []):
        e["para_id"] = ren.get(e["para_id"], e["para_id"])
        e["durable"] = ren.get(e["durable"], e["durable"])
    new_dur = set(ren.values())
    for e in d.get("comments_cex", []):
        e["durable"] = ren.get(e["durable"], e["durable"])
        if e["durable"] in new_dur:
            e["date"] = "NOW"
    return d


KEYS = ("headers", "body", "footers", "comments", "comments_ex", "comments_ids", "comments_cex")


def diff_docs(model_doc, impl_doc):
    """first difference between the model's document and the canonicalised implementation result"""
    for k in KEYS:
        a = model_doc.get(k, [])
        b = impl_doc.get(k, [])
        if k in ("headers", "footers"):
            b = [{"type": s["type"], "blocks": s["blocks"]} for s in b]
        sa, sb = json.dumps(a, sort_keys=True, ensure_ascii=False), json.dumps(b, sort_keys=True, ensure_ascii=False)
        if sa != sb:
            i = next((j for j in range(min(len(sa), len(sb))) if sa[j] != sb[j]), min(len(sa), len(sb)))
            return f"{k}: model …{sa[max(0, i-140):i+140]}… implementation …{sb[max(0, i-140):i+140]}…"
    return None
