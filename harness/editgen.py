"""Seeded generation of edit batches against an abstract document.

Targets are chosen *by content* through the independent per-character view (sem.para_chars_ex) and checked for
uniqueness against the text the reader sees (the implementation's own extraction is the observation point the
property names).  Every edit records where it sits, so the oracles can compute the expected result on strings."""
from __future__ import annotations

import re

from . import sem

WS = re.compile(r"\s+")


def count_occ(hay, needle):
    if not needle:
        return 0
    n, i = 0, hay.find(needle)
    while i != -1:
        n += 1
        i = hay.find(needle, i + 1)
    return n


META = re.compile(r"\{>>.*?<<\}", re.S)


def annot_hit(texts, target):
    """does the target also occur inside annotation text of the raw view (change / comment metadata such as a comment
    that happens to contain the same letters)? Such a target is not 'a piece of the document text occurring once':
    the engine may find the annotation first."""
    blocks = texts.get("_meta")
    if blocks is None:
        blocks = texts["_meta"] = META.findall(texts["raw"])
    return any(target in b for b in blocks)


def ws_norm(s):
    return WS.sub(" ", s)


def fuzzy_norm(s):
    """what the engine's tolerant matcher may treat as equal: whitespace runs (paragraph separators included)
    and bold/italic markers next to them"""
    return WS.sub(" ", s.replace("*", "").replace("_", ""))


class ParaView:
    """accepted-view and raw-view character lists of one paragraph with attributes"""

    def __init__(self, si, pi, p):
        self.si, self.pi, self.p = si, pi, p
        self.chars = [c for c in sem.para_chars_ex(p) if not c["hidden"]]
        self.acc = [c for c in self.chars if c["state"] != "del"]

    def accepted_text(self):
        return "".join(c["c"] for c in self.acc)


def stretch_ok(chars):
    """a range of the reader's text that consists of real characters only: no marker, wrapper or metadata may lie
    strictly inside, so state / revision / comment set are constant and formatted runs are not crossed."""
    if not chars:
        return False
    first = chars[0]
    for c in chars:
        if c["c"] == "\n":
            return False
        if c["state"] != first["state"] or c["rid"] != first["rid"] or c["comments"] != first["comments"]:
            return False
    if any(c["marked"] for c in chars) and len({c["run"] for c in chars}) > 1:
        return False
    return True


def pick_target(rng, pv, texts, tries=12, min_len=2, max_len=18, states=("plain",)):
    """-> dict(a, b in accepted-view coordinates of the paragraph, target) or None"""
    acc = pv.acc
    if len(acc) < min_len:
        return None
    for _ in range(tries):
        L = rng.randint(min_len, min(max_len, len(acc)))
        a = rng.randint(0, len(acc) - L)
        # bias to word boundaries half of the time
        if rng.random() < 0.5:
            while a > 0 and acc[a - 1]["c"] != " ":
                a -= 1
            b = min(len(acc), a + L)
            while b < len(acc) and acc[b]["c"] != " ":
                b += 1
        else:
            b = a + L
        seg = acc[a:b]
        if not seg or seg[0]["state"] not in states:
            continue
        # characters between a and b in document order (deleted text in between is skipped by the accepted view)
        if not stretch_ok(seg):
            continue
        target = "".join(c["c"] for c in seg)
        if not target.strip() or target != target.strip() and rng.random() < 0.7:
            continue
        cr, cc = count_occ(texts["raw"], target), count_occ(texts["clean"], target)
        if cc != 1 or cr > 1:
            continue
        if annot_hit(texts, target):
            continue
        if count_occ(ws_norm(texts["clean"]), ws_norm(target)) != 1 or count_occ(ws_norm(texts["raw"]), ws_norm(target)) > 1:
            continue
        if count_occ(fuzzy_norm(texts["clean"]), fuzzy_norm(target)) != 1:
            continue
        # does the range jump over deleted text (then only the accepted view contains it)?
        i0, i1 = pv.chars.index(seg[0]), pv.chars.index(seg[-1])
        over_del = any(c["state"] == "del" for c in pv.chars[i0:i1 + 1])
        if over_del and cr != 0:
            # the raw view cannot contain the real occurrence (deleted text lies inside it): a raw hit would be
            # annotation text (a comment that happens to contain the same letters)
            continue
        return {"si": pv.si, "pi": pv.pi, "a": a, "b": b, "target": target, "in_raw": cr == 1, "over_del": over_del,
                "state": seg[0]["state"], "rid": seg[0]["rid"], "at_para_start": a == 0, "at_para_end": b == len(acc),
                "crosses_runs": len({c["run"] for c in seg}) > 1,
                "after_tab_in_run": any(c["kind"] in ("tab", "br", "cr") and c["run"] == seg[0]["run"] for c in pv.chars[:i0]),
                "has_tab": any(c["kind"] != "text" for c in seg)}
    return None


def pick_cross_ins(rng, pv, texts):
    """a target that starts in ordinary text and ends exactly at the end of a pending insertion (as a reviewer would
    quote it from the accepted view); -> dict like pick_target or None"""
    acc = pv.acc
    ends = [i + 1 for i in range(len(acc)) if acc[i]["state"] == "ins" and
            (i + 1 == len(acc) or acc[i + 1]["state"] != "ins" or acc[i + 1]["rid"] != acc[i]["rid"])]
    rng.shuffle(ends)
    for b in ends:
        i0 = b - 1
        while i0 > 0 and acc[i0 - 1]["state"] == "ins" and acc[i0 - 1]["rid"] == acc[b - 1]["rid"]:
            i0 -= 1
        if i0 == 0 or acc[i0 - 1]["state"] != "plain":
            continue
        a = i0 - 1
        while a > 0 and acc[a - 1]["state"] == "plain" and acc[a - 1]["c"] not in " \n" and i0 - a < 10:
            a -= 1
        seg = acc[a:b]
        if any(c["c"] == "\n" for c in seg) or len({tuple(c["comments"]) for c in seg}) > 1:
            continue
        target = "".join(c["c"] for c in seg)
        if not target.strip() or target != target.strip():
            continue
        if count_occ(texts["clean"], target) != 1 or count_occ(texts["raw"], target) > 1:
            continue
        if annot_hit(texts, target):
            continue
        if count_occ(ws_norm(texts["clean"]), ws_norm(target)) != 1 or count_occ(fuzzy_norm(texts["clean"]), fuzzy_norm(target)) != 1:
            continue
        return {"si": pv.si, "pi": pv.pi, "a": a, "b": b, "target": target, "in_raw": count_occ(texts["raw"], target) == 1,
                "over_del": False, "state": "cross_ins", "rid": acc[b - 1]["rid"], "at_para_start": a == 0,
                "at_para_end": b == len(acc), "crosses_runs": True, "after_tab_in_run": False, "has_tab": False}
    return None


def pick_cross_ins_any(rng, pv, texts):
    """a target quoted from the accepted view that crosses the boundary of a pending insertion: it reaches into the
    insertion from the text before it ('in'), out of it into the text behind it ('out'), or covers it together with
    text on both sides ('over'); -> dict like pick_target (+ shape) or None"""
    acc = pv.acc
    segs = []
    i = 0
    while i < len(acc):
        if acc[i]["state"] == "ins":
            j = i
            while j < len(acc) and acc[j]["state"] == "ins" and acc[j]["rid"] == acc[i]["rid"]:
                j += 1
            segs.append((i, j))
            i = j
        else:
            i += 1
    rng.shuffle(segs)

    def plain_left(i0, n):
        a = i0
        while a > 0 and i0 - a < n and acc[a - 1]["state"] == "plain" and acc[a - 1]["c"] != "\n":
            a -= 1
        while a < i0 and acc[a]["c"] == " ":
            a += 1
        return a

    def plain_right(i1, n):
        b = i1
        while b < len(acc) and b - i1 < n and acc[b]["state"] == "plain" and acc[b]["c"] != "\n":
            b += 1
        while b > i1 and acc[b - 1]["c"] == " ":
            b -= 1
        return b

    for i0, i1 in segs:
        if i1 - i0 < 2:
            continue
        shape = rng.choice(["in", "out", "over", "over"])
        if shape == "in":
            a, b = plain_left(i0, rng.randint(2, 8)), rng.randint(i0 + 1, i1 - 1)
            if a == i0:
                continue
        elif shape == "out":
            a, b = rng.randint(i0 + 1, i1 - 1), plain_right(i1, rng.randint(2, 8))
            if b == i1:
                continue
        else:
            a, b = plain_left(i0, rng.randint(2, 8)), plain_right(i1, rng.randint(2, 8))
            if a == i0 or b == i1:
                continue
        seg = acc[a:b]
        if any(c["c"] == "\n" for c in seg) or any(c["marked"] for c in seg):
            continue
        # (the range may also cross the start / end of a comment range that lies in the insertion)
        target = "".join(c["c"] for c in seg)
        if not target.strip() or target != target.strip():
            continue
        if count_occ(texts["clean"], target) != 1 or count_occ(texts["raw"], target) != 0:
            # (wrappers of the insertion lie inside the real occurrence in the raw view: a raw hit would be annotation text)
            continue
        if count_occ(ws_norm(texts["clean"]), ws_norm(target)) != 1 or count_occ(fuzzy_norm(texts["clean"]), fuzzy_norm(target)) != 1:
            continue
        i_first, i_last = pv.chars.index(seg[0]), pv.chars.index(seg[-1])
        if any(c["state"] == "del" for c in pv.chars[i_first:i_last + 1]):
            continue
        return {"si": pv.si, "pi": pv.pi, "a": a, "b": b, "target": target, "in_raw": count_occ(texts["raw"], target) == 1,
                "over_del": False, "state": "cross_ins", "rid": acc[i0]["rid"], "at_para_start": a == 0,
                "at_para_end": b == len(acc), "crosses_runs": True, "after_tab_in_run": False, "has_tab": False, "shape": shape}
    return None


def gen_whole_ins_edit(rng, doc, texts):
    """an edit whose target is the whole text of another reviewer's pending insertion: deleted, or replaced;
    -> list with 0 or 1 edit"""
    word = WordSource(rng)
    pvs = [ParaView(si, pi, p) for pi, (si, p) in enumerate(sem.all_paragraphs(doc))]
    rng.shuffle(pvs)
    for pv in pvs[:10]:
        acc = pv.acc
        i = 0
        while i < len(acc):
            if acc[i]["state"] != "ins":
                i += 1
                continue
            j = i
            while j < len(acc) and acc[j]["state"] == "ins" and acc[j]["rid"] == acc[i]["rid"]:
                j += 1
            seg = acc[i:j]
            a, b = i, j
            i = j
            # the whole insertion: every character carrying this id in the paragraph
            if sum(1 for c in pv.chars if c["state"] == "ins" and c["rid"] == seg[0]["rid"]) != len(seg):
                continue
            target = "".join(c["c"] for c in seg)
            if len(target.strip()) < 2 or "\n" in target or any(c["marked"] for c in seg) or len({tuple(c["comments"]) for c in seg}) > 1:
                continue
            if count_occ(texts["clean"], target) != 1 or count_occ(texts["raw"], target) != 1 or annot_hit(texts, target):
                continue
            if count_occ(fuzzy_norm(texts["clean"]), fuzzy_norm(target)) != 1:
                continue
            kind = "delete" if rng.random() < 0.7 else "replace"
            return [{"si": pv.si, "pi": pv.pi, "a": a, "b": b, "target": target, "new": "" if kind == "delete" else word(),
                     "kind": kind, "comment": None, "locatable": True, "in_raw": True, "over_del": False, "state": "ins",
                     "rid": seg[0]["rid"], "whole_insertion": True}]
    return []


def gen_cell_start_prefix(rng, doc, texts):
    """a word put in front of the first word of a table cell that is not the first cell of its row (after context
    trimming: a pure insertion at the very start of the cell); -> list with 0 or 1 edit"""
    word = WordSource(rng)
    firsts = []

    def walk(blocks):
        for b in blocks:
            if "tbl" in b:
                for row in b["tbl"]["rows"]:
                    for ci, c in enumerate(row["cells"]):
                        if ci > 0 and c["blocks"] and "p" in c["blocks"][0] and c.get("vmerge") in (None, "none", "restart"):
                            firsts.append(c["blocks"][0]["p"])
                        walk(c["blocks"])
    walk(doc["body"])
    rng.shuffle(firsts)
    pvs = {id(p): ParaView(si, pi, p) for pi, (si, p) in enumerate(sem.all_paragraphs(doc))}
    for p in firsts[:6]:
        pv = pvs.get(id(p))
        if pv is None or len(pv.acc) < 3 or pv.acc[0]["state"] != "plain" or pv.acc[0]["marked"]:
            continue
        b = 0
        while b < len(pv.acc) and b < 14 and pv.acc[b]["c"] != " ":
            b += 1
        e = _range_edit(rng, pv, texts, 0, b, word, kind="prefix")
        if not e or not e["in_raw"] or not e["target"][:1].isalnum():
            continue
        e["new"] = word() + " " + e["target"]
        e.update({"state": "plain", "rid": None, "at_para_start": True, "kind": "prefix_at_cell_start"})
        return [e]
    return []


def gen_cross_ins_any(rng, doc, texts):
    """one replace / delete / shared-context edit on such a target (list with 0 or 1 edit)"""
    pvs = [ParaView(si, pi, p) for pi, (si, p) in enumerate(sem.all_paragraphs(doc))]
    rng.shuffle(pvs)
    word = WordSource(rng)
    for pv in pvs[:8]:
        t = pick_cross_ins_any(rng, pv, texts)
        if t:
            kind = rng.choice(["replace", "replace", "delete", "shared"])
            return [{**t, "kind": kind, "new": new_text_for(rng, t["target"], kind, word), "comment": None, "locatable": True}]
    return []


def gen_hf_ins_edit(rng, doc, texts):
    """one edit on text of a pending insertion that sits in a header / footer story: inside the insertion, or crossing
    its boundary (list with 0 or 1 edit)"""
    body = sem.body_story_index(doc)
    pvs = [ParaView(si, pi, p) for pi, (si, p) in enumerate(sem.all_paragraphs(doc)) if si != body]
    pvs = [pv for pv in pvs if any(c["state"] == "ins" for c in pv.acc)]
    rng.shuffle(pvs)
    word = WordSource(rng)
    for pv in pvs[:6]:
        t = pick_target(rng, pv, texts, states=("ins",), max_len=10) if rng.random() < 0.6 else pick_cross_ins_any(rng, pv, texts)
        if t:
            kind = rng.choice(["replace", "replace", "delete", "shared", "extend"])
            return [{**t, "kind": kind, "new": new_text_for(rng, t["target"], kind, word), "comment": None, "locatable": True}]
    return []


def gen_block_prefix_edit(rng, doc, texts):
    """new paragraphs / a heading put in front of the first words of a paragraph (the first paragraph of the body
    when a header precedes it, else any paragraph start); -> list with 0 or 1 edit"""
    word = WordSource(rng)
    pvs = [ParaView(si, pi, p) for pi, (si, p) in enumerate(sem.all_paragraphs(doc))]
    body = sem.body_story_index(doc)
    # the first paragraph of every story that follows another story in the text (a second header, the body behind a
    # header, a footer): the preceding run then belongs to a different story - of the same kind or not
    firsts = []
    for si in sorted({pv.si for pv in pvs if pv.si > 0}):
        firsts.append(next(pv for pv in pvs if pv.si == si))
    if len(firsts) > 1:
        k = rng.randrange(len(firsts))
        firsts = [firsts[k]] + firsts[:k] + firsts[k + 1:]
    rng.shuffle(pvs)
    for pv in firsts + pvs[:4]:
        acc = pv.acc
        b = 0
        while b < len(acc) and b < 14 and (acc[b]["c"] != " " or b < 3):
            b += 1
        seg = acc[:b]
        if not seg or not stretch_ok(seg) or seg[0]["state"] != "plain":
            continue
        target = "".join(c["c"] for c in seg)
        if not target.strip() or target != target.strip():
            continue
        if count_occ(texts["clean"], target) != 1 or count_occ(texts["raw"], target) != 1:
            continue
        if annot_hit(texts, target):
            continue
        if count_occ(fuzzy_norm(texts["clean"]), fuzzy_norm(target)) != 1:
            continue
        w = word()
        new = rng.choice(["# " + w + "\n" + target, w + "\n" + target, "## " + w + "\n" + word() + "\n" + target])
        return [{"si": pv.si, "pi": pv.pi, "a": 0, "b": b, "target": target, "new": new, "kind": "block_prefix", "comment": None,
                 "locatable": True, "in_raw": True, "over_del": False, "state": "plain", "rid": None, "at_para_start": True}]
    return []


def gen_para_end_extend(rng, doc, texts):
    """text appended to the very end of a paragraph / table cell, ending with a blank (the style source rule looks at
    the run *behind* the insertion point then); -> list with 0 or 1 edit"""
    word = WordSource(rng)
    pvs = [ParaView(si, pi, p) for pi, (si, p) in enumerate(sem.all_paragraphs(doc))]
    rng.shuffle(pvs)
    for pv in pvs[:8]:
        acc = pv.acc
        if len(acc) < 3 or acc[-1]["c"] in " \n":
            continue
        a = len(acc) - 1
        while a > 0 and acc[a - 1]["c"] != " " and len(acc) - a < 12:
            a -= 1
        e = _range_edit(rng, pv, texts, a, len(acc), word, kind="extend")
        if not e or not e["in_raw"]:
            continue
        e["new"] = e["target"] + " " + word() + " "
        e.update({"state": "plain", "rid": None, "at_para_end": True, "kind": "extend_blank_at_end"})
        return [e]
    return []


def gen_cross_ins_edit(rng, doc, texts):
    """one edit that appends to / changes the tail of such a target (list with 0 or 1 edit)"""
    pvs = [ParaView(si, pi, p) for pi, (si, p) in enumerate(sem.all_paragraphs(doc))]
    rng.shuffle(pvs)
    word = WordSource(rng)
    for pv in pvs[:6]:
        t = pick_cross_ins(rng, pv, texts)
        if t:
            new = t["target"] + rng.choice([", " + word(), ",", " " + word(), ";"])
            return [{**t, "kind": "extend", "new": new, "comment": None, "locatable": True}]
    return []


def gen_marked_edit(rng, doc, texts, avoid_pi=()):
    """one edit whose target is quoted from the reader's text *with* the bold / italic markers of a formatted run
    (optionally with the plain word in front of it), extended behind the closing marker or prefixed before the
    opening one; -> list with 0 or 1 edit. `new_real` is the expected text without markers."""
    pvs = [ParaView(si, pi, p) for pi, (si, p) in enumerate(sem.all_paragraphs(doc))]
    rng.shuffle(pvs)
    word = WordSource(rng)
    for pv in pvs:
        if pv.pi in avoid_pi:
            continue
        acc = pv.acc
        runs = {}
        for i, c in enumerate(acc):
            runs.setdefault(c["run"], []).append(i)
        cands = []
        for rno, idxs in runs.items():
            seg = [acc[i] for i in idxs]
            if not seg[0]["marked"] or any(c["state"] != "plain" or c["c"] == "\n" or c["comments"] for c in seg):
                continue
            if idxs != list(range(idxs[0], idxs[-1] + 1)):
                continue
            # the whole run must be visible (no part of it deleted / hidden)
            if sum(1 for c in pv.chars if c["run"] == rno) != len(seg):
                continue
            txt = "".join(c["c"] for c in seg)
            if not txt.strip() or txt != txt.strip():
                continue
            cands.append((idxs[0], idxs[-1] + 1, seg[0]["fmt"], txt))
        rng.shuffle(cands)
        for a, b, f, txt in cands:
            bold, ital = sem.onoff_true(f[0]), sem.onoff_true(f[1])
            if (a > 0 and (acc[a - 1]["c"].isalnum() or acc[a - 1]["c"] == "_")) or \
                    (b < len(acc) and (acc[b]["c"].isalnum() or acc[b]["c"] == "_")):
                # the formatted run is glued to a word character ('r' + italic 'eed'): quoted with its markers it reads
                # like an identifier (r_eed_), which the engine rightly keeps literal
                continue
            pre = ("**" if bold else "") + ("_" if ital else "")
            suf = ("_" if ital else "") + ("**" if bold else "")
            lead = ""
            a0 = a
            if rng.random() < 0.6:
                # the plain word in front of the formatted run
                while a0 > 0 and a - a0 < 12 and acc[a0 - 1]["state"] == "plain" and not acc[a0 - 1]["marked"] \
                        and not acc[a0 - 1]["comments"] and acc[a0 - 1]["c"] != "\n" and acc[a0 - 1]["run"] == acc[a - 1]["run"]:
                    a0 -= 1
                lead = "".join(c["c"] for c in acc[a0:a])
                if lead != lead.lstrip():
                    k = len(lead) - len(lead.lstrip())
                    a0 += k
                    lead = lead[k:]
            target = lead + pre + txt + suf
            real = lead + txt
            if count_occ(texts["clean"], target) != 1 or count_occ(texts["raw"], target) != 1:
                continue
            if annot_hit(texts, target):
                continue
            if count_occ(fuzzy_norm(texts["clean"]), fuzzy_norm(target)) != 1:
                continue
            w = word()
            c = rng.random()
            if c < 0.4:
                # a change inside the formatted run, quoted with its markers: '**Net 30**' -> '**Net 60**'
                k = txt.rfind(" ") + 1
                inner = txt[:k] + w
                kind, new, new_real = "replace_inside_markers", lead + pre + inner + suf, lead + inner
            elif c < 0.8:
                kind, new, new_real = "extend", target + " " + w, real + " " + w
            else:
                kind, new, new_real = "prefix", w + " " + target, w + " " + real
            return [{"si": pv.si, "pi": pv.pi, "a": a0, "b": b, "target": target, "new": new, "new_real": new_real, "kind": kind,
                     "comment": None, "locatable": True, "in_raw": True, "over_del": False, "state": "plain", "rid": None,
                     "at_para_start": a0 == 0, "at_para_end": b == len(acc), "crosses_runs": bool(lead), "after_tab_in_run": False,
                     "has_tab": False, "quoted_markers": True}]
    return []


NEW_WORDS = ["REPLACED", "amended text", "Forty-Two", "x", "new wording here", "Ünïcode", "a b c"]


def new_text_for(rng, target, kind, word):
    w = word()
    if kind == "replace":
        return rng.choice(NEW_WORDS) + ("" if rng.random() < 0.5 else " " + w)
    if kind == "delete":
        return ""
    if kind == "extend":
        return target + rng.choice([" " + w, w, ", " + w, " "])
    if kind == "prefix":
        return rng.choice([w + " ", w, "(" + w + ") "]) + target
    if kind == "shared":
        parts = target.split(" ")
        if len(parts) >= 3:
            k = rng.randint(1, len(parts) - 2)
            parts[k] = w
            return " ".join(parts)
        if len(parts) == 2:
            return parts[0] + " " + w + " " + parts[1]
        k = max(1, len(target) // 2)
        return target[:k] + w + target[k:]
    if kind == "same":
        return target
    if kind == "multiline":
        return rng.choice([w + "\nSecond line " + word(), target + "\n" + w, w + "\n\n" + word() + "\n",
                           w + "\n#" + word() + " tag", w + "\n#1 " + word()])
    if kind == "markdown":
        return rng.choice(["**" + w + "** plain", "plain _" + w + "_", "**" + w + "** and _" + word() + "_", "_" + w + "_"])
    if kind == "heading":
        return rng.choice(["# " + w, "## " + w + "\nbody " + word(), w + "\n## " + word(), w + "\n# " + word() + "\ntail " + word()])
    if kind == "literal":
        return rng.choice(["[___] fee", "snake_case_name", "2*3*4", "a_b", "__init__", "**", "f(x) = y_1"])
    raise ValueError(kind)


KINDS_C02 = ["replace", "replace", "delete", "extend", "prefix", "shared", "shared"]


class WordSource:
    def __init__(self, rng):
        self.rng, self.n = rng, 0

    def __call__(self):
        self.n += 1
        return self.rng.choice(["Zq", "Vx", "Kj", "Wy"]) + f"{self.n}" + self.rng.choice(["", "a", "bc"])


def gen_batch(rng, doc, texts, n_edits, kinds, states=("plain",), comment_p=0.0, allow_same_para=True, same_para_bias=0.5,
              allow_collisions=False):
    """Non-overlapping exact unique targets; -> list of edit dicts (target, new, comment, where...)."""
    pvs = [ParaView(si, pi, p) for pi, (si, p) in enumerate(sem.all_paragraphs(doc))]
    pvs = [pv for pv in pvs if len(pv.acc) >= 2]
    word = WordSource(rng)
    edits = []
    used = {}
    for _ in range(n_edits * 4):
        if len(edits) >= n_edits or not pvs:
            break
        pv = rng.choice(pvs)
        if edits and rng.random() < same_para_bias:
            # cluster edits in paragraphs that are already being edited (same run, neighbouring runs)
            pv = next((x for x in pvs if x.pi == rng.choice(edits)["pi"]), pv)
        t = pick_target(rng, pv, texts, states=states)
        if not t:
            continue
        rngs = used.setdefault(t["pi"], [])
        if any(t["a"] < e and t["b"] > s for s, e in rngs):
            continue
        if not allow_same_para and rngs:
            continue
        # targets of one batch must not contain one another as strings either (uniqueness of each)
        if any(t["target"] in e["target"] or e["target"] in t["target"] for e in edits):
            continue
        kind = rng.choice(kinds)
        new = new_text_for(rng, t["target"], kind, word)
        if not allow_collisions and (any(t["target"] in (e["new"] or "") for e in edits) or
                                     any(e["target"] in new for e in edits if e["target"] != t["target"])):
            # (the engine matches against the document as the batch changes it: a target that also occurs in another
            # edit's new text is the domain of the open finding C02 F-target-in-new-text-of-batch, exercised there)
            continue
        rngs.append((t["a"], t["b"]))
        edits.append({**t, "kind": kind, "new": new, "comment": ("note " + word()) if rng.random() < comment_p else None})
    if not allow_collisions:
        bad = set(batch_collisions(doc, edits))
        edits = [e for i, e in enumerate(edits) if i not in bad]
    return edits


def batch_collisions(doc, edits):
    """indices of edits whose target would no longer occur exactly once in the accepted text once the *other* edits
    of the batch are applied (it also occurs in text another edit writes, or in text that only comes about next to
    it — 'ribbon ' + '1 fjord' makes ' 1'). The engine matches against the document as the batch changes it."""
    bad = []
    loc = [e for e in edits if e.get("a", -1) >= 0 and e.get("pi", -1) >= 0]
    for i, e in enumerate(edits):
        if e not in loc or not e.get("target"):
            continue
        others = [o for o in loc if o is not e and not (o["pi"] == e["pi"] and o["a"] < e["b"] and e["a"] < o["b"])]
        if not others:
            continue
        try:
            joined = "\n\n".join(expected_accepted(doc, others))
        except Exception:
            continue
        if count_occ(joined, e["target"]) != 1:
            bad.append(i)
    return bad


def expected_accepted(doc, edits):
    """accepted text per paragraph with each (single-line) edit's target replaced by its new text at its position"""
    out = []
    by_para = {}
    for e in edits:
        by_para.setdefault(e["pi"], []).append(e)
    for pi, (si, p) in enumerate(sem.all_paragraphs(doc)):
        pv = ParaView(si, pi, p)
        txt = pv.accepted_text()
        for e in sorted(by_para.get(pi, []), key=lambda e: -e["a"]):
            # (a target quoted with its bold / italic markers: the markers are no characters of the document)
            txt = txt[:e["a"]] + e.get("new_real", e["new"]) + txt[e["b"]:]
        out.append(txt)
    return out


def accepted_paragraph_texts(doc):
    return [ParaView(si, pi, p).accepted_text() for pi, (si, p) in enumerate(sem.all_paragraphs(doc))]


# ------------------------------------------------------------------------------------------------
# mixed / conflicting batches (C01, C08, C09, C10)
# ------------------------------------------------------------------------------------------------
KINDS_ALL = KINDS_C02 + ["same", "multiline", "markdown", "heading", "literal"]


def _range_edit(rng, pv, texts, a, b, word, kind=None):
    seg = pv.acc[a:b]
    if not seg or not stretch_ok(seg) or seg[0]["state"] != "plain":
        return None
    target = "".join(c["c"] for c in seg)
    if not target.strip():
        return None
    if count_occ(texts["clean"], target) != 1 or count_occ(texts["raw"], target) > 1:
        return None
    if annot_hit(texts, target):
        return None
    if count_occ(ws_norm(texts["clean"]), ws_norm(target)) != 1 or count_occ(ws_norm(texts["raw"]), ws_norm(target)) > 1:
        return None
    if count_occ(fuzzy_norm(texts["clean"]), fuzzy_norm(target)) != 1:
        return None
    kind = kind or rng.choice(KINDS_C02)
    i0, i1 = pv.chars.index(seg[0]), pv.chars.index(seg[-1])
    if any(c["state"] == "del" for c in pv.chars[i0:i1 + 1]) and count_occ(texts["raw"], target) != 0:
        return None     # a raw hit could only be annotation text
    return {"si": pv.si, "pi": pv.pi, "a": a, "b": b, "target": target, "kind": kind, "new": new_text_for(rng, target, kind, word),
            "comment": None, "locatable": True, "in_raw": count_occ(texts["raw"], target) == 1,
            "over_del": any(c["state"] == "del" for c in pv.chars[i0:i1 + 1])}


def pick_deleted(rng, pv, texts):
    dels = [i for i, c in enumerate(pv.chars) if c["state"] == "del"]
    if len(dels) < 3:
        return None
    i = rng.choice(dels)
    j = i
    while j + 1 < len(pv.chars) and pv.chars[j + 1]["state"] == "del" and pv.chars[j + 1]["rid"] == pv.chars[i]["rid"] and j - i < 8:
        j += 1
    seg = pv.chars[i:j + 1]
    if len(seg) < 3 or not stretch_ok(seg):
        return None
    target = "".join(c["c"] for c in seg)
    if not target.strip() or target != target.strip():
        return None
    if count_occ(texts["raw"], target) != 1 or count_occ(texts["clean"], target) != 0:
        return None
    # must not be locatable by the whitespace-tolerant matcher either
    if count_occ(fuzzy_norm(texts["clean"]), fuzzy_norm(target)) != 0:
        return None
    return target


def gen_bridge_pair(rng, doc, texts):
    """two edits in one paragraph whose targets each run across a pending deletion (so both are found only in the
    accepted view) and meet in the same plain run: the first reduces, after context trimming, to a pure insertion
    inside that run, the second changes the last word of the same run.  -> [] or 2 edits"""
    word = WordSource(rng)
    pvs = [ParaView(si, pi, p) for pi, (si, p) in enumerate(sem.all_paragraphs(doc))]
    rng.shuffle(pvs)
    for pv in pvs:
        acc, chars = pv.acc, pv.chars
        pos = {id(c): i for i, c in enumerate(chars)}

        def gap_has_del(i, j):
            """deleted characters between accepted positions i and j (i < j) in document order?"""
            return any(c["state"] == "del" for c in chars[pos[id(acc[i])] + 1:pos[id(acc[j])]])

        runs = {}
        for i, c in enumerate(acc):
            runs.setdefault(c["run"], []).append(i)
        order = list(runs.items())
        rng.shuffle(order)
        for rno, idxs in order:
            seg = [acc[i] for i in idxs]
            if seg[0]["state"] != "plain" or seg[0]["marked"] or idxs != list(range(idxs[0], idxs[-1] + 1)):
                continue
            lo, hi = idxs[0], idxs[-1] + 1
            if lo == 0 or hi >= len(acc):
                continue
            txt = "".join(c["c"] for c in seg)
            if "\n" in txt:
                continue
            starts = [k for k in range(len(txt)) if txt[k] != " " and (k == 0 or txt[k - 1] == " ")]
            if len(starts) < 3 or starts[0] != 0:
                continue
            # to the left until a deletion has been crossed and a word start is reached
            a1, crossed = lo, False
            while a1 > 0 and lo - a1 < 25 and not (crossed and acc[a1 - 1]["c"] == " "):
                a1 -= 1
                crossed = crossed or gap_has_del(a1, a1 + 1)
            # to the right likewise
            b2, crossed2 = hi, False
            while b2 < len(acc) and b2 - hi < 25 and not (crossed2 and acc[b2]["c"] == " "):
                crossed2 = crossed2 or gap_has_del(b2 - 1, b2)
                b2 += 1
            if not crossed or not crossed2 or acc[a1]["c"] == " ":
                continue
            b1 = lo + starts[2] - 1                 # the first two words of the run (without the blank behind them)
            a2 = lo + starts[-1]                    # the last word of the run
            if a2 <= b1:
                continue
            e1 = _range_edit(rng, pv, texts, a1, b1, word, kind="shared")
            e2 = _range_edit(rng, pv, texts, a2, b2, word, kind="shared")
            if not e1 or not e2 or not e1["over_del"] or not e2["over_del"]:
                continue
            k1 = (lo - a1) + starts[1]           # offset in target 1 where the second word of the run starts
            e1["new"] = e1["target"][:k1] + word() + " " + e1["target"][k1:]
            lw = len(txt.rstrip(" ")) - starts[-1]
            e2["new"] = word() + e2["target"][lw:]
            if e1["target"] in e2["target"] or e2["target"] in e1["target"]:
                continue
            if e1["target"] != e1["target"].strip() or e2["target"] != e2["target"].strip():
                continue
            for e in (e1, e2):
                e.update({"state": "plain", "rid": None, "bridge_pair": True})
            out = [e1, e2]
            # a third, ordinary edit on a word of the same run in between, whose target length lies between the two
            # (edits are applied longest target first: accepted-view match, raw-view match that splits the run,
            # accepted-view match)
            if len(starts) >= 5:
                for k in range(2, len(starts) - 2):
                    wa = lo + starts[k]
                    wb = lo + (starts[k + 1] - 1 if txt[starts[k + 1] - 1] == " " else starts[k + 1])
                    em = _range_edit(rng, pv, texts, wa, wb, word, kind="replace")
                    lens = sorted([len(e1["target"]), len(e2["target"])])
                    if em and em["in_raw"] and lens[0] < len(em["target"]) < lens[1] and \
                            not any(em["target"] in x["target"] or x["target"] in em["target"] for x in out):
                        em.update({"state": "plain", "rid": None, "bridge_pair": True})
                        out.append(em)
                        break
            return out
    return []


def inject_bridge_paragraph(rng, doc):
    """Appends a paragraph  A {--d1--} B {--d2--} C  (two pending deletions by another reviewer, B a long plain run) to the
    body and returns three edits on it: one across d1 (longest target), one on a word in the middle of B, one across
    d2 (shortest target) — applied longest first, so: accepted-view match, raw-view match that splits B, accepted-view
    match in the same run."""
    import json as _json

    ids = [int(x) for x in re.findall(r'"id": "(\d+)"', _json.dumps(doc))]
    nid = max(ids + [0]) + 1
    tag = "".join(rng.choice("bcdfgkmpt") for _ in range(2))
    w = lambda k: f"H{tag}{k}"

    def run(t):
        return {"k": "r", "run": {"b": None, "i": None, "rest": "", "ch": [{"k": "t", "s": t}]}}

    def dele(t, i):
        return {"k": "del", "id": str(i), "author": "Bob", "date": "2024-01-05T10:00:00Z",
                "runs": [{"b": None, "i": None, "rest": "", "ch": [{"k": "dt", "s": t}]}]}

    A = f"{w('a')} {w('b')} {w('c')} "
    B = f"{w('e')} {w('f')} {w('g')}ggggg {w('h')} {w('i')} {w('j')} "
    C = f"{w('l')} {w('m')}."
    doc["body"].append({"p": {"style": None, "ppr": "", "nodes": [run(A), dele(w('d') + " ", nid), run(B), dele(w('k') + " ", nid + 1), run(C)]}})
    paras = sem.all_paragraphs(doc)
    pi = len(paras) - 1 - len([1 for s in doc.get("footers", [])])   # body paragraph index is found by content below
    pi = next(i for i, (si, p) in enumerate(paras) if p is doc["body"][-1]["p"])
    si = paras[pi][0]
    acc = A + B + C

    def ed(target, new, kind):
        a = acc.index(target)
        return {"si": si, "pi": pi, "a": a, "b": a + len(target), "target": target, "new": new, "kind": kind, "comment": None,
                "locatable": True, "in_raw": False, "over_del": True, "state": "plain", "rid": None, "bridge_pair": True}

    x1, x2, x3 = ("X" + tag + "1"), ("X" + tag + "2"), ("X" + tag + "3")
    e1 = ed(f"{w('b')} {w('c')} {w('e')} {w('f')}", f"{w('b')} {w('c')} {x1} {w('f')}", "shared")
    e2 = ed(f"{w('g')}ggggg", x2, "replace")
    e2.update(in_raw=True, over_del=False)
    e3 = ed(f"{w('j')} {w('l')}", f"{x3} {w('l')}", "shared")
    return [e1, e2, e3]


def gen_mixed_batch(rng, doc, texts, n_edits, kinds=None, comment_p=0.3, conflicts=False, extras=True, states=("plain",)):
    """Found edits of every kind + (extras) not-found / empty-target edits + (conflicts) duplicate / overlapping /
    nested / inside-deleted-text edits, shuffled. Single-line kinds only when `conflicts` (the C08 oracle works on
    paragraph strings)."""
    kinds = kinds or (KINDS_C02 + ["same"] if conflicts else KINDS_ALL)
    word = WordSource(rng)
    base = gen_batch(rng, doc, texts, n_edits, kinds, comment_p=comment_p, states=states)
    for e in base:
        e["locatable"] = True
    edits = list(base)
    pvs = {pv.pi: pv for pv in (ParaView(si, pi, p) for pi, (si, p) in enumerate(sem.all_paragraphs(doc)))}
    if conflicts and base:
        for _ in range(rng.randint(1, 3)):
            e = rng.choice(base)
            bridging = [x for x in base if x.get("over_del") or not x.get("in_raw")]
            if bridging and rng.random() < 0.6:
                e = rng.choice(bridging)     # conflicts among edits that are found only in the accepted view
            pv = pvs[e["pi"]]
            c = rng.random()
            if c < 0.3:   # duplicate target, different new text
                edits.append(dict(e, new=new_text_for(rng, e["target"], "replace", word), kind="dup", comment=None))
            elif c < 0.65:  # overlapping
                a = rng.randint(max(0, e["a"] - 4), max(e["a"], e["b"] - 1))
                b = rng.randint(max(a + 1, e["a"] + 1), min(len(pv.acc), e["b"] + 5))
                x = _range_edit(rng, pv, texts, a, b, word)
                if x and (x["a"], x["b"]) != (e["a"], e["b"]):
                    edits.append(x)
            else:  # nested
                if e["b"] - e["a"] >= 4:
                    a = rng.randint(e["a"], e["b"] - 2)
                    b = rng.randint(a + 1, e["b"])
                    x = _range_edit(rng, pv, texts, a, b, word)
                    if x and (x["a"], x["b"]) != (e["a"], e["b"]):
                        edits.append(x)
        for pv in rng.sample(list(pvs.values()), min(3, len(pvs))):
            t = pick_deleted(rng, pv, texts)
            if t and rng.random() < 0.7:
                edits.append({"target": t, "new": word(), "kind": "in_deleted", "comment": None, "locatable": False,
                              "pi": pv.pi, "a": -1, "b": -1})
    if extras:
        if rng.random() < 0.5:
            edits.append({"target": "Qzx" + word(), "new": word(), "kind": "not_found", "comment": "c" if rng.random() < 0.3 else None,
                          "locatable": False, "pi": -1, "a": -1, "b": -1})
        if rng.random() < 0.3:
            edits.append({"target": "", "new": word(), "kind": "empty_target", "comment": None, "locatable": False, "pi": -1, "a": -1, "b": -1})
    rng.shuffle(edits)
    return edits
