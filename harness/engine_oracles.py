"""Property oracles over (input document, edit batch, saved output) — independent reading of the saved package."""
from __future__ import annotations

import copy
import itertools
import re

from . import editgen, sem


# ------------------------------------------------------------------------------------------------ session marks
def rev_ids(doc, body_only=True):
    ids = []
    stories = [doc["body"]] if body_only else [doc["body"]] + [s["blocks"] for s in doc.get("headers", []) + doc.get("footers", [])]
    for blocks in stories:
        for p in sem.iter_paragraphs(blocks, expand_vmerge=True):
            for n in p["nodes"]:
                if n["k"] in ("ins", "del"):
                    ids.append(n["id"])
    return ids


# a name that cannot occur in (or be completed from) the generated document words: the raw view shows it in metadata
SESSION_AUTHOR = "Q7"


def session_ids(in_doc, out_doc, author=SESSION_AUTHOR):
    """revision marks and comments created by the session: attributed to the session's author (the generator never
    uses that name) — identified by (story, id) because header/footer ids are numbered per part."""
    new_rev = set()
    stories = [("body", out_doc["body"])] + [(f"h{i}", s["blocks"]) for i, s in enumerate(out_doc.get("headers", []))] + \
              [(f"f{i}", s["blocks"]) for i, s in enumerate(out_doc.get("footers", []))]
    for name, blocks in stories:
        for p in sem.iter_paragraphs(blocks, expand_vmerge=True):
            for n in p["nodes"]:
                if n["k"] in ("ins", "del") and n.get("author") == author:
                    new_rev.add((name, n["id"]))
    oldc = {c["id"] for c in in_doc.get("comments", [])}
    new_com = {c["id"] for c in out_doc.get("comments", []) if c["id"] not in oldc}
    return new_rev, new_com


def undelete_run(run):
    r = copy.deepcopy(run)
    for a in r["ch"]:
        if a["k"] == "dt":
            a["k"] = "t"
    return r


def _strip_comment_nodes(nodes, new_com):
    out = []
    for n in nodes:
        k = n["k"]
        if k in ("cs", "ce") and n["id"] in new_com:
            continue
        if k == "r":
            ch = [a for a in n["run"]["ch"] if not (a["k"] == "cref" and a["id"] in new_com)]
            if len(ch) != len(n["run"]["ch"]):
                if not ch:
                    continue  # the reference run of a session comment
                n = {"k": "r", "run": dict(n["run"], ch=ch)}
        elif k == "ins":
            n = dict(n, ch=_strip_comment_nodes(n["ch"], new_com))
        out.append(n)
    return out


def reject_session_blocks(blocks, new_rev, new_com, story="body", author=SESSION_AUTHOR, keep_ids=frozenset()):
    # a mark belongs to the session iff it is attributed to the session's author (ids may collide inside a
    # header/footer part, see F-header-ids)
    class _Sess:
        def __contains__(self, _id):
            return False
    out = []
    for b in blocks:
        if "p" in b:
            p = b["p"]
            nodes = _strip_comment_nodes(p["nodes"], new_com)
            # (keep_ids: marks the same author left in an earlier round — they are part of the input)
            mine = lambda n: n.get("author") == author and n.get("id") not in keep_ids
            had_session_ins = any(n["k"] == "ins" and mine(n) for n in nodes)
            res = []
            for n in nodes:
                if n["k"] == "ins" and mine(n):
                    continue
                if n["k"] == "del" and mine(n):
                    res.extend({"k": "r", "run": undelete_run(r)} for r in n["runs"])
                    continue
                res.append(n)
            if had_session_ins and not res and p["nodes"]:
                # a paragraph made only of this session's insertions
                continue
            out.append({"p": dict(p, nodes=res)})
        elif "tbl" in b:
            t = copy.copy(b["tbl"])
            t["rows"] = [dict(row, cells=[dict(c, blocks=reject_session_blocks(c["blocks"], new_rev, new_com, story, author, keep_ids)) for c in row["cells"]])
                         for row in t["rows"]]
            out.append({"tbl": t})
        else:
            out.append(b)
    return out


def reject_session(out_doc, new_rev, new_com, author=SESSION_AUTHOR, keep_ids=frozenset()):
    d = dict(out_doc)
    d["body"] = reject_session_blocks(out_doc["body"], new_rev, new_com, "body", author, keep_ids)
    d["headers"] = [dict(s, blocks=reject_session_blocks(s["blocks"], new_rev, new_com, f"h{i}", author, keep_ids)) for i, s in enumerate(out_doc.get("headers", []))]
    d["footers"] = [dict(s, blocks=reject_session_blocks(s["blocks"], new_rev, new_com, f"f{i}", author, keep_ids)) for i, s in enumerate(out_doc.get("footers", []))]
    d["comments"] = [c for c in out_doc.get("comments", []) if c["id"] not in new_com]
    return d


def canon_diff(a_doc, b_doc):
    a, b = sem.canon_doc(a_doc), sem.canon_doc(b_doc)
    for part in ("headers", "body", "footers"):
        if a[part] != b[part]:
            if part == "body":
                d = sem.first_diff(a[part], b[part])
            else:
                d = next((sem.first_diff(x[1], y[1]) for x, y in zip(a[part], b[part]) if x != y), "story list differs")
            return f"{part}: first difference {str(d)[:400]}"
    return None


def marks_of(doc, author):
    """ids of the revision marks attributed to `author` (all stories)"""
    out = set()
    for _, p in _story_nodes(doc):
        for n in p["nodes"]:
            if n["k"] in ("ins", "del") and n.get("author") == author:
                out.add(n["id"])
    return out


def oracle_reversible(in_doc, out_doc, author=SESSION_AUTHOR):
    """C01: rejecting the session's marks gives back the input (up to run boundaries / proofing marks)."""
    new_rev, new_com = session_ids(in_doc, out_doc, author)
    back = reject_session(out_doc, new_rev, new_com, author, frozenset(marks_of(in_doc, author)))
    fails = []
    d = canon_diff(in_doc, back)
    if d:
        fails.append("rejecting this run's insertions/deletions/comments does not give back the input: " + d)
    if back.get("comments", []) != in_doc.get("comments", []):
        fails.append("earlier comments changed")
    return fails


# ------------------------------------------------------------------------------------------------ nesting / validity
NESTED = re.compile(r"<w:(ins|del)[ >]")


def nesting_problems(doc):
    probs = []
    for blocks in [doc["body"]] + [s["blocks"] for s in doc.get("headers", []) + doc.get("footers", [])]:
        for p in sem.iter_paragraphs(blocks, expand_vmerge=True):
            for n in p["nodes"]:
                if n["k"] == "ins":
                    for c in n["ch"]:
                        if c["k"] == "o" and NESTED.search(c["xml"]):
                            probs.append(f"revision mark nested in w:ins id={n['id']}")
                        if c["k"] == "r" and any(a["k"] == "dt" for a in c["run"]["ch"]):
                            probs.append(f"w:delText inside w:ins id={n['id']}")
                elif n["k"] == "o" and n["xml"].startswith("<w:del") and NESTED.search(n["xml"][6:]):
                    probs.append("revision mark nested in w:del")
                elif n["k"] == "o" and n["xml"].startswith("<w:ins") and NESTED.search(n["xml"][6:]):
                    probs.append("revision mark nested in w:ins")
                elif n["k"] == "del":
                    for r in n["runs"]:
                        if any(a["k"] == "t" for a in r["ch"]):
                            probs.append(f"w:t inside w:del id={n['id']}")
                        # (an empty text node that was in the run before is deleted along with it: only a deletion
                        # that deletes nothing at all is a stray mark)
                        if r["ch"] and all(a["k"] == "dt" and a["s"] == "" for a in r["ch"]):
                            probs.append(f"empty w:delText in w:del id={n['id']}")
                elif n["k"] == "r" and any(a["k"] == "dt" for a in n["run"]["ch"]):
                    probs.append("w:delText outside a deletion")
    return probs


# ------------------------------------------------------------------------------------------------ accepted text
def oracle_accept_exact(in_doc, edits, res):
    """C02: all applied, accepted paragraphs == string replacement."""
    if res["err"]:
        return [f"apply_edits raised {res['err']}"]
    fails = []
    if (res["applied"], res["skipped"]) != (len(edits), 0):
        fails.append(f"{len(edits)} exact unique non-overlapping edits, reported applied={res['applied']} skipped={res['skipped']}")
    exp = editgen.expected_accepted(in_doc, edits)
    got = editgen.accepted_paragraph_texts(res["out_doc"])
    if got != exp:
        k = next((j for j, (a, b) in enumerate(zip(got, exp)) if a != b), None)
        if k is None:
            fails.append(f"accepted view has {len(got)} paragraphs, expected {len(exp)}")
        else:
            fails.append(f"accepted text of paragraph {k} is {got[k]!r}, expected {exp[k]!r}")
    return fails


def oracle_accounting(in_doc, edits, res):
    """C08: totals, skipped edits leave no trace, conflicts resolved to a non-conflicting subset, no nesting."""
    if res["err"]:
        return [f"apply_edits raised {res['err']}"]
    fails = []
    n = len(edits)
    a, s = res["applied"], res["skipped"]
    if a + s != n:
        fails.append(f"applied {a} + skipped {s} != {n} edits submitted")
    fails.extend(nesting_problems(res["out_doc"])[:2])
    got = editgen.accepted_paragraph_texts(res["out_doc"])
    cand = [e for e in edits if e.get("locatable")]
    unloc = [e for e in edits if not e.get("locatable")]
    if a > len(cand):
        fails.append(f"{a} edits reported applied but only {len(cand)} have a target that can be located")
    if a == 0:
        d = canon_diff(in_doc, res["out_doc"])
        if d:
            fails.append("every edit was skipped but the document content changed: " + d)
        return fails
    ok = False
    for S in itertools.combinations(cand, min(a, len(cand))):
        # pairwise non-overlapping within a paragraph
        bad = False
        for x, y in itertools.combinations(S, 2):
            if x["pi"] == y["pi"] and x["a"] < y["b"] and y["a"] < x["b"]:
                bad = True
                break
            if x["pi"] == y["pi"] and (x["a"], x["b"]) == (y["a"], y["b"]):
                bad = True
                break
        if bad:
            continue
        if editgen.expected_accepted(in_doc, list(S)) == got:
            ok = True
            break
    if not ok:
        fails.append(f"accepted result is not the input with a non-conflicting subset of {a} submitted edits applied")
    return fails


# ------------------------------------------------------------------------------------------------ C09 package validity
ISO = re.compile(r"^\d{4}-\d{2}-\d{2}T\d{2}:\d{2}:\d{2}(\.\d+)?(Z|[+-]\d{2}:\d{2})?$")


def _story_nodes(doc):
    for name, blocks in [("body", doc["body"])] + [(f"h{i}", s["blocks"]) for i, s in enumerate(doc.get("headers", []))] + \
                        [(f"f{i}", s["blocks"]) for i, s in enumerate(doc.get("footers", []))]:
        for p in sem.iter_paragraphs(blocks, expand_vmerge=True):
            yield name, p


def comment_marker_counts(doc):
    cs, ce, cr = {}, {}, {}
    for _, p in _story_nodes(doc):
        def visit(nodes):
            for n in nodes:
                k = n["k"]
                if k == "cs":
                    cs[n["id"]] = cs.get(n["id"], 0) + 1
                elif k == "ce":
                    ce[n["id"]] = ce.get(n["id"], 0) + 1
                elif k == "r":
                    for a in n["run"]["ch"]:
                        if a["k"] == "cref":
                            cr[a["id"]] = cr.get(a["id"], 0) + 1
                elif k == "ins":
                    visit(n["ch"])
        visit(p["nodes"])
    return cs, ce, cr


def validate_package(out_bytes, in_doc, out_doc, author=SESSION_AUTHOR):
    """C09 clauses on the saved bytes / the independently read document."""
    import io
    import zipfile

    from lxml import etree

    from . import ooxml

    fails = []
    try:
        z = zipfile.ZipFile(io.BytesIO(out_bytes))
        names = z.namelist()
        if z.testzip() is not None:
            fails.append("corrupt zip member")
    except Exception as e:
        return [f"saved result is not a loadable package: {e}"]
    if len(names) != len(set(names)):
        fails.append(f"duplicate package members: {sorted(n for n in names if names.count(n) > 1)[:3]}")
    for n in names:
        if n.endswith(".xml") or n.endswith(".rels"):
            try:
                etree.fromstring(z.read(n))
            except Exception as e:
                fails.append(f"part {n} is not well-formed: {e}")
    pkg = ooxml.Package(out_bytes)
    for n in names:
        if not n.endswith("/") and pkg.content_type(n) is None:
            fails.append(f"no content type for {n}")
    for pn in pkg.overrides:
        if pn[1:] not in names:
            fails.append(f"content type override for missing part {pn}")
    for n in names:
        if n.endswith(".rels"):
            base = n.replace("_rels/", "").rsplit(".rels", 1)[0]
            for r in pkg.rels_of(base) if base in names or base == "" else []:
                if r.get("mode") == "External":
                    continue
                tgt = pkg.resolve(base, r["target"])
                if tgt not in names:
                    fails.append(f"relationship {r['id']} of {base} points to missing part {tgt}")
    # revision marks
    opaque_mark = re.compile(r'<w:(?:ins|del)\b[^>]*?\bw:id="([^"]*)"')

    def ids_by_story(doc):
        """ids of every w:ins / w:del of a story part: marks that are paragraph children and marks inside paragraph /
        row / cell properties or other opaque content (tracked paragraph marks, tracked rows, ...)"""
        out = {}

        def walk(x, acc):
            if isinstance(x, dict):
                if x.get("k") in ("ins", "del") and "id" in x:
                    acc.append(x["id"])
                for v in x.values():
                    walk(v, acc)
            elif isinstance(x, list):
                for v in x:
                    walk(v, acc)
            elif isinstance(x, str):
                acc.extend(opaque_mark.findall(x))

        for i, s in enumerate(doc.get("headers", [])):
            walk(s["blocks"], out.setdefault(f"header:{s.get('type')}:{i}", []))
        walk(doc["body"], out.setdefault("body", []))
        for i, s in enumerate(doc.get("footers", [])):
            walk(s["blocks"], out.setdefault(f"footer:{s.get('type')}:{i}", []))
        return out
    in_ids, out_ids = ids_by_story(in_doc), ids_by_story(out_doc)
    for story, ids in out_ids.items():
        was_unique = len(in_ids.get(story, [])) == len(set(in_ids.get(story, [])))
        if was_unique and len(ids) != len(set(ids)):
            dup = sorted({i for i in ids if ids.count(i) > 1})
            fails.append(f"revision ids not unique in {story}: {dup[:4]}")
    for name, p in _story_nodes(out_doc):
        for n in p["nodes"]:
            if n["k"] in ("ins", "del") and n.get("author") == author:
                if not n.get("date") or not ISO.match(n["date"]):
                    fails.append(f"session mark {n['id']} has no ISO-8601 date: {n.get('date')!r}")
    fails.extend(nesting_problems(out_doc)[:3])
    # comments
    cids = [c["id"] for c in out_doc.get("comments", [])]
    if len(cids) != len(set(cids)):
        fails.append("comment ids not unique")
    cs, ce, cr = comment_marker_counts(out_doc)
    ics, ice, icr = comment_marker_counts(in_doc)
    for cid in set(cs) | set(ce) | set(cr):
        trip = (cs.get(cid, 0), ce.get(cid, 0), cr.get(cid, 0))
        itrip = (ics.get(cid, 0), ice.get(cid, 0), icr.get(cid, 0))
        # a range may disappear as a whole (its enclosing insertion was rejected, accept-all strips ranges); what
        # must not happen is half a range, a duplicated one or a range without reference
        ok = trip == (1, 1, 1) or trip == itrip or (trip[0] == trip[1] == 0 and trip[2] <= max(1, itrip[2]))
        if not ok:
            fails.append(f"comment {cid}: start/end/reference counts {trip} (input had {itrip})")
        if cid not in cids and cid not in {c for c in (set(ics) | set(ice) | set(icr))}:
            fails.append(f"comment range {cid} has no entry in the comments part")
    oldc = {c["id"] for c in in_doc.get("comments", [])}
    new = [c for c in out_doc.get("comments", []) if c["id"] not in oldc]
    ex = [e["para_id"] for e in out_doc.get("comments_ex", [])]
    idl = [e["para_id"] for e in out_doc.get("comments_ids", [])]
    dur = {e["para_id"]: e["durable"] for e in out_doc.get("comments_ids", [])}
    cex = [e["durable"] for e in out_doc.get("comments_cex", [])]
    for c in new:
        pids = [p.get("para_id") for p in c["paras"] if p.get("para_id")]
        if not pids:
            fails.append(f"new comment {c['id']} has no paragraph id")
            continue
        pid = pids[-1]
        if ex.count(pid) != 1:
            fails.append(f"new comment {c['id']} listed {ex.count(pid)} times in commentsExtended")
        if idl.count(pid) != 1:
            fails.append(f"new comment {c['id']} listed {idl.count(pid)} times in commentsIds")
        elif cex.count(dur[pid]) != 1:
            fails.append(f"new comment {c['id']} listed {cex.count(dur[pid])} times in commentsExtensible")
    return fails


# ------------------------------------------------------------------------------------------------ C10 comments
def comment_ranges(doc):
    """comment id -> list of (story, paragraph index, nodes inside the range) for ranges inside one paragraph,
    plus 'spanning' ranges (start and end in different paragraphs)"""
    out = {}
    open_ = {}
    for si, (name, p) in enumerate(_story_nodes(doc)):
        flat = []
        for n in p["nodes"]:
            if n["k"] == "ins":
                flat.append(("ins_open", n))
                for c in n["ch"]:
                    flat.append((c["k"], c))
                flat.append(("ins_close", n))
            else:
                flat.append((n["k"], n))
        for k, n in flat:
            if k == "cs":
                open_[n["id"]] = []
            elif k == "ce":
                if n["id"] in open_:
                    out[n["id"]] = open_.pop(n["id"])
            else:
                for lst in open_.values():
                    lst.append((k, n))
    return out


def oracle_edit_comments(in_doc, edits, res, raw_out, author=SESSION_AUTHOR):
    """C10 for a batch in which every edit is locatable and non-conflicting (all applied)."""
    fails = []
    out_doc = res["out_doc"]
    oldc = {c["id"] for c in in_doc.get("comments", [])}
    if [c for c in out_doc["comments"] if c["id"] in oldc] != in_doc.get("comments", []):
        fails.append("existing comments changed (text / author / date / order)")
    new = [c for c in out_doc["comments"] if c["id"] not in oldc]
    want = [e for e in edits if e.get("comment") and e.get("locatable", True) and not (e["kind"] == "same")]
    texts_new = sorted("".join(t for p in c["paras"] for t in p["text"]) for c in new)
    texts_want = sorted(e["comment"] for e in want)
    if texts_new != texts_want:
        fails.append(f"comments created {texts_new} != comments requested by applied edits {texts_want}")
        return fails
    ranges = comment_ranges(out_doc)
    segs = None
    for c in new:
        if c.get("author") != author:
            fails.append(f"new comment {c['id']} is attributed to {c.get('author')!r}")
        text = "".join(t for p in c["paras"] for t in p["text"])
        e = next(x for x in want if x["comment"] == text)
        rng = ranges.get(c["id"])
        if rng is None:
            fails.append(f"comment {text!r} is not anchored in the text (no range)")
            continue
        marks = [n for k, n in rng if k in ("ins_open", "del") and n.get("author") == author]
        if not marks:
            fails.append(f"comment {text!r} is anchored on a range without any change of this run")
            continue
        related = False
        for m in marks:
            if m["k"] == "del":
                dt = "".join("".join(sem.run_chars(r)) for r in m["runs"])
                related |= bool(dt) and dt in e["target"]
            else:
                it = "".join("".join(sem.run_chars(c2["run"])) for c2 in m["ch"] if c2["k"] == "r")
                plain_new = e["new"].replace("*", "").replace("_", "").replace("#", "")
                related |= (it.replace("_", "") in plain_new) if it else False
                # an edit inside another reviewer's pending insertion re-inserts that insertion with the target replaced
                related |= bool(it) and e.get("state") == "ins" and plain_new in it.replace("_", "")
        if not related:
            fails.append(f"comment {text!r} is anchored on changes that do not belong to its edit")
        # shown with the change in the raw view
        if segs is None:
            try:
                segs = sem.parse_critic(raw_out)
            except sem.CriticError as ex:
                fails.append(f"raw view of the result is not balanced CriticMarkup: {ex}")
                return fails
        metas = [t for k, t in segs if k == "meta" and f"[Com:{c['id']}]" in t]
        if not metas:
            fails.append(f"comment {text!r} (Com:{c['id']}) is not shown in the raw view")
        elif not any(f"[Chg:{m['id']}]" in t for t in metas for m in marks):
            fails.append(f"comment {text!r} is not shown together with the change it explains")
    return fails


# ------------------------------------------------------------------------------------------------ C16 formatting
SPAN = re.compile(r"(\*\*(?=\S).+?(?<=\S)\*\*)|((?<![\w_])_(?=[^\s_]).*?(?<=[^\s_])_(?![\w_]))")


def render_spans(text, bold=False, italic=False):
    """[(text, bold, italic)] — the reading of 'well-formed **bold** / _italic_ span' used by the oracle"""
    if not text:
        return []
    m = SPAN.search(text)
    if not m:
        return [(text, bold, italic)]
    out = []
    if text[:m.start()]:
        out.append((text[:m.start()], bold, italic))
    if m.group(1):
        out += render_spans(m.group(1)[2:-2], True, italic)
    else:
        out += render_spans(m.group(2)[1:-1], bold, True)
    out += render_spans(text[m.end():], bold, italic)
    return out


def session_insertions(out_doc, author=SESSION_AUTHOR):
    """[(paragraph, node index, ins node)] of the session in document order (body and stories)"""
    out = []
    for name, p in _story_nodes(out_doc):
        for i, n in enumerate(p["nodes"]):
            if n["k"] == "ins" and n.get("author") == author:
                out.append((p, i, n))
    return out


def oracle_formatting(in_doc, edit, res, author=SESSION_AUTHOR):
    """C16 for a batch of ONE applied edit: inherited run properties, rendered spans / literal text."""
    fails = []
    out_doc = res["out_doc"]
    ins = session_insertions(out_doc, author)
    # (1) inherited formatting: other run properties of an original neighbour in the same paragraph
    for p, i, n in ins:
        def rests_of(node):
            if node["k"] == "r":
                return [node["run"].get("rest", "")] if any(a["k"] in ("t", "tab", "br", "cr", "dt") for a in node["run"]["ch"]) or True else []
            if node["k"] == "del":
                return [r.get("rest", "") for r in node["runs"]]
            if node["k"] == "ins" and node.get("author") != author:
                return [c["run"].get("rest", "") for c in node["ch"] if c["k"] == "r"]
            return []
        before = next((rests_of(x)[-1:] for x in reversed(p["nodes"][:i]) if rests_of(x)), [])
        after = next((rests_of(x)[:1] for x in p["nodes"][i + 1:] if rests_of(x)), [])
        allowed = set(before + after)
        whole_para = len(p["nodes"]) == 1 or all(x["k"] in ("ins", "cs", "ce") or (x["k"] == "r" and any(a["k"] == "cref" for a in x["run"]["ch"])) for x in p["nodes"])
        if whole_para:
            continue  # a paragraph created by the session: formatting source is in the anchor paragraph (checked below)
        for c in n["ch"]:
            if c["k"] == "r" and c["run"].get("rest", "") not in allowed:
                fails.append(f"inserted run {''.join(a.get('s', '') for a in c['run']['ch'])!r} has run properties "
                             f"{c['run'].get('rest', '')!r}, its original neighbours have {sorted(allowed)}")
                break
    # (2) text of the insertion: spans rendered, everything else literal
    new = edit["new"]
    if edit["kind"] in ("multiline", "heading") or "\n" in new or new.startswith("#"):
        # every line is inserted: heading lines without their '# ' prefix, all other lines literally (spans rendered)
        lines = [ln for ln in re.split(r"[\r\n]+", new)]
        if lines and lines[-1] == "":
            lines.pop()
        exp_text = ""
        for ln in lines:
            m = re.match(r"^(#+) (.*)$", ln)
            body = m.group(2).strip() if m else ln
            exp_text += "".join(t for t, _, _ in render_spans(body))
        tgt = edit["target"]
        got_text = "".join("".join(sem.run_chars(c["run"])) for p, i, n in ins for c in n["ch"] if c["k"] == "r")
        # an extension / prefix keeps the target: only the added part is inserted
        cands = {exp_text}
        if new.startswith(tgt):
            cands.add("".join(t for t, _, _ in render_spans(new[len(tgt):].replace("\n", "").replace("\r", ""))))
        if edit["kind"] in ("multiline", "heading") and got_text not in cands and not any(got_text and got_text in c for c in cands):
            fails.append(f"new text {new!r} was inserted as {got_text!r}")
        elif edit["kind"] in ("multiline", "heading") and len(got_text) < min(len(c) for c in cands) - len(tgt):
            fails.append(f"part of the new text {new!r} is missing: inserted {got_text!r}")
    # (3) every '# ' line of the new text is a heading-styled paragraph of its own
    if edit["kind"] in ("multiline", "heading") or "\n" in new or new.startswith("#"):
        for ln in re.split(r"[\r\n]+", new):
            m = re.match(r"^(#+) (.*)$", ln)
            if not m or not m.group(2).strip():
                continue
            want_style = f"Heading{len(m.group(1))}"
            body = "".join(t for t, _, _ in render_spans(m.group(2).strip()))
            hit = None
            for p, i, n in ins:
                t = "".join("".join(sem.run_chars(c["run"])) for c in n["ch"] if c["k"] == "r")
                if t == body:
                    hit = p
                    break
            if hit is None:
                continue  # (text clause above reports a missing line)
            if (hit.get("style") or "").replace(" ", "") != want_style:
                fails.append(f"heading line {ln!r} of the new text became a paragraph with style {hit.get('style')!r}, "
                             f"expected {want_style}")
    if edit["kind"] in ("replace", "literal", "markdown") and "\n" not in new and not new.startswith("#"):
        exp = [(t, b, i) for t, b, i in render_spans(new)]
        got = []
        for p, i, n in ins:
            for c in n["ch"]:
                if c["k"] == "r":
                    t = "".join(a.get("s", "") for a in c["run"]["ch"] if a["k"] == "t")
                    got.append((t, sem.onoff_true(c["run"].get("b")), sem.onoff_true(c["run"].get("i"))))
        # inherited bold/italic of the style source is not 'rendering': compare text always, flags only where a span asks
        got_t, exp_t = "".join(t for t, _, _ in got), "".join(t for t, _, _ in exp)
        # context shared by target and new text is left in place: only the differing middle is inserted
        tgt = edit["target"]
        lead = 0
        while lead < min(len(tgt), len(exp_t)) and tgt[lead] == exp_t[lead]:
            lead += 1
        trail = 0
        while trail < min(len(tgt), len(exp_t)) - lead and tgt[-1 - trail] == exp_t[-1 - trail]:
            trail += 1
        ok_texts = {exp_t[a:len(exp_t) - b] for a in range(lead + 1) for b in range(trail + 1)}
        if got_t not in ok_texts:
            fails.append(f"new text {new!r} was inserted as {got_t!r}, expected {exp_t!r} (shared context with the target aside)")
        elif len(got) == len(exp):
            for (t, b, i), (t2, b2, i2) in zip(got, exp):
                if (b2 and not b) or (i2 and not i):
                    fails.append(f"span {t2!r} of {new!r} is not rendered bold/italic")
    return fails
