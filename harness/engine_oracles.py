"""Property oracles over (input document, edit batch, saved output) — independent reading of the saved package."""
from __future__ import annotations

import copy
import itertools
import re

from . import editgen, sem


# ------------------------------------------------------------------------------------------------ session marks
def rev_ids(doc, body_only=True):
    ids = []
    stories = [doc["body"]] if body_only else [doc["body"]] + [s["blocks"] for s in doc.get("headers", []) + doc.get("footers", [])]
    for blocks in stories:
        for p in sem.iter_paragraphs(blocks, expand_vmerge=True):
            for n in p["nodes"]:
                if n["k"] in ("ins", "del"):
                    ids.append(n["id"])
    return ids


SESSION_AUTHOR = "Verifier"


def session_ids(in_doc, out_doc, author=SESSION_AUTHOR):
    """revision marks and comments created by the session: attributed to the session's author (the generator never
    uses that name) — identified by (story, id) because header/footer ids are numbered per part."""
    new_rev = set()
    stories = [("body", out_doc["body"])] + [(f"h{i}", s["blocks"]) for i, s in enumerate(out_doc.get("headers", []))] + \
              [(f"f{i}", s["blocks"]) for i, s in enumerate(out_doc.get("footers", []))]
    for name, blocks in stories:
        for p in sem.iter_paragraphs(blocks, expand_vmerge=True):
            for n in p["nodes"]:
                if n["k"] in ("ins", "del") and n.get("author") == author:
                    new_rev.add((name, n["id"]))
    oldc = {c["id"] for c in in_doc.get("comments", [])}
    new_com = {c["id"] for c in out_doc.get("comments", []) if c["id"] not in oldc}
    return new_rev, new_com


def undelete_run(run):
    r = copy.deepcopy(run)
    for a in r["ch"]:
        if a["k"] == "dt":
            a["k"] = "t"
    return r


def _strip_comment_nodes(nodes, new_com):
    out = []
    for n in nodes:
        k = n["k"]
        if k in ("cs", "ce") and n["id"] in new_com:
            continue
        if k == "r":
            ch = [a for a in n["run"]["ch"] if not (a["k"] == "cref" and a["id"] in new_com)]
            if len(ch) != len(n["run"]["ch"]):
                if not ch:
                    continue  # the reference run of a session comment
                n = {"k": "r", "run": dict(n["run"], ch=ch)}
        elif k == "ins":
            n = dict(n, ch=_strip_comment_nodes(n["ch"], new_com))
        out.append(n)
    return out


def reject_session_blocks(blocks, new_rev, new_com, story="body", author=SESSION_AUTHOR):
    # a mark belongs to the session iff it is attributed to the session's author (ids may collide inside a
    # header/footer part, see F-header-ids)
    class _Sess:
        def __contains__(self, _id):
            return False
    out = []
    for b in blocks:
        if "p" in b:
            p = b["p"]
            nodes = _strip_comment_nodes(p["nodes"], new_com)
            had_session_ins = any(n["k"] == "ins" and n.get("author") == author for n in nodes)
            res = []
            for n in nodes:
                if n["k"] == "ins" and n.get("author") == author:
                    continue
                if n["k"] == "del" and n.get("author") == author:
                    res.extend({"k": "r", "run": undelete_run(r)} for r in n["runs"])
                    continue
                res.append(n)
            if had_session_ins and not res and p["nodes"]:
                # a paragraph made only of this session's insertions
                continue
            out.append({"p": dict(p, nodes=res)})
        elif "tbl" in b:
            t = copy.copy(b["tbl"])
            t["rows"] = [dict(row, cells=[dict(c, blocks=reject_session_blocks(c["blocks"], new_rev, new_com, story, author)) for c in row["cells"]])
                         for row in t["rows"]]
            out.append({"tbl": t})
        else:
            out.append(b)
    return out


def reject_session(out_doc, new_rev, new_com):
    d = dict(out_doc)
    d["body"] = reject_session_blocks(out_doc["body"], new_rev, new_com)
    d["headers"] = [dict(s, blocks=reject_session_blocks(s["blocks"], new_rev, new_com, f"h{i}")) for i, s in enumerate(out_doc.get("headers", []))]
    d["footers"] = [dict(s, blocks=reject_session_blocks(s["blocks"], new_rev, new_com, f"f{i}")) for i, s in enumerate(out_doc.get("footers", []))]
    d["comments"] = [c for c in out_doc.get("comments", []) if c["id"] not in new_com]
    return d


def canon_diff(a_doc, b_doc):
    a, b = sem.canon_doc(a_doc), sem.canon_doc(b_doc)
    for part in ("headers", "body", "footers"):
        if a[part] != b[part]:
            if part == "body":
                d = sem.first_diff(a[part], b[part])
            else:
                d = next((sem.first_diff(x[1], y[1]) for x, y in zip(a[part], b[part]) if x != y), "story list differs")
            return f"{part}: first difference {str(d)[:400]}"
    return None


def oracle_reversible(in_doc, out_doc):
    """C01: rejecting the session's marks gives back the input (up to run boundaries / proofing marks)."""
    new_rev, new_com = session_ids(in_doc, out_doc)
    back = reject_session(out_doc, new_rev, new_com)
    fails = []
    d = canon_diff(in_doc, back)
    if d:
        fails.append("rejecting this run's insertions/deletions/comments does not give back the input: " + d)
    if back.get("comments", []) != in_doc.get("comments", []):
        fails.append("earlier comments changed")
    return fails


# ------------------------------------------------------------------------------------------------ nesting / validity
NESTED = re.compile(r"<w:(ins|del)[ >]")


def nesting_problems(doc):
    probs = []
    for blocks in [doc["body"]] + [s["blocks"] for s in doc.get("headers", []) + doc.get("footers", [])]:
        for p in sem.iter_paragraphs(blocks, expand_vmerge=True):
            for n in p["nodes"]:
                if n["k"] == "ins":
                    for c in n["ch"]:
                        if c["k"] == "o" and NESTED.search(c["xml"]):
                            probs.append(f"revision mark nested in w:ins id={n['id']}")
                        if c["k"] == "r" and any(a["k"] == "dt" for a in c["run"]["ch"]):
                            probs.append(f"w:delText inside w:ins id={n['id']}")
                elif n["k"] == "o" and n["xml"].startswith("<w:del") and NESTED.search(n["xml"][6:]):
                    probs.append("revision mark nested in w:del")
                elif n["k"] == "o" and n["xml"].startswith("<w:ins") and NESTED.search(n["xml"][6:]):
                    probs.append("revision mark nested in w:ins")
                elif n["k"] == "del":
                    for r in n["runs"]:
                        if any(a["k"] == "t" for a in r["ch"]):
                            probs.append(f"w:t inside w:del id={n['id']}")
                        if any(a["k"] == "dt" and a["s"] == "" for a in r["ch"]):
                            probs.append(f"empty w:delText in w:del id={n['id']}")
                elif n["k"] == "r" and any(a["k"] == "dt" for a in n["run"]["ch"]):
                    probs.append("w:delText outside a deletion")
    return probs


# ------------------------------------------------------------------------------------------------ accepted text
def oracle_accept_exact(in_doc, edits, res):
    """C02: all applied, accepted paragraphs == string replacement."""
    if res["err"]:
        return [f"apply_edits raised {res['err']}"]
    fails = []
    if (res["applied"], res["skipped"]) != (len(edits), 0):
        fails.append(f"{len(edits)} exact unique non-overlapping edits, reported applied={res['applied']} skipped={res['skipped']}")
    exp = editgen.expected_accepted(in_doc, edits)
    got = editgen.accepted_paragraph_texts(res["out_doc"])
    if got != exp:
        k = next((j for j, (a, b) in enumerate(zip(got, exp)) if a != b), None)
        if k is None:
            fails.append(f"accepted view has {len(got)} paragraphs, expected {len(exp)}")
        else:
            fails.append(f"accepted text of paragraph {k} is {got[k]!r}, expected {exp[k]!r}")
    return fails


def oracle_accounting(in_doc, edits, res):
    """C08: totals, skipped edits leave no trace, conflicts resolved to a non-conflicting subset, no nesting."""
    if res["err"]:
        return [f"apply_edits raised {res['err']}"]
    fails = []
    n = len(edits)
    a, s = res["applied"], res["skipped"]
    if a + s != n:
        fails.append(f"applied {a} + skipped {s} != {n} edits submitted")
    fails.extend(nesting_problems(res["out_doc"])[:2])
    got = editgen.accepted_paragraph_texts(res["out_doc"])
    cand = [e for e in edits if e.get("locatable")]
    unloc = [e for e in edits if not e.get("locatable")]
    if a > len(cand):
        fails.append(f"{a} edits reported applied but only {len(cand)} have a target that can be located")
    if a == 0:
        d = canon_diff(in_doc, res["out_doc"])
        if d:
            fails.append("every edit was skipped but the document content changed: " + d)
        return fails
    ok = False
    for S in itertools.combinations(cand, min(a, len(cand))):
        # pairwise non-overlapping within a paragraph
        bad = False
        for x, y in itertools.combinations(S, 2):
            if x["pi"] == y["pi"] and x["a"] < y["b"] and y["a"] < x["b"]:
                bad = True
                break
            if x["pi"] == y["pi"] and (x["a"], x["b"]) == (y["a"], y["b"]):
                bad = True
                break
        if bad:
            continue
        if editgen.expected_accepted(in_doc, list(S)) == got:
            ok = True
            break
    if not ok:
        fails.append(f"accepted result is not the input with a non-conflicting subset of {a} submitted edits applied")
    return fails
