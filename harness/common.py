"""Shared infrastructure: paths, seeds, Lean build/audit/driver, evidence, replays, known findings."""
from __future__ import annotations

import hashlib
import json
import os
import re
import subprocess
import sys
import time
from pathlib import Path

VERIF = Path(__file__).resolve().parent.parent
REPO = Path(os.environ.get("ADEU_REPO", "/repo"))
LEAN_DIR = VERIF / "lean"
DRIVER = LEAN_DIR / ".lake" / "build" / "bin" / "driver"
CACHE = VERIF / ".cache"
ALLOWED_AXIOMS = {"propext", "Classical.choice", "Quot.sound"}
NCPU = min(16, os.cpu_count() or 1)

TRUSTED_BASE = [
    "Lean 4.33.0 kernel (thorough tier: leanchecker re-check of the compiled modules)",
    "axioms allowed: propext, Classical.choice, Quot.sound (audited with #print axioms on every run); "
    "no sorry/admit/native_decide/bv_decide/own axioms",
    "hand-written Lean model tied to /repo by the correspondence check of this run "
    "(harness generator, canonical forms, JSON line protocol, native driver built from Model/*.lean)",
    "statement files lean/AdeuModel/Props/*.lean say what the property says (human-read)",
]


class HarnessError(Exception):
    """Trouble in the machinery itself (exit 2, never a VIOLATION)."""


def seed() -> int:
    try:
        return int(os.environ.get("VERIF_SEED", "0"))
    except ValueError:
        return 0


def use_repo_sources():
    """Import adeu from the current working tree of /repo (not from a stale install)."""
    src = str(REPO / "src")
    if src in sys.path:
        sys.path.remove(src)
    sys.path.insert(0, src)
    os.environ.setdefault("ADEU_VERIF", "1")
    import logging

    logging.disable(logging.CRITICAL)
    try:
        import structlog

        structlog.configure(
            wrapper_class=structlog.make_filtering_bound_logger(logging.CRITICAL),
            logger_factory=structlog.ReturnLoggerFactory(),
            cache_logger_on_first_use=False,
        )
    except Exception:
        pass


def adeu_path() -> str:
    import adeu

    return str(Path(adeu.__file__).resolve())


# ---------------------------------------------------------------------------------------------
# Lean: build, audit, driver
# ---------------------------------------------------------------------------------------------

def _lean_sources_hash() -> str:
    h = hashlib.sha256()
    files = sorted(p for p in LEAN_DIR.rglob("*") if p.is_file() and ".lake" not in p.parts
                   and p.suffix in (".lean", ".toml", ".json"))
    for p in files:
        h.update(str(p.relative_to(LEAN_DIR)).encode())
        h.update(p.read_bytes())
    return h.hexdigest()


def lake_build(timeout=1800) -> tuple[bool, str]:
    t0 = time.time()
    try:
        r = subprocess.run(["lake", "build"], cwd=LEAN_DIR, capture_output=True, text=True, timeout=timeout)
    except subprocess.TimeoutExpired:
        raise HarnessError("lake build timed out")
    out = (r.stdout or "") + (r.stderr or "")
    return r.returncode == 0, out[-6000:] + f"\n[lake build {time.time()-t0:.1f}s]"


_COMMENT_BLOCK = re.compile(r"/-.*?-/", re.S)
_COMMENT_LINE = re.compile(r"--.*?$", re.M)
_FORBIDDEN = re.compile(
    r"\bsorry\b|\badmit\b|^\s*axiom\s|native_decide|bv_decide|implemented_by|\bunsafe\s|maxHeartbeats\s+0\b", re.M
)


def grep_forbidden() -> list[str]:
    hits = []
    for p in sorted(LEAN_DIR.rglob("*.lean")):
        if ".lake" in p.parts:
            continue
        txt = p.read_text()
        txt = _COMMENT_BLOCK.sub(lambda m: "\n" * m.group(0).count("\n"), txt)
        txt = _COMMENT_LINE.sub("", txt)
        # string literals may legitimately contain words; the models contain none of these words
        for m in _FORBIDDEN.finditer(txt):
            line = txt.count("\n", 0, m.start()) + 1
            hits.append(f"{p.relative_to(LEAN_DIR)}:{line}: {m.group(0).strip()}")
    return hits


def obligations() -> dict:
    return json.loads((LEAN_DIR / "OBLIGATIONS.json").read_text())


def audit(prop: str, force: bool = False) -> dict:
    """Check every theorem registered for `prop`: exists in the compiled environment, axioms allowed.
    Result is cached on the hash of the Lean sources (a deterministic function of them)."""
    obl = obligations().get(prop, {})
    theorems = list(obl.get("theorems", []))
    key = _lean_sources_hash()
    CACHE.mkdir(exist_ok=True)
    cache_file = CACHE / f"audit-{prop}-{key[:24]}.json"
    if cache_file.exists() and not force:
        res = json.loads(cache_file.read_text())
        res["cached"] = True
        return res
    ok, out = lake_build()
    res = {"prop": prop, "theorems": theorems, "build_ok": ok, "build_log": "" if ok else out,
           "discharged": [], "failed": [], "axioms": {}, "forbidden": grep_forbidden(), "cached": False}
    if ok and theorems:
        src = "import AdeuModel\n" + "".join(f"#print axioms {t}\n" for t in theorems)
        f = LEAN_DIR / f".audit_{prop}_{os.getpid()}.lean"
        f.write_text(src)
        try:
            r = subprocess.run(["lake", "env", "lean", f.name], cwd=LEAN_DIR, capture_output=True, text=True,
                               timeout=900)
        finally:
            f.unlink(missing_ok=True)
        text = (r.stdout or "") + (r.stderr or "")
        text1 = re.sub(r"\s+", " ", text)
        for t in theorems:
            m = re.search(r"'" + re.escape(t) + r"' depends on axioms: \[([^\]]*)\]", text1)
            if m:
                ax = [a.strip() for a in m.group(1).split(",") if a.strip()]
            elif re.search(r"'" + re.escape(t) + r"' does not depend on any axioms", text1):
                ax = []
            else:
                res["failed"].append({"theorem": t, "why": "not found in compiled environment"})
                continue
            res["axioms"][t] = ax
            bad = [a for a in ax if a not in ALLOWED_AXIOMS]
            if bad:
                res["failed"].append({"theorem": t, "why": f"disallowed axioms {bad}"})
            else:
                res["discharged"].append(t)
        if r.returncode != 0 and not res["failed"]:
            res["failed"].append({"theorem": "*", "why": "audit file failed: " + text[-1500:]})
    elif not ok:
        res["failed"] = [{"theorem": t, "why": "lake build failed"} for t in theorems] or [
            {"theorem": "*", "why": "lake build failed"}]
    if res["forbidden"]:
        res["failed"].append({"theorem": "*", "why": "forbidden tokens: " + "; ".join(res["forbidden"][:5])})
    if ok:
        cache_file.write_text(json.dumps(res))
    return res


def leanchecker(modules: list[str]) -> tuple[bool, str]:
    try:
        r = subprocess.run(["lake", "env", "leanchecker", *modules], cwd=LEAN_DIR, capture_output=True, text=True,
                           timeout=1500)
    except subprocess.TimeoutExpired:
        raise HarnessError("leanchecker timed out")
    return r.returncode == 0, ((r.stdout or "") + (r.stderr or ""))[-2000:]


def ensure_driver():
    ok, out = lake_build()
    if not ok or not DRIVER.exists():
        return False, out
    return True, out


def run_driver(lines: list[dict], timeout=1800, chunk=None) -> list[dict]:
    """Pipe JSON op lines through the native Lean driver; returns one JSON result per line."""
    if not lines:
        return []
    if not DRIVER.exists():
        raise HarnessError("Lean driver not built")
    data = "\n".join(json.dumps(l, ensure_ascii=False) for l in lines) + "\n"
    try:
        r = subprocess.run([str(DRIVER)], input=data.encode("utf-8"), capture_output=True, timeout=timeout)
    except subprocess.TimeoutExpired:
        raise HarnessError("Lean driver timed out")
    if r.returncode != 0:
        raise HarnessError(f"Lean driver crashed rc={r.returncode}: {r.stderr.decode('utf-8', 'replace')[-800:]}")
    outs = [json.loads(x) for x in r.stdout.decode("utf-8").splitlines() if x.strip()]
    if len(outs) != len(lines):
        raise HarnessError(f"driver returned {len(outs)} results for {len(lines)} lines")
    return outs


def run_driver_parallel(lines: list[dict], nproc: int = NCPU, timeout=1800) -> list[dict]:
    if len(lines) < 64 or nproc <= 1:
        return run_driver(lines, timeout)
    from concurrent.futures import ThreadPoolExecutor

    n = len(lines)
    size = (n + nproc - 1) // nproc
    chunks = [lines[i:i + size] for i in range(0, n, size)]
    with ThreadPoolExecutor(max_workers=nproc) as ex:
        parts = list(ex.map(lambda c: run_driver(c, timeout), chunks))
    return [x for p in parts for x in p]


# ---------------------------------------------------------------------------------------------
# Known findings, replays, evidence
# ---------------------------------------------------------------------------------------------

def known_findings(prop: str) -> list[dict]:
    f = VERIF / "known_findings.json"
    if not f.exists():
        return []
    return [e for e in json.loads(f.read_text()) if e.get("property") == prop]


def write_replay(prop: str, n: int, payload: dict) -> str:
    d = VERIF / "replays" / prop
    d.mkdir(parents=True, exist_ok=True)
    p = d / f"{seed()}-{n}.json"
    payload = dict(payload)
    payload.setdefault("property", prop)
    payload.setdefault("seed", seed())
    p.write_text(json.dumps(payload, indent=1, ensure_ascii=False, default=str))
    return str(p.relative_to(VERIF))


def write_evidence(prop: str, tier: str, coverage: dict, wall_s: float, violations: int, assumptions: list[str]):
    d = VERIF / "evidence"
    d.mkdir(exist_ok=True)
    ev = {
        "property_id": prop,
        "tier": tier,
        "seed": seed(),
        "level": "proof",
        "coverage": coverage,
        "assumptions": assumptions,
        "wall_s": round(wall_s, 2),
        "violations": violations,
    }
    (d / f"{prop}.json").write_text(json.dumps(ev, indent=1, ensure_ascii=False, default=str) + "\n")
