"""Correspondence of the heuristic (search-and-replace) path of the engine with the Lean model
`Adeu.Doc.applyEdits` (lean/AdeuModel/Model/Heuristic.lean).

The non-literal matching stages of `DocumentMapper.find_match_index` (Markdown-stripped target, fuzzy regular
expression) are parameters of the model: their result is recorded per edit and view from the real call by wrapping
`find_match_index` from outside (no source hook). If the wrapped attributes are gone after a refactor the cases are
dropped from this correspondence and counted — that by itself is not a violation."""
from __future__ import annotations

import io

from . import canon_session, engine_oracles, ooxml

NAME = "apply_edits (heuristic / mixed batch) vs Adeu.Doc.applyEdits"


class FzRecorder:
    """records, per submitted edit, what the non-literal stages of find_match_index returned in each view"""

    def __init__(self):
        self.rec = {}
        self.cur = None
        self.ok = True

    def __enter__(self):
        try:
            from adeu.redline import engine as E
            from adeu.redline import mapper as M

            self.M, self.E = M, E
            self.orig_find = M.DocumentMapper.find_match_index
            self.orig_heur = E.RedlineEngine._apply_single_edit_heuristic
        except Exception:
            self.ok = False
            return self
        rec = self
        orig_find, orig_heur = self.orig_find, self.orig_heur

        def find(self_, target_text, *a, **k):
            r = orig_find(self_, target_text, *a, **k)
            exact_only = k.get("exact_only", a[0] if a else False)
            if not exact_only and rec.cur is not None:
                try:
                    lit = orig_find(self_, target_text, exact_only=True)
                    view = "clean" if getattr(self_, "clean_view") else "raw"
                    if lit[0] == -1:
                        rec.rec.setdefault(rec.cur, {})[view] = [int(r[0]), int(r[1])] if r[0] != -1 else None
                except Exception:
                    rec.ok = False
            return r

        def heur(self_, edit, *a, **k):
            rec.cur = id(edit)
            try:
                return orig_heur(self_, edit, *a, **k)
            finally:
                rec.cur = None

        M.DocumentMapper.find_match_index = find
        E.RedlineEngine._apply_single_edit_heuristic = heur
        return self

    def __exit__(self, *exc):
        if hasattr(self, "orig_find"):
            self.M.DocumentMapper.find_match_index = self.orig_find
            self.E.RedlineEngine._apply_single_edit_heuristic = self.orig_heur
        return False


def run_edits_recorded(data, edits, author=None):
    """like engine_run.run_edits, plus res['fz'] (aligned with edits) and res['fz_ok']"""
    from adeu.redline.engine import RedlineEngine

    from . import engine_run

    author = author or engine_oracles.SESSION_AUTHOR
    res = {"applied": None, "skipped": None, "err": None, "out_doc": None, "out_bytes": None, "fz": None, "fz_ok": False}
    try:
        des = engine_run.make_edits(edits)
        with FzRecorder() as rec:
            eng = RedlineEngine(io.BytesIO(data), author=author)
            a, s = eng.apply_edits(list(des))
        res["applied"], res["skipped"] = a, s
        res["fz"] = [rec.rec.get(id(d), {}) for d in des]
        res["fz_ok"] = rec.ok
        out = eng.save_to_stream().getvalue()
        res["out_bytes"] = out
        res["out_doc"] = ooxml.strip_volatile(ooxml.read_docx(out))
    except Exception as e:
        import traceback

        res["err"] = f"{type(e).__name__}: {e}"
        res["tb"] = traceback.format_exc()[-1200:]
    return res


def driver_line(doc, edits, res, author=None):
    if not res or not res.get("fz_ok") or res.get("fz") is None:
        return {"op": "ping"}
    es = []
    for e, fz in zip(edits, res["fz"]):
        d = {"target": e["target"], "new": e["new"] or "", "comment": e.get("comment")}
        if e.get("index") is not None:
            d["index"] = e["index"]
        if fz.get("raw"):
            d["fz_raw"] = fz["raw"]
        if fz.get("clean"):
            d["fz_clean"] = fz["clean"]
        es.append(d)
    return {"op": "apply_edits", "doc": doc, "author": author or engine_oracles.SESSION_AUTHOR, "edits": es}


def compare(doc, res, out, author=None):
    if "pong" in out:
        return []
    if "err" in out:
        return [("driver", out["err"])]
    if res["err"]:
        return [(NAME, f"implementation raised {res['err']}")]
    if (out["applied"], out["skipped"]) != (res["applied"], res["skipped"]):
        return [(NAME, f"counts: model {(out['applied'], out['skipped'])} implementation {(res['applied'], res['skipped'])}")]
    d = canon_session.diff_docs(out["doc"], canon_session.canon_out(res["out_doc"], doc, author or engine_oracles.SESSION_AUTHOR))
    return [(NAME, d)] if d else []
