"""./check Cxx --tier quick|thorough [--replay FILE]

Flow (DESIGN.md §2): proof obligations -> known findings -> corpus + correspondence + oracle -> decision.
Exit 0: property held on everything explored; 1: VIOLATION line printed; 2: harness trouble."""
from __future__ import annotations

import argparse
import importlib
import json
import os
import sys
import time
import traceback

from . import common
from .common import HarnessError


def load_module(prop: str):
    return importlib.import_module(f"harness.props.{prop.lower()}")


def main(argv=None) -> int:
    ap = argparse.ArgumentParser()
    ap.add_argument("prop")
    ap.add_argument("--tier", default=os.environ.get("VERIF_TIER", "quick"), choices=["quick", "thorough"])
    ap.add_argument("--replay", default=None)
    args = ap.parse_args(argv)
    prop = args.prop.upper()
    t0 = time.time()
    try:
        common.use_repo_sources()
        mod = load_module(prop)
        if args.replay:
            return replay(prop, mod, args.replay)
        return run_check(prop, mod, args.tier, t0)
    except HarnessError as e:
        print(f"HARNESS-ERROR property={prop}: {e}", file=sys.stderr)
        return 2
    except Exception:
        traceback.print_exc()
        print(f"HARNESS-ERROR property={prop}: unexpected exception", file=sys.stderr)
        return 2


def replay(prop, mod, path) -> int:
    payload = json.loads(open(path).read())
    ok_drv, _ = common.ensure_driver()
    res = mod.replay(payload)
    print(json.dumps(res, indent=1, ensure_ascii=False, default=str))
    if res.get("fails"):
        print(f"VIOLATION property={prop} replay={path}")
        return 1
    print(f"replay: property={prop} no longer fails on this input")
    return 0


def run_check(prop, mod, tier, t0) -> int:
    violations = []  # (replay_path, suffix)
    notes = []

    # 1. proof obligations
    aud = common.audit(prop, force=(tier == "thorough"))
    n_obl = len(aud["theorems"])
    n_dis = len(aud["discharged"])
    proof_ok = aud["build_ok"] and not aud["failed"] and n_obl > 0
    checker_cmd = "cd lean && lake build && lake env lean <#print axioms of OBLIGATIONS.json[%s].theorems>" % prop
    lc = None
    if tier == "thorough" and aud["build_ok"]:
        mods = common.obligations().get(prop, {}).get("modules", [])
        if mods:
            ok, out = common.leanchecker(mods)
            lc = {"modules": mods, "ok": ok, "tail": out[-400:]}
            checker_cmd += " && lake env leanchecker " + " ".join(mods)
            if not ok:
                proof_ok = False
                aud["failed"].append({"theorem": "*", "why": "leanchecker rejected: " + out[-300:]})

    drv_ok, drv_log = common.ensure_driver()

    # 2+3. known findings, corpus, correspondence, oracle
    res = mod.run(tier=tier, seed=common.seed(), driver_ok=drv_ok)

    # known findings
    known_lines = []
    for k in res.get("known", []):
        if k["status"] == "open":
            if k["reproduces"]:
                known_lines.append(f"KNOWN-FINDING: property={prop} {k['key']} {k['what']}")
            else:
                notes.append(f"open finding {k['key']} no longer reproduces")
        elif k["status"] == "fixed" and k["reproduces"]:
            p = common.write_replay(prop, len(violations), {
                "kind": "oracle", "name": f"regression of fixed finding {k['key']}", "case": k.get("case"),
                "what": k["what"]})
            violations.append((p, ""))
    for line in known_lines:
        print(line)

    # oracle failures on the implementation (in-domain, not a listed open finding)
    for i, f in enumerate(res.get("oracle_failures", [])[:5]):
        p = common.write_replay(prop, len(violations), {"kind": "oracle", **f})
        violations.append((p, ""))

    broken = []
    if not proof_ok:
        broken.append({"kind": "proof", "names": [x["theorem"] + ": " + x["why"] for x in aud["failed"]] or
                       ["no obligations registered / build failed"]})
    if not drv_ok:
        broken.append({"kind": "proof", "names": ["Lean driver does not build: " + drv_log[-500:]]})
    if res.get("corr_mismatches"):
        broken.append({"kind": "correspondence", "names": sorted({m["corr"] for m in res["corr_mismatches"]}),
                       "first": res["corr_mismatches"][:3]})

    if broken and not violations:
        # search model and implementation for a failing input
        found = mod.search(res, tier=tier, seed=common.seed()) if hasattr(mod, "search") else []
        for f in found[:3]:
            p = common.write_replay(prop, len(violations), {"kind": "oracle", "found_by": "search", **f})
            violations.append((p, ""))
        if not found:
            p = common.write_replay(prop, len(violations), {
                "kind": broken[0]["kind"], "no_longer_checks": broken,
                "note": "no failing input found by the search; the property is no longer shown to hold"})
            violations.append((p, " no-failing-input-found"))

    cov = {
        "obligations": n_obl,
        "discharged": n_dis if aud["build_ok"] else 0,
        "checker_cmd": checker_cmd,
        "trusted_base": common.TRUSTED_BASE + res.get("trusted_extra", []),
        "theorems": aud["theorems"],
        "axioms": aud["axioms"],
        "audit_cached": aud.get("cached", False),
        "leanchecker": lc,
        "evaluations": res.get("evaluations", 0),
        "distinct_nontrivial": res.get("distinct_nontrivial", 0),
        "rule": res.get("rule", ""),
        "samples": res.get("samples", []),
        "traces_validated_against_impl": res.get("compared", 0),
        "correspondence_mismatches": len(res.get("corr_mismatches", [])),
        "hypothesis_hits": res.get("hypothesis_hits", {}),
        "input_distribution": res.get("input_distribution", {}),
        "out_of_domain": res.get("out_of_domain", {}),
        "heuristic_correspondence": res.get("heuristic_correspondence"),
        "known_findings_replayed": res.get("known", []),
        "exhaustive": res.get("exhaustive", False),
        "partial": common.obligations().get(prop, {}).get("partial", []),
        "notes": notes + res.get("notes", []),
        "adeu_path": common.adeu_path(),
    }
    common.write_evidence(prop, tier, cov, time.time() - t0, len(violations), res.get("assumptions", []))

    for p, suffix in violations:
        print(f"VIOLATION property={prop} replay={p}{suffix}")
    print(f"{prop} {tier}: obligations {n_dis}/{n_obl}, evaluations {cov['evaluations']}, "
          f"compared {cov['traces_validated_against_impl']}, mismatches {cov['correspondence_mismatches']}, "
          f"violations {len(violations)}, {time.time()-t0:.1f}s")
    return 1 if violations else 0


if __name__ == "__main__":
    sys.exit(main())
