"""Process pool helper: workers import adeu from /repo/src with logging silenced."""
from __future__ import annotations

import multiprocessing as mp

from . import common


def _init():
    common.use_repo_sources()


def pmap(fn, items, nproc=None, chunksize=None):
    items = list(items)
    nproc = nproc or common.NCPU
    if len(items) < 64 or nproc <= 1:
        _init()
        return [fn(x) for x in items]
    if chunksize is None:
        chunksize = max(1, min(2000, len(items) // (nproc * 8) or 1))
    ctx = mp.get_context("fork")
    with ctx.Pool(nproc, initializer=_init) as pool:
        return pool.map(fn, items, chunksize=chunksize)
