"""Seeded generator of abstract documents (see ooxml.py for the shape) and of edit batches.

Everything derives from one random.Random instance, so a case replays exactly from (seed, index).
Words are drawn so that uniqueness of a target is decidable and usually true."""
from __future__ import annotations

import random

WORDS = """alpha bravo charlie delta echo foxtrot golf hotel india juliet kilo lima mike november oscar papa quebec romeo
sierra tango uniform victor whiskey xray yankee zulu amber birch cedar dune ember fjord grove heron iris jade kelp lotus
maple nectar olive pearl quartz reed sage thorn umber vale willow xenon yarrow zephyr anchor beacon compass dagger
engine falcon garnet harbor island jungle kettle lantern meadow needle orchid pillar quiver ribbon saddle temple urchin
vessel walnut yonder zenith Agreement Buyer Seller Party Clause Term Notice Fee Price Date Section Schedule Annex""".split()
COMMON = ["the", "of", "and", "to", "shall", "be"]
AUTHORS = ["Alice", "Bob", "Carol Ann", "Dé"]
DATES = ["2024-01-05T10:00:00Z", "2024-02-11T09:30:00Z", "2023-12-24T23:59:59Z", None]
RESTS = ["", "", "", '<w:color w:val="FF0000"/>', '<w:sz w:val="28"/>', '<w:rFonts w:ascii="Arial" w:hAnsi="Arial"/>',
         '<w:u w:val="single"/>', '<w:rStyle w:val="Strong"/>']
# formatting variants that differ only in attributes other than w:val (or in the spelling of an on/off value)
REST_FAMILIES = [
    ['<w:rFonts w:ascii="Arial" w:hAnsi="Arial"/>', '<w:rFonts w:ascii="Times New Roman" w:hAnsi="Times New Roman"/>'],
    ['<w:shd w:val="clear" w:color="auto" w:fill="FFFF00"/>', '<w:shd w:val="clear" w:color="auto" w:fill="00FF00"/>'],
    ['<w:color w:val="FF0000"/>', '<w:color w:val="FF0000" w:themeColor="accent1"/>'],
    ['<w:lang w:val="en-US"/>', '<w:lang w:val="en-US" w:eastAsia="ja-JP"/>'],
    ['<w:sz w:val="28"/>', '<w:sz w:val="24"/>'],
    ['<w:u w:val="single"/>', '<w:u w:val="single" w:color="FF0000"/>'],
    # same formatting now, different tracked formatting-change records (or none)
    ['<w:color w:val="0000FF"/><w:rPrChange w:id="9901" w:author="Bob" w:date="2024-01-05T10:00:00Z"><w:rPr/></w:rPrChange>',
     '<w:color w:val="0000FF"/><w:rPrChange w:id="9902" w:author="Carol Ann" w:date="2024-02-11T09:30:00Z"><w:rPr><w:i/></w:rPr></w:rPrChange>',
     '<w:color w:val="0000FF"/>'],
    # same children of w:rPr by tag and attributes, different one level deeper (Word 2010 text effects)
    ['<w14:textFill><w14:solidFill><w14:srgbClr w14:val="0000FF"/></w14:solidFill></w14:textFill>',
     '<w14:textFill><w14:solidFill><w14:srgbClr w14:val="FF0000"/></w14:solidFill></w14:textFill>'],
]
ONOFF = [None, None, None, "", "1", "0"]
OPAQUE_ATOMS = ['<w:sym w:font="Symbol" w:char="F0B7"/>', "<w:softHyphen/>",
                '<w:drawing><wp:inline distT="0" distB="0"><wp:extent cx="1" cy="1"/></wp:inline></w:drawing>',
                "<w:lastRenderedPageBreak/>", '<w:footnoteReference w:id="2"/>']
PPRS = ["", "", "", '<w:jc w:val="center"/>', '<w:numPr><w:ilvl w:val="0"/><w:numId w:val="1"/></w:numPr>',
        '<w:spacing w:after="120"/>', '<w:ind w:left="720"/>']
TBLPRS = ['<w:tblW w:w="0" w:type="auto"/>', '<w:tblStyle w:val="TableGrid"/><w:tblW w:w="5000" w:type="pct"/>']


DEFAULT_PROFILE = {
    "blocks": (1, 7), "table": 0.18, "nested_table": 0.15, "heading": 0.12, "caps_heading": 0.05, "empty_para": 0.06,
    "runs": (1, 5), "split_identical": 0.25, "tab": 0.12, "br": 0.08, "br_typed": 0.2, "opaque": 0.06, "ins": 0.18, "del": 0.15,
    "subst": 0.10, "comment": 0.15, "point_comment": 0.03, "reply": 0.4, "bookmark": 0.06, "inline_other": 0.04, "proof": 0.05,
    "hyperlink": 0.05, "field": 0.04, "header": 0.25, "footer": 0.2, "fmt": 0.45, "empty_run": 0.04,
    "span": 0.12, "vmerge": 0.08, "overlap_comment": 0.06, "para_mark_rev": 0.0, "sect_break": 0.08, "comment_in_ins": 0.3, "multi_author": True, "literal_tab": 0.02,
    # off by default (switched on by the profiles of the checks that need them)
    "shared_rev_id": 0.0, "odd_rev_id": 0.0, "shuffle_comments": 0.0, "comment_id_gap": 0.0, "comment_on_del": 0.0,
}


class Gen:
    def __init__(self, rng: random.Random, profile: dict | None = None):
        self.rng = rng
        self.p = dict(DEFAULT_PROFILE)
        if profile:
            self.p.update(profile)
        self.pool = WORDS[:]
        rng.shuffle(self.pool)
        self.pool_i = 0
        self.rev_id = rng.choice([0, 0, 10, 100])
        self.com_id = rng.choice([0, 0, 5])
        self.comments = []      # comment dicts
        self.open_comments = []  # ids whose range is open (may span paragraphs)
        self.features = set()
        self.bm = 0

    # ---------------------------------------------------------------- words
    def word(self):
        r = self.rng
        if r.random() < 0.12:
            return r.choice(COMMON)
        w = self.pool[self.pool_i % len(self.pool)]
        k = self.pool_i // len(self.pool)
        self.pool_i += 1
        return w if k == 0 else f"{w}{k}"

    def phrase(self, n=None):
        n = n or self.rng.randint(1, 4)
        return " ".join(self.word() for _ in range(n))

    def chance(self, key):
        return self.rng.random() < self.p[key]

    # ---------------------------------------------------------------- runs
    def fmt(self):
        r = self.rng
        if r.random() < self.p["fmt"]:
            rest = r.choice(RESTS) if r.random() < 0.6 else r.choice(r.choice(REST_FAMILIES))
            return {"b": r.choice(ONOFF), "i": r.choice(ONOFF), "rest": rest}
        return {"b": None, "i": None, "rest": ""}

    def near_variant(self, f):
        """a format that differs from `f` in one detail only"""
        r = self.rng
        g = dict(f)
        fam = next((fm for fm in REST_FAMILIES if f["rest"] in fm), None)
        c = r.random()
        if fam and c < 0.5:
            g["rest"] = next(x for x in fam if x != f["rest"])
        elif c < 0.7:
            fam = r.choice(REST_FAMILIES)
            g["rest"] = fam[0] if f["rest"] != fam[0] else fam[1]
        elif c < 0.85:
            g["b"] = {None: "0", "": "1", "1": "", "0": None}[f["b"]]
        else:
            g["i"] = {None: "0", "": "1", "1": "", "0": None}[f["i"]]
        return g

    def run(self, text=None, fmt=None, deleted=False, plain=False):
        r = self.rng
        f = dict(fmt or self.fmt())
        text = self.phrase() if text is None else text
        tk = "dt" if deleted else "t"
        ch = []
        if not plain and self.chance("tab") and " " in text:
            a, b = text.split(" ", 1)
            ch = [{"k": tk, "s": a}, {"k": "tab"}, {"k": tk, "s": b}]
            self.features.add("tab")
        elif not plain and self.chance("br") and " " in text:
            words = text.split(" ")
            if len(words) >= 3 and r.random() < 0.5:
                # several line breaks in one run (also at its start or end)
                ch = []
                for wi, wd in enumerate(words):
                    if wi > 0:
                        ch.append({"k": r.choice(["br", "br", "cr"])} if r.random() < 0.7 else {"k": tk, "s": " "})
                    ch.append({"k": tk, "s": wd})
                if r.random() < 0.2:
                    ch.append({"k": "br"})
                if r.random() < 0.2:
                    ch.insert(0, {"k": "br"})
                self.features.add("multi_br")
            else:
                a, b = text.split(" ", 1)
                ch = [{"k": tk, "s": a}, {"k": r.choice(["br", "br", "cr"])}, {"k": tk, "s": b}]
            if r.random() < self.p.get("br_typed", 0.0):
                # page / column breaks: `w:br` with a type, in the middle of a run
                for a in ch:
                    if a["k"] == "br" and r.random() < 0.7:
                        a["type"] = r.choice(["page", "column", "textWrapping"])
                        self.features.add("typed_br")
            self.features.add("br")
        elif not plain and r.random() < self.p["literal_tab"] and " " in text:
            ch = [{"k": tk, "s": text.replace(" ", "\t", 1)}]
            self.features.add("literal_tab")
        else:
            ch = [{"k": tk, "s": text}]
        if not plain and not deleted and self.chance("opaque"):
            if r.random() < 0.25:
                ch.insert(r.randint(0, len(ch)), {"k": "nbh"})
            else:
                ch.insert(r.randint(0, len(ch)), {"k": "o", "xml": r.choice(OPAQUE_ATOMS)})
            self.features.add("opaque_atom")
        f["ch"] = ch
        return f

    def runs_for(self, text, deleted=False):
        """One or several runs carrying `text`; may split a word across identically formatted runs."""
        r = self.rng
        f = self.fmt()
        if len(text) > 3 and self.chance("split_identical"):
            k = r.randint(1, len(text) - 1)
            self.features.add("split_identical")
            x = r.random()
            if x < 0.55:
                f2 = f
            elif x < 0.8:
                f2 = self.near_variant(f)
                self.features.add("near_identical")
            else:
                f2 = self.fmt()
            return [self.run(text[:k], f, deleted, plain=True), self.run(text[k:], f2, deleted, plain=True)]
        return [self.run(text, f, deleted)]

    def rev(self):
        self.rev_id += 1
        a = self.rng.choice(AUTHORS if self.p["multi_author"] else AUTHORS[:1])
        rid = str(self.rev_id)
        if self.p["odd_rev_id"] and self.rng.random() < self.p["odd_rev_id"]:
            # ids other producers write: prefixed, not a whole number
            rid = self.rng.choice(["x" + rid, rid + ".5", "rev-" + rid])
            self.features.add("odd_rev_id")
        return {"id": rid, "author": a, "date": self.rng.choice(DATES)}

    def new_comment(self, parent=None):
        r = self.rng
        self.com_id += 1
        if self.p["comment_id_gap"] and r.random() < self.p["comment_id_gap"]:
            self.com_id += r.randint(1, 3)      # ids need not be consecutive
            self.features.add("comment_id_gap")
        cid = str(self.com_id)
        c = {"id": cid, "author": r.choice(AUTHORS), "date": r.choice(DATES[:3]) if r.random() < 0.9 else None,
             "initials": None, "paras": [{"para_id": "%08X" % r.randint(1, 0x7FFFFFFF), "text": [self.phrase(r.randint(1, 5))]}],
             "legacy_parent": None, "done_attr": None, "_parent": parent}
        if r.random() < 0.1:
            c["paras"].append({"para_id": "%08X" % r.randint(1, 0x7FFFFFFF), "text": [self.phrase(2)]})
        self.comments.append(c)
        return cid

    def cref_run(self, cid):
        return {"b": None, "i": None, "rest": '<w:rStyle w:val="CommentReference"/>', "ch": [{"k": "cref", "id": cid}]}

    # ---------------------------------------------------------------- paragraph
    def para_nodes(self, n_runs=None, allow_rev=True, allow_comment=True):
        r = self.rng
        nodes = []
        n = n_runs if n_runs is not None else r.randint(*self.p["runs"])
        sep_pending = False

        def sep():
            return {"k": "r", "run": {"b": None, "i": None, "rest": "", "ch": [{"k": "t", "s": " "}]}}

        for i in range(n):
            if i > 0:
                # whitespace between chunks lives in its own plain run or at the start of the next text
                nodes.append(sep())
            x = r.random()
            text = self.phrase()
            if allow_comment and self.chance("comment"):
                cid = self.new_comment()
                inner = [{"k": "r", "run": ru} for ru in self.runs_for(text)]
                if allow_rev and r.random() < self.p["comment_in_ins"] * 0.5:
                    rv = self.rev()
                    nodes.append({"k": "ins", **rv, "ch": [{"k": "cs", "id": cid}] + inner + [{"k": "ce", "id": cid}]})
                    self.features.add("comment_in_ins")
                else:
                    nodes.append({"k": "cs", "id": cid})
                    nodes.extend(inner)
                    nodes.append({"k": "ce", "id": cid})
                nodes.append({"k": "r", "run": self.cref_run(cid)})
                self.features.add("comment")
                while self.chance("reply") and len(self.comments) < 12:
                    rid = self.new_comment(parent=cid)
                    self.features.add("reply")
                    if r.random() < 0.6:
                        # Word anchors replies at the parent's range
                        idx = next(j for j, nd in enumerate(nodes) if nd.get("k") == "cs" and nd.get("id") == cid) if any(
                            nd.get("k") == "cs" and nd.get("id") == cid for nd in nodes) else None
                        if idx is not None:
                            nodes.insert(idx + 1, {"k": "cs", "id": rid})
                            nodes.append({"k": "ce", "id": rid})
                            nodes.append({"k": "r", "run": self.cref_run(rid)})
                continue
            if allow_comment and self.chance("point_comment"):
                cid = self.new_comment()
                nodes.extend([{"k": "cs", "id": cid}, {"k": "ce", "id": cid}, {"k": "r", "run": self.cref_run(cid)}])
                self.features.add("point_comment")
            if allow_rev and x < self.p["subst"]:
                d, a = self.rev(), self.rev()
                if r.random() < 0.7:
                    a["author"] = d["author"]
                if self.p["shared_rev_id"] and r.random() < self.p["shared_rev_id"]:
                    a["id"] = d["id"]          # some producers give both halves of a replacement one id
                    self.features.add("shared_rev_id")
                if allow_comment and self.p["comment_on_del"] and r.random() < self.p["comment_on_del"]:
                    # a comment on the deleted half only: its range ends between the deletion and the insertion
                    cid = self.new_comment()
                    nodes.append({"k": "cs", "id": cid})
                    nodes.append({"k": "del", **d, "runs": self.runs_for(text, deleted=True)})
                    nodes.append({"k": "ce", "id": cid})
                    nodes.append({"k": "ins", **a, "ch": [{"k": "r", "run": ru} for ru in self.runs_for(self.phrase())]})
                    nodes.append({"k": "r", "run": self.cref_run(cid)})
                    self.features.add("comment_on_del")
                    self.features.add("subst")
                    continue
                nodes.append({"k": "del", **d, "runs": self.runs_for(text, deleted=True)})
                nodes.append({"k": "ins", **a, "ch": [{"k": "r", "run": ru} for ru in self.runs_for(self.phrase())]})
                self.features.add("subst")
            elif allow_rev and x < self.p["subst"] + self.p["ins"]:
                rv = self.rev()
                nodes.append({"k": "ins", **rv, "ch": [{"k": "r", "run": ru} for ru in self.runs_for(text)]})
                self.features.add("ins")
                if r.random() < 0.2:
                    rv2 = self.rev()
                    nodes.append({"k": "ins", **rv2, "ch": [{"k": "r", "run": ru} for ru in self.runs_for(" " + self.phrase())]})
                    self.features.add("adjacent_ins")
            elif allow_rev and x < self.p["subst"] + self.p["ins"] + self.p["del"]:
                rv = self.rev()
                nodes.append({"k": "del", **rv, "runs": self.runs_for(text, deleted=True)})
                self.features.add("del")
            else:
                nodes.extend({"k": "r", "run": ru} for ru in self.runs_for(text))
            if self.chance("bookmark"):
                self.bm += 1
                nodes.append({"k": "o", "xml": f'<w:bookmarkStart w:id="{self.bm}" w:name="bm{self.bm}"/>'})
                nodes.append({"k": "o", "xml": f'<w:bookmarkEnd w:id="{self.bm}"/>'})
                self.features.add("bookmark")
            if self.chance("inline_other"):
                # other paragraph-level elements without text of their own: permission ranges, an empty content control
                self.bm += 1
                nodes.append({"k": "o", "xml": r.choice([f'<w:permStart w:id="{self.bm}" w:edGrp="everyone"/>', f'<w:permEnd w:id="{self.bm}"/>',
                                                        "<w:sdt><w:sdtPr><w:alias w:val=\"slot\"/></w:sdtPr><w:sdtContent/></w:sdt>"])})
                self.features.add("inline_other")
            if self.chance("proof"):
                nodes.append({"k": "proof", "type": r.choice(["spellStart", "spellEnd", "gramStart", "gramEnd"])})
                self.features.add("proof")
            if self.chance("hyperlink"):
                nodes.append({"k": "hl", "rid": None, "anchor": "bm1", "runs": [self.run(self.phrase(2), plain=True)]})
                self.features.add("hyperlink")
            if self.chance("field"):
                instr = r.choice([" PAGE ", "NUMPAGES", " PAGE \\* MERGEFORMAT", " DATE ", "page", " REF bm1 \\h "])
                f = {"b": None, "i": None, "rest": ""}
                nodes.append({"k": "r", "run": {**f, "ch": [{"k": "fld", "type": "begin"}]}})
                nodes.append({"k": "r", "run": {**f, "ch": [{"k": "instr", "s": instr}]}})
                nodes.append({"k": "r", "run": {**f, "ch": [{"k": "fld", "type": "separate"}]}})
                nodes.append({"k": "r", "run": {**f, "ch": [{"k": "t", "s": str(r.randint(1, 99))}]}})
                nodes.append({"k": "r", "run": {**f, "ch": [{"k": "fld", "type": "end"}]}})
                self.features.add("field")
            if self.chance("empty_run"):
                nodes.append({"k": "r", "run": {**self.fmt(), "ch": []}})
                self.features.add("empty_run")
        if allow_comment and len(nodes) >= 3 and self.chance("overlap_comment"):
            # interleaved (overlapping, non-nested) comment ranges: [sA] .. [sB] .. [eA] .. [eB]
            a, b = self.new_comment(), self.new_comment()
            pos = sorted(r.sample(range(len(nodes) + 1), min(4, len(nodes) + 1)))
            if len(pos) == 4:
                i, j, k, l = pos
                nodes[l:l] = [{"k": "ce", "id": b}, {"k": "r", "run": self.cref_run(b)}]
                nodes[k:k] = [{"k": "ce", "id": a}, {"k": "r", "run": self.cref_run(a)}]
                nodes[j:j] = [{"k": "cs", "id": b}]
                nodes[i:i] = [{"k": "cs", "id": a}]
                self.features.add("overlap_comment")
        return nodes

    def para(self, **kw):
        r = self.rng
        if self.chance("empty_para"):
            self.features.add("empty_para")
            return {"style": None, "ppr": r.choice(PPRS), "nodes": []}
        if self.chance("heading"):
            self.features.add("heading")
            st = r.choice(["Heading1", "Heading2", "Heading3", "Title"])
            return {"style": st, "ppr": "", "nodes": self.para_nodes(r.randint(1, 2), **kw)}
        if self.chance("caps_heading"):
            self.features.add("caps_heading")
            f = {"b": r.choice(["", "1"]), "i": None, "rest": ""}
            return {"style": None, "ppr": "", "nodes": [{"k": "r", "run": {**f, "ch": [{"k": "t", "s": self.phrase(2).upper()}]}}]}
        ppr = r.choice(PPRS)
        if self.chance("sect_break"):
            ppr += '<w:sectPr><w:pgSz w:w="12240" w:h="15840"/><w:cols w:space="720"/></w:sectPr>'
            self.features.add("sect_break")
        if self.chance("para_mark_rev"):
            kind = r.choice(["ins", "del"])
            if r.random() < 0.5:
                # numbered in sequence with the text revisions (as Word does): a mark without text may hold the highest id
                self.rev_id += 1
                pm = self.rev_id
            else:
                self.pm_rev = getattr(self, "pm_rev", 900) + 1
                pm = self.pm_rev
            ppr += f'<w:rPr><w:{kind} w:id="{pm}" w:author="Alice" w:date="2024-01-05T10:00:00Z"/></w:rPr>'
            self.features.add("para_mark_rev")
        return {"style": r.choice([None, None, None, "ListParagraph", "Normal"]), "ppr": ppr, "nodes": self.para_nodes(**kw)}

    def table(self, depth=0):
        r = self.rng
        self.features.add("table")
        ncols = r.randint(1, 3)
        nrows = r.randint(1, 3)
        rows = []
        for ri in range(nrows):
            cells = []
            col = 0
            while col < ncols:
                span = 1
                if col + 1 < ncols and self.chance("span"):
                    span = 2
                    self.features.add("gridspan")
                vm = None
                blocks = []
                for _ in range(r.choice([1, 1, 1, 2])):
                    if depth == 0 and self.chance("nested_table"):
                        blocks.append({"tbl": self.table(depth + 1)})
                        self.features.add("nested_table")
                        blocks.append({"p": {"style": None, "ppr": "", "nodes": []}})
                    else:
                        blocks.append({"p": self.para() if r.random() < 0.85 else {"style": None, "ppr": "", "nodes": []}})
                cells.append({"pr": '<w:tcW w:w="2000" w:type="dxa"/>', "span": span, "vmerge": vm, "blocks": blocks, "_col": col})
                col += span
            rpr = r.choice(["", "", "<w:cantSplit/>"])
            if self.chance("para_mark_rev"):
                self.pm_rev = getattr(self, "pm_rev", 900) + 1
                rpr += f'<w:ins w:id="{self.pm_rev}" w:author="Bob" w:date="2024-01-05T10:00:00Z"/>'
                self.features.add("row_rev")
            rows.append({"pr": rpr, "cells": cells})
        # vertical merges: a cell continues the one above when both have the same column and span
        for ri in range(1, nrows):
            for c in rows[ri]["cells"]:
                above = [a for a in rows[ri - 1]["cells"] if a["_col"] == c["_col"] and a["span"] == c["span"]]
                if above and self.chance("vmerge"):
                    if above[0]["vmerge"] is None:
                        above[0]["vmerge"] = "restart"
                    c["vmerge"] = "continue"
                    c["blocks"] = [{"p": {"style": None, "ppr": "", "nodes": []}}]
                    self.features.add("vmerge")
        for row in rows:
            for c in row["cells"]:
                c.pop("_col")
        return {"pr": r.choice(TBLPRS), "rows": rows,
                "grid": "<w:tblGrid>" + '<w:gridCol w:w="2000"/>' * ncols + "</w:tblGrid>"}

    def blocks(self, n=None, tables=True):
        r = self.rng
        n = n or r.randint(*self.p["blocks"])
        out = []
        for _ in range(n):
            if tables and self.chance("table"):
                out.append({"tbl": self.table()})
            else:
                out.append({"p": self.para()})
        return out

    def document(self):
        r = self.rng
        doc = {"headers": [], "footers": [], "body": self.blocks(), "title_pg": False, "even_odd": False, "sect": "",
               "hyperlinks": []}
        if self.chance("header"):
            self.features.add("header")
            doc["headers"].append({"type": "default", "blocks": self.blocks(r.randint(1, 2), tables=r.random() < 0.3)})
            if r.random() < 0.3:
                doc["title_pg"] = r.random() < 0.7
                doc["headers"].append({"type": "first", "blocks": self.blocks(1, tables=False)})
                if doc["title_pg"] and r.random() < 0.35:
                    # a letterhead: only the first page has a header of its own, the running header is not defined
                    # (python-docx: section.header.is_linked_to_previous)
                    doc["headers"] = [h for h in doc["headers"] if h["type"] != "default"]
                    self.features.add("first_page_header_only")
            if r.random() < 0.2:
                doc["even_odd"] = r.random() < 0.7
                doc["headers"].append({"type": "even", "blocks": self.blocks(1, tables=False)})
        if self.chance("footer"):
            self.features.add("footer")
            doc["footers"].append({"type": "default", "blocks": self.blocks(1, tables=False)})
        self.finish_comments(doc)
        return doc

    def finish_comments(self, doc):
        r = self.rng
        mode = r.choice(["modern", "modern", "legacy", "mixed"]) if self.comments else r.choice(["none", "none", "modern", "empty_comments"])
        parts = {"comments": False, "extended": False, "ids": False, "extensible": False}
        ex, ids, cex = [], [], []
        by_id = {c["id"]: c for c in self.comments}
        if mode in ("modern", "mixed", "legacy", "empty_comments"):
            parts["comments"] = True
        if mode in ("modern", "mixed"):
            parts["extended"] = True
        if mode == "modern":
            parts["ids"] = True
            parts["extensible"] = True
        for c in self.comments:
            par = c.pop("_parent", None)
            root = par
            while root is not None and by_id[root].get("_root_of") is not None:
                root = by_id[root]["_root_of"]
            c["_root_of"] = par
            last_pid = c["paras"][-1]["para_id"]
            if mode == "legacy":
                if par is not None:
                    c["legacy_parent"] = par
            if parts["extended"]:
                # modern Word flattens threads to the root; sometimes keep a nested parent
                ppar = None
                if par is not None:
                    tgt = par if r.random() < 0.25 else self._thread_root(by_id, par)
                    ppar = by_id[tgt]["paras"][-1]["para_id"]
                ex.append({"para_id": last_pid, "parent": ppar, "done": r.choice(["0", "0", "1"])})
            if parts["ids"]:
                dur = "%08X" % r.randint(1, 0x7FFFFFFF)
                ids.append({"para_id": last_pid, "durable": dur})
                if parts["extensible"]:
                    cex.append({"durable": dur, "date": c["date"] or "2024-01-01T00:00:00Z"})
            if r.random() < 0.1:
                c["done_attr"] = r.choice(["1", "0", "true"])
        for c in self.comments:
            c.pop("_root_of", None)
        if r.random() < self.p.get("unrelated_parts", 0.0):
            # comment parts that are typed in [Content_Types] but not related from the main part
            for k in parts:
                if parts[k] and r.random() < 0.6:
                    parts[k] = "unrelated"
            self.features.add("unrelated_parts")
        if self.p["shuffle_comments"] and len(self.comments) > 1 and r.random() < self.p["shuffle_comments"]:
            # the order of the entries in comments.xml is not the order of the ids
            r.shuffle(self.comments)
            self.features.add("shuffle_comments")
        doc["comments"] = self.comments
        doc["parts"] = parts
        doc["comments_ex"], doc["comments_ids"], doc["comments_cex"] = ex, ids, cex

    @staticmethod
    def _thread_root(by_id, cid):
        seen = set()
        while by_id[cid].get("_root_of") is not None and cid not in seen:
            seen.add(cid)
            cid = by_id[cid]["_root_of"]
        return cid


def gen_document(seed: int, index: int, profile: dict | None = None):
    rng = random.Random((seed << 20) ^ (index * 2654435761 % (1 << 32)))
    g = Gen(rng, profile)
    doc = g.document()
    return doc, sorted(g.features), rng
