#!/bin/bash
# Parallel version of seeded_matrix.sh: one lane per property, each lane in its own scratch worktree of /repo (checks run
# with ADEU_REPO=<worktree>), LANES lanes at a time.  /repo itself is not touched.  Writes seeded/MATRIX.tsv.
# usage: tools/seeded_matrix_par.sh [LANES]
cd /verif || exit 2
LANES=${1:-4}
W=/tmp/mx; rm -rf $W; mkdir -p $W/out
lane() {
  prop=$1; wt=$W/wt-$prop
  git -C /repo worktree add -q --detach $wt HEAD || return
  for d in seeded/$prop-m*/; do
    id=$(basename $d); c=$prop
    [ "$id" = "C12-m1" ] && c="C13"; [ "$id" = "C15-m2" ] && c="C08"; [ "$id" = "C07-m8" ] && c="C02"
    [ "$id" = "C07-m9" ] && c="C09"; [ "$id" = "C07-m10" ] && c="C03"
    if ! git -C $wt apply /verif/${d}patch.diff 2>/dev/null && ! git -C $wt apply -3 /verif/${d}patch.diff 2>/dev/null; then
      git -C $wt reset -q --hard HEAD; echo -e "$id\t$c\tno\t-\t-" > $W/out/$id.tsv; continue; fi
    res=$(ADEU_REPO=$wt ./check $c --tier quick 2>&1)
    git -C $wt reset -q --hard HEAD
    line=$(echo "$res" | grep -E "^$c quick:" | tail -1)
    if echo "$res" | grep -q "^VIOLATION"; then det=yes; else det=no; fi
    echo "$res" | grep -q "no-failing-input-found" && det="yes (correspondence only)"
    echo -e "$id\t$c\tyes\t$det\t$line" > $W/out/$id.tsv
  done
  git -C /repo worktree remove --force $wt
}
export -f lane; export W
printf "%s\n" C01 C02 C03 C04 C05 C06 C07 C08 C09 C10 C11 C12 C13 C14 C15 C16 C17 C18 | xargs -P $LANES -I{} bash -c 'lane {}'
git -C /repo worktree prune
{ echo -e "seeded\tcheck\tapplies\tdetected\tsummary"; cat $(ls $W/out/*.tsv | sort -V); } > seeded/MATRIX.tsv
rm -rf $W
grep -c "" seeded/MATRIX.tsv
