#!/usr/bin/env python3
"""Prints the tables of DESIGN.md §11 that are derived from files: theorems per property (lean/OBLIGATIONS.json),
findings (known_findings.json) and seeded changes (seeded/*/meta.json)."""
import json, sys
from pathlib import Path
ROOT = Path(__file__).resolve().parent.parent
what = sys.argv[1] if len(sys.argv) > 1 else "all"
if what in ("theorems", "all"):
    o = json.loads((ROOT / "lean/OBLIGATIONS.json").read_text())
    print("| id | theorems registered (Lean, `Props/Cxx.lean`) | still decided by correspondence + oracle |\n|---|---|---|")
    for pid in sorted(o):
        th = ", ".join("`" + t.split(".")[-1] + "`" for t in o[pid]["theorems"])
        print(f"| {pid} | {th} | {'; '.join(o[pid].get('partial', []))} |")
if what in ("findings", "all"):
    print("\n| property | finding | status | /repo commit | what failed |\n|---|---|---|---|---|")
    for k in json.loads((ROOT / "known_findings.json").read_text()):
        print(f"| {k['property']} | {k['key']} | {k['status']} | {k.get('fix_commit', '')} | {k['what'][:230]} |")
if what in ("seeded", "all"):
    print("\n| seeded change | breaks | caught by |\n|---|---|---|")
    for d in sorted((ROOT / "seeded").iterdir()):
        if (d / "meta.json").exists():
            m = json.loads((d / "meta.json").read_text())
            print(f"| `seeded/{d.name}` | {m['breaks_property']} | {m['caught_by']} |")
