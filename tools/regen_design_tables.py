#!/usr/bin/env python3
"""Replaces the three generated tables of DESIGN.md §11 (theorems, findings, seeded changes) by the output of
tools/design_tables.py."""
import subprocess, sys
from pathlib import Path
ROOT = Path(__file__).resolve().parent.parent
text = (ROOT / "DESIGN.md").read_text().split("\n")
for what, header in (("theorems", "| id | theorems registered"), ("findings", "| property | finding | status"),
                     ("seeded", "| seeded change | breaks | caught by |")):
    new = subprocess.run([sys.executable, str(ROOT / "tools/design_tables.py"), what], capture_output=True, text=True).stdout.strip("\n").split("\n")
    i = next(k for k, l in enumerate(text) if l.startswith(header))
    j = i
    while j < len(text) and text[j].startswith("|"):
        j += 1
    text[i:j] = new
(ROOT / "DESIGN.md").write_text("\n".join(text))
print("tables regenerated")
