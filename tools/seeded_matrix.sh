#!/bin/bash
# Runs every kept seeded change against the current /repo working tree: does the patch still apply, and does the
# quick tier of its property (or the neighbouring check named below) report a violation?  Writes seeded/MATRIX.tsv.
cd /verif || exit 2
out=seeded/MATRIX.tsv
echo -e "seeded\tcheck\tapplies\tdetected\tsummary" > $out
for d in seeded/*/; do
  id=$(basename $d); prop=${id%%-*}
  checks=$prop
  [ "$id" = "C12-m1" ] && checks="C13"
  [ "$id" = "C15-m2" ] && checks="C08"
  [ "$id" = "C07-m8" ] && checks="C02"
  [ "$id" = "C07-m9" ] && checks="C09"
  [ "$id" = "C07-m10" ] && checks="C03"
  for c in $checks; do
    res=$(tools/try_mutant.sh /verif/${d}patch.diff quick $c 2>&1)
    if echo "$res" | grep -q "PATCH DOES NOT APPLY"; then echo -e "$id\t$c\tno\t-\t-" >> $out; continue; fi
    line=$(echo "$res" | grep -E "^$c quick:" | tail -1)
    if echo "$res" | grep -q "^VIOLATION"; then det=yes; else det=no; fi
    echo -e "$id\t$c\tyes\t$det\t$line" >> $out
  done
done
git -C /repo status --short
