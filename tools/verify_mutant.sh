#!/bin/bash
# usage: tools/verify_mutant.sh <worktree> <mutant-dir>   (mutant-dir has patch.diff and demo.py)
# Confirms: patch applies; full suite green with it; demo fails with it and passes without it.
WT=$1; M=$2
set -u
cd "$WT" || exit 2
git checkout -q -- src || exit 2
echo "== demo on clean tree"; PYTHONPATH=$WT/src /venv/bin/python "$M/demo.py" >/tmp/vm_clean.out 2>&1; c=$?; tail -2 /tmp/vm_clean.out; echo "rc=$c"
git apply "$M/patch.diff" || { echo "PATCH DOES NOT APPLY"; exit 2; }
echo "== suite with mutant"; PYTHONPATH=$WT/src /venv/bin/python -m pytest -q -p no:cacheprovider -n 8 --timeout=900 2>&1 | tail -1
echo "== demo with mutant"; PYTHONPATH=$WT/src /venv/bin/python "$M/demo.py" >/tmp/vm_mut.out 2>&1; m=$?; tail -2 /tmp/vm_mut.out; echo "rc=$m"
git checkout -q -- src
[ $c -eq 0 ] && [ $m -ne 0 ] && echo "MUTANT-CONFIRMED" || echo "MUTANT-NOT-CONFIRMED"
