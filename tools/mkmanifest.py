#!/usr/bin/env python3
"""Regenerates MANIFEST.json from the table below (kept valid at all times)."""
import json
from pathlib import Path

ROOT = Path(__file__).resolve().parent.parent

BASELINE = ("cd /repo && env -u ADEU_VERIF /venv/bin/python -m pytest -ra -q -p no:cacheprovider --timeout=900 "
            "--continue-on-collection-errors")

NOTE_COMMON = ("Trusted: Lean 4.33 kernel; axioms propext/Classical.choice/Quot.sound only (audited every run); the "
               "hand-written model is tied to /repo's working tree by the correspondence check of each run (sampled, "
               "seeded); harness generator/reader/oracle. ")

CLAIMED = {
    "C13": dict(
        text=("Lean theorems (all diff lists, unbounded): C13_apply, C13_disjoint_sorted, C13_target_at_index, "
              "C13_equal_nil, C13_token_aligned about Adeu.Diff.editsOfDiffs, the model of the edit-emitting loop of "
              "generate_edits_from_text. Tie: every run compares the model with the real function on all pairs of "
              "short token strings (exhaustive) and random rewrites, with diff-match-patch's output recorded from the "
              "real call and its contract monitored; an independent oracle evaluates the property's clauses on the "
              "implementation's output."),
        note=NOTE_COMMON + "diff-match-patch and Python's re are parameters of the model (contract monitored).",
        technique="Lean 4 proof by induction over the diff list + differential correspondence with generate_edits_from_text",
        design="§5 C13"),
}

PENDING = {
}

ALL = [f"C{i:02d}" for i in range(1, 19)]


def main():
    checks = []
    for pid in ALL:
        if pid in CLAIMED:
            c = CLAIMED[pid]
            checks.append({
                "property_id": pid,
                "quick_cmd": f"./check {pid} --tier quick",
                "thorough_cmd": f"./check {pid} --tier thorough",
                "evidence_file": f"evidence/{pid}.json",
                "replay_cmd_template": f"./check {pid} --replay {{path}}",
                "engine": "lean-proof+correspondence",
                "level_claimed": {"category": "proof", "text": c["text"], "design_ref": c["design"]},
                "level_note": c["note"],
                "technique": c["technique"],
            })
    na = [{"property_id": p, "reason": PENDING.get(p, "check not built yet in this round (planned: Lean model + "
                                                      "correspondence, see DESIGN.md §5); not claimed until it runs")}
          for p in ALL if p not in CLAIMED]
    m = {
        "version": 1,
        "setup_cmd": "cd lean && lake build",
        "hooks": {
            "guard": "ADEU_VERIF",
            "enable": "no source hooks: checks import /repo/src in-process and wrap functions from the harness; "
                      "ADEU_VERIF=1 is set by the harness only",
            "baseline_off_cmd": BASELINE,
            "source_commits": [],
            "add_only": True,
        },
        "engines": [{"name": "lean-proof+correspondence", "path": "check",
                     "serves_properties": sorted(CLAIMED),
                     "kind_free_text": "Lean 4 theorems about hand-written executable models (lean/), tied to /repo "
                                       "by a differential correspondence check and property oracles (harness/)"}],
        "checks": checks,
        "not_applicable": na,
        "notes": "Entry point ./check Cxx --tier quick|thorough [--replay F]; see DESIGN.md.",
    }
    (ROOT / "MANIFEST.json").write_text(json.dumps(m, indent=1) + "\n")
    print(f"claimed {len(checks)}, not claimed {len(na)}")


if __name__ == "__main__":
    main()
