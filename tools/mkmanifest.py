#!/usr/bin/env python3
"""Regenerates MANIFEST.json from the table below (kept valid at all times)."""
import json
from pathlib import Path

ROOT = Path(__file__).resolve().parent.parent

BASELINE = ("cd /repo && env -u ADEU_VERIF /venv/bin/python -m pytest -ra -q -p no:cacheprovider --timeout=900 "
            "--continue-on-collection-errors")

NOTE_COMMON = ("Trusted: Lean 4.33 kernel; axioms propext/Classical.choice/Quot.sound only (audited every run); the "
               "hand-written model is tied to /repo's working tree by the correspondence check of each run (sampled, "
               "seeded); harness generator/reader/oracle. ")

CLAIMED = {
    "C13": dict(
        text=("Lean theorems (all diff lists, unbounded): C13_apply, C13_disjoint_sorted, C13_target_at_index, "
              "C13_equal_nil, C13_token_aligned about Adeu.Diff.editsOfDiffs, the model of the edit-emitting loop of "
              "generate_edits_from_text. Tie: every run compares the model with the real function on all pairs of "
              "short token strings (exhaustive) and random rewrites, with diff-match-patch's output recorded from the "
              "real call and its contract monitored; an independent oracle evaluates the property's clauses on the "
              "implementation's output."),
        note=NOTE_COMMON + "diff-match-patch and Python's re are parameters of the model (contract monitored).",
        technique="Lean 4 proof by induction over the diff list + differential correspondence with generate_edits_from_text",
        design="§5 C13"),
}

CLAIMED["C18"] = dict(
    text=("Lean theorems about Adeu.Init.handleInit (model of handle_init as a list of file-system operations, final "
          "write byte by byte): C18_crash_safe (every prior state, every entry/mode, every crash point k: previous bytes in "
          "config or backup), C18_success_json, C18_failure_untouched, C18_only_adeu_changed, C18_idempotent, "
          "C18_second_run_same_bytes. Tie: real handle_init runs in a temp dir for generated prior states x both modes; "
          "final bytes and outcome equal the model's (json.dump re-implemented in Lean, byte for byte); a crash is "
          "injected at every intercepted file-system event (incl. half copies / half writes) and the observed "
          "directory must be a crash state of the model; independent oracle on the directory contents."),
    note=NOTE_COMMON + "OS behaviour below the step model (caches, fsync, torn writes) and same-second backup name "
         "collisions are not modelled; Python's UTF-8 decoding and json.loads are parameters.",
    technique="Lean 4 proof over an operation-list model + crash-point injection correspondence",
    design="§5 C18")
CLAIMED["C05"] = dict(
    text=("Lean theorems about Adeu.Doc.normalize (model of normalize_docx): C05_normalize_canon (canonical content "
          "stream of every story unchanged: text, per-character format, revisions with id/author/date, anchors, "
          "non-text content, order), C05_paragraph_canon, C05_merge_adjacent_identical, C05_idempotent. Tie: for every "
          "generated document RedlineEngine(bytes).save_to_stream() read back by an independent reader equals the "
          "model's normalize(d) including run boundaries; independent canonical-stream oracle."),
    note=NOTE_COMMON + "python-docx load/save is modelled as the identity on the abstract document (checked per case).",
    technique="Lean 4 proof (functional induction on the coalescing function, mutual induction over blocks) + differential correspondence",
    design="§5 C05")
CLAIMED["C03"] = dict(
    text=("Lean theorem C03_text_eq: for every document and both views the text indexed by the engine (model of "
          "DocumentMapper) equals the text the client reads (model of extract_text_from_stream), proved by a simulation "
          "between the two paragraph state machines and induction over blocks/tables/parts; C03_spans_partition; "
          "C03_indexed_text_is_annotated_document (what an offset can denote: the indexed raw text is the rendering of a flat "
          "segment list whose text characters are, in order, the document's characters tagged by their open marks, prefixes "
          "and separators bare - every document); C03_raw_index_reads_as_accepted_index_partial. Tie: "
          "both models are compared with the real reader and mapper on every generated document (both views); oracle: "
          "reader text == engine text, spans partition the text and real spans point into their run. The clause 'an "
          "indexed edit changes exactly the addressed characters' is decided by this check's indexed-edit oracles (ranges "
          "across runs / line breaks / markers / inside pending insertions, insertions at a paragraph's end offset) and with "
          "the engine checks (C01/C02/C12)."),
    note=NOTE_COMMON + "ids are non-empty; style-id -> style-name table is the generator's style sheet; fuzzy regex not involved.",
    technique="Lean 4 proof by simulation of two state machines + differential correspondence",
    design="§5 C03")

CLAIMED["C02"] = dict(
    text=("Lean theorems C02_trim_contract / C02_trim_reassemble: for all strings and every whitespace predicate the "
          "context-trimming step (model of _trim_common_context) only trims what is common to target and new text, so "
          "replacing the trimmed middle reproduces the new text (replaces 'every pair up to a length bound'). Tie: the "
          "model is compared with the real function exhaustively over all pairs of short strings over {a,b,space,newline,"
          "*,_,#} and on random pairs every run. C02_located_where_read / C02_located_in_accepted_view: a searched target "
          "that is an exact piece of the raw extracted text (touching no deletion) is located at its first occurrence "
          "there with its own length, one that runs across deleted text at its occurrence in the accepted view - both "
          "before any fuzzy lookup, whatever the fuzzy matchers return. C02_effective_edit_same_text / "
          "C02_heuristic_applies_effective_edit: what the searched path hands to the indexed step is an edit with the same "
          "effect on the text as the request. C02_rewritten_insertion_reads_as_replacement: an insertion rewritten because "
          "an edit landed inside it reads as its text with the range replaced, line breaks included (C02_split_breaks_join). "
          "The searched path (Adeu.Doc.applyEdits) is compared "
          "with the real engine on one order of every generated batch (whole saved document). The engine clause (all exact "
          "unique non-overlapping edits applied, accepted text == string replacement, any order) is decided by an "
          "independent oracle on generated documents x batches x all orders — targets at every position relative to run / "
          "format / tab / deletion / insertion / cell / paragraph boundaries, quoted with or without formatting markers — "
          "reading the saved package with the independent reader; there is no composition theorem for the accepted text "
          "of a whole batch, so for that clause this check gives exploration-level assurance on top of the correspondence."),
    note=NOTE_COMMON + "targets are made of real characters only and are unique in both views (also whitespace/marker-"
         "normalised); str.isspace is a parameter (table compared per run).",
    technique="Lean 4 proofs (trim contract for all strings; lookup order of the searched path) + exhaustive / whole-document differential correspondence; oracle-based exploration for the accepted-text clause",
    design="§5 C02")
CLAIMED["C04"] = dict(
    text=("Lean theorems about the reader model (Adeu.Doc.extractText), all paragraphs / documents, unbounded: "
          "C04_clean_complete (accepted view of a paragraph = formatted segment of every non-deleted run, once, in order, "
          "nothing else); C04_raw_is_flat_markup (the raw view is the rendering of a flat segment list: delimiters balanced, "
          "never nested); C04_raw_annotation (every character once, in order, in the kind of block its enclosing marks call "
          "for: deleted > inserted > commented > bare) and C04_document_annotation (the same for whole documents - stories, "
          "nested and merged tables, prefixes and separators bare - with no hypothesis); C04_accept_raw_eq_clean and C04_paragraph_read_accepted (the raw "
          "string read by the CriticMarkup reader with everything accepted == accepted view); "
          "C04_meta_blocks_are_rendered_groups + C04_listed_marks_are_those_open_at_text (metadata blocks are built from "
          "exactly one snapshot of the open changes / comment ranges per text-carrying run), C04_block_lists_open_changes_once / "
          "C04_block_lists_anchored_comments (inside one block: one [Chg:id] line per open change, none twice; a [Com:id] line for "
          "every open comment the comment map knows); C04_document_read_accepted_partial "
          "/ C04_document_flat_balanced_partial / C04_accepted_view_is_undeleted_characters_partial (whole documents: stories, "
          "nested and merged tables, by mutual induction; the accepted view is exactly the not-deleted characters of the tagged "
          "document text) "
          "under the decidable domain domDoc (brace-free texts, no container that is empty only in the accepted view) with "
          "C04_deleted_only_container_counterexample showing the hypothesis is needed (= open finding "
          "F-deleted-only-container, replayed on the implementation); C04_vmerge_duplicate_counterexample and "
          "C04_point_comment_counterexample (the other two open findings as theorems about the model); C04_layout_is_indexed_layout, C04_marker_no_newline. "
          "Tie: model == extract_text_from_stream on every generated document, both views; the driver evaluates domDoc and "
          "the reading conclusion on every compared document (hit counts in the evidence). Independent oracle: "
          "completeness/order, per-character annotation, listed ids (threads included), accept(raw)==clean, flat balanced "
          "CriticMarkup, markers never around a line break. Still decided by correspondence + oracle only: the rendering "
          "of ids inside a metadata block (threads, de-duplication) and visibility of merged-cell text exactly once. "
          "Three open known findings (vertically merged cells, point comments, deleted-only containers)."),
    note=NOTE_COMMON + "PAGE/NUMPAGES field results and hyperlink text are outside the projection by design (documented).",
    technique="Lean 4 proof (ghost-segment simulation of the reader's walk, mutual induction over blocks/rows/cells, parse-render round trip) + differential correspondence + independent OOXML oracle",
    design="§5 C04, §13.1")

ENGINE_TIE = ("Tie: the Lean engine model (Adeu.Doc.applyEditsIndexed / Sess.applyActions: anchors, run splitting, tracked "
              "deletion/insertion, multi-line and heading insertions, comments, review actions) is compared with the real "
              "engine on every generated case — whole saved package read back by an independent reader, run boundaries, "
              "revision ids and the four comment lists included (ids/dates renamed order-preservingly). The searched "
              "(heuristic) path is modelled too (Adeu.Doc.applyEdits: literal matching stages, raw/accepted-view lookup "
              "order, context trimming, nested-in-insertion rewrite, conflict ranges) and compared on every submitted batch, "
              "with the result of the non-literal matchers recorded from the real call as a parameter. ")
CLAIMED["C01"] = dict(
    text=("Lean theorems. For every mixed batch (indexed + searched edits, any matcher results): C01_only_this_runs_marks_are_new "
          "(every revision mark of the result is an input mark, unchanged, or a mark of this session), C01_skeleton_retained (every "
          "story keeps its skeleton: paragraph styles / properties, tables with properties, grid, rows, cells, other blocks, "
          "in order; only paragraphs are added) and C01_existing_comments_retained. On the building blocks: "
          "C01_split_neutral_core (run splitting keeps every child once, in order), C01_delete_restores_core, "
          "C01_reject_restores_core (a tracked replacement is undone exactly by rejecting the session's marks; everything "
          "else in place), C01_session_ids_fresh. " + ENGINE_TIE +
          "Independent oracle: reject the session's marks in the saved package and compare the canonical content "
          "stream with the input (all edit kinds, heuristic and indexed paths). That rejecting the session's marks "
          "restores the children of every paragraph after a whole batch is decided by correspondence + oracle."),
    note=NOTE_COMMON + "the documented exception (edit inside someone else's pending insertion) is outside this check's batches.",
    technique="Lean 4 proofs (whole-batch frame theorem by induction over the engine model; building blocks) + whole-document differential correspondence + reversibility oracle",
    design="§5 C01")
CLAIMED["C06"] = dict(
    text=("Lean theorems about accept/reject on paragraph children: C06_accept_effect, C06_reject_effect, C06_isolation, "
          "C06_commute (all four combinations, distinct ids), C06_unknown_skipped, C06_resolved_once, C06_counts, "
          "C06_accept_each_eq_acceptAll — all documents, all sequences; and on the whole main story (tables included): "
          "C06_commute_doc, C06_unknown_skipped_doc, C06_skeleton_untouched_doc; C06_accept_all_raw_view_is_accepted_view and "
          "C06_resolved_paragraph_reads_the_same (reader model: what accept-all leaves of a paragraph, and any paragraph whose "
          "changes were all resolved, has no wrapper and no metadata - raw view == accepted view; "
          "C06_accept_all_story_reads_the_same lifts it to the whole main story, nested tables included). " + ENGINE_TIE + "Oracle: per-character "
          "reference semantics on the independent reader's view, counts, accept-each == accept-all == accepted view; "
          "random and exhaustive short action sequences incl. unknown / malformed / quoted ids."),
    note=NOTE_COMMON + "changes inside headers/footers cannot be addressed (only the main part is searched).",
    technique="Lean 4 proof (commutation, idempotence, isolation by induction over children) + differential correspondence",
    design="§5 C06")
CLAIMED["C08"] = dict(
    text=("Lean theorems about Adeu.Doc.applyEdits (mixed batches: indexed + searched edits): C08_total, C08_total_mixed "
          "(applied + skipped = submitted, unconditional), C08_skip_empty_target, C08_skip_not_found (target literally in "
          "neither extracted view and no non-literal match => skipped, session untouched), C08_skipped_leaves_no_trace / "
          "C08_skipped_indexed_leaves_no_trace (whatever the reason, a skipped edit leaves canonical content, comment "
          "lists and counters as they were), C08_all_skipped_unchanged, C08_skip_leaves_only_splits_core, "
          "C08_no_nesting_core. " + ENGINE_TIE + "Oracle on conflict-heavy batches (duplicate, overlapping, nested, "
          "inside-deleted, not-found, empty-target, odd characters): never raises, totals, all-skipped => content unchanged, "
          "accepted result == input with a non-conflicting subset of size `applied` (exhaustive subset search), no nesting. "
          "'Never raises', the conflict-subset clause and 'no mark nested in another' for whole batches are "
          "runtime/oracle-observed (exploration-level for those clauses). One open finding (F-fuzzy-after-conflict)."),
    note=NOTE_COMMON + "totality on the model side is by construction; exceptions of the real code are observed per case.",
    technique="Lean 4 proofs (accounting invariant, skip-frame theorem through every branch of the engine model, fold invariant for all-skipped batches) + differential correspondence + subset-search oracle",
    design="§5 C08")
CLAIMED["C09"] = dict(
    text=("Lean theorems: C09_marks_attributed (for every mixed batch, every revision mark of every story of the result is "
          "an input mark with unchanged id / author / date or carries the session's author, the session's date and an id "
          "handed out after the ids scanned at session start), C09_mark_attribution (author/date/id of every created mark), C09_ids_fresh (new ids exceed every "
          "id of the main part and the reachable header/footer parts), C09_comment_parts (a new comment is listed exactly "
          "once in each of the four lists), C09_new_ids_above_old / C09_new_ids_differ_from_old (a new mark's id differs "
          "from the id of every mark that was there, numeric or not), C09_comment_ids_stay_unique (the comments part keeps "
          "pairwise distinct ids after any batch), C09_comment_parts_stay_linked (entry i of comments / commentsExtended / "
          "commentsIds / commentsExtensible belong together after any batch if they did before), C09_deltext_only_in_del. " + ENGINE_TIE + "Oracle: package validator on the "
          "saved bytes after edit batches, review actions, replies and a second round by another author (zip, "
          "well-formedness, content types, relationship targets, id uniqueness, ISO dates, nesting, comment triples, "
          "auxiliary parts; ids counted over every mark of a part, tracked paragraph marks and rows included)."),
    note=NOTE_COMMON + "random paragraph/durable ids are placeholders in the model (collision freedom not proved).",
    technique="Lean 4 proof of id freshness / attribution + differential correspondence + package validator oracle",
    design="§5 C09")
CLAIMED["C10"] = dict(
    text=("Lean theorems: C10_one_new_comment (exactly one appended comment with the text and the session's author, "
          "existing comments and stories untouched), C10_existing_untouched (for every mixed batch the existing entries of "
          "all four comment lists are a prefix of the result's), C10_new_comments_attributed (every entry of the result is an "
          "existing entry or one written by this run: its author, not resolved, one paragraph, a numeral id above every "
          "numeric id that was there), C10_comment_ids_stay_unique (+ _actions: distinct comment ids stay distinct after "
          "any batch / review round), C10_comment_parts_stay_linked_actions, C10_anchor_encloses, C10_reply_unknown_skipped; "
          "C10_comment_shown_with_insertion / _deletion / _replacement (engine shape read by the reader model: the comment id and "
          "the change id are open in one snapshot of the paragraph's metadata, hence rendered in one block - any surrounding "
          "paragraph content); C10_reply_shown_with_thread (whenever the reader writes a comment into a metadata block, every "
          "comment whose parent it is has its line in that block); C10_new_comment_read_back (layers E+D: the reader's comment map "
          "of the document add_comment produced has the new id with exactly that text and the session's author, whatever the "
          "document held before); C10_commented_insertion / _deletion / _replacement_end_to_end (the composition: the raw view of a "
          "paragraph that holds the engine's shape, read with the comment map of the resulting document, has a metadata block "
          "built from a snapshot with the change open and with a line [Com:id] for the new comment). " + ENGINE_TIE +
          "Oracle: every applied commented edit (replacement, insertion, deletion, multi-line, heading) has exactly one "
          "new comment anchored on its own marks and shown with them in the raw view; replies threaded and shown with "
          "their thread; unknown parents skipped."),
    note=NOTE_COMMON + "comment/edit association in the oracle is by (unique) comment text.",
    technique="Lean 4 proof on the comment store model and on the reader model applied to the engine's output shape + differential correspondence + anchoring oracle",
    design="§5 C10, §13.2")
CLAIMED["C16"] = dict(
    text=("Lean theorems: C16_inherits (every inserted run carries the other run properties of the style source), "
          "C16_style_source_in_paragraph, C16_literal (text without a well-formed span is inserted literally as one run), "
          "C16_only_markers_removed (for every new text the characters of the inserted runs are a subsequence of it and every "
          "character other than * and _ is kept, in order: rendering can only remove span delimiters - by induction over the "
          "parser with a specification of the span finder), C16_heading_line / C16_hash_line_kept (a line is a heading of "
          "level n exactly by n hashes and a blank; '#1 priority' keeps every character), C16_heading_style. " +
          ENGINE_TIE + "Oracle: run properties of inserted runs equal an original neighbour's, spans rendered, literal "
          "punctuation and '#' lines handled ([___], snake_case, 2*3*4, #hashtag)."),
    note=NOTE_COMMON + "'well-formed span' is defined next to the theorem (Props/C16.lean).",
    technique="Lean 4 proof on the insertion model and the inline-Markdown parser model + differential correspondence + formatting oracle",
    design="§5 C16, §13.7")

CLAIMED["C12"] = dict(
    text=("Lean theorems (every pair of texts / every raw diff list): C12_text_roundtrip_partial (the computed script, "
          "applied one edit at a time from the right as the engine does, turns the first text into the second), "
          "C12_reverse_application (right-to-left one-at-a-time == simultaneous replacement; same-offset insertions keep "
          "their order), C12_order (the engine model processes a computed script in that order), C12_guard_silent (the "
          "overlap guard never skips a computed edit), C12_accounting. " + ENGINE_TIE + "The diff model (separator "
          "splitting, loop, anchors) and the engine model are run end to end by the driver on the diff list recorded "
          "from diff-match-patch and compared with the real pipeline (edits, counts, saved package, accepted text). "
          "Oracle: extracted accepted text == rewritten text (emphasis markers aside), all edits applied; library path "
          "and CLI text-file path. Document-level step is correspondence + oracle (partial). Two open findings "
          "(F-diff-cell-edge, F-diff-crosses-paragraph)."),
    note=NOTE_COMMON + "diff-match-patch is a parameter of the model (its src/dst contract is monitored per case).",
    technique="Lean 4 proof of the text-level round trip and of the engine's processing order + end-to-end differential correspondence + round-trip oracle",
    design="§5 C12")

CLAIMED["C14"] = dict(
    text=("Lean theorems for every text, edit list and mode (only hypothesis: the recorded fuzzy-regex spans end inside "
          "the text): C14_reject_lossless (rejected reading == input), C14_render_flat (the string built by right-to-left "
          "splicing is the rendering of a flat segment list: balanced, not nested, not cut), C14_accept_exact (accepted "
          "reading == simultaneous replacement of every kept match by its new text), C14_highlight_only, "
          "C14_unmatched_no_trace / C14_unmatched_appended, C14_index_is_position. Model of apply_edits_to_markdown line by "
          "line (exact and smart-quote stages, safe boundaries, refinement, marker hoisting, overlap filter, descending "
          "splicing); the fuzzy regular expression's span is a recorded parameter. Correspondence: output string of the "
          "real function vs the model on every case (exhaustive short texts x targets x new texts x modes, random "
          "Markdown texts). Oracle: independent CriticMarkup parser on the real output — reject view, balance/nesting, "
          "no trace of edits that cannot match (metamorphic), one suggestion per exact unique disjoint edit, accept view "
          "== replacement, highlight-only wrappers, displayed indexes."),
    note="texts/targets/comments without CriticMarkup delimiters; `re` and the fuzzy pattern are outside the model.",
    technique="Lean 4 proof (fold invariants over the right-to-left splicing, homomorphic views) + differential correspondence + parser oracle",
    design="§5 C14")

CLAIMED["C15"] = dict(
    text=("Lean theorems (text side, all texts and edit lists): findMatch_exact (an exact occurrence with balanced markers "
          "is matched as it stands), matchesFrom_exact + C15_all_marked (every edit of a list with exact, pairwise "
          "non-overlapping targets is marked, one suggestion each), C15_preview_accepts_replacement_partial / "
          "C14_accept_exact (the accepted reading of the preview is the simultaneous replacement — the reference the commit "
          "is held to). The commit side is not a theorem: it is tied by the engine model's whole-document correspondence "
          "(C01/C02/C08 checks) and decided here by a differential oracle on the real code: same generated document "
          "(plain, redlined, heavily formatted) and same batch through apply_edits_to_markdown(extract(clean)) and "
          "through RedlineEngine — marked set == applied set (each edit also committed on its own), batch counts, "
          "accepted preview == accepted view of the committed document (markers aside). Correspondence: preview of the "
          "accepted view vs the Lean preview model."),
    note=NOTE_COMMON + "ALL-CAPS bold paragraphs (headings by heuristic only) are not rewritten; the session author's name is chosen so that it cannot be part of a target.",
    technique="Lean 4 proof of the preview side + differential oracle preview vs commit on the real code + correspondence of the preview model",
    design="§5 C15")

CLAIMED["C17"] = dict(
    text=("Lean theorems over every request, file system and fault position k (only hypothesis: the temporary name is "
          "not an existing file): C17_error_no_fs_change (an error report means the file system is exactly as before — "
          "no output created or altered, no temporary file left), C17_fault_reported (a failure of any reached step is "
          "reported), C17_ok_writes_only_output (success changes exactly the designated output, which holds the "
          "library's result), C17_source_untouched, C17_readers_change_nothing, C17_default_names, C17_cli_exit; "
          "C17_pinned_counterexample (the pinned save protocol violated it). Model: one call = read, n library calls, "
          "save protocol (temporary sibling, write, move into place, cleanup). Correspondence: every MCP tool and CLI "
          "command x source state x path configuration x fault injected at the k-th internal call (every function and "
          "method of the adeu modules, every open-for-write, write, os.replace; thorough: every k) — outcome, directory "
          "delta and the shape of the fault-free i/o trace vs the model. Oracle on the real call: returns a string, "
          "stdout empty, error => directory snapshot unchanged, success => exactly the documented output path changed and "
          "its content equals the library's result for the same input, CLI exit status."),
    note="faults are Python exceptions at call entry; adeu.server is imported with a FastMCP stub (mcp 2.x installed); transport not exercised.",
    technique="Lean 4 proof over all fault positions of a step-level model of the front-ends + fault-injection correspondence (all k) + file-system snapshot oracle",
    design="§5 C17")

CLAIMED["C11"] = dict(
    text=("Lean theorems about the package-level save (all packages, all results of a session): C11_untouched_parts (every "
          "part that is not a rewritten story or a comment part is in the saved package with the same name, content type "
          "and content), C11_no_part_lost', C11_rels_kept (existing relationships of the main document keep id, type, "
          "target), C11_untargeted_story, C11_only_expected_parts. The engine's results for stories and comment parts are "
          "parameters. Correspondence: abstract view (part names, effective content types, canonical content, document "
          "relationships) of the real input package + those parameters -> the model's package == abstract view of the "
          "real saved package, on generated packages with optional parts removed (custom XML, theme, web settings, "
          "numbering, font table, styles with effects) or added (media, embedded object, footnotes, custom XML, unknown "
          "part), headers/footers, with/without comment parts x edit batches, review actions, replies, accept-all. Oracle: "
          "zip members, content types, relationship files, canonical XML before/after; section / paragraph / table "
          "properties retained."),
    note=NOTE_COMMON + "canonical XML = C14N without white-space-only text nodes; relationship files as sets.",
    technique="Lean 4 proof of the frame property of the package-level save + differential correspondence on abstract packages + member-by-member oracle",
    design="§5 C11")

CLAIMED["C07"] = dict(
    text=("Lean theorems by induction over the list of rounds (all documents, all histories): C07_accounting (every round "
          "reports applied + skipped = its number of requests), C07_ids_fresh_every_round (in every document a history "
          "reaches, the ids a new session hands out exceed every numeric revision id present — input's and earlier "
          "rounds', any author, main part and reachable headers/footers), C07_history_frame (over any history every story "
          "keeps its skeleton and every comment entry stays in place), C07_marks_over_history (every mark at the end is an "
          "original one or carries the author of one of the edit rounds), C07_comments_over_history (every comment entry at "
          "the end is an original one or was written under a round's author), C07_comment_ids_unique_over_history, C07_comment_parts_linked_over_history, "
          "C07_pending_resolvable, C07_accept_all_clean; the "
          "single-step theorems of C01/C06/C08/C09/C10 hold for every document, hence for every reached one. Model: "
          "Adeu.Doc.runHistory = fold of stepDoc (a new session opened on the saved document of the previous round). "
          "Correspondence: every round of every real history vs stepDoc on the independently read reached document, and "
          "every edit round as submitted (searched targets) vs Adeu.Doc.applyEdits; "
          "histories whose edits are addressed by offset (no comments) as a whole vs runHistory (counts per round, final "
          "document). Oracle per round relative to the document before it: reversibility, accepted text == string "
          "replacement, counts, only the addressed change, replies threaded, package validity with unique ids; at the end "
          "every pending id is accepted individually and the final accepted text equals the replay on plain strings. "
          "Random histories (2..6 rounds, authors A/B) and every sequence of 2..3 rounds over the operation alphabet."),
    note=NOTE_COMMON + "edits of a history address text outside pending insertions and are single-line; composition of the single-step contracts is by oracle + correspondence (partial).",
    technique="Lean 4 proof by induction over histories (accounting, id freshness on every reached document) + round-by-round and whole-history differential correspondence + per-round oracles",
    design="§5 C07")

PENDING = {
}

ALL = [f"C{i:02d}" for i in range(1, 19)]


def main():
    checks = []
    for pid in ALL:
        if pid in CLAIMED:
            c = CLAIMED[pid]
            checks.append({
                "property_id": pid,
                "quick_cmd": f"./check {pid} --tier quick",
                "thorough_cmd": f"./check {pid} --tier thorough",
                "evidence_file": f"evidence/{pid}.json",
                "replay_cmd_template": f"./check {pid} --replay {{path}}",
                "engine": "lean-proof+correspondence",
                "level_claimed": {"category": "proof", "text": c["text"], "design_ref": c["design"]},
                "level_note": c["note"],
                "technique": c["technique"],
            })
    na = [{"property_id": p, "reason": PENDING.get(p, "check not built yet in this round (planned: Lean model + "
                                                      "correspondence, see DESIGN.md §5); not claimed until it runs")}
          for p in ALL if p not in CLAIMED]
    m = {
        "version": 1,
        "setup_cmd": "cd lean && lake build",
        "hooks": {
            "guard": "ADEU_VERIF",
            "enable": "no source hooks: checks import /repo/src in-process and wrap functions from the harness; "
                      "ADEU_VERIF=1 is set by the harness only",
            "baseline_off_cmd": BASELINE,
            "source_commits": [],
            "add_only": True,
        },
        "engines": [{"name": "lean-proof+correspondence", "path": "check",
                     "serves_properties": sorted(CLAIMED),
                     "kind_free_text": "Lean 4 theorems about hand-written executable models (lean/), tied to /repo "
                                       "by a differential correspondence check and property oracles (harness/)"}],
        "checks": checks,
        "not_applicable": na,
        "notes": "Entry point ./check Cxx --tier quick|thorough [--replay F]; see DESIGN.md.",
    }
    (ROOT / "MANIFEST.json").write_text(json.dumps(m, indent=1) + "\n")
    print(f"claimed {len(checks)}, not claimed {len(na)}")


if __name__ == "__main__":
    main()
