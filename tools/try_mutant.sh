#!/bin/bash
# usage: tools/try_mutant.sh <patch.diff> <tier> <prop> [<prop>...]
# Applies the patch to /repo, runs the checks, and always restores /repo afterwards.
P=$1; T=$2; shift 2
cd /verif || exit 2
git -C /repo diff --quiet || { echo "/repo is dirty"; exit 2; }
git -C /repo apply "$P" 2>/dev/null || git -C /repo apply -3 "$P" 2>/dev/null || { git -C /repo reset -q --hard HEAD; echo "PATCH DOES NOT APPLY"; exit 2; }
trap 'git -C /repo reset -q --hard HEAD' EXIT
for c in "$@"; do
  ./check "$c" --tier "$T" 2>&1 | tail -4; echo "rc=$?  (${PIPESTATUS[0]})"
done
