#!/usr/bin/env python3
"""tools/keep_mutant.py <seed-id> <mutant-dir> <property> <caught-by> <needs...>
Stores a confirmed seeded change as /verif/seeded/<seed-id>/ (patch.diff, demo.py, meta.json)."""
import json, shutil, sys
from pathlib import Path
sid, src, prop, caught = sys.argv[1:5]
needs = " ".join(sys.argv[5:])
d = Path(__file__).resolve().parent.parent / "seeded" / sid
d.mkdir(parents=True, exist_ok=True)
src = Path(src)
shutil.copy(src / "patch.diff", d / "patch.diff")
shutil.copy(src / "demo.py", d / "demo.py")
notes = (src / "notes.txt").read_text() if (src / "notes.txt").exists() else ""
meta = {"id": sid, "breaks_property": prop, "needs_to_manifest": needs, "author": "independent sub-agent (given only the property text and a scratch worktree)",
        "confirmed": "tools/verify_mutant.sh: patch applies, unedited suite green with it (235 passed), demo.py fails with it and passes without it",
        "checks_run": f"tools/try_mutant.sh seeded/{sid}/patch.diff quick {prop}", "caught_by": caught, "agent_notes": notes}
(d / "meta.json").write_text(json.dumps(meta, indent=1) + "\n")
print("kept", d)
