import AdeuModel.Model.Str
import AdeuModel.Model.Diff
import AdeuModel.Lemmas.Diff
import AdeuModel.Props.C13
