import AdeuModel.Model.Engine
/-
Layers E + D — the comment `add_comment` writes is read back by `extract_comments_data` with its text and the session's
author, whatever comments the document already holds (the new entry is the last one, so it wins an id clash in the map;
the threading pass only changes `parent`).
-/
namespace Adeu.Doc
open Adeu

theorem cmGet_cmSet_self (k : Str) (v : CData) : ∀ m : CMap, cmGet (cmSet k v m) k = some v
  | [] => by simp [cmSet, cmGet]
  | (k', v') :: r => by
    by_cases h : k' = k
    · simp [cmSet, cmGet, h]
    · have ih := cmGet_cmSet_self k v r
      simp only [cmSet, h, ↓reduceIte]
      unfold cmGet at ih ⊢
      simp only [List.find?_cons, h, decide_false]
      exact ih

theorem cmGet_cmSet_other (k k2 : Str) (v : CData) (hne : k2 ≠ k) : ∀ m : CMap, cmGet (cmSet k v m) k2 = cmGet m k2
  | [] => by
    have : ¬ k = k2 := fun e => hne e.symm
    simp [cmSet, cmGet, this]
  | (k', v') :: r => by
    by_cases h : k' = k
    · have h2 : ¬ k = k2 := fun e => hne e.symm
      have h3 : ¬ k' = k2 := by rw [h]; exact h2
      simp [cmSet, cmGet, h, h2]
    · have ih := cmGet_cmSet_other k k2 v hne r
      simp only [cmSet, h, ↓reduceIte]
      unfold cmGet at ih ⊢
      by_cases h4 : k' = k2
      · simp [List.find?_cons, h4]
      · simp only [List.find?_cons, h4, decide_false]
        exact ih

/-- what the threading pass keeps of an entry -/
def CData.core (d : CData) : Str × Str × Str × Bool := (d.author, d.text, d.date, d.resolved)

theorem setParent_core (data : CMap) (cid : Str) (cd : CData) (par : Str) (k : Str) (hcd : cmGet data cid = some cd) :
    (cmGet (cmSet cid { cd with parent := some par } data) k).map CData.core = (cmGet data k).map CData.core := by
  by_cases hk : k = cid
  · subst hk
    rw [cmGet_cmSet_self, hcd]; rfl
  · rw [cmGet_cmSet_other _ _ _ hk]

/-- one step of the threading pass changes at most the `parent` of entries -/
theorem exStep_core (p2c : List (Str × Str)) (data : CMap) (e : CommentEx) (k : Str) :
    (cmGet (match truthy e.paraId, truthy e.parent with
      | some pid, some ppid =>
        match dictGet p2c pid, dictGet p2c ppid with
        | some cid, some par =>
          match cmGet data cid with
          | some cd => cmSet cid { cd with parent := some par } data
          | none => data
        | _, _ => data
      | _, _ => data) k).map CData.core = (cmGet data k).map CData.core := by
  split
  · split
    · split
      · exact setParent_core data _ _ _ k ‹_›
      · rfl
    · rfl
  · rfl

theorem exFold_core (p2c : List (Str × Str)) (k : Str) : ∀ (exs : List CommentEx) (data : CMap),
    (cmGet (exs.foldl (fun data e =>
      match truthy e.paraId, truthy e.parent with
      | some pid, some ppid =>
        match dictGet p2c pid, dictGet p2c ppid with
        | some cid, some par =>
          match cmGet data cid with
          | some cd => cmSet cid { cd with parent := some par } data
          | none => data
        | _, _ => data
      | _, _ => data) data) k).map CData.core = (cmGet data k).map CData.core := by
  intro exs
  induction exs with
  | nil => intro data; rfl
  | cons e rest ih =>
    intro data
    simp only [List.foldl_cons]
    rw [ih, exStep_core]

end Adeu.Doc

namespace Adeu.Doc
open Adeu

theorem exFold_after_set (p2c : List (Str × Str)) (exs : List CommentEx) (data : CMap) (k : Str) (v : CData)
    (P : CData → Prop) (hP : ∀ dd : CData, dd.core = v.core → P dd) :
    ∃ dd, cmGet (exs.foldl (fun data e =>
      match truthy e.paraId, truthy e.parent with
      | some pid, some ppid =>
        match dictGet p2c pid, dictGet p2c ppid with
        | some cid, some par =>
          match cmGet data cid with
          | some cd => cmSet cid { cd with parent := some par } data
          | none => data
        | _, _ => data
      | _, _ => data) (cmSet k v data)) k = some dd ∧ P dd := by
  have h := exFold_core p2c k exs (cmSet k v data)
  rw [cmGet_cmSet_self] at h
  cases hg : cmGet _ k with
  | none => rw [hg] at h; cases h
  | some dd =>
    rw [hg] at h
    simp only [Option.map_some, Option.some.injEq] at h
    exact ⟨dd, rfl, hP dd h⟩

/-- The comment `add_comment` writes is read back with its text and the session's author: the comment map of the
resulting document has an entry under the new id whose text is the (stripped) comment text, whose author is the
session's author and which is not resolved - whatever the document held before. -/
theorem addComment_read_back (s : Sess) (text : Str) (parent : Option Str) :
    ∃ dd, cmGet (commentsMap (s.addComment text parent).1.doc) (s.addComment text parent).2 = some dd ∧
      (dd.text = stripStr Trim.pyIsSpace (([text].filter (!·.isEmpty)).flatten ++ ['\n']) ∧
      dd.author = (truthy (some s.author)).getD "Unknown".toList ∧ dd.resolved = false) := by
  simp only [Sess.addComment]
  generalize (s.doc.commentsEx ++ [_]) = exs
  simp only [commentsMap, List.foldl_append, List.foldl_cons, List.foldl_nil]
  generalize (List.foldl _ ([], []) s.doc.comments) = acc
  obtain ⟨data, p2c⟩ := acc
  simp only
  split
  · apply exFold_after_set
    intro dd hdd
    simp only [CData.core, Prod.mk.injEq] at hdd
    refine ⟨?_, hdd.1, ?_⟩
    · rw [hdd.2.1]; simp [commentText]
    · rw [hdd.2.2.2]; rfl
  · rw [cmGet_cmSet_self]
    refine ⟨_, rfl, ?_, rfl, rfl⟩
    simp [commentText]

end Adeu.Doc
