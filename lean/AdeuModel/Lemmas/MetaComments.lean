import AdeuModel.Lemmas.MetaIds
import AdeuModel.Lemmas.Threads
/-
Layer D — a metadata block lists every comment that one of its snapshots has open (and that the comment map knows):
the comment lines of `metaBlock` contain a line `[Com:id] …` for it.
-/
namespace Adeu.Doc
open Adeu

theorem LinesOk.add_chg {lines seen : List Str} (h : LinesOk (lines, seen)) (x : Str) :
    LinesOk (lines, seen ++ ["Chg:".toList ++ x]) := by
  intro id hid
  rcases List.mem_append.1 hid with h1 | h1
  · exact h id h1
  · have := List.mem_singleton.1 h1
    exact absurd this.symm (chgSig_ne_comSig x id)

/-- the change part of a snapshot keeps `LinesOk` and only adds signatures -/
theorem chgPart (ps : List (Str × Option Str)) : ∀ (chg com seen : List Str), LinesOk (com, seen) →
    LinesOk (com, (ps.foldl (fun (acc : List Str × List Str) p =>
      let sig := "Chg:".toList ++ p.1
      if acc.2.contains sig then acc
      else (acc.1 ++ [['['] ++ sig ++ [']', ' '] ++ ((truthy p.2).getD "Unknown".toList)], acc.2 ++ [sig])) (chg, seen)).2) ∧
    ∀ x ∈ seen, x ∈ (ps.foldl (fun (acc : List Str × List Str) p =>
      let sig := "Chg:".toList ++ p.1
      if acc.2.contains sig then acc
      else (acc.1 ++ [['['] ++ sig ++ [']', ' '] ++ ((truthy p.2).getD "Unknown".toList)], acc.2 ++ [sig])) (chg, seen)).2 := by
  induction ps with
  | nil => intro chg com seen h; exact ⟨h, fun x hx => hx⟩
  | cons p rest ih =>
    intro chg com seen h
    simp only [List.foldl_cons]
    by_cases hc : seen.contains ("Chg:".toList ++ p.1) = true
    · simp only [hc, ↓reduceIte]; exact ih chg com seen h
    · simp only [hc, Bool.false_eq_true, ↓reduceIte]
      obtain ⟨a, b⟩ := ih (chg ++ [['['] ++ ("Chg:".toList ++ p.1) ++ [']', ' '] ++ ((truthy p.2).getD "Unknown".toList)]) com
        (seen ++ ["Chg:".toList ++ p.1]) (h.add_chg p.1)
      exact ⟨a, fun x hx => b x (List.mem_append_left _ hx)⟩

theorem roots_linesOk (cm : CMap) (fuel : Nat) (roots : List Str) : ∀ acc : List Str × List Str, LinesOk acc →
    LinesOk (roots.foldl (fun acc root => renderComment cm fuel root acc) acc) := by
  induction roots with
  | nil => intro acc h; exact h
  | cons r rest ih => intro acc h; exact ih _ (renderComment_linesOk cm fuel r acc h)

/-- a root the comment map knows is in the block after the roots were rendered -/
theorem roots_seen (cm : CMap) (n : Nat) (roots : List Str) (cid : Str) (d : CData) (hd : cmGet cm cid = some d)
    (hm : cid ∈ roots) : ∀ acc : List Str × List Str,
    ("Com:".toList ++ cid) ∈ (roots.foldl (fun acc root => renderComment cm (n + 1) root acc) acc).2 := by
  induction roots with
  | nil => cases hm
  | cons r rest ih =>
    intro acc
    simp only [List.foldl_cons]
    rcases List.mem_cons.1 hm with h | h
    · subst h
      exact fold_seen_mono cm (n + 1) rest _ _ (renderComment_self_seen cm n cid d hd acc)
    · exact ih h _

theorem metaStep_linesOk (cm : CMap) (s : Snap) (chg com seen : List Str) (h : LinesOk (com, seen)) :
    LinesOk ((metaStep cm (chg, com, seen) s).2.1, (metaStep cm (chg, com, seen) s).2.2) ∧
    (∀ x ∈ seen, x ∈ (metaStep cm (chg, com, seen) s).2.2) ∧
    (∀ cid d, cid ∈ s.comments → cmGet cm cid = some d → ("Com:".toList ++ cid) ∈ (metaStep cm (chg, com, seen) s).2.2) := by
  obtain ⟨h1, h2⟩ := chgPart (s.ins ++ s.del) chg com seen h
  unfold metaStep
  simp only
  refine ⟨roots_linesOk cm _ _ _ h1, ?_, ?_⟩
  · intro x hx
    exact fold_seen_mono cm _ _ _ x (h2 x hx)
  · intro cid d hc hd
    exact roots_seen cm cm.length _ cid d hd ((mem_sortBy id s.comments cid).2 hc) _

theorem metaFold_comments (cm : CMap) (cid : Str) (d : CData) (hd : cmGet cm cid = some d) :
    ∀ (states : List Snap) (chg com seen : List Str), LinesOk (com, seen) →
    ((∃ s ∈ states, cid ∈ s.comments) ∨ ("Com:".toList ++ cid) ∈ seen) →
    LinesOk ((states.foldl (metaStep cm) (chg, com, seen)).2.1, (states.foldl (metaStep cm) (chg, com, seen)).2.2) ∧
    ("Com:".toList ++ cid) ∈ (states.foldl (metaStep cm) (chg, com, seen)).2.2 := by
  intro states
  induction states with
  | nil =>
    intro chg com seen h hx
    rcases hx with ⟨s, hs, _⟩ | hx
    · cases hs
    · exact ⟨h, hx⟩
  | cons s rest ih =>
    intro chg com seen h hx
    obtain ⟨a, b, c⟩ := metaStep_linesOk cm s chg com seen h
    simp only [List.foldl_cons]
    have hnext : (∃ s' ∈ rest, cid ∈ s'.comments) ∨ ("Com:".toList ++ cid) ∈ (metaStep cm (chg, com, seen) s).2.2 := by
      rcases hx with ⟨s', hs', hc⟩ | hx
      · rcases List.mem_cons.1 hs' with e | e
        · subst e; exact Or.inr (c cid d hc hd)
        · exact Or.inl ⟨s', e, hc⟩
      · exact Or.inr (b _ hx)
    exact ih (metaStep cm (chg, com, seen) s).1 (metaStep cm (chg, com, seen) s).2.1 (metaStep cm (chg, com, seen) s).2.2 a hnext

/-- A metadata block has a line `[Com:id] …` for every comment that one of its snapshots has open and the comment map
knows (the line is among the comment lines that follow the change lines). -/
theorem metaBlock_lists_comment (cm : CMap) (states : List Snap) (s : Snap) (hs : s ∈ states) (cid : Str) (hc : cid ∈ s.comments)
    (d : CData) (hd : cmGet cm cid = some d) :
    ∃ l ∈ (states.foldl (metaStep cm) ([], [], [])).2.1, comHead cid <+: l := by
  obtain ⟨a, b⟩ := metaFold_comments cm cid d hd states [] [] [] (by intro id h; cases h) (Or.inl ⟨s, hs, hc⟩)
  exact a cid b

end Adeu.Doc
