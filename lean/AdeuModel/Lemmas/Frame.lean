import AdeuModel.Model.Heuristic
import AdeuModel.Lemmas.Engine
import AdeuModel.Lemmas.Mapper
/-
Frame lemmas for the engine model: what `applyIndexed` / `applyHeuristic` / `applyEdits` leave alone.
Every change the engine makes to a story goes through `modPara` (one paragraph's child list, plus new
paragraphs behind it) or through `rejectChange`; comments are only appended.
-/
namespace Adeu.Doc
open Adeu

theorem streamBlocks_cons (b : Block) (bs : List Block) : streamBlocks (b :: bs) = streamBlocks [b] ++ streamBlocks bs := by
  cases b <;> simp [streamBlocks]

/-- a paragraph update that changes neither properties nor content (at most run boundaries) and adds no paragraph -/
def ParaNeutral (f : Para → Para × List Block) : Prop :=
  ∀ p, (f p).2 = [] ∧ (f p).1.style = p.style ∧ (f p).1.ppr = p.ppr ∧ canonNodes (f p).1.nodes = canonNodes p.nodes

mutual
  theorem stream_modBlocks (f : Para → Para × List Block) (hf : ParaNeutral f) :
      ∀ (path : List Nat) (bs : List Block), streamBlocks (modBlocks f path bs) = streamBlocks bs
    | [], bs => by simp [modBlocks]
    | _ :: _, [] => by simp [modBlocks]
    | 0 :: rest, .para p :: bs => by
      cases rest with
      | nil =>
        obtain ⟨h1, h2, h3, h4⟩ := hf p
        simp only [modBlocks]
        rw [h1]
        simp only [List.append_nil, List.singleton_append, streamBlocks, h2, h3, h4]
      | cons a r => simp [modBlocks]
    | 0 :: rest, .table pr g rows :: bs => by
      match rest with
      | [] => simp [modBlocks]
      | [_] => simp [modBlocks]
      | ri :: ci :: more =>
        simp only [modBlocks, streamBlocks, stream_modRows f hf ri ci more rows]
    | 0 :: rest, .other x :: bs => by simp [modBlocks]
    | (k + 1) :: rest, b :: bs => by
      simp only [modBlocks]
      rw [streamBlocks_cons, stream_modBlocks f hf (k :: rest) bs, ← streamBlocks_cons]
  theorem stream_modRows (f : Para → Para × List Block) (hf : ParaNeutral f) :
      ∀ (ri ci : Nat) (more : List Nat) (rows : List Row), streamRows (modRows f ri ci more rows) = streamRows rows
    | _, _, _, [] => by simp [modRows]
    | 0, ci, more, .mk pr cells :: rs => by
      simp only [modRows, streamRows, stream_modCells f hf ci more cells]
    | k + 1, ci, more, .mk pr cells :: rs => by
      simp only [modRows, streamRows, stream_modRows f hf k ci more rs]
  theorem stream_modCells (f : Para → Para × List Block) (hf : ParaNeutral f) :
      ∀ (ci : Nat) (more : List Nat) (cells : List Cell), streamCells (modCells f ci more cells) = streamCells cells
    | _, _, [] => by simp [modCells]
    | 0, more, .mk pr s v bs :: cs => by
      simp only [modCells, streamCells, stream_modBlocks f hf more bs]
    | k + 1, more, .mk pr s v bs :: cs => by
      simp only [modCells, streamCells, stream_modCells f hf k more cs]
end

end Adeu.Doc

namespace Adeu.Doc
open Adeu

theorem modFirstStory_stream (ty : Str) (g : List Block → List Block) (hg : ∀ bs, streamBlocks (g bs) = streamBlocks bs) :
    ∀ ss : List Story, (modFirstStory ty g ss).map (fun s => (s.ty, streamBlocks s.blocks)) =
      ss.map (fun s => (s.ty, streamBlocks s.blocks)) := by
  intro ss
  induction ss with
  | nil => simp [modFirstStory]
  | cons s rest ih =>
    simp only [modFirstStory]
    split
    · simp [hg]
    · simp [ih]

theorem canonDoc_modPart (d : Document) (pi : Nat) (g : List Block → List Block)
    (hg : ∀ bs, streamBlocks (g bs) = streamBlocks bs) : canonDoc (modPart d pi g) = canonDoc d := by
  unfold modPart
  split <;> simp [canonDoc, hg, modFirstStory_stream _ g hg]

/-- a content-neutral paragraph update leaves the canonical content of every story as it is -/
theorem canonDoc_modPara (d : Document) (pp : PPath) (f : Para → Para × List Block) (hf : ParaNeutral f) :
    canonDoc (modPara d pp f) = canonDoc d := by
  cases pp with
  | nil => rfl
  | cons pi rest => exact canonDoc_modPart d pi _ (stream_modBlocks f hf rest)

end Adeu.Doc

namespace Adeu.Doc
open Adeu

/-! ### run splitting inside a paragraph changes no content -/

theorem flatMap_zipIdx_neutral {α β} (c : α → List β) (F : α × Nat → List α) (hF : ∀ x, (F x).flatMap c = c x.1) :
    ∀ (l : List α) (n : Nat), ((l.zipIdx n).flatMap F).flatMap c = l.flatMap c := by
  intro l
  induction l with
  | nil => intro n; simp
  | cons a rest ih =>
    intro n
    simp only [List.zipIdx_cons, List.flatMap_cons, List.flatMap_append, hF, ih]

theorem map_zipIdx_neutral {α β} (c : α → List β) (F : α × Nat → α) (hF : ∀ x, c (F x) = c x.1) :
    ∀ (l : List α) (n : Nat), ((l.zipIdx n).map F).flatMap c = l.flatMap c := by
  intro l
  induction l with
  | nil => intro n; simp
  | cons a rest ih =>
    intro n
    simp only [List.zipIdx_cons, List.map_cons, List.flatMap_cons, hF, ih]

theorem canonNodes_replaceRun (ns : List Node) (loc : Loc) (top : Run → List Node) (inIns : Run → List InsChild)
    (inDel : Run → List Run)
    (h1 : ∀ r, (top r).flatMap canonNode = canonRun r)
    (h2 : ∀ r, (inIns r).flatMap canonInsChild = canonRun r)
    (h3 : ∀ r, (inDel r).flatMap canonRun = canonRun r) :
    canonNodes (replaceRun ns loc top inIns inDel) = canonNodes ns := by
  unfold replaceRun canonNodes
  split
  · apply flatMap_zipIdx_neutral
    rintro ⟨n, i⟩
    simp only
    split
    · cases n <;> simp [h1, canonNode]
    · simp
  · rename_i k _
    apply map_zipIdx_neutral
    rintro ⟨n, i⟩
    simp only
    split
    · cases n with
      | ins rev ch =>
        simp only [canonNode]
        congr 2
        apply flatMap_zipIdx_neutral
        rintro ⟨c, j⟩
        simp only
        split
        · cases c <;> simp [h2, canonInsChild]
        · simp
      | del rev runs =>
        simp only [canonNode]
        congr 2
        apply flatMap_zipIdx_neutral
        rintro ⟨r, j⟩
        simp only
        split
        · exact h3 r
        · simp
      | _ => rfl
    · rfl

theorem canonNodes_splitRunAt (ns : List Node) (loc : Loc) (k : Nat) :
    canonNodes (splitRunAt ns loc k).1 = canonNodes ns := by
  have h : (splitRunAt ns loc k).1 = replaceRun ns loc
      (fun r => let (a, b) := splitRun r k; [.run a, .run b])
      (fun r => let (a, b) := splitRun r k; [.run a, .run b])
      (fun r => let (a, b) := splitRun r k; [a, b]) := by
    unfold splitRunAt; split <;> rfl
  rw [h]
  apply canonNodes_replaceRun
  · intro r; simp [canonNode, canonRun_splitRun]
  · intro r; simp [canonInsChild, canonRun_splitRun]
  · intro r; simp [canonRun_splitRun]

end Adeu.Doc

namespace Adeu.Doc
open Adeu

/-! ### what a session step may not touch when it reports "skipped" -/

/-- everything observable of a session except run boundaries: canonical content of every story, the four
comment lists, the story selection flags, and the session's own counters -/
def Sess.frame (s : Sess) :=
  (canonDoc s.doc, s.doc.comments, s.doc.commentsEx, s.doc.commentsIds, s.doc.commentsCex,
   s.doc.hasExtended, s.doc.titlePg, s.doc.evenOdd, s.author, s.date, s.nextRev, s.nextCom, s.fresh)

theorem modPart_fields (d : Document) (pi : Nat) (g : List Block → List Block) :
    (modPart d pi g).comments = d.comments ∧ (modPart d pi g).commentsEx = d.commentsEx ∧
    (modPart d pi g).commentsIds = d.commentsIds ∧ (modPart d pi g).commentsCex = d.commentsCex ∧
    (modPart d pi g).hasExtended = d.hasExtended ∧ (modPart d pi g).titlePg = d.titlePg ∧
    (modPart d pi g).evenOdd = d.evenOdd := by
  unfold modPart
  split <;> simp

theorem modPara_fields (d : Document) (pp : PPath) (f : Para → Para × List Block) :
    (modPara d pp f).comments = d.comments ∧ (modPara d pp f).commentsEx = d.commentsEx ∧
    (modPara d pp f).commentsIds = d.commentsIds ∧ (modPara d pp f).commentsCex = d.commentsCex ∧
    (modPara d pp f).hasExtended = d.hasExtended ∧ (modPara d pp f).titlePg = d.titlePg ∧
    (modPara d pp f).evenOdd = d.evenOdd := by
  cases pp with
  | nil => simp [modPara]
  | cons pi rest => exact modPart_fields d pi _

theorem splitRun_frame (s : Sess) (r : RunRef) (k : Nat) : (s.splitRun r k).1.frame = s.frame := by
  unfold Sess.splitRun
  split
  · rfl
  · simp only [Sess.frame]
    have hN : ParaNeutral (fun p : Para => ({ p with nodes := (splitRunAt p.nodes r.loc k).1 }, ([] : List Block))) := by
      intro p; exact ⟨rfl, rfl, rfl, canonNodes_splitRunAt p.nodes r.loc k⟩
    obtain ⟨h1, h2, h3, h4, h5, h6, h7⟩ := modPara_fields s.doc r.para
      (fun p : Para => ({ p with nodes := (splitRunAt p.nodes r.loc k).1 }, ([] : List Block)))
    simp only [canonDoc_modPara _ _ _ hN, h1, h2, h3, h4, h5, h6, h7]

theorem insertionAnchor_frame (s : Sess) (spans : List OSpan) (index : Nat) :
    (insertionAnchor s spans index).1.frame = s.frame := by
  unfold insertionAnchor
  simp only
  split
  · rename_i res h
    -- via the span that ends here
    revert h
    split
    · split
      · split
        · intro h; injection h with h; subst h; exact splitRun_frame _ _ _
        · intro h; injection h with h; subst h; rfl
      · intro h; cases h
    · intro h; cases h
  · split
    · rename_i res h
      revert h
      split
      · split
        · intro h; injection h with h; subst h; exact splitRun_frame _ _ _
        · intro h; cases h
      · intro h; cases h
    · split <;> rfl

end Adeu.Doc

namespace Adeu.Doc
open Adeu

theorem insertionPoint_scan_frame (s : Sess) (spans : List OSpan) (index : Nat) :
    ∀ (l : List OSpan) (res : Sess × Option RunRef × Bool), insertionPoint.scan s spans index l = some res →
      res.1.frame = s.frame := by
  intro l
  induction l with
  | nil => intro res h; simp [insertionPoint.scan] at h
  | cons o rest ih =>
    intro res h
    simp only [insertionPoint.scan] at h
    split at h
    · exact ih res h
    · split at h
      · split at h
        · injection h with h; subst h; exact splitRun_frame _ _ _
        · injection h with h; subst h; rfl
      · split at h
        · cases h
        · exact ih res h

theorem insertionPoint_frame (s : Sess) (spans : List OSpan) (index : Nat) :
    (insertionPoint s spans index).1.frame = s.frame := by
  unfold insertionPoint
  split
  · exact insertionAnchor_frame s spans index
  · simp only
    split
    · rename_i res h
      split at h
      · exact insertionPoint_scan_frame s spans index _ res h
      · cases h
    · exact insertionAnchor_frame s spans index

end Adeu.Doc

namespace Adeu.Doc
open Adeu

theorem startSplit_frame (s : Sess) (working : List RunRef) (w0 : RunRef) (k : Nat) :
    (startSplit s working w0 k).1.frame = s.frame := by
  unfold startSplit
  split
  · exact splitRun_frame _ _ _
  · rfl

theorem endSplit_frame (s : Sess) (working : List RunRef) (same : Bool) (adj le : Nat) :
    (endSplit s working same adj le).1.frame = s.frame := by
  unfold endSplit
  split
  · rfl
  · simp only
    split <;> (split <;> first | exact splitRun_frame _ _ _ | rfl)

theorem resolveRuns_frame (s : Sess) (spans : List OSpan) (start stop : Nat) :
    (resolveRuns s spans start stop).1.frame = s.frame := by
  unfold resolveRuns
  simp only
  split
  · rw [endSplit_frame, startSplit_frame]
  · rfl

end Adeu.Doc

namespace Adeu.Doc
open Adeu

theorem nestedReplace_skip (s : Sess) (pi : Nat) (insId newText : Str) (comment : Option Str)
    (h : (nestedReplace s pi insId newText comment).2 = false) : (nestedReplace s pi insId newText comment).1 = s := by
  unfold nestedReplace at h ⊢
  split
  · rfl
  · exfalso
    rename_i path idx style heq
    simp only [heq] at h
    repeat' split at h
    all_goals simp at h

theorem chooseAnchor_frame (s : Sess) (spans : List OSpan) (start : Nat) (bl : Bool) :
    (chooseAnchor s spans start bl).1.frame = s.frame := by
  unfold chooseAnchor
  simp only
  repeat' first
    | exact insertionAnchor_frame s spans start
    | exact insertionPoint_frame s spans start
    | split

theorem applyInsertion_skip_frame (s : Sess) (spans : List OSpan) (start : Nat) (newText : Str) (comment : Option Str)
    (h : (applyInsertion s spans start newText comment).2 = false) :
    (applyInsertion s spans start newText comment).1.frame = s.frame := by
  unfold applyInsertion at h ⊢
  simp only at h ⊢
  split
  · exact chooseAnchor_frame _ _ _ _
  · split
    · exact chooseAnchor_frame _ _ _ _
    · rename_i h1 _ _ h2
      simp only [h1, h2] at h
      cases h

theorem applyReplace_skip_frame (s : Sess) (spans : List OSpan) (op : EOp) (start len : Nat) (newText : Str)
    (comment : Option Str) (h : (applyReplace s spans op start len newText comment).2 = false) :
    (applyReplace s spans op start len newText comment).1.frame = s.frame := by
  unfold applyReplace at h ⊢
  simp only at h ⊢
  split
  · rename_i h1 h2
    simp only [h1, h2] at h
    cases h
  · exact resolveRuns_frame s spans start (start + len)

/-- An edit addressed by offset that is reported as skipped leaves no trace: the canonical content of every
story, all comment lists and the session's counters are as before (at most a run boundary was added). -/
theorem applyIndexed_skip_frame (s : Sess) (clean : Bool) (start len : Nat) (newText : Str) (comment : Option Str)
    (op : Option EOp) (h : (applyIndexed s clean start len newText comment op).2 = false) :
    (applyIndexed s clean start len newText comment op).1.frame = s.frame := by
  unfold applyIndexed at h ⊢
  simp only at h ⊢
  split
  · rfl
  · rename_i hc
    simp only [hc] at h
    split
    · rename_i iid hid
      simp only [hid] at h
      rw [nestedReplace_skip s _ iid _ comment h]
    · rename_i hid
      simp only [hid] at h
      revert h
      generalize opOf op len newText = o
      cases o with
      | insertion => exact applyInsertion_skip_frame s _ start newText comment
      | deletion => exact applyReplace_skip_frame s _ _ start len newText comment
      | modification => exact applyReplace_skip_frame s _ _ start len newText comment

end Adeu.Doc

namespace Adeu.Doc
open Adeu

theorem nestedProxyWith_skip_frame (s : Sess) (clean : Bool) (start len : Nat) (new : Str) (comment : Option Str) (id : Str)
    (r : Sess × Bool) (hr : nestedProxyWith s clean start len new comment id = some r) (h : r.2 = false) :
    r.1.frame = s.frame := by
  unfold nestedProxyWith at hr
  simp only at hr
  split at hr
  · injection hr with hr
    subst hr
    exact applyIndexed_skip_frame _ _ _ _ _ _ _ h
  · cases hr

theorem nestedProxyAt_skip_frame (s : Sess) (clean : Bool) (start len : Nat) (new : Str) (comment : Option Str)
    (r : Sess × Bool) (hr : nestedProxyAt s clean start len new comment = some r) (h : r.2 = false) :
    r.1.frame = s.frame := by
  unfold nestedProxyAt at hr
  split at hr
  · exact nestedProxyWith_skip_frame _ _ _ _ _ _ _ r hr h
  · cases hr

theorem nestedInsertAt_skip_frame (s : Sess) (clean : Bool) (start : Nat) (new : Str) (comment : Option Str)
    (r : Sess × Bool) (hr : nestedInsertAt s clean start new comment = some r) (h : r.2 = false) :
    r.1.frame = s.frame := by
  unfold nestedInsertAt at hr
  split at hr
  · cases hr
  · split at hr
    · exact nestedProxyWith_skip_frame _ _ _ _ _ _ _ r hr h
    · cases hr

theorem heuristicDirect_skip_frame (s : Sess) (m : HMatch) (e : HEdit) (h : (heuristicDirect s m e).2 = false) :
    (heuristicDirect s m e).1.frame = s.frame := by
  unfold heuristicDirect at h ⊢
  simp only at h ⊢
  split
  · rfl
  · rename_i h1
    simp only [h1, if_false] at h
    split
    · rename_i h2
      simp only [h2, if_true] at h
      split
      · rename_i r hr
        simp only [hr] at h
        exact nestedInsertAt_skip_frame _ _ _ _ _ r hr h
      · rename_i hr
        simp only [hr] at h
        exact applyIndexed_skip_frame _ _ _ _ _ _ _ h
    · rename_i h2
      simp only [h2] at h
      split
      · rfl
      · rename_i h3
        simp only [h3] at h
        split
        · rename_i r hr
          simp only [hr] at h
          split at hr
          · exact nestedInsertAt_skip_frame _ _ _ _ _ r hr h
          · exact nestedProxyAt_skip_frame _ _ _ _ _ _ r hr h
        · rename_i hr
          simp only [hr] at h
          exact applyIndexed_skip_frame _ _ _ _ _ _ _ h

theorem nestedProxy_skip_frame (s : Sess) (m : HMatch) (e : HEdit) (r : Sess × Bool)
    (hr : nestedProxy s m e = some r) (h : r.2 = false) : r.1.frame = s.frame :=
  nestedProxyAt_skip_frame s m.clean m.start m.len e.new e.comment r hr h

theorem heuristicApplyAt_skip_frame (s : Sess) (m : HMatch) (e : HEdit) (h : (heuristicApplyAt s m e).2 = false) :
    (heuristicApplyAt s m e).1.frame = s.frame := by
  unfold heuristicApplyAt at h ⊢
  split
  · rename_i r hr
    simp only [hr] at h
    exact nestedProxy_skip_frame s m e r hr h
  · rename_i hr
    simp only [hr] at h
    exact heuristicDirect_skip_frame s m e h

/-- A searched edit that is reported as skipped — empty target, target not found, conflict with an earlier
edit of the batch, or refused by the indexed step — leaves no trace. -/
theorem applyHeuristic_skip_frame (s : Sess) (occ : List (Nat × Nat)) (e : HEdit)
    (h : (applyHeuristic s occ e).2.1 = false) : (applyHeuristic s occ e).1.frame = s.frame := by
  unfold applyHeuristic at h ⊢
  split
  · rfl
  · rename_i ht
    simp only [ht] at h
    split
    · rfl
    · rename_i m hm
      simp only [hm] at h
      split
      · rfl
      · rename_i hc
        simp only [hc] at h
        exact heuristicApplyAt_skip_frame s m e h

end Adeu.Doc

namespace Adeu.Doc
open Adeu

/-! ### batches: if nothing is applied, nothing changes -/

abbrev Acc := Sess × Nat × Nat × List (Nat × Nat)

def StepQuiet (step : Acc → α → Acc) : Prop :=
  ∀ acc a, acc.2.1 ≤ (step acc a).2.1 ∧ ((step acc a).2.1 = acc.2.1 → (step acc a).1.frame = acc.1.frame)

theorem foldl_quiet {α} (step : Acc → α → Acc) (hs : StepQuiet step) : ∀ (l : List α) (acc : Acc),
    acc.2.1 ≤ (l.foldl step acc).2.1 ∧ ((l.foldl step acc).2.1 = acc.2.1 → (l.foldl step acc).1.frame = acc.1.frame) := by
  intro l
  induction l with
  | nil => intro acc; exact ⟨Nat.le_refl _, fun _ => rfl⟩
  | cons a rest ih =>
    intro acc
    simp only [List.foldl_cons]
    obtain ⟨h1, h2⟩ := hs acc a
    obtain ⟨h3, h4⟩ := ih (step acc a)
    refine ⟨Nat.le_trans h1 h3, ?_⟩
    intro heq
    have e1 : (step acc a).2.1 = acc.2.1 := by omega
    have e2 : (List.foldl step (step acc a) rest).2.1 = (step acc a).2.1 := by omega
    rw [h4 e2, h2 e1]

theorem indexedStep_quiet : StepQuiet indexedStep := by
  intro acc e
  obtain ⟨s, ap, sk, occ⟩ := acc
  simp only [indexedStep]
  split
  · exact ⟨Nat.le_refl _, fun _ => rfl⟩
  · split
    · exact ⟨Nat.le_succ _, fun h => absurd h (by simp)⟩
    · rename_i hok
      refine ⟨Nat.le_refl _, fun _ => ?_⟩
      exact applyIndexed_skip_frame _ _ _ _ _ _ _ (by simpa using hok)

theorem heuristicStep_quiet : StepQuiet heuristicStep := by
  intro acc e
  obtain ⟨s, ap, sk, occ⟩ := acc
  simp only [heuristicStep]
  split
  · exact ⟨Nat.le_succ _, fun h => absurd h (by simp)⟩
  · rename_i hok
    refine ⟨Nat.le_refl _, fun _ => ?_⟩
    exact applyHeuristic_skip_frame _ _ _ (by simpa using hok)

/-- If every edit of a batch is skipped (nothing is reported applied), the document content is unchanged:
canonical content of every story, all comment lists, the id counters. Mixed batches, any size. -/
theorem applyEdits_none_applied (s : Sess) (edits : List HEdit) (h : (applyEdits s edits).2.1 = 0) :
    (applyEdits s edits).1.frame = s.frame := by
  unfold applyEdits at h ⊢
  simp only at h ⊢
  obtain ⟨a1, a2⟩ := foldl_quiet indexedStep indexedStep_quiet
    ((edits.filterMap HEdit.toIndexed).reverse.mergeSort fun a b => decide (a.index ≥ b.index)) (s, 0, 0, [])
  obtain ⟨b1, b2⟩ := foldl_quiet heuristicStep heuristicStep_quiet
    ((edits.filter (·.index.isNone)).mergeSort fun a b => decide (a.target.length ≥ b.target.length))
    (applyEditsIndexedFull s (edits.filterMap HEdit.toIndexed))
  unfold applyEditsIndexedFull at b1 b2 h ⊢
  simp only at a1 a2 b1 b2 h
  rw [b2 (by omega), a2 (by omega)]

theorem applyEditsIndexed_none_applied (s : Sess) (edits : List IEdit) (h : (applyEditsIndexed s edits).2.1 = 0) :
    (applyEditsIndexed s edits).1.frame = s.frame := by
  unfold applyEditsIndexed applyEditsIndexedFull at h ⊢
  simp only at h ⊢
  obtain ⟨a1, a2⟩ := foldl_quiet indexedStep indexedStep_quiet
    (edits.reverse.mergeSort fun a b => decide (a.index ≥ b.index)) (s, 0, 0, [])
  simp only at a1 a2
  exact a2 (by omega)

end Adeu.Doc

namespace Adeu.Doc
open Adeu

/-! ### accounting of mixed batches; the explicit skip reasons -/

theorem heuristicStep_count (acc : Acc) (e : HEdit) :
    (heuristicStep acc e).2.1 + (heuristicStep acc e).2.2.1 = acc.2.1 + acc.2.2.1 + 1 := by
  obtain ⟨s, ap, sk, occ⟩ := acc
  simp only [heuristicStep]
  split <;> (simp only; omega)

theorem foldl_heuristicStep_count (l : List HEdit) : ∀ (acc : Acc),
    (l.foldl heuristicStep acc).2.1 + (l.foldl heuristicStep acc).2.2.1 = acc.2.1 + acc.2.2.1 + l.length := by
  induction l with
  | nil => intro acc; simp
  | cons e rest ih =>
    intro acc
    simp only [List.foldl_cons, List.length_cons]
    rw [ih, heuristicStep_count]
    omega

theorem split_lengths (edits : List HEdit) :
    (edits.filterMap HEdit.toIndexed).length + (edits.filter (·.index.isNone)).length = edits.length := by
  induction edits with
  | nil => rfl
  | cons e rest ih =>
    cases hi : e.index with
    | none => simp [List.filterMap_cons, HEdit.toIndexed, hi, List.filter_cons] ; omega
    | some i => simp [List.filterMap_cons, HEdit.toIndexed, hi, List.filter_cons]; omega

/-- applied + skipped equals the number of edits submitted — mixed batches (indexed and searched edits) -/
theorem applyEdits_total (s : Sess) (edits : List HEdit) :
    (applyEdits s edits).2.1 + (applyEdits s edits).2.2 = edits.length := by
  unfold applyEdits
  simp only
  rw [foldl_heuristicStep_count]
  have h1 := applyEditsIndexedFull_total s (edits.filterMap HEdit.toIndexed)
  have h2 := split_lengths edits
  simp only [List.length_mergeSort]
  omega

/-- an edit with an empty target is skipped and the session is exactly as before -/
theorem applyHeuristic_empty_target (s : Sess) (occ : List (Nat × Nat)) (e : HEdit) (h : e.target = []) :
    applyHeuristic s occ e = (s, false, none) := by
  simp [applyHeuristic, h]

/-- an edit whose target is found in neither view is skipped and the session is exactly as before -/
theorem applyHeuristic_not_found (s : Sess) (occ : List (Nat × Nat)) (e : HEdit) (h : locate s e = none) :
    applyHeuristic s occ e = (s, false, none) := by
  unfold applyHeuristic
  split
  · rfl
  · simp [h]

theorem findMatchIndex_absent (text target : Str) (ex : Bool)
    (h1 : Markup.find target text = none)
    (h2 : Markup.find (Markup.replaceSmart target) (Markup.replaceSmart text) = none) :
    findMatchIndex text target ex none = none := by
  simp [findMatchIndex, h1, h2]

/-- "cannot be located": the target occurs literally (also after quote normalisation) in neither the raw
nor the accepted text, and the non-literal matchers found nothing -/
theorem locate_absent (s : Sess) (e : HEdit) (hr : e.fzRaw = none) (hc : e.fzClean = none)
    (h1 : Markup.find e.target (ospansText (s.spans false)) = none)
    (h2 : Markup.find (Markup.replaceSmart e.target) (Markup.replaceSmart (ospansText (s.spans false))) = none)
    (h3 : Markup.find e.target (ospansText (s.spans true)) = none)
    (h4 : Markup.find (Markup.replaceSmart e.target) (Markup.replaceSmart (ospansText (s.spans true))) = none) :
    locate s e = none := by
  simp [locate, hr, hc, findMatchIndex_absent _ _ _ h1 h2, findMatchIndex_absent _ _ _ h3 h4]

end Adeu.Doc

namespace Adeu.Doc
open Adeu

/-! ### the text the engine searches is the text the reader extracts -/

theorem withOffsets_go_sp (ss : List Span) : ∀ (n : Nat) (acc : List OSpan),
    ((ss.foldl (fun (acc : Nat × List OSpan) s => (acc.1 + s.text.length, acc.2 ++ [⟨acc.1, acc.1 + s.text.length, s⟩])) (n, acc)).2).map (·.sp)
      = acc.map (·.sp) ++ ss := by
  induction ss with
  | nil => intro n acc; simp
  | cons x rest ih =>
    intro n acc
    simp only [List.foldl_cons]
    rw [ih]
    simp

theorem withOffsets_sp (ss : List Span) : (withOffsets ss).map (·.sp) = ss := by
  have := withOffsets_go_sp ss 0 []
  simpa [withOffsets] using this

theorem ospansText_withOffsets (ss : List Span) : ospansText (withOffsets ss) = spansText ss := by
  unfold ospansText spansText
  conv => rhs; rw [← withOffsets_sp ss]
  rw [List.flatMap_map]

/-- The text in which the engine looks for a target is exactly the text a client reads from the
document (raw or accepted view), as long as the session's comment data is that of the document — which it
is when the session is opened (`Sess.open_cmap`) and until the session adds a comment itself -/
theorem spans_text_eq_extractText (s : Sess) (clean : Bool) (hcm : s.cmap = commentsMap s.doc) :
    ospansText (s.spans clean) = extractText clean s.doc := by
  unfold Sess.spans
  rw [ospansText_withOffsets, hcm]
  exact mapperText_eq_extractText clean s.doc

theorem Sess.open_cmap (d : Document) (author date : Str) :
    (Sess.open d author date).cmap = commentsMap (Sess.open d author date).doc := rfl

end Adeu.Doc

namespace Adeu.Doc
open Adeu

/-! ### where a searched edit lands -/

/-- A target that is an exact piece of the raw text and does not touch deleted text is located at its first
occurrence in the raw view, with its own length — before any accepted-view or non-literal lookup. -/
theorem locate_exact_raw (s : Sess) (e : HEdit) (i : Nat)
    (h : Markup.find e.target (ospansText (s.spans false)) = some i)
    (hd : touchesDeletion (s.spans false) i (i + e.target.length) = false) :
    locate s e = some ⟨false, i, e.target.length⟩ := by
  simp [locate, findMatchIndex, h, hd]

/-- A target that is not an exact piece of the raw text (it runs across deleted text) but is one of the
accepted text is located there — before any non-literal lookup in either view. -/
theorem locate_exact_clean (s : Sess) (e : HEdit) (i : Nat)
    (h1 : Markup.find e.target (ospansText (s.spans false)) = none)
    (h2 : Markup.find (Markup.replaceSmart e.target) (Markup.replaceSmart (ospansText (s.spans false))) = none)
    (h : Markup.find e.target (ospansText (s.spans true)) = some i) :
    locate s e = some ⟨true, i, e.target.length⟩ := by
  simp [locate, findMatchIndex, h1, h2, h]

end Adeu.Doc
