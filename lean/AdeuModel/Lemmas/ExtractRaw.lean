import AdeuModel.Lemmas.Extract
import AdeuModel.Model.ExtractSegs
import AdeuModel.Lemmas.Markup
/-
Layer D — the raw view of a paragraph as a *flat list of CriticMarkup segments*.

`paraLoop false` (model of `_build_paragraph_text`) writes a string.  Here the same walk is replayed
with a ghost output `g : List Seg` next to the model state; the theorems are
  * `paraText_raw_render`   : the string the model writes is `render` of that segment list
                              (so delimiters are balanced and never nested by construction),
  * `rawSegs_accept`        : reading the segments with every annotation accepted is the accepted view,
  * `rawSegs_tagged`        : every character carries the tag of the marks that enclose its run
                              (deleted > inserted > commented > plain), in document order, once.
-/
namespace Adeu.Doc
open Adeu Adeu.Markup

/-- the four values `wrappers` can return -/
def WrV (wr : Str × Str) : Prop := wr = dW ∨ wr = iW ∨ wr = hW ∨ wr = nW

theorem wrappers_WrV (i d : RevMap) (c : List Str) : WrV (wrappers i d c) := by
  unfold wrappers WrV dW iW hW nW
  by_cases h1 : (!d.isEmpty) = true
  · simp [h1]
  · by_cases h2 : (!i.isEmpty) = true
    · simp [h1, h2]
    · by_cases h3 : (!c.isEmpty) = true
      · simp [h1, h2, h3]
      · simp [h1, h2, h3]

theorem render_segOf (wr : Str × Str) (t : Str) (h : WrV wr) : (segOf wr t).render = wr.1 ++ t ++ wr.2 := by
  rcases h with h | h | h | h <;> subst h <;> simp [segOf, dW, iW, hW, nW, Seg.render]

theorem render_noteSegs (m : Str) : render (noteSegs m) = metaWrap m := by
  unfold noteSegs metaWrap render
  split <;> simp [Seg.render]

@[simp] theorem render_nil : render [] = [] := rfl
@[simp] theorem render_append (a b : List Seg) : render (a ++ b) = render a ++ render b := by simp [render]
@[simp] theorem render_single (s : Seg) : render [s] = s.render := by simp [render]

/-! ### the ghost walk -/

/-! ### the ghost output renders to the model's output -/

/-- invariant: the output string is the rendering of the ghost segments; the buffer's wrappers are
one of the four pairs -/
def RInv (g : List Seg) (s : PSt) : Prop := s.out = render g ∧ WrV s.wr

theorem RInv_flush (g : List Seg) (s : PSt) (h : RInv g s) : RInv (gFlush g s) s.flush := by
  obtain ⟨ho, hw⟩ := h
  unfold gFlush PSt.flush RInv
  by_cases hp : s.pending.isEmpty = true
  · simp [hp, ho, hw]
  · simp only [hp, Bool.false_eq_true, ↓reduceIte, render_append, render_single, render_segOf _ _ hw, ho]
    exact ⟨by simp [List.append_assoc], Or.inr (Or.inr (Or.inr rfl))⟩

theorem flush_flush (s : PSt) : s.flush.pending = [] := by
  unfold PSt.flush; split
  · rename_i h; simpa using h
  · rfl

theorem gFlush_of_pending_nil (g : List Seg) (s : PSt) (h : s.pending = []) : gFlush g s = g := by
  simp [gFlush, h]

theorem RInv_ev (g : List Seg) (s : PSt) (ty : EvTy) (id : Str) (a : Option Str) (h : RInv g s) :
    RInv (gFlush g s) (applyEv s.flush ty id a) := by
  have := RInv_flush g s h
  unfold RInv at this ⊢
  cases ty <;> simpa [applyEv] using this

theorem RInv_push (g : List Seg) (s : PSt) (seg : Str) (nw : Str × Str) (h : RInv g s) (hn : WrV nw) :
    RInv (gPush g s nw) (s.push seg nw) := by
  obtain ⟨ho, hw⟩ := h
  unfold gPush PSt.push RInv
  by_cases hc : (!s.pending.isEmpty && nw = s.wr) = true
  · simp only [hc, ↓reduceIte]
    exact ⟨ho, hw⟩
  · simp only [hc, Bool.false_eq_true, ↓reduceIte]
    unfold gFlush
    by_cases hp : s.pending.isEmpty = true
    · simp [hp, ho, hn]
    · simp only [hp, Bool.false_eq_true, ↓reduceIte, render_append, render_single, render_segOf _ _ hw, ho]
      exact ⟨by simp [List.append_assoc], hn⟩

theorem RInv_meta (cm : CMap) (g : List Seg) (s1 : PSt) (rest : List Item) (h : RInv g s1) :
    RInv (gMeta cm g s1 rest) (s1.meta cm rest) := by
  unfold gMeta PSt.meta
  simp only
  split
  · exact h
  · have h2 : RInv g { s1 with deferred := s1.deferred ++ [{ ins := s1.ins, del := s1.del, comments := s1.comments }] } := h
    have h3 := RInv_flush _ _ h2
    unfold RInv at h3 ⊢
    refine ⟨?_, h3.2⟩
    simp only [render_append, render_noteSegs, h3.1, PSt.flush_deferred]

theorem RInv_step (cm : CMap) (g : List Seg) (s : PSt) (it : Item) (rest : List Item) (h : RInv g s) :
    RInv (gStep cm g s it rest) (paraStep false cm s it rest) := by
  cases it with
  | ev ty id a => exact RInv_ev g s ty id a h
  | run r loc =>
    simp only [gStep, paraStep, Bool.false_and, Bool.false_eq_true, ↓reduceIte]
    split
    · exact h
    · exact RInv_meta cm _ _ rest (RInv_push g s _ _ h (wrappers_WrV _ _ _))

theorem RInv_loop (cm : CMap) : ∀ (its : List Item) (g : List Seg) (s : PSt), RInv g s →
    RInv (gLoop cm g s its).1 (gLoop cm g s its).2 ∧ (gLoop cm g s its).2 = paraLoop false cm s its := by
  intro its
  induction its with
  | nil => intro g s h; exact ⟨h, rfl⟩
  | cons it rest ih =>
    intro g s h
    simp only [gLoop, paraLoop]
    exact ih _ _ (RInv_step cm g s it rest h)

/-- The string the reader model writes for the raw view of a paragraph is the rendering of a flat
segment list: every `{--`, `{++`, `{==`, `{>>` is closed by its own closer before the next opens. -/
theorem paraText_raw_render (cm : CMap) (p : Para) : paraText false cm p = render (rawSegs cm p) := by
  obtain ⟨hinv, hs⟩ := RInv_loop cm (items p) [] {} ⟨rfl, Or.inr (Or.inr (Or.inr rfl))⟩
  have hf := RInv_flush _ _ hinv
  unfold paraText rawSegs
  simp only
  rw [← hs]
  rw [PSt.flush_deferred]
  split
  · exact hf.1
  · simp only [render_append, render_noteSegs, hf.1]

end Adeu.Doc

/-! ### reading the segments: accepted view and per-character tags -/
namespace Adeu.Doc
open Adeu Adeu.Markup

def accOf (wr : Str × Str) (t : Str) : Str := if wr = dW then [] else t

theorem iW_ne_dW : ¬ iW = dW := by decide
theorem hW_ne_dW : ¬ hW = dW := by decide
theorem hW_ne_iW : ¬ hW = iW := by decide

theorem segOf_accepted (wr : Str × Str) (t : Str) : (segOf wr t).accepted = accOf wr t := by
  unfold segOf accOf
  by_cases h1 : wr = dW
  · simp [h1, Seg.accepted]
  · by_cases h2 : wr = iW
    · simp [h2, iW_ne_dW, Seg.accepted]
    · by_cases h3 : wr = hW
      · simp [h3, hW_ne_dW, hW_ne_iW, Seg.accepted]
      · simp [h1, h2, h3, Seg.accepted]

@[simp] theorem acceptView_nil : acceptView [] = [] := rfl
@[simp] theorem acceptView_append (a b : List Seg) : acceptView (a ++ b) = acceptView a ++ acceptView b := by
  simp [acceptView]
@[simp] theorem acceptView_single (s : Seg) : acceptView [s] = s.accepted := by simp [acceptView]
@[simp] theorem acceptView_noteSegs (m : Str) : acceptView (noteSegs m) = [] := by
  unfold noteSegs; split <;> simp [Seg.accepted]
@[simp] theorem accOf_nil (wr : Str × Str) : accOf wr [] = [] := by unfold accOf; split <;> rfl
theorem accOf_append (wr : Str × Str) (a b : Str) : accOf wr (a ++ b) = accOf wr a ++ accOf wr b := by
  unfold accOf; split <;> simp

/-- accepted reading of what has been written so far, the buffer included -/
def AccSt (g : List Seg) (s : PSt) : Str := acceptView g ++ accOf s.wr s.pending

theorem acceptView_gFlush (g : List Seg) (s : PSt) : acceptView (gFlush g s) = AccSt g s := by
  unfold gFlush AccSt
  by_cases hp : s.pending.isEmpty = true
  · have : s.pending = [] := by simpa using hp
    simp [this]
  · simp [hp, segOf_accepted]

theorem AccSt_flush (g : List Seg) (s : PSt) : AccSt (gFlush g s) s.flush = AccSt g s := by
  have h := acceptView_gFlush g s
  unfold AccSt at h ⊢
  unfold PSt.flush
  by_cases hp : s.pending.isEmpty = true
  · have hg : gFlush g s = g := gFlush_of_pending_nil g s (by simpa using hp)
    simp [hp, hg]
  · simp only [hp, Bool.false_eq_true, ↓reduceIte, accOf_nil, List.append_nil]
    exact h

theorem AccSt_ev (g : List Seg) (s : PSt) (ty : EvTy) (id : Str) (a : Option Str) :
    AccSt (gFlush g s) (applyEv s.flush ty id a) = AccSt g s := by
  have := AccSt_flush g s
  unfold AccSt at this ⊢
  cases ty <;> simpa [applyEv] using this

theorem AccSt_push (g : List Seg) (s : PSt) (seg : Str) (nw : Str × Str) :
    AccSt (gPush g s nw) (s.push seg nw) = AccSt g s ++ accOf nw seg := by
  unfold gPush PSt.push
  by_cases hc : (!s.pending.isEmpty && nw = s.wr) = true
  · simp only [hc, ↓reduceIte]
    have hw : nw = s.wr := by simp at hc; exact hc.2
    unfold AccSt
    simp [accOf_append, hw]
  · simp only [hc, Bool.false_eq_true, ↓reduceIte]
    have := acceptView_gFlush g s
    unfold AccSt at this ⊢
    by_cases hp : s.pending.isEmpty = true <;> simp [hp, this]

theorem AccSt_meta (cm : CMap) (g : List Seg) (s1 : PSt) (rest : List Item) :
    AccSt (gMeta cm g s1 rest) (s1.meta cm rest) = AccSt g s1 := by
  unfold gMeta PSt.meta
  simp only
  split
  · rfl
  · have h := AccSt_flush g { s1 with deferred := s1.deferred ++ [{ ins := s1.ins, del := s1.del, comments := s1.comments }] }
    unfold AccSt at h ⊢
    simpa using h

theorem push_del (s : PSt) (seg : Str) (nw : Str × Str) : (s.push seg nw).del = s.del := by
  unfold PSt.push; split
  · rfl
  · split <;> rfl
theorem push_ins (s : PSt) (seg : Str) (nw : Str × Str) : (s.push seg nw).ins = s.ins := by
  unfold PSt.push; split
  · rfl
  · split <;> rfl
theorem push_comments (s : PSt) (seg : Str) (nw : Str × Str) : (s.push seg nw).comments = s.comments := by
  unfold PSt.push; split
  · rfl
  · split <;> rfl
theorem flush_ins (s : PSt) : s.flush.ins = s.ins := by unfold PSt.flush; split <;> rfl
theorem flush_comments (s : PSt) : s.flush.comments = s.comments := by unfold PSt.flush; split <;> rfl
theorem meta_del (cm : CMap) (s : PSt) (rest : List Item) : (s.meta cm rest).del = s.del := by
  unfold PSt.meta; simp only; split
  · rfl
  · simp [PSt.flush_del]
theorem meta_ins (cm : CMap) (s : PSt) (rest : List Item) : (s.meta cm rest).ins = s.ins := by
  unfold PSt.meta; simp only; split
  · rfl
  · simp [flush_ins]
theorem meta_comments (cm : CMap) (s : PSt) (rest : List Item) : (s.meta cm rest).comments = s.comments := by
  unfold PSt.meta; simp only; split
  · rfl
  · simp [flush_comments]

theorem wrappers_eq_dW (i d : RevMap) (c : List Str) : (wrappers i d c = dW) ↔ (!d.isEmpty) = true := by
  unfold wrappers dW
  by_cases h1 : (!d.isEmpty) = true
  · simp [h1]
  · by_cases h2 : (!i.isEmpty) = true
    · simp [h1, h2]
    · by_cases h3 : (!c.isEmpty) = true <;> simp [h1, h2, h3]

theorem accOf_wrappers (i d : RevMap) (c : List Str) (t : Str) :
    accOf (wrappers i d c) t = if !d.isEmpty then [] else t := by
  unfold accOf
  by_cases h : (!d.isEmpty) = true
  · simp [(wrappers_eq_dW i d c).2 h, h]
  · have : ¬ wrappers i d c = dW := fun e => h ((wrappers_eq_dW i d c).1 e)
    simp [this, h]

theorem rawSegs_eq (cm : CMap) (p : Para) : rawSegs cm p = gFinal cm (gLoop cm [] {} (items p)) := rfl

theorem acceptView_gFinal (cm : CMap) (g : List Seg) (s : PSt) : acceptView (gFinal cm (g, s)) = AccSt g s := by
  unfold gFinal; simp only
  split <;> simp [acceptView_gFlush]

theorem acc_loop (cm : CMap) : ∀ (its : List Item) (g : List Seg) (s : PSt),
    acceptView (gFinal cm (gLoop cm g s its)) = AccSt g s ++ cleanSegs s.del its := by
  intro its
  induction its with
  | nil => intro g s; simp [gLoop, cleanSegs, acceptView_gFinal]
  | cons it rest ih =>
    intro g s
    simp only [gLoop]
    rw [ih]
    cases it with
    | ev ty id a =>
      simp only [gStep, paraStep, AccSt_ev]
      cases ty <;> simp [cleanSegs, applyEv, PSt.flush_del]
    | run r loc =>
      simp only [gStep, paraStep, Bool.false_and, Bool.false_eq_true, ↓reduceIte]
      by_cases hseg : (applyFormatting (runText r) (runMarkers r).1 (runMarkers r).2).isEmpty = true
      · have he : applyFormatting (runText r) (runMarkers r).1 (runMarkers r).2 = [] := by simpa using hseg
        simp [hseg, cleanSegs, he]
      · simp only [hseg, Bool.false_eq_true, ↓reduceIte, AccSt_meta, AccSt_push, meta_del, push_del,
          accOf_wrappers, cleanSegs, List.append_assoc]

/-- Reading the raw view of a paragraph with every annotation resolved as "accept" (deleted text and
metadata dropped, wrappers of insertions and highlights removed) gives the accepted view of that
paragraph, character for character. -/
theorem rawSegs_accept (cm : CMap) (p : Para) : acceptView (rawSegs cm p) = paraText true cm p := by
  rw [rawSegs_eq, acc_loop, paraText_clean]
  simp [AccSt]

/-! #### per-character tags -/

def tagW (wr : Str × Str) : Tag := if wr = dW then .del else if wr = iW then .ins else if wr = hW then .hl else .plain

theorem tagW_wrappers (i d : RevMap) (c : List Str) : tagW (wrappers i d c) = tagOf i d c := by
  unfold tagW wrappers tagOf dW iW hW
  by_cases h1 : (!d.isEmpty) = true
  · simp [h1]
  · by_cases h2 : (!i.isEmpty) = true
    · simp [h1, h2]
    · by_cases h3 : (!c.isEmpty) = true <;> simp [h1, h2, h3]

theorem segOf_tagged (wr : Str × Str) (t : Str) : (segOf wr t).tagged = t.map (·, tagW wr) := by
  unfold segOf tagW
  by_cases h1 : wr = dW
  · simp [h1, Seg.tagged]
  · by_cases h2 : wr = iW
    · simp [h2, iW_ne_dW, Seg.tagged]
    · by_cases h3 : wr = hW
      · simp [h3, hW_ne_dW, hW_ne_iW, Seg.tagged]
      · simp [h1, h2, h3, Seg.tagged]

@[simp] theorem tagsOf_nil : tagsOf [] = [] := rfl
@[simp] theorem tagsOf_append (a b : List Seg) : tagsOf (a ++ b) = tagsOf a ++ tagsOf b := by simp [tagsOf]
@[simp] theorem tagsOf_single (s : Seg) : tagsOf [s] = s.tagged := by simp [tagsOf]
@[simp] theorem tagsOf_noteSegs (m : Str) : tagsOf (noteSegs m) = [] := by
  unfold noteSegs; split <;> simp [Seg.tagged]

def TagSt (g : List Seg) (s : PSt) : List (Char × Tag) := tagsOf g ++ s.pending.map (·, tagW s.wr)

theorem tagsOf_gFlush (g : List Seg) (s : PSt) : tagsOf (gFlush g s) = TagSt g s := by
  unfold gFlush TagSt
  by_cases hp : s.pending.isEmpty = true
  · have : s.pending = [] := by simpa using hp
    simp [this]
  · simp [hp, segOf_tagged]

theorem TagSt_flush (g : List Seg) (s : PSt) : TagSt (gFlush g s) s.flush = TagSt g s := by
  have h := tagsOf_gFlush g s
  unfold TagSt at h ⊢
  unfold PSt.flush
  by_cases hp : s.pending.isEmpty = true
  · have hg : gFlush g s = g := gFlush_of_pending_nil g s (by simpa using hp)
    simp [hp, hg]
  · simp only [hp, Bool.false_eq_true, ↓reduceIte, List.map_nil, List.append_nil]
    exact h

theorem TagSt_ev (g : List Seg) (s : PSt) (ty : EvTy) (id : Str) (a : Option Str) :
    TagSt (gFlush g s) (applyEv s.flush ty id a) = TagSt g s := by
  have := TagSt_flush g s
  unfold TagSt at this ⊢
  cases ty <;> simpa [applyEv] using this

theorem TagSt_push (g : List Seg) (s : PSt) (seg : Str) (nw : Str × Str) :
    TagSt (gPush g s nw) (s.push seg nw) = TagSt g s ++ seg.map (·, tagW nw) := by
  unfold gPush PSt.push
  by_cases hc : (!s.pending.isEmpty && nw = s.wr) = true
  · simp only [hc, ↓reduceIte]
    have hw : nw = s.wr := by simp at hc; exact hc.2
    unfold TagSt
    simp [hw]
  · simp only [hc, Bool.false_eq_true, ↓reduceIte]
    have := tagsOf_gFlush g s
    unfold TagSt at this ⊢
    by_cases hp : s.pending.isEmpty = true <;> simp [hp, this]

theorem TagSt_meta (cm : CMap) (g : List Seg) (s1 : PSt) (rest : List Item) :
    TagSt (gMeta cm g s1 rest) (s1.meta cm rest) = TagSt g s1 := by
  unfold gMeta PSt.meta
  simp only
  split
  · rfl
  · have h := TagSt_flush g { s1 with deferred := s1.deferred ++ [{ ins := s1.ins, del := s1.del, comments := s1.comments }] }
    unfold TagSt at h ⊢
    simpa using h

theorem tagsOf_gFinal (cm : CMap) (g : List Seg) (s : PSt) : tagsOf (gFinal cm (g, s)) = TagSt g s := by
  unfold gFinal; simp only
  split <;> simp [tagsOf_gFlush]

theorem tag_loop (cm : CMap) : ∀ (its : List Item) (g : List Seg) (s : PSt),
    tagsOf (gFinal cm (gLoop cm g s its)) = TagSt g s ++ taggedSpec s.ins s.del s.comments its := by
  intro its
  induction its with
  | nil => intro g s; simp [gLoop, taggedSpec, tagsOf_gFinal]
  | cons it rest ih =>
    intro g s
    simp only [gLoop]
    rw [ih]
    cases it with
    | ev ty id a =>
      simp only [gStep, paraStep, TagSt_ev]
      cases ty <;> simp [taggedSpec, applyEv, PSt.flush_del, flush_ins, flush_comments]
    | run r loc =>
      simp only [gStep, paraStep, Bool.false_and, Bool.false_eq_true, ↓reduceIte]
      by_cases hseg : (applyFormatting (runText r) (runMarkers r).1 (runMarkers r).2).isEmpty = true
      · have he : applyFormatting (runText r) (runMarkers r).1 (runMarkers r).2 = [] := by simpa using hseg
        simp [hseg, taggedSpec, he]
      · simp only [hseg, Bool.false_eq_true, ↓reduceIte, TagSt_meta, TagSt_push, meta_del, push_del, meta_ins,
          push_ins, meta_comments, push_comments, tagW_wrappers, taggedSpec, List.append_assoc]

/-- In the raw view every character of every run appears exactly once, in document order, inside the
kind of block that the marks enclosing its run call for: deleted text in `{--…--}`, otherwise inserted
text in `{++…++}`, otherwise commented text in `{==…==}`, otherwise bare. -/
theorem rawSegs_tagged (cm : CMap) (p : Para) : tagsOf (rawSegs cm p) = taggedSpec [] [] [] (items p) := by
  rw [rawSegs_eq, tag_loop]
  simp [TagSt]

end Adeu.Doc

/-! ### the metadata blocks: built from one snapshot per text-carrying run -/
namespace Adeu.Doc
open Adeu Adeu.Markup

@[simp] theorem notesOf_nil : notesOf [] = [] := rfl
@[simp] theorem notesOf_append (a b : List Seg) : notesOf (a ++ b) = notesOf a ++ notesOf b := by simp [notesOf]
theorem notesOf_segOf (wr : Str × Str) (t : Str) : notesOf [segOf wr t] = [] := by
  unfold segOf notesOf
  by_cases h1 : wr = dW
  · simp [h1, noteOf]
  · by_cases h2 : wr = iW
    · simp [h2, iW_ne_dW, noteOf]
    · by_cases h3 : wr = hW
      · simp [h3, hW_ne_dW, hW_ne_iW, noteOf]
      · simp [h1, h2, h3, noteOf]
theorem notesOf_noteSegs (m : Str) : notesOf (noteSegs m) = if m.isEmpty then [] else [m] := by
  unfold noteSegs; split <;> simp [notesOf, noteOf]
theorem notesOf_gFlush (g : List Seg) (s : PSt) : notesOf (gFlush g s) = notesOf g := by
  unfold gFlush; split
  · rfl
  · simp [notesOf_segOf]
theorem notesOf_gPush (g : List Seg) (s : PSt) (nw : Str × Str) : notesOf (gPush g s nw) = notesOf g := by
  unfold gPush; split
  · rfl
  · exact notesOf_gFlush g s

/-- the non-empty renderings of the groups -/
def blocksOf (cm : CMap) (groups : List (List Snap)) : List Str :=
  (groups.map (metaBlock cm)).filter (!·.isEmpty)

theorem blocksOf_append (cm : CMap) (a b : List (List Snap)) : blocksOf cm (a ++ b) = blocksOf cm a ++ blocksOf cm b := by
  simp [blocksOf]
theorem blocksOf_single (cm : CMap) (g : List Snap) :
    blocksOf cm [g] = if (metaBlock cm g).isEmpty then [] else [metaBlock cm g] := by
  unfold blocksOf
  by_cases h : (metaBlock cm g).isEmpty = true <;> simp [h]

theorem push_deferred (s : PSt) (seg : Str) (nw : Str × Str) : (s.push seg nw).deferred = s.deferred := by
  unfold PSt.push; split
  · rfl
  · split <;> rfl

theorem ev_deferred (s : PSt) (ty : EvTy) (id : Str) (a : Option Str) : (applyEv s.flush ty id a).deferred = s.deferred := by
  cases ty <;> simp [applyEv, PSt.flush_deferred]

/-- invariant of the two ghost walks: notes written so far = rendered groups so far; the snapshots in
groups and in the deferred buffer are the specification's snapshots of the items consumed so far -/
theorem note_loop (cm : CMap) : ∀ (its : List Item) (g : List Seg) (n : List (List Snap)) (s : PSt),
    notesOf g = blocksOf cm n →
    notesOf (gFinal cm (gLoop cm g s its)) = blocksOf cm (nFinal (nLoop cm n s its)) ∧
    (nFinal (nLoop cm n s its)).flatten = n.flatten ++ s.deferred ++ snapSpec s.ins s.del s.comments its := by
  intro its
  induction its with
  | nil =>
    intro g n s h
    simp only [gLoop, nLoop, gFinal, nFinal, snapSpec, List.append_nil]
    by_cases hd : s.deferred.isEmpty = true
    · have : s.deferred = [] := by simpa using hd
      simp [hd, notesOf_gFlush, h, this]
    · simp only [hd, Bool.false_eq_true, ↓reduceIte, notesOf_append, notesOf_gFlush, h, blocksOf_append, blocksOf_single,
        notesOf_noteSegs]
      simp
  | cons it rest ih =>
    intro g n s h
    simp only [gLoop, nLoop]
    cases it with
    | ev ty id a =>
      have h' : notesOf (gStep cm g s (.ev ty id a) rest) = blocksOf cm (nStep n s (.ev ty id a) rest) := by
        simp only [gStep, nStep, notesOf_gFlush, h]
      obtain ⟨i1, i2⟩ := ih _ _ _ h'
      refine ⟨i1, ?_⟩
      rw [i2]
      simp only [nStep, paraStep, ev_deferred]
      cases ty <;> simp [snapSpec, applyEv, PSt.flush_del, flush_ins, flush_comments]
    | run r loc =>
      by_cases hseg : (applyFormatting (runText r) (runMarkers r).1 (runMarkers r).2).isEmpty = true
      · have h' : notesOf (gStep cm g s (.run r loc) rest) = blocksOf cm (nStep n s (.run r loc) rest) := by
          simp only [gStep, nStep, hseg, ↓reduceIte, h]
        obtain ⟨i1, i2⟩ := ih _ _ _ h'
        refine ⟨i1, ?_⟩
        rw [i2]
        simp [nStep, paraStep, hseg, snapSpec]
      · by_cases hdef : ((!s.ins.isEmpty || !s.del.isEmpty) && nextIsRedline (!s.ins.isEmpty) (!s.del.isEmpty) rest) = true
        · have h' : notesOf (gStep cm g s (.run r loc) rest) = blocksOf cm (nStep n s (.run r loc) rest) := by
            simp only [gStep, nStep, hseg, Bool.false_eq_true, ↓reduceIte, gMeta, push_ins, push_del, hdef, notesOf_gPush, h]
          obtain ⟨i1, i2⟩ := ih _ _ _ h'
          refine ⟨i1, ?_⟩
          rw [i2]
          simp [nStep, paraStep, hseg, snapSpec, PSt.meta, push_ins, push_del, push_comments, push_deferred, hdef]
        · have h' : notesOf (gStep cm g s (.run r loc) rest) = blocksOf cm (nStep n s (.run r loc) rest) := by
            simp only [gStep, nStep, hseg, Bool.false_eq_true, ↓reduceIte, gMeta, push_ins, push_del, hdef, notesOf_append,
              notesOf_gFlush, notesOf_gPush, h, blocksOf_append, blocksOf_single, notesOf_noteSegs, push_deferred,
              push_comments]
          obtain ⟨i1, i2⟩ := ih _ _ _ h'
          refine ⟨i1, ?_⟩
          rw [i2]
          simp [nStep, paraStep, hseg, snapSpec, PSt.meta, push_ins, push_del, push_comments, push_deferred, hdef,
            PSt.flush_del, flush_ins, flush_comments]

/-- The metadata blocks of a paragraph's raw view are, in order, the renderings (`_build_merged_meta_block`)
of the snapshot groups; empty renderings leave no block. -/
theorem rawSegs_notes (cm : CMap) (p : Para) : notesOf (rawSegs cm p) = blocksOf cm (metaGroups cm p) :=
  (note_loop cm (items p) [] [] {} rfl).1

/-- … and the groups, taken together, hold exactly one snapshot of the open insertions, deletions and
comment ranges per run that carries text, in document order: a change or comment is listed iff it is
open at some text-carrying run. -/
theorem metaGroups_flatten (cm : CMap) (p : Para) : (metaGroups cm p).flatten = snapSpec [] [] [] (items p) := by
  have := (note_loop cm (items p) [] [] {} rfl).2
  simpa [metaGroups] using this

end Adeu.Doc
