import AdeuModel.Model.Extract
/-
Layer D — replies are rendered with the thread they answer: when the renderer writes a comment that is not yet
in the block, every comment whose parent it is gets its line in the same block (directly or because it was there
already).
-/
namespace Adeu.Doc
open Adeu

theorem mem_insertBy {α} (key : α → Str) (x : α) : ∀ l : List α, ∀ y, y ∈ insertBy key x l ↔ y = x ∨ y ∈ l
  | [], y => by simp [insertBy]
  | z :: r, y => by
    simp only [insertBy]
    split
    · simp only [List.mem_cons, mem_insertBy key x r y]
      constructor
      · rintro (h | h | h)
        · exact Or.inr (Or.inl h)
        · exact Or.inl h
        · exact Or.inr (Or.inr h)
      · rintro (h | h | h)
        · exact Or.inr (Or.inl h)
        · exact Or.inl h
        · exact Or.inr (Or.inr h)
    · simp [List.mem_cons]

theorem mem_sortBy {α} (key : α → Str) (l : List α) (y : α) : y ∈ sortBy key l ↔ y ∈ l := by
  unfold sortBy
  suffices h : ∀ (l acc : List α), y ∈ l.foldl (fun acc x => insertBy key x acc) acc ↔ y ∈ acc ∨ y ∈ l by
    simpa using h l []
  intro l
  induction l with
  | nil => intro acc; simp
  | cons x r ih =>
    intro acc
    simp only [List.foldl_cons, ih, mem_insertBy, List.mem_cons]
    constructor
    · rintro ((h | h) | h)
      · exact Or.inr (Or.inl h)
      · exact Or.inl h
      · exact Or.inr (Or.inr h)
    · rintro (h | h | h)
      · exact Or.inl (Or.inr h)
      · exact Or.inl (Or.inl h)
      · exact Or.inr h

theorem cmGet_mem {cm : CMap} {k : Str} {d : CData} (h : cmGet cm k = some d) : (k, d) ∈ cm := by
  unfold cmGet at h
  cases hf : cm.find? (fun p => p.1 = k) with
  | none => simp [hf] at h
  | some p =>
    simp only [hf, Option.map_some, Option.some.injEq] at h
    have hm := List.mem_of_find?_eq_some hf
    have hk := List.find?_some hf
    have hk' : p.1 = k := by simpa using hk
    have : p = (k, d) := by cases p; simp_all
    rw [← this]; exact hm

theorem child_mem (cm : CMap) (c r : Str) (dr : CData) (hr : cmGet cm r = some dr) (hp : dr.parent = some c) :
    r ∈ childrenOf cm c := by
  unfold childrenOf
  rw [mem_sortBy]
  simp only [List.mem_map, List.mem_filter]
  exact ⟨(r, dr), ⟨cmGet_mem hr, by simp [hp]⟩, rfl⟩

/-- the list of signatures only grows -/
theorem renderComment_seen_mono (cm : CMap) : ∀ (fuel : Nat) (cid : Str) (acc : List Str × List Str) (x : Str),
    x ∈ acc.2 → x ∈ (renderComment cm fuel cid acc).2 := by
  intro fuel
  induction fuel with
  | zero => intro cid acc x h; simpa [renderComment] using h
  | succ n ih =>
    intro cid acc x h
    obtain ⟨lines, seen⟩ := acc
    simp only [renderComment]
    split
    · exact h
    · split
      · exact h
      · rename_i data _ _
        generalize (childrenOf cm cid) = kids
        have h0 : x ∈ (seen ++ ["Com:".toList ++ cid]) := List.mem_append_left _ h
        generalize (lines ++ [['['] ++ ("Com:".toList ++ cid) ++ [']', ' '] ++ data.author ++
            (if data.date.isEmpty then [] else " @ ".toList ++ dateDay data.date) ++ [':', ' '] ++ data.text]) = l0 at *
        generalize (seen ++ ["Com:".toList ++ cid]) = s0 at h0
        induction kids generalizing l0 s0 with
        | nil => simpa using h0
        | cons k ks ihk =>
          simp only [List.foldl_cons]
          have := ih k (l0, s0) x h0
          exact ihk _ _ this

theorem fold_seen_mono (cm : CMap) (fuel : Nat) (kids : List Str) : ∀ (acc : List Str × List Str) (x : Str),
    x ∈ acc.2 → x ∈ (kids.foldl (fun acc ch => renderComment cm fuel ch acc) acc).2 := by
  induction kids with
  | nil => intro acc x h; exact h
  | cons k ks ih => intro acc x h; exact ih _ x (renderComment_seen_mono cm fuel k acc x h)

/-- a comment the map knows is in the block after it was rendered (now or earlier) -/
theorem renderComment_self_seen (cm : CMap) (n : Nat) (cid : Str) (d : CData) (h : cmGet cm cid = some d)
    (acc : List Str × List Str) : ("Com:".toList ++ cid) ∈ (renderComment cm (n + 1) cid acc).2 := by
  obtain ⟨lines, seen⟩ := acc
  simp only [renderComment, h]
  split
  · rename_i hs; simpa using hs
  · exact fold_seen_mono cm n _ _ _ (by simp)

/-- **Replies are shown with their thread.**  When the renderer writes comment `c` (known to the map, not yet in the
block) every comment `r` whose parent is `c` is in the block afterwards. -/
theorem reply_rendered_with_parent (cm : CMap) (n : Nat) (c r : Str) (dc dr : CData)
    (hc : cmGet cm c = some dc) (hr : cmGet cm r = some dr) (hp : dr.parent = some c)
    (lines seen : List Str) (hns : seen.contains ("Com:".toList ++ c) = false) :
    ("Com:".toList ++ r) ∈ (renderComment cm (n + 2) c (lines, seen)).2 := by
  have hmem := child_mem cm c r dr hr hp
  simp only [renderComment, hc, hns, Bool.false_eq_true, ↓reduceIte]
  generalize (childrenOf cm c) = kids at hmem
  generalize (lines ++ [['['] ++ ("Com:".toList ++ c) ++ [']', ' '] ++ dc.author ++
      (if dc.date.isEmpty then [] else " @ ".toList ++ dateDay dc.date) ++ [':', ' '] ++ dc.text],
      seen ++ ["Com:".toList ++ c]) = acc0
  induction kids generalizing acc0 with
  | nil => cases hmem
  | cons k ks ih =>
    simp only [List.foldl_cons]
    rcases List.mem_cons.1 hmem with h | h
    · subst h
      exact fold_seen_mono cm (n + 1) ks _ _ (renderComment_self_seen cm n r dr hr acc0)
    · exact ih h _

end Adeu.Doc

namespace Adeu.Doc
open Adeu

def comHead (id : Str) : Str := ['['] ++ ("Com:".toList ++ id) ++ [']', ' ']

/-- every comment signature in `seen` has its line in `lines` -/
def LinesOk (acc : List Str × List Str) : Prop :=
  ∀ id, ("Com:".toList ++ id) ∈ acc.2 → ∃ l ∈ acc.1, comHead id <+: l

theorem LinesOk.step {lines seen : List Str} (h : LinesOk (lines, seen)) (cid : Str) (rest : Str) :
    LinesOk (lines ++ [comHead cid ++ rest], seen ++ ["Com:".toList ++ cid]) := by
  intro id hid
  rcases List.mem_append.1 hid with h1 | h1
  · obtain ⟨l, hl, hp⟩ := h id h1
    exact ⟨l, List.mem_append_left _ hl, hp⟩
  · have : id = cid := by
      have := List.mem_singleton.1 h1
      exact List.append_cancel_left this
    subst this
    exact ⟨comHead id ++ rest, by simp, List.prefix_append _ _⟩

theorem renderComment_linesOk (cm : CMap) : ∀ (fuel : Nat) (cid : Str) (acc : List Str × List Str),
    LinesOk acc → LinesOk (renderComment cm fuel cid acc) := by
  intro fuel
  induction fuel with
  | zero => intro cid acc h; simpa [renderComment] using h
  | succ n ih =>
    intro cid acc h
    obtain ⟨lines, seen⟩ := acc
    simp only [renderComment]
    split
    · exact h
    · split
      · exact h
      · rename_i data _ _
        have h0 := h.step cid (data.author ++ (if data.date.isEmpty then [] else " @ ".toList ++ dateDay data.date) ++ [':', ' '] ++ data.text)
        have he : lines ++ [['['] ++ ("Com:".toList ++ cid) ++ [']', ' '] ++ data.author ++
            (if data.date.isEmpty then [] else " @ ".toList ++ dateDay data.date) ++ [':', ' '] ++ data.text] =
            lines ++ [comHead cid ++ (data.author ++ (if data.date.isEmpty then [] else " @ ".toList ++ dateDay data.date) ++ [':', ' '] ++ data.text)] := by
          simp [comHead, List.append_assoc]
        rw [he]
        generalize (childrenOf cm cid) = kids
        generalize (lines ++ [comHead cid ++ (data.author ++ (if data.date.isEmpty then [] else " @ ".toList ++ dateDay data.date) ++ [':', ' '] ++ data.text)],
            seen ++ ["Com:".toList ++ cid]) = acc0 at h0
        induction kids generalizing acc0 with
        | nil => simpa using h0
        | cons k ks ihk =>
          simp only [List.foldl_cons]
          exact ihk _ (ih k acc0 h0)

/-- … with its line: after `c` is written into a block whose lines match its signatures, the block has a line
`[Com:r] …` for every reply `r` to `c`. -/
theorem reply_line_with_parent (cm : CMap) (n : Nat) (c r : Str) (dc dr : CData)
    (hc : cmGet cm c = some dc) (hr : cmGet cm r = some dr) (hp : dr.parent = some c)
    (lines seen : List Str) (hok : LinesOk (lines, seen)) (hns : seen.contains ("Com:".toList ++ c) = false) :
    ∃ l ∈ (renderComment cm (n + 2) c (lines, seen)).1, comHead r <+: l :=
  renderComment_linesOk cm (n + 2) c (lines, seen) hok r (reply_rendered_with_parent cm n c r dc dr hc hr hp lines seen hns)

end Adeu.Doc
