import AdeuModel.Lemmas.Engine
namespace Adeu.Doc
open Adeu

/-- every run of a paragraph: direct children, runs inside insertions, deletions and hyperlinks -/
def runsOfNode : Node → List Run
  | .run r => [r]
  | .ins _ ch => ch.filterMap fun | .run r => some r | _ => none
  | .del _ rs => rs
  | .hl _ rs => rs
  | _ => []

def runsOfNodes (ns : List Node) : List Run := ns.flatMap runsOfNode

theorem mem_runsOfNodes_of_getElem {ns : List Node} {i : Nat} {n : Node} (h : ns[i]? = some n) {r : Run}
    (hr : r ∈ runsOfNode n) : r ∈ runsOfNodes ns := by
  have hn : n ∈ ns := List.mem_of_getElem? h
  exact List.mem_flatMap.mpr ⟨n, hn, hr⟩

theorem getRun_mem (ns : List Node) (loc : Loc) (r : Run) (h : getRun ns loc = some r) : r ∈ runsOfNodes ns := by
  unfold getRun at h
  split at h
  · rename_i r' hn hs
    injection h with h; subst h
    exact mem_runsOfNodes_of_getElem hn (by simp [runsOfNode])
  · rename_i rev ch k hn hs
    split at h
    · rename_i r' hc
      injection h with h; subst h
      refine mem_runsOfNodes_of_getElem hn ?_
      simp only [runsOfNode, List.mem_filterMap]
      exact ⟨_, List.mem_of_getElem? hc, rfl⟩
    · cases h
  · rename_i rev runs k hn hs
    exact mem_runsOfNodes_of_getElem hn (by simpa [runsOfNode] using List.mem_of_getElem? h)
  · cases h

theorem findSome_run_mem (l : List Node) (r : Run)
    (h : (l.findSome? fun | .run r => some r | _ => none) = some r) : Node.run r ∈ l := by
  induction l with
  | nil => simp at h
  | cons n rest ih =>
    simp only [List.findSome?_cons] at h
    split at h
    · rename_i r' hr'
      injection h with h; subst h
      cases n <;> simp at hr'
      subst hr'; exact List.mem_cons_self
    · exact List.mem_cons_of_mem _ (ih h)

theorem findSome_insrun_mem (l : List InsChild) (r : Run)
    (h : (l.findSome? fun | .run r => some r | _ => none) = some r) : InsChild.run r ∈ l := by
  induction l with
  | nil => simp at h
  | cons n rest ih =>
    simp only [List.findSome?_cons] at h
    split at h
    · rename_i r' hr'
      injection h with h; subst h
      cases n <;> simp at hr'
      subst hr'; exact List.mem_cons_self
    · exact List.mem_cons_of_mem _ (ih h)

theorem nextRun_mem (ns : List Node) (loc : Loc) (r : Run) (h : nextRun ns loc = some r) : r ∈ runsOfNodes ns := by
  unfold nextRun at h
  split at h
  · have hm := findSome_run_mem _ r h
    have : Node.run r ∈ ns := List.mem_of_mem_drop hm
    exact List.mem_flatMap.mpr ⟨_, this, by simp [runsOfNode]⟩
  · rename_i k hs
    split at h
    · rename_i rev ch hn
      have hm := findSome_insrun_mem _ r h
      have hc : InsChild.run r ∈ ch := List.mem_of_mem_drop hm
      refine mem_runsOfNodes_of_getElem hn ?_
      simp only [runsOfNode, List.mem_filterMap]
      exact ⟨.run r, hc, rfl⟩
    · rename_i rev runs hn
      exact mem_runsOfNodes_of_getElem hn (by simpa [runsOfNode] using List.mem_of_getElem? h)
    · cases h

/-- The style source of a pure insertion (`_determine_style_source`): the anchor run, or the run that follows it
when the new text ends with a blank — in either case an original run of the same paragraph, adjacent to the
insertion point; never a document default. -/
theorem insertion_style_source_in_paragraph (p : Para) (a : RunRef) (before : Bool) (newText : Str) (r : Run)
    (h : (if before then getRun p.nodes a.loc
          else match nextRun p.nodes a.loc with
            | none => getRun p.nodes a.loc
            | some nr => if endsWithSpace newText then some nr else getRun p.nodes a.loc) = some r) :
    r ∈ runsOfNodes p.nodes := by
  split at h
  · exact getRun_mem _ _ _ h
  · split at h
    · exact getRun_mem _ _ _ h
    · rename_i nr hn
      split at h
      · injection h with h; subst h; exact nextRun_mem _ _ _ hn
      · exact getRun_mem _ _ _ h

end Adeu.Doc
