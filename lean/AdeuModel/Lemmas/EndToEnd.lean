import AdeuModel.Lemmas.ShownWith
import AdeuModel.Lemmas.MetaComments
import AdeuModel.Lemmas.NewComment
/-
Layers E + D — capstone for C10: a commented insertion, as the engine writes it, is rendered by the reader as a metadata
block that has a line `[Com:id] …` for the new comment, in the same block as the insertion's change line.
-/
namespace Adeu.Doc
open Adeu Adeu.Markup

theorem joinWith_ne_nil (sep : Str) : ∀ (L : List Str) (l : Str), l ∈ L → l ≠ [] → joinWith sep L ≠ []
  | [], _, h, _ => by cases h
  | [x], l, h, hl => by
    have : l = x := by simpa using h
    subst this; simpa [joinWith] using hl
  | x :: y :: r, l, h, hl => by
    simp only [joinWith]
    rcases List.mem_cons.1 h with e | e
    · subst e; simp [hl]
    · have := joinWith_ne_nil sep (y :: r) l e hl
      simp [this]

theorem mem_flatten_group {groups : List (List Snap)} {snap : Snap} (h : snap ∈ groups.flatten) :
    ∃ g ∈ groups, snap ∈ g := by
  simpa [List.mem_flatten] using h

theorem comHead_ne_nil (id : Str) : comHead id ≠ [] := by simp [comHead]

/-- **End to end.**  Paragraph `p` holds `… ⟨range start cid⟩ ⟨w:ins rev: text run⟩ ⟨range end cid⟩ ⟨reference⟩ …` and the
comment map knows `cid` (both are what the engine leaves: C10_anchor_encloses, C10_new_comment_read_back).  Then the raw
view of `p` has a metadata block `{>>…<<}` that is `joinWith "\n"` of change lines and comment lines, among them a line
`[Com:cid] …` - and that block is built from a snapshot in which the insertion `rev.id` is open, so its change lines hold
`[Chg:rev.id]` too (C04_block_lists_open_changes_once). -/
theorem commented_insertion_rendered (cm : CMap) (p : Para) (pre post : List Node) (cid : Str) (rev : Rev) (r : Run) (d : CData)
    (hn : p.nodes = pre ++ ([.cs cid, .ins rev [.run r], .ce cid, .run (crefRun cid)] ++ post))
    (hst : (stAfter {} pre 0).hide = false) (hr : r.ch.all isT = true)
    (hseg : (applyFormatting (runText r) (runMarkers r).1 (runMarkers r).2).isEmpty = false)
    (hd : cmGet cm cid = some d) :
    ∃ states : List Snap, metaBlock cm states ∈ notesOf (rawSegs cm p) ∧
      (∃ snap ∈ states, cid ∈ snap.comments ∧ rev.id ∈ snap.ins.map (·.1)) ∧
      ∃ l ∈ (states.foldl (metaStep cm) ([], [], [])).2.1, comHead cid <+: l := by
  obtain ⟨snap, hs, hc, hi⟩ := comment_shown_with_insertion cm p pre post cid rev r hn hst hr hseg
  obtain ⟨g, hg, hsg⟩ := mem_flatten_group hs
  obtain ⟨l, hl, hp⟩ := metaBlock_lists_comment cm g snap hsg cid hc d hd
  refine ⟨g, ?_, ⟨snap, hsg, hc, hi⟩, l, hl, hp⟩
  rw [rawSegs_notes]
  unfold blocksOf
  rw [List.mem_filter]
  refine ⟨List.mem_map.2 ⟨g, hg, rfl⟩, ?_⟩
  have hne : metaBlock cm g ≠ [] := by
    rw [metaBlock_chgLines]
    apply joinWith_ne_nil _ _ l (List.mem_append_right _ hl)
    intro e
    rw [e] at hp
    have : comHead cid = [] := List.eq_nil_of_prefix_nil hp
    exact comHead_ne_nil cid this
  simpa using hne

end Adeu.Doc

namespace Adeu.Doc
open Adeu Adeu.Markup

/-- the same for a commented pure deletion … -/
theorem commented_deletion_rendered (cm : CMap) (p : Para) (pre post : List Node) (cid : Str) (rev : Rev) (r : Run) (d : CData)
    (hn : p.nodes = pre ++ ([.cs cid, .del rev [r], .ce cid, .run (crefRun cid)] ++ post))
    (hseg : (applyFormatting (runText r) (runMarkers r).1 (runMarkers r).2).isEmpty = false)
    (hd : cmGet cm cid = some d) :
    ∃ states : List Snap, metaBlock cm states ∈ notesOf (rawSegs cm p) ∧
      (∃ snap ∈ states, cid ∈ snap.comments ∧ rev.id ∈ snap.del.map (·.1)) ∧
      ∃ l ∈ (states.foldl (metaStep cm) ([], [], [])).2.1, comHead cid <+: l := by
  obtain ⟨snap, hs, hc, hi⟩ := comment_shown_with_deletion cm p pre post cid rev r hn hseg
  obtain ⟨g, hg, hsg⟩ := mem_flatten_group hs
  obtain ⟨l, hl, hp⟩ := metaBlock_lists_comment cm g snap hsg cid hc d hd
  refine ⟨g, ?_, ⟨snap, hsg, hc, hi⟩, l, hl, hp⟩
  rw [rawSegs_notes]
  unfold blocksOf
  rw [List.mem_filter]
  refine ⟨List.mem_map.2 ⟨g, hg, rfl⟩, ?_⟩
  have hne : metaBlock cm g ≠ [] := by
    rw [metaBlock_chgLines]
    apply joinWith_ne_nil _ _ l (List.mem_append_right _ hl)
    intro e
    rw [e] at hp
    exact comHead_ne_nil cid (List.eq_nil_of_prefix_nil hp)
  simpa using hne

/-- … and for a commented replacement (the inserted half). -/
theorem commented_replacement_rendered (cm : CMap) (p : Para) (pre post : List Node) (cid : Str) (rd ri : Rev) (dr r : Run) (d : CData)
    (hn : p.nodes = pre ++ ([.cs cid, .del rd [dr], .ins ri [.run r], .ce cid, .run (crefRun cid)] ++ post))
    (hst : (stAfter {} pre 0).hide = false) (hr : r.ch.all isT = true)
    (hseg : (applyFormatting (runText r) (runMarkers r).1 (runMarkers r).2).isEmpty = false)
    (hd : cmGet cm cid = some d) :
    ∃ states : List Snap, metaBlock cm states ∈ notesOf (rawSegs cm p) ∧
      (∃ snap ∈ states, cid ∈ snap.comments ∧ ri.id ∈ snap.ins.map (·.1)) ∧
      ∃ l ∈ (states.foldl (metaStep cm) ([], [], [])).2.1, comHead cid <+: l := by
  obtain ⟨snap, hs, hc, hi⟩ := comment_shown_with_replacement cm p pre post cid rd ri dr r hn hst hr hseg
  obtain ⟨g, hg, hsg⟩ := mem_flatten_group hs
  obtain ⟨l, hl, hp⟩ := metaBlock_lists_comment cm g snap hsg cid hc d hd
  refine ⟨g, ?_, ⟨snap, hsg, hc, hi⟩, l, hl, hp⟩
  rw [rawSegs_notes]
  unfold blocksOf
  rw [List.mem_filter]
  refine ⟨List.mem_map.2 ⟨g, hg, rfl⟩, ?_⟩
  have hne : metaBlock cm g ≠ [] := by
    rw [metaBlock_chgLines]
    apply joinWith_ne_nil _ _ l (List.mem_append_right _ hl)
    intro e
    rw [e] at hp
    exact comHead_ne_nil cid (List.eq_nil_of_prefix_nil hp)
  simpa using hne

end Adeu.Doc
