import AdeuModel.Model.Engine
import AdeuModel.Lemmas.Normalize
namespace Adeu.Doc
open Adeu

def canonAtoms (f : Fmt) (l : List Atom) : List CItem := l.flatMap (canonAtom f)

theorem canonAtoms_cons (f : Fmt) (a : Atom) (l : List Atom) :
    canonAtoms f (a :: l) = canonAtom f a ++ canonAtoms f l := by simp [canonAtoms]

theorem canonAtoms_joinText (f : Fmt) (l : List Atom) : canonAtoms f (joinText l) = canonAtoms f l := by
  fun_induction joinText l with
  | case1 a b rest ih => rw [ih]; simp [canonAtoms_cons, canonAtom, List.map_append]
  | case2 a b rest ih => rw [ih]; simp [canonAtoms_cons, canonAtom, List.map_append]
  | case3 a rest h1 h2 ih => simp [canonAtoms_cons, ih]
  | case4 => simp [joinText]

theorem splitAtoms_right (l : List Atom) : ∀ (c k : Nat), c ≥ k → splitAtoms l c k = ([], l) := by
  induction l with
  | nil => intro c k _; rfl
  | cons a rest ih =>
    intro c k h
    simp only [splitAtoms]
    rw [ih (c + a.width) k (by omega)]
    simp [h]

/-- Dividing the children of a run at an offset keeps every child exactly once and in order. -/
theorem canonAtoms_splitAtoms (f : Fmt) (l : List Atom) : ∀ (c k : Nat),
    canonAtoms f (splitAtoms l c k).1 ++ canonAtoms f (splitAtoms l c k).2 = canonAtoms f l := by
  induction l with
  | nil => intro c k; simp [splitAtoms, canonAtoms]
  | cons a rest ih =>
    intro c k
    by_cases h1 : c ≥ k
    · rw [splitAtoms_right _ _ _ h1]; simp [canonAtoms]
    · by_cases h2 : c + a.width ≤ k
      · simp only [splitAtoms, h1, h2, ↓reduceIte, canonAtoms_cons, List.append_assoc, ih]
      · -- the child straddles the split point: everything behind it goes right
        have hr := splitAtoms_right rest (c + a.width) k (by omega)
        simp only [splitAtoms, h1, h2, ↓reduceIte, hr]
        cases a with
        | t s =>
          simp only [canonAtoms, List.flatMap_cons, List.flatMap_nil, List.append_nil, canonAtom]
          rw [← List.append_assoc, ← List.map_append, List.take_append_drop]
        | dt s =>
          simp only [canonAtoms, List.flatMap_cons, List.flatMap_nil, List.append_nil, canonAtom]
          rw [← List.append_assoc, ← List.map_append, List.take_append_drop]
        | _ => simp [canonAtoms_cons, canonAtoms]

theorem canonRun_eq (r : Run) : canonRun r = canonAtoms r.fmt r.ch := rfl

/-- `_split_run_at_index` changes no content. -/
theorem canonRun_splitRun (r : Run) (k : Nat) :
    canonRun (splitRun r k).1 ++ canonRun (splitRun r k).2 = canonRun r := by
  simp only [splitRun, canonRun_eq]
  have h := canonAtoms_splitAtoms r.fmt r.ch 0 k
  have e1 : ({ r with ch := joinText (splitAtoms r.ch 0 k).1 } : Run).fmt = r.fmt := rfl
  have e2 : ({ r with ch := joinText (splitAtoms r.ch 0 k).2 } : Run).fmt = r.fmt := rfl
  simp only [e1, e2, canonAtoms_joinText]
  exact h

/-- deleting a run and restoring it gives the run back when it carried no deleted text before -/
def noDt (r : Run) : Bool := r.ch.all fun | .dt _ => false | _ => true

theorem undelete_deleted (r : Run) (h : noDt r = true) : r.deleted.undelete = r := by
  cases r with
  | mk b i rest ch e =>
    simp only [Run.deleted, Run.undelete, noDt, List.all_eq_true] at *
    congr
    rw [List.map_map]
    conv => rhs; rw [← List.map_id ch]
    apply List.map_congr_left
    intro a ha
    have := h a ha
    cases a <;> simp_all [Atom.delete, Atom.undelete]

/-- `track_delete_run` followed by rejecting that deletion is the identity on the paragraph child. -/
theorem reject_trackDelete_node (r : Run) (rev : Rev) (h : noDt r = true) :
    rejectN rev.id (.del rev [r.deleted]) = [.run r] := by
  simp [rejectN, undelete_deleted r h]

/-- rejecting an insertion made in this session removes exactly that element -/
theorem reject_inserted_node (rev : Rev) (ch : List InsChild) : rejectN rev.id (.ins rev ch) = [] := by
  simp [rejectN]

/-- accepting a deletion removes it, accepting an insertion leaves its content -/
theorem accept_trackDelete_node (r : Run) (rev : Rev) : acceptN rev.id (.del rev [r.deleted]) = [] := by
  simp [acceptN]

theorem accept_inserted_node (rev : Rev) (ch : List InsChild) :
    acceptN rev.id (.ins rev ch) = ch.map InsChild.toNode := by
  simp [acceptN]

/-- a child that carries another id is untouched by accept / reject -/
theorem rejectN_other (id : Str) (n : Node) (h : hasRevN id n = false) : rejectN id n = [n] := by
  cases n <;> simp_all [rejectN, hasRevN]

theorem acceptN_other (id : Str) (n : Node) (h : hasRevN id n = false) : acceptN id n = [n] := by
  cases n <;> simp_all [acceptN, hasRevN]

theorem reject_unknown (id : Str) (ns : List Node) (h : ∀ n ∈ ns, hasRevN id n = false) :
    ns.flatMap (rejectN id) = ns := by
  induction ns with
  | nil => rfl
  | cons n r ih =>
    simp only [List.flatMap_cons, rejectN_other id n (h n (by simp)), ih (fun m hm => h m (by simp [hm]))]
    rfl

theorem accept_unknown (id : Str) (ns : List Node) (h : ∀ n ∈ ns, hasRevN id n = false) :
    ns.flatMap (acceptN id) = ns := by
  induction ns with
  | nil => rfl
  | cons n r ih =>
    simp only [List.flatMap_cons, acceptN_other id n (h n (by simp)), ih (fun m hm => h m (by simp [hm]))]
    rfl

/-! ### the paragraph-level core of a tracked replacement -/

/-- replace the plain run at child index `i` by a tracked deletion and put a tracked insertion
right behind it (what `_apply_single_edit_indexed` does to the last target run) -/
def replaceAt (ns : List Node) (i : Nat) (dRev iRev : Rev) (ch : List InsChild) : List Node :=
  match ns[i]? with
  | some (.run r) => ns.take i ++ [.del dRev [r.deleted], .ins iRev ch] ++ ns.drop (i + 1)
  | _ => ns

theorem reject_replaceAt (ns : List Node) (i : Nat) (r : Run) (dRev iRev : Rev) (ch : List InsChild)
    (hi : ns[i]? = some (.run r)) (hr : noDt r = true) (hne : dRev.id ≠ iRev.id)
    (hfd : ∀ n ∈ ns, hasRevN dRev.id n = false) (hfi : ∀ n ∈ ns, hasRevN iRev.id n = false) :
    ((replaceAt ns i dRev iRev ch).flatMap (rejectN dRev.id)).flatMap (rejectN iRev.id) = ns := by
  have hsplit : ns = ns.take i ++ .run r :: ns.drop (i + 1) := by
    have := List.getElem?_eq_some_iff.mp hi
    obtain ⟨hlt, he⟩ := this
    have h1 := (List.take_append_drop i ns).symm
    rw [List.drop_eq_getElem_cons hlt, he] at h1
    exact h1
  have htake : ∀ n ∈ ns.take i, hasRevN dRev.id n = false ∧ hasRevN iRev.id n = false :=
    fun n hn => ⟨hfd n (List.mem_of_mem_take hn), hfi n (List.mem_of_mem_take hn)⟩
  have hdrop : ∀ n ∈ ns.drop (i + 1), hasRevN dRev.id n = false ∧ hasRevN iRev.id n = false :=
    fun n hn => ⟨hfd n (List.mem_of_mem_drop hn), hfi n (List.mem_of_mem_drop hn)⟩
  simp only [replaceAt, hi, List.flatMap_append, List.flatMap_cons, List.flatMap_nil, List.append_nil]
  rw [reject_unknown dRev.id _ (fun n hn => (htake n hn).1), reject_unknown dRev.id _ (fun n hn => (hdrop n hn).1)]
  have h1 : rejectN dRev.id (.del dRev [r.deleted]) = [.run r] := reject_trackDelete_node r dRev hr
  have h2 : rejectN dRev.id (.ins iRev ch) = [.ins iRev ch] := by
    simp [rejectN, Ne.symm hne]
  rw [h1, h2]
  simp only [List.flatMap_append, List.flatMap_cons, List.flatMap_nil, List.append_nil]
  rw [reject_unknown iRev.id _ (fun n hn => (htake n hn).2), reject_unknown iRev.id _ (fun n hn => (hdrop n hn).2)]
  have h3 : rejectN iRev.id (.run r) = [.run r] := rfl
  have h4 : rejectN iRev.id (.ins iRev ch) = [] := reject_inserted_node iRev ch
  rw [h3, h4]
  simp only [List.nil_append, List.append_nil, List.append_assoc, List.singleton_append]
  exact hsplit.symm

end Adeu.Doc

namespace Adeu.Doc
open Adeu

/-! ### accounting -/

theorem indexedStep_count (acc : Sess × Nat × Nat × List (Nat × Nat)) (e : IEdit) :
    (indexedStep acc e).2.1 + (indexedStep acc e).2.2.1 = acc.2.1 + acc.2.2.1 + 1 := by
  obtain ⟨s, ap, sk, occ⟩ := acc
  simp only [indexedStep]
  split
  · simp only; omega
  · split <;> (simp only; omega)

theorem foldl_indexedStep_count (l : List IEdit) : ∀ (acc : Sess × Nat × Nat × List (Nat × Nat)),
    (l.foldl indexedStep acc).2.1 + (l.foldl indexedStep acc).2.2.1 = acc.2.1 + acc.2.2.1 + l.length := by
  induction l with
  | nil => intro acc; simp
  | cons e rest ih =>
    intro acc
    simp only [List.foldl_cons, List.length_cons]
    rw [ih, indexedStep_count]
    omega

theorem applyEditsIndexedFull_total (s : Sess) (edits : List IEdit) :
    (applyEditsIndexedFull s edits).2.1 + (applyEditsIndexedFull s edits).2.2.1 = edits.length := by
  unfold applyEditsIndexedFull
  rw [foldl_indexedStep_count]
  simp

theorem applyEditsIndexed_total (s : Sess) (edits : List IEdit) :
    (applyEditsIndexed s edits).2.1 + (applyEditsIndexed s edits).2.2 = edits.length :=
  applyEditsIndexedFull_total s edits

end Adeu.Doc

namespace Adeu.Doc
open Adeu

/-! ### fresh revision ids, session attribution -/

theorem newRev_attrib (s : Sess) : (s.newRev).2.author = some s.author ∧ (s.newRev).2.date = some s.date ∧
    (s.newRev).2.id = natStr (s.nextRev + 1) ∧ (s.newRev).1.nextRev = s.nextRev + 1 := by
  simp [Sess.newRev]

theorem maxRevIdNodes_ge_aux (ns : List Node) : ∀ (m0 : Nat), m0 ≤ ns.foldl revMax m0 := by
  induction ns with
  | nil => intro m0; simp
  | cons n rest ih =>
    intro m0
    simp only [List.foldl_cons]
    refine Nat.le_trans ?_ (ih _)
    unfold revMax
    cases n <;> simp <;> (split <;> omega)

def revOf : Node → Option Rev
  | .ins rev _ | .del rev _ => some rev
  | _ => none

/-- every numeric revision id in the main part is at most the scanned maximum -/
theorem id_le_maxRevIdNodes (ns : List Node) : ∀ (m0 : Nat) (n : Node) (rev : Rev) (k : Nat),
    n ∈ ns → revOf n = some rev → strNat? rev.id = some k → k ≤ ns.foldl revMax m0 := by
  induction ns with
  | nil => intro m0 n rev k hn; cases hn
  | cons x rest ih =>
    intro m0 n rev k hn hform hk
    simp only [List.foldl_cons]
    rcases List.mem_cons.mp hn with h | h
    · subst h
      refine Nat.le_trans ?_ (maxRevIdNodes_ge_aux rest _)
      cases n <;> simp [revOf] at hform <;> subst hform <;> simp [revMax, hk] <;> omega
    · exact ih _ n rev k h hform hk

theorem foldl_max_ge (f : List Block → Nat) : ∀ (parts : List (List Block)) (m0 : Nat),
    m0 ≤ parts.foldl (fun m bs => max m (f bs)) m0 ∧
    ∀ bs ∈ parts, f bs ≤ parts.foldl (fun m bs => max m (f bs)) m0 := by
  intro parts
  induction parts with
  | nil => intro m0; simp
  | cons p rest ih =>
    intro m0
    simp only [List.foldl_cons]
    obtain ⟨h1, h2⟩ := ih (max m0 (f p))
    refine ⟨by omega, ?_⟩
    intro bs hbs
    rcases List.mem_cons.mp hbs with h | h
    · subst h; omega
    · exact h2 bs h

/-- the id handed out next is larger than every numeric id scanned at load (main part, headers,
footers), hence new -/
theorem newRev_fresh (d : Document) (author date : Str) (bs : List Block) (n : Node) (rev : Rev) (k : Nat)
    (hbs : bs ∈ docParts (normalize d))
    (hn : n ∈ allNodesBlocks bs) (hform : revOf n = some rev) (hk : strNat? rev.id = some k) :
    k < (Sess.open d author date).nextRev + 1 := by
  have h1 := id_le_maxRevIdNodes (allNodesBlocks bs) 0 n rev k hn hform hk
  have h2 := (foldl_max_ge (fun bs => maxRevIdNodes (allNodesBlocks bs)) (docParts (normalize d)) 0).2 bs hbs
  have h3 : (Sess.open d author date).nextRev ≥
      (docParts (normalize d)).foldl (fun m bs => max m (maxRevIdNodes (allNodesBlocks bs))) 0 := by
    show scanRevIds (normalize d) ≥ _
    unfold scanRevIds
    exact Nat.le_max_left _ _
  simp only [maxRevIdNodes] at h2 h3
  omega

/-! ### comments -/

theorem addComment_spec (s : Sess) (text : Str) (parent : Option Str) :
    let r := s.addComment text parent
    r.1.doc.comments = s.doc.comments ++
      [{ id := r.2, author := some s.author, date := some "NOW".toList, initials := initials s.author,
         paras := [{ paraId := some (freshId s.fresh), text := [text] }], legacyParent := none, doneAttr := none }] ∧
    r.2 = natStr s.nextCom ∧ r.1.nextCom = s.nextCom + 1 ∧
    r.1.doc.body = s.doc.body ∧ r.1.doc.headers = s.doc.headers ∧ r.1.doc.footers = s.doc.footers ∧
    r.1.doc.commentsEx.length = s.doc.commentsEx.length + 1 ∧
    r.1.doc.commentsIds.length = s.doc.commentsIds.length + 1 ∧
    r.1.doc.commentsCex.length = s.doc.commentsCex.length + 1 := by
  simp [Sess.addComment]

/-! ### inserted runs: formatting comes from the style source, text from the segments -/

theorem applyRunProps_rest (base : Option Run) (seg : Seg) (sup : Bool) :
    (applyRunProps base seg sup).rest = (base.map (·.rest)).getD [] := by
  unfold applyRunProps
  simp only
  split <;> rfl

/-- Inserted text carries the other character formatting (font, size, colour, style) of its style
source, which is an original run of the same paragraph. -/
theorem insRuns_rest (text : Str) (style : Option Run) (sup : Bool) :
    ∀ c ∈ insRuns text style sup, ∃ r, c = InsChild.run r ∧ r.rest = (style.map (·.rest)).getD [] := by
  intro c hc
  simp only [insRuns, List.mem_map] at hc
  obtain ⟨seg, _, rfl⟩ := hc
  exact ⟨_, rfl, by simp [applyRunProps_rest]⟩

/-- text without a Markdown span is inserted literally, as one run -/
theorem inlineSegs_literal (t : Str) (ht : t ≠ []) (h : findSpan t.toArray = none) :
    inlineSegs t = [⟨t, false, false⟩] := by
  unfold inlineSegs
  cases hl : t.length + 1 with
  | zero => omega
  | succ n =>
    have : t.isEmpty = false := by simpa using ht
    simp [parseInline, this, h]

theorem insRuns_literal (t : Str) (style : Option Run) (sup : Bool) (ht : t ≠ []) (h : findSpan t.toArray = none) :
    (insRuns t style sup).map (fun c => match c with | .run r => r.ch | _ => []) = [[.t t]] := by
  simp [insRuns, inlineSegs_literal t ht h]

end Adeu.Doc
