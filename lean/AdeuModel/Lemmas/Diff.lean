import AdeuModel.Model.Diff
namespace Adeu.Diff
open Adeu

/-- Normal form with a flag: `pd` = the previous entry was a deletion that is still pending. -/
def okFrom : Bool → DiffList → Bool
  | _, [] => true
  | pd, (.del, _) :: ds => !pd && okFrom true ds
  | _, (.eq, _) :: ds => okFrom false ds
  | _, (.ins, _) :: ds => okFrom false ds

def base (cur : Nat) : Option (Nat × Str) → Nat
  | none => cur
  | some (i, _) => i

theorem applyFrom_shift (pos k : Nat) (rest : Str) (es : List Edit)
    (h : ∀ e, es.head? = some e → pos + k ≤ e.idx) :
    applyFrom pos rest es = rest.take k ++ applyFrom (pos + k) (rest.drop k) es := by
  cases es with
  | nil => simp [applyFrom]
  | cons e es =>
    have hk := h e rfl
    simp only [applyFrom]
    have h1 : e.idx - pos = k + (e.idx - (pos + k)) := by omega
    rw [h1, List.take_add, List.drop_drop]
    have h2 : k + (e.idx - (pos + k) + e.target.length) = k + (e.idx - (pos + k)) + e.target.length := by omega
    simp [List.append_assoc, h2]

theorem go_idx_ge (ds : DiffList) : ∀ (cur : Nat) (p : Option (Nat × Str)),
    base cur p ≤ cur → ∀ e ∈ go ds cur p, base cur p ≤ e.idx := by
  induction ds with
  | nil =>
    intro cur p _ e he
    cases p with
    | none => simp [go, flush] at he
    | some q => obtain ⟨i, d⟩ := q; simp [go, flush] at he; subst he; simp [base]
  | cons x ds ih =>
    intro cur p hb e he
    obtain ⟨o, t⟩ := x
    cases o with
    | eq =>
      simp only [go, List.mem_append] at he
      rcases he with he | he
      · cases p with
        | none => simp [flush] at he
        | some q => obtain ⟨i, d⟩ := q; simp [flush] at he; subst he; simp [base]
      · have := ih (cur + t.length) none (by simp [base]) e he
        simp [base] at this
        omega
    | del =>
      cases p with
      | none =>
        simp only [go] at he
        have := ih (cur + t.length) (some (cur, t)) (by simp [base]) e he
        simp [base] at this ⊢
        omega
      | some q =>
        obtain ⟨i, d⟩ := q
        simp only [go] at he
        simp only [base] at hb ⊢
        have := ih (cur + t.length) (some (i, d ++ t)) (by simp [base]; omega) e he
        simpa [base] using this
    | ins =>
      cases p with
      | some q =>
        obtain ⟨i, d⟩ := q
        simp only [go, List.mem_cons] at he
        rcases he with he | he
        · subst he; simp [base]
        · have := ih cur none (by simp [base]) e he
          simp [base] at this hb ⊢; omega
      | none =>
        have tail : ∀ e ∈ go ds cur none, cur ≤ e.idx := fun e he => by
          have := ih cur none (by simp [base]) e he
          simpa [base] using this
        simp only [base]
        unfold go at he
        split at he
        · rename_i h0
          split at he
          · split at he <;> simp only [List.mem_cons] at he <;> rcases he with he | he
            · subst he; simp [stdIns]
            · exact tail e he
            · subst he; omega
            · exact tail e he
          · simp only [List.mem_cons] at he
            rcases he with he | he
            · subst he; simp [stdIns]
            · exact tail e he
        · simp only [List.mem_cons] at he
          rcases he with he | he
          · subst he; simp [stdIns]
          · exact tail e he

end Adeu.Diff

namespace Adeu.Diff
open Adeu

def pend : Option (Nat × Str) → Str
  | none => []
  | some (_, d) => d

theorem anchorTarget_prefix (nt : Str) : anchorTarget nt <+: nt := by
  unfold anchorTarget
  exact List.takeWhile_prefix _

theorem head_ge_of_all {es : List Edit} {n : Nat} (h : ∀ e ∈ es, n ≤ e.idx) :
    ∀ e, es.head? = some e → n ≤ e.idx := by
  intro e he
  cases es with
  | nil => simp at he
  | cons x xs => simp at he; subst he; exact h _ (by simp)

theorem applyFrom_go (ds : DiffList) : ∀ (cur : Nat) (p : Option (Nat × Str)),
    (∀ i d, p = some (i, d) → cur = i + d.length) →
    applyFrom (base cur p) (pend p ++ src ds) (go ds cur p) = dst ds := by
  induction ds with
  | nil =>
    intro cur p _
    cases p with
    | none => simp [go, flush, applyFrom, pend, src, dst]
    | some q => obtain ⟨i, d⟩ := q; simp [go, flush, applyFrom, pend, src, dst, base]
  | cons x ds ih =>
    intro cur p hp
    obtain ⟨o, t⟩ := x
    cases o with
    | eq =>
      have hrec := ih (cur + t.length) none (by intro i d h; cases h)
      simp only [base, pend, List.nil_append] at hrec
      have hge : ∀ e, (go ds (cur + t.length) none).head? = some e → cur + t.length ≤ e.idx :=
        head_ge_of_all (fun e he => by
          have := go_idx_ge ds (cur + t.length) none (by simp [base]) e he
          simpa [base] using this)
      have key : applyFrom cur (t ++ src ds) (go ds (cur + t.length) none) = t ++ dst ds := by
        rw [applyFrom_shift cur t.length _ _ hge]
        simp [hrec]
      cases p with
      | none => simpa [go, flush, base, pend, src, dst] using key
      | some q =>
        obtain ⟨i, d⟩ := q
        have hc := hp i d rfl
        simp only [go, flush, base, pend, src, dst, List.cons_append, List.nil_append, applyFrom]
        simp only [Nat.sub_self, List.take_zero, List.nil_append, Nat.zero_add]
        rw [List.drop_left' rfl, ← hc]
        exact key
    | del =>
      cases p with
      | some q =>
        obtain ⟨i, d⟩ := q
        have hc := hp i d rfl
        have hrec := ih (cur + t.length) (some (i, d ++ t))
          (by intro i' d' h; cases h; simp [hc]; omega)
        simpa [go, base, pend, src, dst, List.append_assoc] using hrec
      | none =>
        have hrec := ih (cur + t.length) (some (cur, t)) (by intro i d h; cases h; rfl)
        simpa [go, base, pend, src, dst] using hrec
    | ins =>
      have hrec := ih cur none (by intro i d h; cases h)
      simp only [base, pend, List.nil_append] at hrec
      cases p with
      | some q =>
        obtain ⟨i, d⟩ := q
        have hc := hp i d rfl
        simp only [go, base, pend, src, dst, applyFrom]
        simp only [Nat.sub_self, List.take_zero, List.nil_append, Nat.zero_add]
        rw [List.drop_left' rfl, ← hc, hrec]
      | none =>
        have hstd : applyFrom cur (src ds) (stdIns cur t :: go ds cur none) = t ++ dst ds := by
          simp [applyFrom, stdIns, hrec]
        simp only [base, pend, src, dst, List.nil_append]
        unfold go
        split
        · rename_i h0
          split
          · rename_i nt ds'
            split
            · exact hstd
            · -- start-of-document special case
              subst h0
              obtain ⟨r, hr⟩ := anchorTarget_prefix nt
              have hlen : (anchorTarget nt).length ≤ nt.length := by
                have := congrArg List.length hr; simp at this; omega
              have hge : ∀ e, (go ((Op.eq, nt) :: ds') 0 none).head? = some e →
                  0 + (anchorTarget nt).length ≤ e.idx :=
                head_ge_of_all (fun e he => by
                  simp only [go, flush, List.nil_append] at he
                  have := go_idx_ge ds' (0 + nt.length) none (by simp [base]) e he
                  simp [base] at this; omega)
              have hs := applyFrom_shift 0 (anchorTarget nt).length (src ((Op.eq, nt) :: ds')) _ hge
              rw [hrec] at hs
              simp only [applyFrom, Nat.sub_self, List.take_zero, List.nil_append, Nat.zero_add]
              rw [hs]
              have htake : List.take (anchorTarget nt).length (src ((Op.eq, nt) :: ds')) = anchorTarget nt := by
                simp only [src]
                have : nt ++ src ds' = anchorTarget nt ++ (r ++ src ds') := by
                  rw [← List.append_assoc, hr]
                rw [this, List.take_left' rfl]
              rw [htake]
              simp [List.append_assoc]
          · exact hstd
        · exact hstd

end Adeu.Diff

namespace Adeu.Diff
open Adeu

theorem sortedFrom_mono {b b' : Nat} {es : List Edit} (h : SortedFrom b es) (hb : b' ≤ b) :
    SortedFrom b' es := by
  cases es with
  | nil => trivial
  | cons e es => exact ⟨Nat.le_trans hb h.1, h.2⟩

theorem sortedFrom_raise {b b' : Nat} {es : List Edit} (h : SortedFrom b es)
    (hb : ∀ e ∈ es, b' ≤ e.idx) : SortedFrom b' es := by
  cases es with
  | nil => trivial
  | cons e es => exact ⟨hb e (by simp), h.2⟩

theorem go_sorted (ds : DiffList) : ∀ (cur : Nat) (p : Option (Nat × Str)),
    (∀ i d, p = some (i, d) → cur = i + d.length) →
    SortedFrom (base cur p) (go ds cur p) := by
  induction ds with
  | nil =>
    intro cur p _
    cases p with
    | none => simp [go, flush, SortedFrom]
    | some q => obtain ⟨i, d⟩ := q; simp [go, flush, SortedFrom, base]
  | cons x ds ih =>
    intro cur p hp
    obtain ⟨o, t⟩ := x
    cases o with
    | eq =>
      have hrec := ih (cur + t.length) none (by intro i d h; cases h)
      simp only [base] at hrec
      cases p with
      | none => simpa [go, flush, base] using sortedFrom_mono hrec (by omega)
      | some q =>
        obtain ⟨i, d⟩ := q
        have hc := hp i d rfl
        simp only [go, flush, base, List.cons_append, List.nil_append, SortedFrom]
        exact ⟨Nat.le_refl _, sortedFrom_mono hrec (by omega)⟩
    | del =>
      cases p with
      | none =>
        have hrec := ih (cur + t.length) (some (cur, t)) (by intro i d h; cases h; rfl)
        simpa [go, base] using hrec
      | some q =>
        obtain ⟨i, d⟩ := q
        have hc := hp i d rfl
        have hrec := ih (cur + t.length) (some (i, d ++ t))
          (by intro i' d' h; cases h; simp [hc]; omega)
        simpa [go, base] using hrec
    | ins =>
      have hrec := ih cur none (by intro i d h; cases h)
      simp only [base] at hrec
      cases p with
      | some q =>
        obtain ⟨i, d⟩ := q
        have hc := hp i d rfl
        simp only [go, base, SortedFrom]
        exact ⟨Nat.le_refl _, sortedFrom_mono hrec (by omega)⟩
      | none =>
        have hstd : SortedFrom cur (stdIns cur t :: go ds cur none) := by
          simp only [SortedFrom, stdIns, List.length_nil, Nat.add_zero]
          exact ⟨Nat.le_refl _, hrec⟩
        simp only [base]
        unfold go
        split
        · rename_i h0
          split
          · rename_i nt ds'
            split
            · exact hstd
            · subst h0
              obtain ⟨r, hr⟩ := anchorTarget_prefix nt
              have hlen : (anchorTarget nt).length ≤ nt.length := by
                have := congrArg List.length hr; simp at this; omega
              simp only [SortedFrom, Nat.zero_add]
              refine ⟨Nat.le_refl _, sortedFrom_raise hrec ?_⟩
              intro e he
              simp only [go, flush, List.nil_append] at he
              have := go_idx_ge ds' (0 + nt.length) none (by simp [base]) e he
              simp [base] at this; omega
          · exact hstd
        · exact hstd

end Adeu.Diff

namespace Adeu.Diff
open Adeu

theorem drop_of_drop_eq_append {full a b : Str} {n : Nat} (h : full.drop n = a ++ b) :
    full.drop (n + a.length) = b := by
  rw [← List.drop_drop, h, List.drop_left' rfl]

theorem go_targetsAt (full : Str) (ds : DiffList) : ∀ (cur : Nat) (p : Option (Nat × Str)),
    (∀ i d, p = some (i, d) → cur = i + d.length) →
    full.drop (base cur p) = pend p ++ src ds →
    ∀ e ∈ go ds cur p, (full.drop e.idx).take e.target.length = e.target := by
  induction ds with
  | nil =>
    intro cur p _ hf e he
    cases p with
    | none => simp [go, flush] at he
    | some q =>
      obtain ⟨i, d⟩ := q
      simp [go, flush] at he; subst he
      simp only [base, pend, src, List.append_nil] at hf
      simp [hf]
  | cons x ds ih =>
    intro cur p hp hf e he
    obtain ⟨o, t⟩ := x
    cases o with
    | eq =>
      simp only [go, List.mem_append] at he
      rcases he with he | he
      · cases p with
        | none => simp [flush] at he
        | some q =>
          obtain ⟨i, d⟩ := q
          simp [flush] at he; subst he
          simp only [base, pend] at hf
          simp [hf]
      · refine ih (cur + t.length) none (by intro i d h; cases h) ?_ e he
        simp only [base, pend, List.nil_append]
        cases p with
        | none =>
          simp only [base, pend, src, List.nil_append] at hf
          exact drop_of_drop_eq_append hf
        | some q =>
          obtain ⟨i, d⟩ := q
          have hc := hp i d rfl
          simp only [base, pend, src] at hf
          have h1 := drop_of_drop_eq_append hf
          rw [hc]; exact drop_of_drop_eq_append h1
    | del =>
      cases p with
      | none =>
        simp only [go] at he
        refine ih (cur + t.length) (some (cur, t)) (by intro i d h; cases h; rfl) ?_ e he
        simpa [base, pend, src] using hf
      | some q =>
        obtain ⟨i, d⟩ := q
        have hc := hp i d rfl
        simp only [go] at he
        refine ih (cur + t.length) (some (i, d ++ t)) (by intro i' d' h; cases h; simp [hc]; omega) ?_ e he
        simpa [base, pend, src, List.append_assoc] using hf
    | ins =>
      cases p with
      | some q =>
        obtain ⟨i, d⟩ := q
        have hc := hp i d rfl
        simp only [base, pend, src] at hf
        simp only [go, List.mem_cons] at he
        rcases he with he | he
        · subst he; simp [hf]
        · refine ih cur none (by intro i d h; cases h) ?_ e he
          simp only [base, pend, List.nil_append]
          rw [hc]; exact drop_of_drop_eq_append hf
      | none =>
        simp only [base, pend, src, List.nil_append] at hf
        have tail : ∀ e ∈ go ds cur none, (full.drop e.idx).take e.target.length = e.target :=
          fun e he => ih cur none (by intro i d h; cases h) (by simpa [base, pend] using hf) e he
        unfold go at he
        split at he
        · rename_i h0
          split at he
          · rename_i nt ds'
            split at he <;> simp only [List.mem_cons] at he <;> rcases he with he | he
            · subst he; simp [stdIns]
            · exact tail e he
            · subst he; subst h0
              obtain ⟨r, hr⟩ := anchorTarget_prefix nt
              simp only [List.drop_zero, src] at hf ⊢
              have : nt ++ src ds' = anchorTarget nt ++ (r ++ src ds') := by
                rw [← List.append_assoc, hr]
              rw [hf, this, List.take_left' rfl]
            · exact tail e he
          · simp only [List.mem_cons] at he
            rcases he with he | he
            · subst he; simp [stdIns]
            · exact tail e he
        · simp only [List.mem_cons] at he
          rcases he with he | he
          · subst he; simp [stdIns]
          · exact tail e he

/-- An edit whose differing part is made of whole tokens of the two token sequences, possibly
followed by a common context `c` that is copied unchanged (the start-of-document anchor). -/
def Aligned (S D : List Str) (e : Edit) : Prop :=
  ∃ (c : Str) (pre blk post pre' blk' post' : List Str),
    e.target = flat blk ++ c ∧ e.new = flat blk' ++ c ∧
    S = pre ++ blk ++ post ∧ e.idx = (flat pre).length ∧ D = pre' ++ blk' ++ post'

theorem go_aligned (tds : TokDiffList) : ∀ (cur : Nat) (p : Option (Nat × Str))
    (sp dp ptoks : List Str),
    (p = none → cur = (flat sp).length ∧ ptoks = []) →
    (∀ i d, p = some (i, d) → i = (flat sp).length ∧ d = flat ptoks ∧ cur = i + d.length) →
    ∀ e ∈ go (ofTok tds) cur p, Aligned (sp ++ ptoks ++ srcTok tds) (dp ++ dstTok tds) e := by
  induction tds with
  | nil =>
    intro cur p sp dp ptoks _ hs e he
    cases p with
    | none => simp [ofTok, go, flush] at he
    | some q =>
      obtain ⟨i, d⟩ := q
      obtain ⟨hi, hd, _⟩ := hs i d rfl
      simp [ofTok, go, flush] at he; subst he
      exact ⟨[], sp, ptoks, [], dp, [], [], by simp [hd], by simp [flat], by simp [srcTok], hi,
        by simp [dstTok]⟩
  | cons x tds ih =>
    intro cur p sp dp ptoks hn hs e he
    obtain ⟨o, ts⟩ := x
    have flushCase : ∀ e ∈ flush p, ∀ S' D', Aligned (sp ++ ptoks ++ S') (dp ++ D') e := by
      intro e he S' D'
      cases p with
      | none => simp [flush] at he
      | some q =>
        obtain ⟨i, d⟩ := q
        obtain ⟨hi, hd, _⟩ := hs i d rfl
        simp [flush] at he; subst he
        exact ⟨[], sp, ptoks, S', dp, [], D', by simp [hd], by simp [flat], by simp, hi, by simp⟩
    have curEq : cur = (flat (sp ++ ptoks)).length := by
      cases p with
      | none => obtain ⟨h1, h2⟩ := hn rfl; simp [h1, h2]
      | some q =>
        obtain ⟨i, d⟩ := q
        obtain ⟨hi, hd, hc⟩ := hs i d rfl
        simp [flat, hc, hi, hd]
    cases o with
    | eq =>
      simp only [ofTok, List.map_cons, go, List.mem_append] at he
      rcases he with he | he
      · simpa [srcTok, dstTok] using flushCase e he (ts ++ srcTok tds) (ts ++ dstTok tds)
      · have := ih (cur + (flat ts).length) none (sp ++ ptoks ++ ts) (dp ++ ts) []
          (by intro _; refine ⟨?_, rfl⟩; rw [curEq]; simp [flat]; omega)
          (by intro i d h; cases h) e he
        simpa [srcTok, dstTok, List.append_assoc] using this
    | del =>
      cases p with
      | none =>
        obtain ⟨_, h2⟩ := hn rfl
        subst h2
        simp only [ofTok, List.map_cons, go] at he
        have := ih (cur + (flat ts).length) (some (cur, flat ts)) sp dp ts
          (by intro h; cases h)
          (by intro i d h; cases h; exact ⟨by simpa using curEq, rfl, rfl⟩) e he
        simpa [srcTok, dstTok, List.append_assoc] using this
      | some q =>
        obtain ⟨i, d⟩ := q
        obtain ⟨hi, hd, hc⟩ := hs i d rfl
        simp only [ofTok, List.map_cons, go] at he
        have := ih (cur + (flat ts).length) (some (i, d ++ flat ts)) sp dp (ptoks ++ ts)
          (by intro h; cases h)
          (by intro i' d' h; cases h; exact ⟨hi, by simp [hd, flat], by simp [hc]; omega⟩) e he
        simpa [srcTok, dstTok, List.append_assoc] using this
    | ins =>
      have tail : ∀ e ∈ go (ofTok tds) cur none,
          Aligned (sp ++ ptoks ++ srcTok tds) (dp ++ (ts ++ dstTok tds)) e := by
        intro e he
        have := ih cur none (sp ++ ptoks) (dp ++ ts) [] (by intro _; exact ⟨curEq, rfl⟩)
          (by intro i d h; cases h) e he
        simpa [List.append_assoc] using this
      cases p with
      | some q =>
        obtain ⟨i, d⟩ := q
        obtain ⟨hi, hd, hc⟩ := hs i d rfl
        simp only [ofTok, List.map_cons, go, List.mem_cons] at he
        rcases he with he | he
        · subst he
          exact ⟨[], sp, ptoks, srcTok tds, dp, ts, dstTok tds, by simp [hd], by simp,
            by simp [srcTok], hi, by simp [dstTok]⟩
        · simpa [srcTok, dstTok] using tail e he
      | none =>
        obtain ⟨h1, h2⟩ := hn rfl
        subst h2
        have stdCase : Aligned (sp ++ [] ++ srcTok ((Op.ins, ts) :: tds))
            (dp ++ dstTok ((Op.ins, ts) :: tds)) (stdIns cur (flat ts)) :=
          ⟨[], sp, [], srcTok tds, dp, ts, dstTok tds, by simp [stdIns, flat], by simp [stdIns],
            by simp [srcTok], by simp [stdIns, h1], by simp [dstTok]⟩
        simp only [ofTok, List.map_cons] at he
        unfold go at he
        split at he
        · rename_i h0
          split at he
          · rename_i nt ds' heq
            split at he <;> simp only [List.mem_cons] at he <;> rcases he with he | he
            · subst he; exact stdCase
            · simpa [srcTok, dstTok] using tail e (by simpa [ofTok] using he)
            · subst he
              exact ⟨anchorTarget nt, sp, [], srcTok tds, dp, ts, dstTok tds, by simp [flat],
                by simp, by simp [srcTok], by rw [← h0, h1], by simp [dstTok]⟩
            · simpa [srcTok, dstTok] using tail e (by simpa [ofTok] using he)
          · simp only [List.mem_cons] at he
            rcases he with he | he
            · subst he; exact stdCase
            · simpa [srcTok, dstTok] using tail e he
        · simp only [List.mem_cons] at he
          rcases he with he | he
          · subst he; exact stdCase
          · simpa [srcTok, dstTok] using tail e he

end Adeu.Diff

/-! ### separator splitting preserves both texts -/
namespace Adeu.Diff
open Adeu

theorem sepSplitFuel_flatten (n : Nat) (cur r : Str) : (sepSplitFuel n cur r).flatten = cur ++ r := by
  induction n generalizing cur r with
  | zero => simp [sepSplitFuel]
  | succ n ih =>
    cases r with
    | nil => simp [sepSplitFuel]
    | cons c r =>
      unfold sepSplitFuel
      split
      · rw [ih]; simp
      · simp only [List.flatten_cons, ih, List.nil_append, List.take_append_drop]

theorem sepSplit_flatten (s : Str) : (sepSplit s).flatten = s := by
  simp [sepSplit, sepSplitFuel_flatten]

theorem nextTokG_append (sp isw : Char → Bool) (ls : Bool) (r : Str) :
    (nextTokG sp isw ls r).1 ++ (nextTokG sp isw ls r).2 = r := by
  unfold nextTokG
  dsimp only
  repeat' split
  all_goals first
    | exact List.takeWhile_append_dropWhile
    | exact List.take_append_drop _ _
    | simp

theorem nextTok_append (ls : Bool) (r : Str) : (nextTok ls r).1 ++ (nextTok ls r).2 = r :=
  nextTokG_append _ _ ls r

theorem tokensFuel_flatten (n : Nat) (ls : Bool) (r : Str) : (tokensFuel n ls r).flatten = r := by
  induction n generalizing ls r with
  | zero => unfold tokensFuel; split <;> simp_all
  | succ n ih =>
    unfold tokensFuel
    split
    · simp_all
    · simp only [List.flatten_cons, ih]
      exact nextTok_append ls r

theorem tokens_flatten (s : Str) : flat (tokens s) = s := tokensFuel_flatten _ _ _

theorem commonPrefixLen_le_left (a b : List Str) : commonPrefixLen a b ≤ a.length := by
  fun_induction commonPrefixLen a b <;> simp_all

theorem commonPrefixLen_le_right (a b : List Str) : commonPrefixLen a b ≤ b.length := by
  fun_induction commonPrefixLen a b <;> simp_all

theorem commonPrefixLen_take (a b : List Str) (k : Nat) (hk : k ≤ commonPrefixLen a b) :
    a.take k = b.take k := by
  fun_induction commonPrefixLen a b generalizing k with
  | case1 a as bs ih =>
    cases k with
    | zero => simp
    | succ k => simp [ih k (by omega)]
  | case2 a as b bs h => simp_all
  | case3 a b h =>
    have : k = 0 := by omega
    simp [this]

theorem commonSuffix_drop (a b : List Str) (k : Nat) (hk : k ≤ commonPrefixLen a.reverse b.reverse) :
    a.drop (a.length - k) = b.drop (b.length - k) := by
  have h := commonPrefixLen_take a.reverse b.reverse k hk
  have h2 := congrArg List.reverse h
  have ha : k ≤ a.length := by
    have := commonPrefixLen_le_left a.reverse b.reverse; simp at this; omega
  have hb : k ≤ b.length := by
    have := commonPrefixLen_le_right a.reverse b.reverse; simp at this; omega
  simpa [List.reverse_take, List.take_reverse] using h2

theorem src_filter (ds : DiffList) : src (ds.filter fun p => !p.2.isEmpty) = src ds := by
  induction ds with
  | nil => rfl
  | cons x ds ih =>
    obtain ⟨o, t⟩ := x
    by_cases h : t = []
    · subst h; cases o <;> simp [List.filter, src, ih]
    · have : (!t.isEmpty) = true := by simp [h]
      cases o <;> simp [List.filter, this, src, ih]

theorem dst_filter (ds : DiffList) : dst (ds.filter fun p => !p.2.isEmpty) = dst ds := by
  induction ds with
  | nil => rfl
  | cons x ds ih =>
    obtain ⟨o, t⟩ := x
    by_cases h : t = []
    · subst h; cases o <;> simp [List.filter, dst, ih]
    · have : (!t.isEmpty) = true := by simp [h]
      cases o <;> simp [List.filter, this, dst, ih]

theorem src_append (a b : DiffList) : src (a ++ b) = src a ++ src b := by
  induction a with
  | nil => rfl
  | cons x a ih => obtain ⟨o, t⟩ := x; cases o <;> simp [src, ih]

theorem dst_append (a b : DiffList) : dst (a ++ b) = dst a ++ dst b := by
  induction a with
  | nil => rfl
  | cons x a ih => obtain ⟨o, t⟩ := x; cases o <;> simp [dst, ih]

theorem take_mid_drop (l : List Str) (a b : Nat) (h : a + b ≤ l.length) :
    l.take a ++ ((l.drop a).take (l.length - a - b) ++ l.drop (l.length - b)) = l := by
  have h1 : (l.drop a).take (l.length - a - b) ++ l.drop (l.length - b) = l.drop a := by
    have : l.drop (l.length - b) = (l.drop a).drop (l.length - a - b) := by
      rw [List.drop_drop]; congr 1; omega
    rw [this, List.take_append_drop]
  rw [h1, List.take_append_drop]

theorem pieces_src (d i : Str) : src (pieces d i) = d := by
  unfold pieces
  simp only [src_filter, src, flat, List.append_nil]
  have h1 := commonPrefixLen_le_left (tokens d) (tokens i)
  have h2 := commonPrefixLen_le_right (tokens d) (tokens i)
  rw [← List.flatten_append, ← List.flatten_append, take_mid_drop _ _ _ (by omega)]
  exact tokens_flatten d

theorem pieces_dst (d i : Str) : dst (pieces d i) = i := by
  unfold pieces
  simp only [dst_filter, dst, flat, List.append_nil]
  have hl := commonPrefixLen_take (tokens d) (tokens i) _ (Nat.le_refl _)
  have ht := commonSuffix_drop (tokens d) (tokens i)
    (min (commonPrefixLen (tokens d).reverse (tokens i).reverse)
      (min (tokens d).length (tokens i).length - commonPrefixLen (tokens d) (tokens i))) (by omega)
  have h1 := commonPrefixLen_le_left (tokens d) (tokens i)
  have h2 := commonPrefixLen_le_right (tokens d) (tokens i)
  rw [hl, ht, ← List.flatten_append, ← List.flatten_append, take_mid_drop _ _ _ (by omega)]
  exact tokens_flatten i

theorem segments_src (dp ip : List Str) (h : compat dp ip = true) : src (segments dp ip) = dp.flatten := by
  fun_induction segments dp ip with
  | case1 d s dr i s' ir ih =>
    simp only [compat, Bool.and_eq_true] at h
    simp [src_append, src, pieces_src, ih h.2]
  | case2 d i => simp [pieces_src]
  | case3 dp ip h1 h2 =>
    exfalso
    unfold compat at h
    split at h
    · exact h2 _ _ rfl rfl
    · exact h1 _ _ _ _ _ _ rfl rfl
    · simp at h

theorem segments_dst (dp ip : List Str) (h : compat dp ip = true) : dst (segments dp ip) = ip.flatten := by
  fun_induction segments dp ip with
  | case1 d s dr i s' ir ih =>
    simp only [compat, Bool.and_eq_true, beq_iff_eq] at h
    simp [dst_append, dst, pieces_dst, ih h.2, h.1]
  | case2 d i => simp [pieces_dst]
  | case3 dp ip h1 h2 =>
    exfalso
    unfold compat at h
    split at h
    · exact h2 _ _ rfl rfl
    · exact h1 _ _ _ _ _ _ rfl rfl
    · simp at h

theorem splitPair_src (d i : Str) (ps : DiffList) (h : splitPair d i = some ps) : src ps = d := by
  unfold splitPair at h
  simp only at h
  split at h
  · rename_i hc
    simp only [Bool.and_eq_true] at hc
    cases h
    rw [segments_src _ _ hc.2, sepSplit_flatten]
  · cases h

theorem splitPair_dst (d i : Str) (ps : DiffList) (h : splitPair d i = some ps) : dst ps = i := by
  unfold splitPair at h
  simp only at h
  split at h
  · rename_i hc
    simp only [Bool.and_eq_true] at hc
    cases h
    rw [segments_dst _ _ hc.2, sepSplit_flatten]
  · cases h

theorem splitDiffs_src (ds : DiffList) : src (splitDiffs ds) = src ds := by
  fun_induction splitDiffs ds with
  | case1 d i rest ps h ih => simp [src_append, src, splitPair_src d i ps h, ih]
  | case2 d i rest h ih => simp [src, ih]
  | case3 x rest hx ih => obtain ⟨o, t⟩ := x; cases o <;> simp [src, ih]
  | case4 => rfl

theorem splitDiffs_dst (ds : DiffList) : dst (splitDiffs ds) = dst ds := by
  fun_induction splitDiffs ds with
  | case1 d i rest ps h ih => simp [dst_append, dst, splitPair_dst d i ps h, ih]
  | case2 d i rest h ih => simp [dst, ih]
  | case3 x rest hx ih => obtain ⟨o, t⟩ := x; cases o <;> simp [dst, ih]
  | case4 => rfl

end Adeu.Diff
