import AdeuModel.Lemmas.ExtractTags
/-
Layer D — one segment list for all three readings of a document's raw view (accepted text, brace-freeness, tagged
characters), so that the accepted view can be stated on the document's own characters:
  accepted view = the characters of `docTagged d` that are not tagged deleted, in order.
-/
namespace Adeu.Doc
open Adeu Adeu.Markup

def Reads3 (raw clean : Str) (T : List TChar) : Prop :=
  ∃ segs : List Seg, raw = render segs ∧ acceptView segs = clean ∧ BraceFree segs ∧ tagsOf segs = T

def keptChars (T : List TChar) : Str := (T.filter fun tc => tc.2 != Tag.del).map (·.1)

/-- for any flat segment list: its accepted reading is what its tagged characters say -/
theorem filter_true' {α} (l : List α) : l.filter (fun _ => true) = l := by
  induction l with
  | nil => rfl
  | cons a r ih => simp [List.filter, ih]

theorem acceptView_eq_kept : ∀ segs : List Seg, acceptView segs = keptChars (tagsOf segs)
  | [] => rfl
  | sg :: rest => by
    have ih := acceptView_eq_kept rest
    have hcons : acceptView (sg :: rest) = sg.accepted ++ acceptView rest := by simp [acceptView]
    have hk : keptChars (tagsOf (sg :: rest)) = keptChars sg.tagged ++ keptChars (tagsOf rest) := by
      simp [keptChars, tagsOf]
    rw [hcons, hk, ih]
    congr 1
    have hp : (Tag.plain != Tag.del) = true := by decide
    have hi : (Tag.ins != Tag.del) = true := by decide
    have hh : (Tag.hl != Tag.del) = true := by decide
    cases sg <;> simp [Seg.accepted, Seg.tagged, keptChars, List.filter_map, Function.comp_def, List.map_map, hp, hi, hh, filter_true']

theorem Reads3.nil : Reads3 [] [] [] := ⟨[], rfl, rfl, (by intro sg h; cases h), rfl⟩
theorem Reads3.plain (s : Str) (hs : ∀ c ∈ s, c ≠ '{' ∧ c ≠ '}') : Reads3 s s (plainT s) :=
  ⟨[.plain s], by simp [Seg.render], by simp [Seg.accepted], (by
    intro sg h c hc
    simp at h; subst h
    exact hs c hc), by simp [Seg.tagged, plainT]⟩
theorem Reads3.append {a a' b b' : Str} {A B : List TChar} (h1 : Reads3 a a' A) (h2 : Reads3 b b' B) :
    Reads3 (a ++ b) (a' ++ b') (A ++ B) := by
  obtain ⟨s1, r1, c1, b1, t1⟩ := h1
  obtain ⟨s2, r2, c2, b2, t2⟩ := h2
  exact ⟨s1 ++ s2, by simp [r1, r2], by simp [c1, c2], BraceFree.append b1 b2, by simp [t1, t2]⟩

theorem Reads3.reads {raw clean : Str} {T : List TChar} (h : Reads3 raw clean T) : Reads raw clean := by
  obtain ⟨segs, r, c, b, _⟩ := h
  exact ⟨segs, r, c, b⟩

inductive All3 (R : α → β → γ → Prop) : List α → List β → List γ → Prop
  | nil : All3 R [] [] []
  | cons {a b c as bs cs} : R a b c → All3 R as bs cs → All3 R (a :: as) (b :: bs) (c :: cs)

theorem All3.get {R : α → β → γ → Prop} {da : α} {db : β} {dc : γ} (hd : R da db dc) :
    ∀ {as : List α} {bs : List β} {cs : List γ}, All3 R as bs cs → ∀ i : Nat,
      R ((as[i]?).getD da) ((bs[i]?).getD db) ((cs[i]?).getD dc)
  | _, _, _, .nil, i => by simpa using hd
  | _, _, _, .cons h t, 0 => by simpa using h
  | _, _, _, .cons h t, i + 1 => by simpa using All3.get hd t i

theorem Reads3.joinWith (sep : Str) (hs : ∀ c ∈ sep, c ≠ '{' ∧ c ≠ '}') :
    ∀ {as bs : List Str} {cs : List (List TChar)}, All3 Reads3 as bs cs →
      Reads3 (joinWith sep as) (joinWith sep bs) (joinT sep cs)
  | _, _, _, .nil => Reads3.nil
  | _, _, _, .cons h .nil => by simpa [Doc.joinWith, joinT] using h
  | _, _, _, .cons h (.cons h2 t) => by
    have ih := Reads3.joinWith sep hs (.cons h2 t)
    simp only [Doc.joinWith, joinT]
    exact (h.append (Reads3.plain sep hs)).append ih

theorem All3.map_fn {R : δ → ε → ζ → Prop} (f : α → δ) (g : α → ε) (k : α → ζ) (h : ∀ x, R (f x) (g x) (k x)) :
    ∀ l : List α, All3 R (l.map f) (l.map g) (l.map k)
  | [] => .nil
  | x :: r => .cons (h x) (All3.map_fn f g k h r)

theorem para_reads3 (cm : CMap) (p : Para) (h : braceFreeB (rawSegs cm p) = true) :
    Reads3 (paraText false cm p) (paraText true cm p) (taggedSpec [] [] [] (items p)) :=
  ⟨rawSegs cm p, paraText_raw_render cm p, rawSegs_accept cm p, braceFree_of_B h, rawSegs_tagged cm p⟩

theorem table_reads3 (cm : CMap) (rows : List Row)
    (h : All3 (All3 Reads3) (rowsCellTexts false cm rows) (rowsCellTexts true cm rows) (rowsCellTagged cm rows)) :
    Reads3 (tableText false cm rows) (tableText true cm rows) (tableTagged cm rows) := by
  unfold tableText tableTagged
  simp only
  apply Reads3.joinWith _ (by decide)
  apply All3.map_fn
  intro ri
  apply Reads3.joinWith _ (by decide)
  apply All3.map_fn
  intro rc
  obtain ⟨r, c⟩ := rc
  simp only
  exact All3.get Reads3.nil (All3.get (R := All3 Reads3) (da := []) (db := []) (dc := []) .nil h r) c

mutual
  theorem blocks_reads3 (cm : CMap) : ∀ (bs : List Block), domBlocks cm bs = true →
      All3 Reads3 (blocksText false cm bs) (blocksText true cm bs) (blocksTagged cm bs)
    | [], _ => by simp only [blocksText, blocksTagged]; exact .nil
    | .para p :: rest, h => by
      simp only [domBlocks, Bool.and_eq_true] at h
      simp only [blocksText, blocksTagged]
      exact .cons ((Reads3.plain _ (paraPrefix_braceFree p)).append (para_reads3 cm p h.1)) (blocks_reads3 cm rest h.2)
    | .table pr g rows :: rest, h => by
      simp only [domBlocks, Bool.and_eq_true, Bool.or_eq_true, Bool.not_eq_true'] at h
      obtain ⟨⟨he, hr⟩, hb⟩ := h
      have ht := table_reads3 cm rows (rows_reads3 cm rows hr)
      have ih := blocks_reads3 cm rest hb
      simp only [blocksText, blocksTagged]
      by_cases hraw : (tableText false cm rows).isEmpty = true
      · have hclean : tableText true cm rows = [] := ht.reads.clean_nil (by simpa using hraw)
        simp only [hraw, ↓reduceIte, hclean, List.isEmpty_nil]
        exact ih
      · have hclean : (tableText true cm rows).isEmpty = false := by
          rcases he with he | he
          · exact he
          · exact absurd he hraw
        simp only [hraw, hclean, Bool.false_eq_true, ↓reduceIte]
        exact .cons ht ih
    | .other x :: rest, h => by
      simp only [domBlocks] at h
      simp only [blocksText, blocksTagged]
      exact blocks_reads3 cm rest h
  theorem rows_reads3 (cm : CMap) : ∀ (rows : List Row), domRows cm rows = true →
      All3 (All3 Reads3) (rowsCellTexts false cm rows) (rowsCellTexts true cm rows) (rowsCellTagged cm rows)
    | [], _ => by simp only [rowsCellTexts, rowsCellTagged]; exact .nil
    | .mk pr cells :: rest, h => by
      simp only [domRows, Bool.and_eq_true] at h
      simp only [rowsCellTexts, rowsCellTagged]
      exact .cons (cells_reads3 cm cells h.1) (rows_reads3 cm rest h.2)
  theorem cells_reads3 (cm : CMap) : ∀ (cells : List Cell), domCells cm cells = true →
      All3 Reads3 (cellsTexts false cm cells) (cellsTexts true cm cells) (cellsTagged cm cells)
    | [], _ => by simp only [cellsTexts, cellsTagged]; exact .nil
    | .mk pr s v blocks :: rest, h => by
      simp only [domCells, Bool.and_eq_true] at h
      simp only [cellsTexts, cellsTagged]
      exact .cons (Reads3.joinWith _ (by decide) (blocks_reads3 cm blocks h.1)) (cells_reads3 cm rest h.2)
end

theorem parts_reads3 (cm : CMap) : ∀ parts : List (List Block),
    (parts.all fun bs => domBlocks cm bs && (!(containerText true cm bs).isEmpty || (containerText false cm bs).isEmpty)) = true →
    All3 Reads3 ((parts.map (containerText false cm)).filter (!·.isEmpty)) ((parts.map (containerText true cm)).filter (!·.isEmpty))
      ((parts.filter fun bs => !(containerText false cm bs).isEmpty).map fun bs => joinT ['\n', '\n'] (blocksTagged cm bs))
  | [], _ => .nil
  | bs :: rest, h => by
    simp only [List.all_cons, Bool.and_eq_true, Bool.or_eq_true, Bool.not_eq_true'] at h
    obtain ⟨⟨hd, he⟩, hr⟩ := h
    have ih := parts_reads3 cm rest hr
    have hb : Reads3 (containerText false cm bs) (containerText true cm bs) (joinT ['\n', '\n'] (blocksTagged cm bs)) :=
      Reads3.joinWith _ (by decide) (blocks_reads3 cm bs hd)
    simp only [List.map_cons, List.filter_cons]
    by_cases hraw : (containerText false cm bs).isEmpty = true
    · have hclean : containerText true cm bs = [] := hb.reads.clean_nil (by simpa using hraw)
      simp only [hraw, hclean, List.isEmpty_nil, Bool.not_true, Bool.false_eq_true, ↓reduceIte]
      exact ih
    · have hclean : (containerText true cm bs).isEmpty = false := by
        rcases he with he | he
        · exact he
        · exact absurd he hraw
      simp only [hraw, hclean, Bool.not_false, ↓reduceIte, List.map_cons]
      exact .cons hb ih

theorem doc_reads3 (d : Document) (h : domDoc d = true) : Reads3 (extractText false d) (extractText true d) (docTagged d) := by
  unfold extractText docTagged
  exact Reads3.joinWith _ (by decide) (parts_reads3 (commentsMap d) (docParts d) h)

/-- **Completeness of the accepted view, whole documents** (domain `domDoc`): the accepted view is, character for character
and in document order, the characters of the document's tagged text that are not tagged deleted - every run's formatted
segment outside deletions, heading prefixes and separators; no annotation, nothing else. -/
theorem extractText_clean_eq_kept (d : Document) (h : domDoc d = true) : extractText true d = keptChars (docTagged d) := by
  obtain ⟨segs, _, c, _, t⟩ := doc_reads3 d h
  rw [← c, ← t]
  exact acceptView_eq_kept segs

end Adeu.Doc
