import AdeuModel.Lemmas.ExtractRaw
import AdeuModel.Model.Review
/-
Layer D — a paragraph without revision marks and comment ranges reads the same in both views: its raw view has
no wrapper and no metadata block.  (What is left after accept-all / after every change was resolved.)
-/
namespace Adeu.Doc
open Adeu Adeu.Markup

def emptySnap : Snap := { ins := [], del := [], comments := [] }

/-- items that open or close nothing: runs and reference events -/
def quietItem : Item → Bool
  | .run _ _ => true
  | .ev .ref _ _ => true
  | _ => false

def isPlainSeg : Seg → Bool | .plain _ => true | _ => false

theorem metaBlock_empty (cm : CMap) : ∀ states : List Snap, (∀ s ∈ states, s = emptySnap) → metaBlock cm states = [] := by
  intro states h
  unfold metaBlock
  have : ∀ (l : List Snap) (acc : List Str × List Str × List Str), (∀ s ∈ l, s = emptySnap) →
      l.foldl (fun (acc : List Str × List Str × List Str) (s : Snap) =>
        let (chg, com, seen) := acc
        let (chg, seen) := (s.ins ++ s.del).foldl (fun (acc : List Str × List Str) p =>
          let sig := "Chg:".toList ++ p.1
          if acc.2.contains sig then acc
          else (acc.1 ++ [['['] ++ sig ++ [']', ' '] ++ ((truthy p.2).getD "Unknown".toList)], acc.2 ++ [sig])) (chg, seen)
        let (com, seen) := (sortBy id s.comments).foldl (fun acc root => renderComment cm (cm.length + 1) root acc) (com, seen)
        (chg, com, seen)) acc = acc := by
    intro l
    induction l with
    | nil => intro acc _; rfl
    | cons s rest ih =>
      intro acc hs
      have hse : s = emptySnap := hs s (by simp)
      simp only [List.foldl_cons]
      rw [hse]
      simp only [emptySnap, List.append_nil, List.foldl_nil, sortBy]
      exact ih acc (fun x hx => hs x (by simp [hx]))
  simp only [this states ([], [], []) h]
  rfl

/-- invariant of the ghost walk over quiet items -/
structure Quiet (g : List Seg) (s : PSt) : Prop where
  plain : ∀ sg ∈ g, isPlainSeg sg = true
  wr : s.wr = nW
  ins : s.ins = []
  del : s.del = []
  comments : s.comments = []
  deferred : ∀ x ∈ s.deferred, x = emptySnap

theorem segOf_nW (t : Str) : segOf nW t = .plain t := by
  simp [segOf, nW, dW, iW, hW]

theorem Quiet.flush {g : List Seg} {s : PSt} (h : Quiet g s) : Quiet (gFlush g s) s.flush := by
  unfold gFlush PSt.flush
  by_cases hp : s.pending.isEmpty = true
  · simpa [hp] using h
  · simp only [hp, Bool.false_eq_true, ↓reduceIte]
    refine ⟨?_, rfl, h.ins, h.del, h.comments, h.deferred⟩
    intro sg hsg
    rcases List.mem_append.1 hsg with h1 | h1
    · exact h.plain sg h1
    · simp only [List.mem_singleton] at h1
      rw [h1, h.wr, segOf_nW]; rfl

theorem wrappers_quiet : wrappers [] [] [] = nW := by simp [wrappers, nW]

theorem Quiet.step (cm : CMap) {g : List Seg} {s : PSt} (h : Quiet g s) (it : Item) (rest : List Item)
    (hq : quietItem it = true) : Quiet (gStep cm g s it rest) (paraStep false cm s it rest) := by
  cases it with
  | ev ty id a =>
    cases ty <;> simp [quietItem] at hq
    have hf := h.flush
    simp only [gStep, paraStep, applyEv]
    exact hf
  | run r loc =>
    simp only [gStep, paraStep, Bool.false_and, Bool.false_eq_true, ↓reduceIte]
    split
    · exact h
    · -- push with the empty wrappers, then the metadata step: not a redline, flush and an empty block
      simp only [h.ins, h.del, h.comments, wrappers_quiet]
      have hpush : Quiet (gPush g s nW) (s.push (applyFormatting (runText r) (runMarkers r).1 (runMarkers r).2) nW) := by
        unfold gPush PSt.push
        by_cases hc : (!s.pending.isEmpty && nW = s.wr) = true
        · simp only [hc, ↓reduceIte]
          exact ⟨h.plain, h.wr, h.ins, h.del, h.comments, h.deferred⟩
        · simp only [hc, Bool.false_eq_true, ↓reduceIte]
          have hf := h.flush
          by_cases hp : s.pending.isEmpty = true
          · have hg : gFlush g s = g := gFlush_of_pending_nil g s (by simpa using hp)
            simp only [hp, ↓reduceIte, hg]
            exact ⟨h.plain, rfl, h.ins, h.del, h.comments, h.deferred⟩
          · simp only [hp, Bool.false_eq_true, ↓reduceIte]
            exact ⟨hf.plain, rfl, h.ins, h.del, h.comments, h.deferred⟩
      generalize (gPush g s nW) = g1 at hpush
      generalize (s.push (applyFormatting (runText r) (runMarkers r).1 (runMarkers r).2) nW) = s1 at hpush
      unfold gMeta PSt.meta
      simp only [hpush.ins, hpush.del, hpush.comments, List.isEmpty_nil, Bool.not_true, Bool.or_self, Bool.false_and,
        Bool.false_eq_true, ↓reduceIte]
      have hdef : ∀ x ∈ s1.deferred ++ [{ ins := [], del := [], comments := [] }], x = emptySnap := by
        intro x hx
        rcases List.mem_append.1 hx with h1 | h1
        · exact hpush.deferred x h1
        · simpa [emptySnap] using h1
      have hq2 : Quiet g1
          ({ s1 with deferred := s1.deferred ++ [{ ins := [], del := [], comments := [] }], ins := [], del := [], comments := [] } : PSt) :=
        ⟨hpush.plain, hpush.wr, rfl, rfl, rfl, hdef⟩
      have hf := hq2.flush
      have hmb : metaBlock cm (s1.deferred ++ [{ ins := [], del := [], comments := [] }]) = [] := metaBlock_empty cm _ hdef
      simp only [PSt.flush_deferred, hmb]
      refine ⟨?_, (by simpa using hf.wr), (by simpa using hf.ins), (by simpa using hf.del), (by simpa using hf.comments),
        (by intro x hx; cases hx)⟩
      intro sg hsg
      simp only [noteSegs, List.isEmpty_nil, ↓reduceIte, List.append_nil] at hsg
      exact hf.plain sg hsg

theorem Quiet.loop (cm : CMap) : ∀ (its : List Item) (g : List Seg) (s : PSt), Quiet g s → (∀ it ∈ its, quietItem it = true) →
    Quiet (gLoop cm g s its).1 (gLoop cm g s its).2 := by
  intro its
  induction its with
  | nil => intro g s h _; exact h
  | cons it rest ih =>
    intro g s h hq
    simp only [gLoop]
    exact ih _ _ (h.step cm it rest (hq it (by simp))) (fun x hx => hq x (by simp [hx]))

theorem render_plain : ∀ segs : List Seg, (∀ sg ∈ segs, isPlainSeg sg = true) → render segs = acceptView segs
  | [], _ => rfl
  | sg :: rest, h => by
    have ih := render_plain rest (fun x hx => h x (by simp [hx]))
    have hs := h sg (by simp)
    cases sg <;> simp [isPlainSeg] at hs
    simp only [render, acceptView, List.map_cons, List.flatten_cons, Seg.render, Seg.accepted] at ih ⊢
    rw [ih]

/-- A paragraph whose content opens no insertion, deletion or comment range reads the same in the raw and in the
accepted view: no wrapper, no metadata block. -/
theorem paraText_quiet (cm : CMap) (p : Para) (hq : ∀ it ∈ items p, quietItem it = true) :
    paraText false cm p = paraText true cm p := by
  rw [paraText_raw_render, ← rawSegs_accept]
  apply render_plain
  have hl := Quiet.loop cm (items p) [] {} ⟨(by intro sg h; cases h), rfl, rfl, rfl, rfl, (by intro x h; cases h)⟩ hq
  have hf := hl.flush
  unfold rawSegs
  simp only
  split
  · exact hf.plain
  · intro sg hsg
    rcases List.mem_append.1 hsg with h1 | h1
    · exact hf.plain sg h1
    · rw [metaBlock_empty cm _ hl.deferred] at h1
      simp [noteSegs] at h1

end Adeu.Doc

namespace Adeu.Doc
open Adeu

def quietNode : Node → Bool
  | .run _ | .proof _ | .hl _ _ | .other _ => true
  | _ => false

theorem processRun_quiet (st : FieldSt) (r : Run) (loc : Loc) : ∀ it ∈ (processRun st r loc).2, quietItem it = true := by
  intro it hit
  simp only [processRun, List.mem_append, List.mem_filterMap] at hit
  rcases hit with ⟨a, _, ha⟩ | hit
  · cases a <;> simp at ha
    obtain ⟨_, rfl⟩ := ha
    rfl
  · have : it = Item.run r loc := by
      split at hit <;> (split at hit <;> simp at hit <;> first | exact hit | exact hit.2)
    subst this; rfl

theorem itemsFrom_quiet : ∀ (nodes : List Node) (st : FieldSt) (k : Nat), (∀ n ∈ nodes, quietNode n = true) →
    ∀ it ∈ itemsFrom st nodes k, quietItem it = true := by
  intro nodes
  induction nodes with
  | nil => intro st k _ it hit; simp [itemsFrom] at hit
  | cons n rest ih =>
    intro st k h it hit
    simp only [itemsFrom, List.mem_append] at hit
    rcases hit with hit | hit
    · have hn := h n (by simp)
      cases n <;> simp [quietNode] at hn
      · exact processRun_quiet _ _ _ it (by simpa [nodeItems] using hit)
      · simp [nodeItems] at hit
      · simp [nodeItems] at hit
      · simp [nodeItems] at hit
    · exact ih _ _ (fun x hx => h x (by simp [hx])) it hit

/-- what accept-all leaves of a paragraph's children opens nothing -/
theorem acceptAll_nodes_quiet (ns : List Node) : ∀ n ∈ (ns.flatMap acceptAllN).flatMap stripCommentN, quietNode n = true := by
  intro n hn
  simp only [List.mem_flatMap] at hn
  obtain ⟨m, ⟨o, _, hm⟩, hn⟩ := hn
  cases o with
  | ins rev ch =>
    simp only [acceptAllN, List.mem_map] at hm
    obtain ⟨c, _, rfl⟩ := hm
    cases c <;> simp [InsChild.toNode, stripCommentN] at hn <;> (try subst hn) <;> rfl
  | del rev runs => simp [acceptAllN] at hm
  | run r => simp [acceptAllN] at hm; subst hm; simp [stripCommentN] at hn; subst hn; rfl
  | cs id => simp [acceptAllN] at hm; subst hm; simp [stripCommentN] at hn
  | ce id => simp [acceptAllN] at hm; subst hm; simp [stripCommentN] at hn
  | proof ty => simp [acceptAllN] at hm; subst hm; simp [stripCommentN] at hn; subst hn; rfl
  | hl a rs => simp [acceptAllN] at hm; subst hm; simp [stripCommentN] at hn; subst hn; rfl
  | other x => simp [acceptAllN] at hm; subst hm; simp [stripCommentN] at hn; subst hn; rfl

/-- After accept-all a paragraph's raw view is its accepted view: no wrapper, no metadata is left. -/
theorem paraText_acceptAll (cm : CMap) (p : Para) :
    paraText false cm { p with nodes := (p.nodes.flatMap acceptAllN).flatMap stripCommentN } =
      paraText true cm { p with nodes := (p.nodes.flatMap acceptAllN).flatMap stripCommentN } :=
  paraText_quiet cm _ (itemsFrom_quiet _ _ _ (acceptAll_nodes_quiet p.nodes))

end Adeu.Doc

namespace Adeu.Doc
open Adeu

mutual
  theorem blocks_quiet (cm : CMap) : ∀ (bs : List Block), (∀ n ∈ allNodesBlocks bs, quietNode n = true) →
      blocksText false cm bs = blocksText true cm bs
    | [], _ => by simp only [blocksText]
    | .para p :: rest, h => by
      simp only [allNodesBlocks, List.mem_append] at h
      simp only [blocksText]
      rw [paraText_quiet cm p (itemsFrom_quiet _ _ _ (fun n hn => h n (Or.inl hn))),
        blocks_quiet cm rest (fun n hn => h n (Or.inr hn))]
    | .table pr g rows :: rest, h => by
      simp only [allNodesBlocks, List.mem_append] at h
      have hr := rows_quiet cm rows (fun n hn => h n (Or.inl hn))
      have ht : tableText false cm rows = tableText true cm rows := by
        unfold tableText; rw [hr]
      simp only [blocksText, ht, blocks_quiet cm rest (fun n hn => h n (Or.inr hn))]
    | .other x :: rest, h => by
      simp only [allNodesBlocks] at h
      simp only [blocksText]
      exact blocks_quiet cm rest h
  theorem rows_quiet (cm : CMap) : ∀ (rows : List Row), (∀ n ∈ allNodesRows rows, quietNode n = true) →
      rowsCellTexts false cm rows = rowsCellTexts true cm rows
    | [], _ => by simp only [rowsCellTexts]
    | .mk pr cells :: rest, h => by
      simp only [allNodesRows, List.mem_append] at h
      simp only [rowsCellTexts]
      rw [cells_quiet cm cells (fun n hn => h n (Or.inl hn)), rows_quiet cm rest (fun n hn => h n (Or.inr hn))]
  theorem cells_quiet (cm : CMap) : ∀ (cells : List Cell), (∀ n ∈ allNodesCells cells, quietNode n = true) →
      cellsTexts false cm cells = cellsTexts true cm cells
    | [], _ => by simp only [cellsTexts]
    | .mk pr s v blocks :: rest, h => by
      simp only [allNodesCells, List.mem_append] at h
      simp only [cellsTexts]
      rw [blocks_quiet cm blocks (fun n hn => h n (Or.inl hn)), cells_quiet cm rest (fun n hn => h n (Or.inr hn))]
end

mutual
  theorem allNodes_mapNodes (f : List Node → List Node) (hf : ∀ ns, ∀ n ∈ f ns, quietNode n = true) :
      ∀ (bs : List Block), ∀ n ∈ allNodesBlocks (mapNodesBlocks f bs), quietNode n = true
    | [], n, hn => by simp [mapNodesBlocks, allNodesBlocks] at hn
    | .para p :: rest, n, hn => by
      simp only [mapNodesBlocks, allNodesBlocks, List.mem_append] at hn
      rcases hn with h | h
      · exact hf p.nodes n h
      · exact allNodes_mapNodes f hf rest n h
    | .table pr g rows :: rest, n, hn => by
      simp only [mapNodesBlocks, allNodesBlocks, List.mem_append] at hn
      rcases hn with h | h
      · exact allNodesRows_mapNodes f hf rows n h
      · exact allNodes_mapNodes f hf rest n h
    | .other x :: rest, n, hn => by
      simp only [mapNodesBlocks, allNodesBlocks] at hn
      exact allNodes_mapNodes f hf rest n hn
  theorem allNodesRows_mapNodes (f : List Node → List Node) (hf : ∀ ns, ∀ n ∈ f ns, quietNode n = true) :
      ∀ (rows : List Row), ∀ n ∈ allNodesRows (mapNodesRows f rows), quietNode n = true
    | [], n, hn => by simp [mapNodesRows, allNodesRows] at hn
    | .mk pr cells :: rest, n, hn => by
      simp only [mapNodesRows, allNodesRows, List.mem_append] at hn
      rcases hn with h | h
      · exact allNodesCells_mapNodes f hf cells n h
      · exact allNodesRows_mapNodes f hf rest n h
  theorem allNodesCells_mapNodes (f : List Node → List Node) (hf : ∀ ns, ∀ n ∈ f ns, quietNode n = true) :
      ∀ (cells : List Cell), ∀ n ∈ allNodesCells (mapNodesCells f cells), quietNode n = true
    | [], n, hn => by simp [mapNodesCells, allNodesCells] at hn
    | .mk pr s v blocks :: rest, n, hn => by
      simp only [mapNodesCells, allNodesCells, List.mem_append] at hn
      rcases hn with h | h
      · exact allNodes_mapNodes f hf blocks n h
      · exact allNodesCells_mapNodes f hf rest n h
end

/-- After accept-all the raw view of the main story (paragraphs, nested tables) is its accepted view. -/
theorem containerText_acceptAll (cm : CMap) (body : List Block) :
    containerText false cm (acceptAll body) = containerText true cm (acceptAll body) := by
  unfold containerText acceptAll
  rw [blocks_quiet cm _ (allNodes_mapNodes _ (fun ns => acceptAll_nodes_quiet ns) body)]

end Adeu.Doc
