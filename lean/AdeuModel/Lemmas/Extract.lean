import AdeuModel.Model.Extract
namespace Adeu.Doc
open Adeu

/-- Specification of the accepted view of one paragraph: every run that is not inside a deletion
contributes its formatted segment, exactly once, in document order; nothing else appears. -/
def cleanSegs : RevMap → List Item → Str
  | _, [] => []
  | del, .run r _ :: rest =>
    (if !del.isEmpty then [] else applyFormatting (runText r) (runMarkers r).1 (runMarkers r).2) ++ cleanSegs del rest
  | del, .ev ty id a :: rest =>
    match ty with
    | .delStart => cleanSegs (revSet id a del) rest
    | .delEnd => cleanSegs (revDel id del) rest
    | _ => cleanSegs del rest

/-- accumulated output of a state whose wrappers are empty -/
def PSt.text (s : PSt) : Str := s.out ++ s.pending

theorem PSt.flush_text (s : PSt) (h : s.wr = ([], [])) : s.flush.text = s.text := by
  unfold PSt.flush PSt.text
  split
  · rfl
  · simp [h]

theorem PSt.flush_wr (s : PSt) (h : s.wr = ([], [])) : s.flush.wr = ([], []) := by
  unfold PSt.flush; split <;> simp [h]

theorem PSt.flush_del (s : PSt) : s.flush.del = s.del := by unfold PSt.flush; split <;> rfl
theorem PSt.flush_deferred (s : PSt) : s.flush.deferred = s.deferred := by unfold PSt.flush; split <;> rfl

theorem push_clean_text (s : PSt) (seg : Str) (h : s.wr = ([], [])) :
    (s.push seg ([], [])).text = s.text ++ seg ∧ (s.push seg ([], [])).wr = ([], []) ∧
    (s.push seg ([], [])).del = s.del ∧ (s.push seg ([], [])).deferred = s.deferred := by
  unfold PSt.push PSt.text
  cases hp : s.pending with
  | nil => simp [h]
  | cons a b => simp [h, List.append_assoc]

theorem ev_clean (s : PSt) (ty : EvTy) (id : Str) (a : Option Str) (h : s.wr = ([], [])) :
    (applyEv s.flush ty id a).text = s.text ∧ (applyEv s.flush ty id a).wr = ([], []) ∧
    (applyEv s.flush ty id a).deferred = s.deferred ∧
    (applyEv s.flush ty id a).del =
      (match ty with | .delStart => revSet id a s.del | .delEnd => revDel id s.del | _ => s.del) := by
  have hf := PSt.flush_text s h
  have hw := PSt.flush_wr s h
  have hdel := PSt.flush_del s
  have hdef := PSt.flush_deferred s
  unfold PSt.text at hf ⊢
  cases ty <;> simp [applyEv, hf, hw, hdel, hdef]

theorem cleanLoop (cm : CMap) : ∀ (its : List Item) (s : PSt), s.wr = ([], []) → s.deferred = [] →
    (paraLoop true cm s its).flush.text = s.text ++ cleanSegs s.del its ∧
    (paraLoop true cm s its).deferred = [] := by
  intro its
  induction its with
  | nil =>
    intro s h hd
    simp [paraLoop, cleanSegs, PSt.flush_text s h, hd]
  | cons it rest ih =>
    intro s h hd
    simp only [paraLoop]
    cases it with
    | ev ty id a =>
      obtain ⟨ht, hw, hdf, hdl⟩ := ev_clean s ty id a h
      have := ih (applyEv s.flush ty id a) hw (by rw [hdf]; exact hd)
      simp only [paraStep]
      rw [this.1, ht, hdl]
      refine ⟨?_, this.2⟩
      cases ty <;> simp [cleanSegs]
    | run r loc =>
      simp only [paraStep, Bool.true_and, ↓reduceIte]
      by_cases hdel : (!s.del.isEmpty) = true
      · simp only [hdel, ↓reduceIte]
        have := ih s h hd
        rw [this.1]
        exact ⟨by simp [cleanSegs, hdel], this.2⟩
      · simp only [hdel, Bool.false_eq_true, ↓reduceIte]
        by_cases hseg : (applyFormatting (runText r) (runMarkers r).1 (runMarkers r).2).isEmpty = true
        · simp only [hseg, ↓reduceIte]
          have := ih s h hd
          rw [this.1]
          have he : applyFormatting (runText r) (runMarkers r).1 (runMarkers r).2 = [] := by simpa using hseg
          exact ⟨by simp [cleanSegs, hdel, he], this.2⟩
        · simp only [hseg, Bool.false_eq_true, ↓reduceIte]
          obtain ⟨ht, hw, hdl, hdf⟩ := push_clean_text s (applyFormatting (runText r) (runMarkers r).1 (runMarkers r).2) h
          have := ih _ hw (by rw [hdf]; exact hd)
          rw [this.1, ht, hdl]
          exact ⟨by simp [cleanSegs, hdel, List.append_assoc], this.2⟩

/-- The accepted view of a paragraph is exactly the formatted segments of its non-deleted runs. -/
theorem paraText_clean (cm : CMap) (p : Para) : paraText true cm p = cleanSegs [] (items p) := by
  have h := cleanLoop cm (items p) {} rfl rfl
  unfold paraText
  simp only
  have hd : (paraLoop true cm {} (items p)).flush.deferred = [] := by
    rw [PSt.flush_deferred]; exact h.2
  simp only [hd, List.isEmpty_nil, ↓reduceIte]
  have h1 := h.1
  unfold PSt.text at h1
  -- after the final flush nothing is pending
  have hp : (paraLoop true cm {} (items p)).flush.pending = [] := by
    unfold PSt.flush; split
    · rename_i hh; simpa using hh
    · rfl
  rw [hp] at h1
  simpa using h1

end Adeu.Doc

namespace Adeu.Doc
open Adeu

theorem splitNl_noNl_self (a : Str) (h : '\n' ∉ a) : splitNl a = [a] := by
  induction a with
  | nil => rfl
  | cons c r ih =>
    have hc : c ≠ '\n' := fun e => h (by simp [e])
    have hr : '\n' ∉ r := fun e => h (by simp [e])
    simp [splitNl, ih hr, hc]

theorem splitNl_append (a b : Str) (h : '\n' ∉ a) : splitNl (a ++ '\n' :: b) = a :: splitNl b := by
  induction a with
  | nil =>
    simp only [List.nil_append, splitNl]
    split
    · rename_i hh; exact absurd hh (by
        induction b with
        | nil => simp [splitNl]
        | cons c r _ => simp only [splitNl]; split <;> (try split) <;> simp)
    · rename_i hh; simp [hh]
  | cons c r ih =>
    have hc : c ≠ '\n' := fun e => h (by simp [e])
    have hr : '\n' ∉ r := fun e => h (by simp [e])
    simp only [List.cons_append, splitNl, ih hr, hc, ↓reduceIte]

theorem splitNl_joinWith : ∀ parts : List Str, parts ≠ [] → (∀ x ∈ parts, '\n' ∉ x) →
    splitNl (joinWith ['\n'] parts) = parts
  | [], h, _ => absurd rfl h
  | [x], _, hx => by simpa [joinWith] using splitNl_noNl_self x (hx x (by simp))
  | x :: y :: r, _, hx => by
    have ih := splitNl_joinWith (y :: r) (by simp) (fun z hz => hx z (by simp [hz]))
    simp only [joinWith_eq]
    rw [List.append_assoc, List.singleton_append, splitNl_append x _ (hx x (by simp)), ih]
where
  joinWith_eq {x y : Str} {r : List Str} : joinWith ['\n'] (x :: y :: r) = x ++ ['\n'] ++ joinWith ['\n'] (y :: r) := rfl

theorem splitNl_parts_noNl (t : Str) : ∀ x ∈ splitNl t, '\n' ∉ x := by
  induction t with
  | nil => intro x hx; simp [splitNl] at hx; subst hx; simp
  | cons c r ih =>
    intro x hx
    simp only [splitNl] at hx
    split at hx
    · simp at hx; subst hx; simp
    · rename_i hd tl hs
      rw [hs] at ih
      by_cases hc : c = '\n'
      · simp [hc] at hx
        rcases hx with hx | hx | hx
        · subst hx; simp
        · subst hx; exact ih _ (by simp)
        · exact ih x (by simp [hx])
      · simp [hc] at hx
        rcases hx with hx | hx
        · subst hx
          intro hm
          simp at hm
          rcases hm with hm | hm
          · exact hc hm.symm
          · exact ih hd (by simp) hm
        · exact ih x (by simp [hx])

/-- Bold/italic markers never enclose a line break: every line of a formatted segment is either
empty or one newline-free piece of the run's text between the two markers. -/
theorem applyFormatting_lines (t pre suf : Str) (hm : ¬ (pre.isEmpty ∧ suf.isEmpty))
    (hp : '\n' ∉ pre) (hs : '\n' ∉ suf) (ht : t ≠ []) :
    splitNl (applyFormatting t pre suf) =
      (splitNl t).map fun p => if p.isEmpty then [] else pre ++ p ++ suf := by
  unfold applyFormatting
  have hm' : (pre.isEmpty && suf.isEmpty) = false := by
    simpa [Bool.and_eq_true] using hm
  have ht' : t.isEmpty = false := by simpa using ht
  simp only [hm', ht', Bool.false_eq_true, ↓reduceIte]
  by_cases hn : t.contains '\n' = true
  · simp only [hn, Bool.not_true, Bool.false_eq_true, ↓reduceIte]
    apply splitNl_joinWith
    · have := splitNl_ne_nil' t; simpa using this
    · intro x hx
      simp only [List.mem_map] at hx
      obtain ⟨p, hp', rfl⟩ := hx
      have := splitNl_parts_noNl t p hp'
      split
      · simp
      · simp [hp, hs, this]
  · have hn' : t.contains '\n' = false := by simpa using hn
    have hnot : '\n' ∉ t := by simpa using hn'
    simp only [hn', Bool.not_false, ↓reduceIte, splitNl_noNl_self t hnot, List.map_cons, List.map_nil, ht']
    exact splitNl_noNl_self _ (by simp [hp, hs, hnot])
where
  splitNl_ne_nil' (t : Str) : splitNl t ≠ [] := by
    induction t with
    | nil => simp [splitNl]
    | cons c r ih => simp only [splitNl]; split <;> (try split) <;> simp

end Adeu.Doc
