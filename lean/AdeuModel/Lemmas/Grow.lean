import AdeuModel.Lemmas.Frame
namespace Adeu.Doc
open Adeu

/-! ### the skeleton of a story: everything except the paragraph children -/

def isStruct : DItem → Bool
  | .c _ => false
  | _ => true

def skel (bs : List Block) : List DItem := (streamBlocks bs).filter isStruct
def skelRows (rs : List Row) : List DItem := (streamRows rs).filter isStruct
def skelCells (cs : List Cell) : List DItem := (streamCells cs).filter isStruct

theorem filter_map_c (l : List CItem) : (l.map DItem.c).filter isStruct = [] := by
  induction l with
  | nil => rfl
  | cons a r ih => simp [List.filter, isStruct, ih]

theorem skel_cons (b : Block) (bs : List Block) : skel (b :: bs) = skel [b] ++ skel bs := by
  unfold skel; rw [streamBlocks_cons, List.filter_append]

theorem skel_para (p : Para) : skel [.para p] = [.paraOpen p.style p.ppr, .paraClose] := by
  simp [skel, streamBlocks, List.filter_append, filter_map_c, List.filter, isStruct]

theorem skel_append (a b : List Block) : skel (a ++ b) = skel a ++ skel b := by
  induction a with
  | nil => simp [skel, streamBlocks]
  | cons x r ih => rw [List.cons_append, skel_cons, skel_cons x r, ih, List.append_assoc]

/-- a paragraph update that keeps the paragraph's own properties (it may change children and add paragraphs behind) -/
def ParaKeep (f : Para → Para × List Block) : Prop := ∀ p, (f p).1.style = p.style ∧ (f p).1.ppr = p.ppr

mutual
  theorem skel_modBlocks (f : Para → Para × List Block) (hf : ParaKeep f) :
      ∀ (path : List Nat) (bs : List Block), (skel bs).Sublist (skel (modBlocks f path bs))
    | [], bs => by simp [modBlocks]
    | _ :: _, [] => by simp [modBlocks]
    | 0 :: rest, .para p :: bs => by
      cases rest with
      | nil =>
        obtain ⟨h2, h3⟩ := hf p
        simp only [modBlocks]
        rw [skel_append, skel_cons, skel_cons (.para (f p).1), skel_para, skel_para, h2, h3, List.append_assoc]
        exact List.Sublist.append_left (List.sublist_append_right _ _) _
      | cons a r => simp [modBlocks]
    | 0 :: rest, .table pr g rows :: bs => by
      match rest with
      | [] => simp [modBlocks]
      | [_] => simp [modBlocks]
      | ri :: ci :: more =>
        simp only [modBlocks]
        rw [skel_cons, skel_cons (.table pr g (modRows f ri ci more rows))]
        apply List.Sublist.append_right
        have := skelRows_modRows f hf ri ci more rows
        simp only [skel, skelRows, streamBlocks, List.filter_append, List.filter_cons, isStruct, List.filter_nil, ite_true,
          List.append_nil] at this ⊢
        exact List.Sublist.cons_cons _ (List.Sublist.append_right this _)
    | 0 :: rest, .other x :: bs => by simp [modBlocks]
    | (k + 1) :: rest, b :: bs => by
      simp only [modBlocks]
      rw [skel_cons, skel_cons b (modBlocks f (k :: rest) bs)]
      exact List.Sublist.append_left (skel_modBlocks f hf (k :: rest) bs) _
  theorem skelRows_modRows (f : Para → Para × List Block) (hf : ParaKeep f) :
      ∀ (ri ci : Nat) (more : List Nat) (rows : List Row), (skelRows rows).Sublist (skelRows (modRows f ri ci more rows))
    | _, _, _, [] => by simp [modRows]
    | 0, ci, more, .mk pr cells :: rs => by
      have := skelCells_modCells f hf ci more cells
      simp only [modRows, skelRows, skelCells, streamRows, List.filter_append, List.filter_cons, isStruct, List.filter_nil,
        ite_true] at this ⊢
      exact List.Sublist.cons_cons _ (List.Sublist.append (List.Sublist.append this (List.Sublist.refl _)) (List.Sublist.refl _))
    | k + 1, ci, more, .mk pr cells :: rs => by
      have := skelRows_modRows f hf k ci more rs
      simp only [modRows, skelRows, streamRows, List.filter_append, List.filter_cons, isStruct, List.filter_nil, ite_true] at this ⊢
      exact List.Sublist.cons_cons _ (List.Sublist.append_left this _)
  theorem skelCells_modCells (f : Para → Para × List Block) (hf : ParaKeep f) :
      ∀ (ci : Nat) (more : List Nat) (cells : List Cell), (skelCells cells).Sublist (skelCells (modCells f ci more cells))
    | _, _, [] => by simp [modCells]
    | 0, more, .mk pr s v bs :: cs => by
      have := skel_modBlocks f hf more bs
      simp only [modCells, skel, skelCells, streamCells, List.filter_append, List.filter_cons, isStruct, List.filter_nil,
        ite_true] at this ⊢
      exact List.Sublist.cons_cons _ (List.Sublist.append (List.Sublist.append this (List.Sublist.refl _)) (List.Sublist.refl _))
    | k + 1, more, .mk pr s v bs :: cs => by
      have := skelCells_modCells f hf k more cs
      simp only [modCells, skelCells, streamCells, List.filter_append, List.filter_cons, isStruct, List.filter_nil, ite_true] at this ⊢
      exact List.Sublist.cons_cons _ (List.Sublist.append_left this _)
end

end Adeu.Doc

namespace Adeu.Doc
open Adeu

mutual
  theorem skel_mapNodesBlocks (g : List Node → List Node) : ∀ bs : List Block, skel (mapNodesBlocks g bs) = skel bs
    | [] => by simp [mapNodesBlocks]
    | .para p :: rest => by
      simp only [mapNodesBlocks]
      have e : skel [.para { p with nodes := g p.nodes }] = skel [.para p] := by rw [skel_para, skel_para]
      rw [skel_cons, e, skel_mapNodesBlocks g rest, ← skel_cons]
    | .table pr gr rows :: rest => by
      simp only [mapNodesBlocks]
      have e : skel [.table pr gr (mapNodesRows g rows)] = skel [.table pr gr rows] := by
        have := skelRows_mapNodesRows g rows
        simp only [skel, skelRows, streamBlocks, List.filter_append, List.filter_cons, isStruct, List.filter_nil, ite_true,
          List.append_nil] at this ⊢
        rw [this]
      rw [skel_cons, e, skel_mapNodesBlocks g rest, ← skel_cons]
    | .other x :: rest => by
      simp only [mapNodesBlocks]
      rw [skel_cons, skel_mapNodesBlocks g rest, ← skel_cons]
  theorem skelRows_mapNodesRows (g : List Node → List Node) : ∀ rs : List Row, skelRows (mapNodesRows g rs) = skelRows rs
    | [] => by simp [mapNodesRows]
    | .mk pr cells :: rest => by
      have h1 := skelCells_mapNodesCells g cells
      have h2 := skelRows_mapNodesRows g rest
      simp only [mapNodesRows, skelRows, skelCells, streamRows, List.filter_append, List.filter_cons, isStruct, List.filter_nil,
        ite_true] at h1 h2 ⊢
      rw [h1, h2]
  theorem skelCells_mapNodesCells (g : List Node → List Node) : ∀ cs : List Cell, skelCells (mapNodesCells g cs) = skelCells cs
    | [] => by simp [mapNodesCells]
    | .mk pr s v bs :: rest => by
      have h1 := skel_mapNodesBlocks g bs
      have h2 := skelCells_mapNodesCells g rest
      simp only [mapNodesCells, skel, skelCells, streamCells, List.filter_append, List.filter_cons, isStruct, List.filter_nil,
        ite_true] at h1 h2 ⊢
      rw [h1, h2]
end

/-! ### documents: every story keeps its skeleton, paragraphs may be added -/

inductive SkelLe : List Story → List Story → Prop
  | nil : SkelLe [] []
  | cons {x y : Story} {a b : List Story} (hty : x.ty = y.ty) (hsub : (skel x.blocks).Sublist (skel y.blocks))
      (rest : SkelLe a b) : SkelLe (x :: a) (y :: b)

theorem SkelLe.refl (a : List Story) : SkelLe a a := by
  induction a with
  | nil => exact SkelLe.nil
  | cons x r ih => exact SkelLe.cons rfl (List.Sublist.refl _) ih

theorem SkelLe.trans {a b c : List Story} (h1 : SkelLe a b) (h2 : SkelLe b c) : SkelLe a c := by
  induction h1 generalizing c with
  | nil => cases h2; exact SkelLe.nil
  | cons hty hsub _ ih =>
    cases h2 with
    | cons hty2 hsub2 hr => exact SkelLe.cons (hty.trans hty2) (hsub.trans hsub2) (ih hr)

structure DocLe (d d' : Document) : Prop where
  headers : SkelLe d.headers d'.headers
  body : (skel d.body).Sublist (skel d'.body)
  footers : SkelLe d.footers d'.footers
  titlePg : d'.titlePg = d.titlePg
  evenOdd : d'.evenOdd = d.evenOdd

theorem DocLe.refl (d : Document) : DocLe d d := ⟨SkelLe.refl _, List.Sublist.refl _, SkelLe.refl _, rfl, rfl⟩

theorem DocLe.trans {a b c : Document} (h1 : DocLe a b) (h2 : DocLe b c) : DocLe a c :=
  ⟨h1.headers.trans h2.headers, h1.body.trans h2.body, h1.footers.trans h2.footers,
   h2.titlePg.trans h1.titlePg, h2.evenOdd.trans h1.evenOdd⟩

theorem modFirstStory_le (ty : Str) (g : List Block → List Block) (hg : ∀ bs, (skel bs).Sublist (skel (g bs))) :
    ∀ ss : List Story, SkelLe ss (modFirstStory ty g ss) := by
  intro ss
  induction ss with
  | nil => exact SkelLe.nil
  | cons s rest ih =>
    simp only [modFirstStory]
    split
    · exact SkelLe.cons rfl (hg _) (SkelLe.refl _)
    · exact SkelLe.cons rfl (List.Sublist.refl _) ih

theorem DocLe_modPart (d : Document) (pi : Nat) (g : List Block → List Block) (hg : ∀ bs, (skel bs).Sublist (skel (g bs))) :
    DocLe d (modPart d pi g) := by
  unfold modPart
  split
  · exact ⟨SkelLe.refl _, hg _, SkelLe.refl _, rfl, rfl⟩
  · exact ⟨modFirstStory_le _ g hg _, List.Sublist.refl _, SkelLe.refl _, rfl, rfl⟩
  · exact ⟨SkelLe.refl _, List.Sublist.refl _, modFirstStory_le _ g hg _, rfl, rfl⟩
  · exact DocLe.refl d

theorem DocLe_modPara (d : Document) (pp : PPath) (f : Para → Para × List Block) (hf : ParaKeep f) :
    DocLe d (modPara d pp f) := by
  cases pp with
  | nil => exact DocLe.refl d
  | cons pi rest => exact DocLe_modPart d pi _ (skel_modBlocks f hf rest)

end Adeu.Doc

namespace Adeu.Doc
open Adeu

/-! ### what every engine step preserves: skeletons, existing comments, the session's identity -/

structure Grows (s s' : Sess) : Prop where
  skel : DocLe s.doc s'.doc
  comments : s.doc.comments <+: s'.doc.comments
  commentsEx : s.doc.commentsEx <+: s'.doc.commentsEx
  commentsIds : s.doc.commentsIds <+: s'.doc.commentsIds
  commentsCex : s.doc.commentsCex <+: s'.doc.commentsCex
  author : s'.author = s.author
  date : s'.date = s.date
  nextRev : s.nextRev ≤ s'.nextRev
  nextCom : s.nextCom ≤ s'.nextCom

theorem Grows.refl (s : Sess) : Grows s s :=
  ⟨DocLe.refl _, List.prefix_refl _, List.prefix_refl _, List.prefix_refl _, List.prefix_refl _, rfl, rfl,
   Nat.le_refl _, Nat.le_refl _⟩

theorem Grows.trans {a b c : Sess} (h1 : Grows a b) (h2 : Grows b c) : Grows a c :=
  ⟨h1.skel.trans h2.skel, h1.comments.trans h2.comments, h1.commentsEx.trans h2.commentsEx,
   h1.commentsIds.trans h2.commentsIds, h1.commentsCex.trans h2.commentsCex, h2.author.trans h1.author,
   h2.date.trans h1.date, Nat.le_trans h1.nextRev h2.nextRev, Nat.le_trans h1.nextCom h2.nextCom⟩

/-- replacing the document by a paragraph update that keeps paragraph properties -/
theorem Grows_modPara (s : Sess) (pp : PPath) (f : Para → Para × List Block) (hf : ParaKeep f) :
    Grows s { s with doc := modPara s.doc pp f } := by
  obtain ⟨h1, h2, h3, h4, _, _, _⟩ := modPara_fields s.doc pp f
  exact ⟨DocLe_modPara s.doc pp f hf, by simp [h1], by simp [h2], by simp [h3], by simp [h4], rfl, rfl,
    Nat.le_refl _, Nat.le_refl _⟩

theorem skel_of_stream_eq {a b : List Block} (h : streamBlocks a = streamBlocks b) : skel a = skel b := by
  unfold skel; rw [h]

theorem SkelLe_of_map_eq : ∀ (a b : List Story),
    a.map (fun s => (s.ty, streamBlocks s.blocks)) = b.map (fun s => (s.ty, streamBlocks s.blocks)) → SkelLe a b := by
  intro a
  induction a with
  | nil => intro b h; cases b with
    | nil => exact SkelLe.nil
    | cons y r => simp at h
  | cons x r ih =>
    intro b h
    cases b with
    | nil => simp at h
    | cons y r' =>
      simp only [List.map_cons, List.cons.injEq, Prod.mk.injEq] at h
      exact SkelLe.cons h.1.1 (by rw [skel_of_stream_eq h.1.2]; exact List.Sublist.refl _) (ih r' h.2)

/-- a step that only moved run boundaries -/
theorem Grows_of_frame {s s' : Sess} (h : s'.frame = s.frame) : Grows s s' := by
  simp only [Sess.frame, Prod.mk.injEq] at h
  obtain ⟨hc, h1, h2, h3, h4, _, h6, h7, h8, h9, h10, h11, _⟩ := h
  simp only [canonDoc, CanonDoc.mk.injEq] at hc
  refine ⟨⟨SkelLe_of_map_eq _ _ hc.1.symm, ?_, SkelLe_of_map_eq _ _ hc.2.2.symm, h6, h7⟩, ?_, ?_, ?_, ?_, h8, h9, ?_, ?_⟩
  · rw [skel_of_stream_eq hc.2.1]; exact List.Sublist.refl _
  · rw [h1]; exact List.prefix_refl _
  · rw [h2]; exact List.prefix_refl _
  · rw [h3]; exact List.prefix_refl _
  · rw [h4]; exact List.prefix_refl _
  · omega
  · omega

theorem Grows_newRev (s : Sess) : Grows s s.newRev.1 := by
  simp only [Sess.newRev]
  exact ⟨DocLe.refl _, List.prefix_refl _, List.prefix_refl _, List.prefix_refl _, List.prefix_refl _, rfl, rfl,
    Nat.le_succ _, Nat.le_refl _⟩

theorem Grows_addComment (s : Sess) (text : Str) (parent : Option Str) : Grows s (s.addComment text parent).1 := by
  simp only [Sess.addComment]
  exact ⟨⟨SkelLe.refl _, List.Sublist.refl _, SkelLe.refl _, rfl, rfl⟩, List.prefix_append _ _, List.prefix_append _ _,
    List.prefix_append _ _, List.prefix_append _ _, rfl, rfl, Nat.le_refl _, Nat.le_succ _⟩

theorem Grows_trackDelete (s : Sess) (r : RunRef) : Grows s (trackDelete s r).1 := by
  simp only [trackDelete]
  exact (Grows_newRev s).trans (Grows_modPara _ _ _ (fun p => ⟨rfl, rfl⟩))

theorem Grows_foldl_trackDelete (ts : List RunRef) : ∀ s : Sess, Grows s (ts.foldl (fun acc t => (trackDelete acc t).1) s) := by
  induction ts with
  | nil => intro s; exact Grows.refl s
  | cons t rest ih => intro s; exact (Grows_trackDelete s t).trans (ih _)

theorem Grows_lineParas (lines : List Str) (style : Option Run) (sup : Bool) (ppr : Para) :
    ∀ (s : Sess), Grows s (lineParas s lines style sup ppr).1 := by
  intro s
  unfold lineParas
  suffices h : ∀ (acc : Sess × List Block), Grows s acc.1 →
      Grows s (lines.foldl (fun (acc : Sess × List Block) line =>
        if (parseMdStyle line).1.isEmpty && (parseMdStyle line).2.isNone then (acc.1, acc.2)
        else ((acc.1.newRev).1, acc.2 ++ [Block.para (match (parseMdStyle line).2 with
          | some l => { style := some (headingStyleId l), ppr := [], nodes := [.ins (acc.1.newRev).2 (insRuns (parseMdStyle line).1 style sup)] }
          | none => { style := ppr.style, ppr := copyPPr ppr.ppr, nodes := [.ins (acc.1.newRev).2 (insRuns (parseMdStyle line).1 style sup)] })])) acc).1 by
    exact h (s, []) (Grows.refl s)
  induction lines with
  | nil => intro acc h; exact h
  | cons l rest ih =>
    intro acc h
    simp only [List.foldl_cons]
    apply ih
    split
    · exact h
    · exact h.trans (Grows_newRev _)

end Adeu.Doc

namespace Adeu.Doc
open Adeu

theorem Grows_trackInsert (s : Sess) (text : Str) (style : Option Run) (hasPara : Bool) (ap : Para)
    (comment : Option Str) (sup : Bool) : Grows s (trackInsert s text style hasPara ap comment sup).1 := by
  unfold trackInsert
  simp only
  repeat' first
    | exact Grows.refl s
    | exact Grows_lineParas _ _ _ _ s
    | exact (Grows_lineParas _ _ _ _ s).trans (Grows_addComment _ _ _)
    | exact Grows_newRev s
    | exact (Grows_newRev s).trans (Grows_lineParas _ _ _ _ _)
    | split

theorem Grows_placeInsertion (s : Sess) (a : RunRef) (before : Bool) (p : Para) (newText : Str) (comment : Option Str) :
    Grows s (placeInsertion s a before p newText comment) := by
  unfold placeInsertion
  simp only
  split
  · exact (Grows_trackInsert _ _ _ _ _ _ _).trans (Grows_modPara _ _ _ (fun p => ⟨rfl, rfl⟩))
  · split
    · exact ((Grows_trackInsert _ _ _ _ _ _ _).trans (Grows_addComment _ _ _)).trans
        (Grows_modPara _ _ _ (fun p => ⟨rfl, rfl⟩))
    · exact (Grows_trackInsert _ _ _ _ _ _ _).trans (Grows_modPara _ _ _ (fun p => ⟨rfl, rfl⟩))

theorem Grows_modPara2 (s : Sess) (pp1 pp2 : PPath) (f1 f2 : Para → Para × List Block) (h1 : ParaKeep f1) (h2 : ParaKeep f2) :
    Grows s { s with doc := modPara (modPara s.doc pp1 f1) pp2 f2 } :=
  (Grows_modPara s pp1 f1 h1).trans (Grows_modPara { s with doc := modPara s.doc pp1 f1 } pp2 f2 h2)

theorem Grows_retireTargets (ts : List RunRef) : ∀ st : Retired, Grows st.s (retireTargets st ts).s := by
  induction ts with
  | nil => intro st; exact Grows.refl _
  | cons t rest ih =>
    intro st
    simp only [retireTargets]
    split
    · refine Grows.trans ?_ (ih _)
      exact Grows_modPara _ _ _ (fun p => ⟨rfl, rfl⟩)
    · refine Grows.trans ?_ (ih _)
      exact Grows_trackDelete _ _

theorem Grows_replaceTargets (s : Sess) (targets : List RunRef) (lastT : RunRef) (op : EOp) (newText : Str)
    (comment : Option Str) : Grows s (replaceTargets s targets lastT op newText comment) := by
  unfold replaceTargets
  simp only
  have hd : Grows s (retireTargets { s := s } targets).s := Grows_retireTargets targets { s := s }
  repeat' first
    | exact hd
    | exact (hd.trans (Grows_addComment _ _ _)).trans (Grows_modPara _ _ _ (fun p => ⟨rfl, rfl⟩))
    | exact (hd.trans (Grows_addComment _ _ _)).trans
        (Grows_modPara2 _ _ _ _ _ (fun p => ⟨rfl, rfl⟩) (fun p => ⟨rfl, rfl⟩))
    | exact (hd.trans (Grows_trackInsert _ _ _ _ _ _ _)).trans (Grows_modPara _ _ _ (fun p => ⟨rfl, rfl⟩))
    | exact ((hd.trans (Grows_trackInsert _ _ _ _ _ _ _)).trans (Grows_addComment _ _ _)).trans
        (Grows_modPara _ _ _ (fun p => ⟨rfl, rfl⟩))
    | exact ((hd.trans (Grows_trackInsert _ _ _ _ _ _ _)).trans (Grows_addComment _ _ _)).trans
        (Grows_modPara2 _ _ _ _ _ (fun p => ⟨rfl, rfl⟩) (fun p => ⟨rfl, rfl⟩))
    | split

end Adeu.Doc

namespace Adeu.Doc
open Adeu

theorem Grows_mapBody (s : Sess) (g : List Node → List Node) :
    Grows s { s with doc := { s.doc with body := mapNodesBlocks g s.doc.body } } :=
  ⟨⟨SkelLe.refl _, by simp only [skel_mapNodesBlocks]; exact List.Sublist.refl _, SkelLe.refl _, rfl, rfl⟩,
   List.prefix_refl _, List.prefix_refl _, List.prefix_refl _, List.prefix_refl _, rfl, rfl, Nat.le_refl _, Nat.le_refl _⟩

theorem Grows_mapPart (s : Sess) (pi : Nat) (g : List Node → List Node) :
    Grows s { s with doc := modPart s.doc pi (mapNodesBlocks g) } := by
  obtain ⟨h1, h2, h3, h4, _, _, _⟩ := modPart_fields s.doc pi (mapNodesBlocks g)
  exact ⟨DocLe_modPart s.doc pi _ (fun bs => by rw [skel_mapNodesBlocks]; exact List.Sublist.refl _),
    by simp [h1], by simp [h2], by simp [h3], by simp [h4], rfl, rfl, Nat.le_refl _, Nat.le_refl _⟩

theorem Grows_nestedIns (s : Sess) (text : Str) (style : Option Run) (comment : Option Str) :
    Grows s (nestedIns s text style comment).1 := by
  unfold nestedIns
  split
  · exact Grows_newRev s
  · exact Grows_trackInsert _ _ _ _ _ _ _

theorem Grows_nestedReplace (s : Sess) (pi : Nat) (insId newText : Str) (comment : Option Str) :
    Grows s (nestedReplace s pi insId newText comment).1 := by
  unfold nestedReplace
  have hr : Grows s { s with doc := modPart s.doc pi fun bs => (rejectChange insId bs).1 } := Grows_mapPart s pi _
  split
  · exact Grows.refl s
  · simp only
    repeat' first
      | exact hr
      | exact hr.trans (Grows_nestedIns _ _ _ _)
      | exact (hr.trans (Grows_nestedIns _ _ _ _)).trans (Grows_modPara _ _ _ (fun p => ⟨rfl, rfl⟩))
      | exact ((hr.trans (Grows_nestedIns _ _ _ _)).trans (Grows_addComment _ _ _)).trans
          (Grows_modPara _ _ _ (fun p => ⟨rfl, rfl⟩))
      | split

theorem Grows_applyInsertion (s : Sess) (spans : List OSpan) (start : Nat) (newText : Str) (comment : Option Str) :
    Grows s (applyInsertion s spans start newText comment).1 := by
  unfold applyInsertion
  simp only
  have hr1 : ∀ bl, Grows s (chooseAnchor s spans start bl).1 := fun bl => Grows_of_frame (chooseAnchor_frame s spans start bl)
  split
  · exact hr1 _
  · split
    · exact hr1 _
    · exact (hr1 _).trans (Grows_placeInsertion _ _ _ _ _ _)

theorem Grows_applyReplace (s : Sess) (spans : List OSpan) (op : EOp) (start len : Nat) (newText : Str)
    (comment : Option Str) : Grows s (applyReplace s spans op start len newText comment).1 := by
  unfold applyReplace
  simp only
  have hr := Grows_of_frame (resolveRuns_frame s spans start (start + len))
  split
  · exact hr.trans (Grows_replaceTargets _ _ _ _ _ _)
  · exact hr

theorem Grows_applyIndexed (s : Sess) (clean : Bool) (start len : Nat) (newText : Str) (comment : Option Str)
    (op : Option EOp) : Grows s (applyIndexed s clean start len newText comment op).1 := by
  unfold applyIndexed
  simp only
  split
  · exact Grows.refl s
  · split
    · exact Grows_nestedReplace _ _ _ _ _
    · split
      · exact Grows_applyInsertion _ _ _ _ _
      · exact Grows_applyReplace _ _ _ _ _ _ _

theorem Grows_nestedProxyWith (s : Sess) (clean : Bool) (start len : Nat) (new : Str) (comment : Option Str) (id : Str)
    (r : Sess × Bool) (hr : nestedProxyWith s clean start len new comment id = some r) : Grows s r.1 := by
  unfold nestedProxyWith at hr
  simp only at hr
  split at hr
  · injection hr with hr; subst hr; exact Grows_applyIndexed _ _ _ _ _ _ _
  · cases hr

theorem Grows_nestedProxyAt (s : Sess) (clean : Bool) (start len : Nat) (new : Str) (comment : Option Str)
    (r : Sess × Bool) (hr : nestedProxyAt s clean start len new comment = some r) : Grows s r.1 := by
  unfold nestedProxyAt at hr
  split at hr
  · exact Grows_nestedProxyWith _ _ _ _ _ _ _ r hr
  · cases hr

theorem Grows_nestedInsertAt (s : Sess) (clean : Bool) (start : Nat) (new : Str) (comment : Option Str)
    (r : Sess × Bool) (hr : nestedInsertAt s clean start new comment = some r) : Grows s r.1 := by
  unfold nestedInsertAt at hr
  split at hr
  · cases hr
  · split at hr
    · exact Grows_nestedProxyWith _ _ _ _ _ _ _ r hr
    · cases hr

theorem Grows_heuristicDirect (s : Sess) (m : HMatch) (e : HEdit) : Grows s (heuristicDirect s m e).1 := by
  unfold heuristicDirect
  simp only
  split
  · exact Grows.refl s
  · split
    · split
      · rename_i r hr; exact Grows_nestedInsertAt _ _ _ _ _ r hr
      · exact Grows_applyIndexed _ _ _ _ _ _ _
    · split
      · exact Grows.refl s
      · split
        · rename_i r hr
          split at hr
          · exact Grows_nestedInsertAt _ _ _ _ _ r hr
          · exact Grows_nestedProxyAt _ _ _ _ _ _ r hr
        · exact Grows_applyIndexed _ _ _ _ _ _ _

theorem Grows_nestedProxy (s : Sess) (m : HMatch) (e : HEdit) (r : Sess × Bool) (hr : nestedProxy s m e = some r) :
    Grows s r.1 :=
  Grows_nestedProxyAt s m.clean m.start m.len e.new e.comment r hr

theorem Grows_applyHeuristic (s : Sess) (occ : List (Nat × Nat)) (e : HEdit) : Grows s (applyHeuristic s occ e).1 := by
  unfold applyHeuristic
  split
  · exact Grows.refl s
  · split
    · exact Grows.refl s
    · split
      · exact Grows.refl s
      · simp only [heuristicApplyAt]
        split
        · rename_i r hr; exact Grows_nestedProxy s _ e r hr
        · exact Grows_heuristicDirect _ _ _

theorem Grows_indexedStep (acc : Acc) (e : IEdit) : Grows acc.1 (indexedStep acc e).1 := by
  obtain ⟨s, ap, sk, occ⟩ := acc
  simp only [indexedStep]
  split
  · exact Grows.refl s
  · split <;> exact Grows_applyIndexed _ _ _ _ _ _ _

theorem Grows_heuristicStep (acc : Acc) (e : HEdit) : Grows acc.1 (heuristicStep acc e).1 := by
  obtain ⟨s, ap, sk, occ⟩ := acc
  simp only [heuristicStep]
  split <;> exact Grows_applyHeuristic _ _ _

theorem Grows_foldl {α} (step : Acc → α → Acc) (hs : ∀ acc a, Grows acc.1 (step acc a).1) :
    ∀ (l : List α) (acc : Acc), Grows acc.1 (l.foldl step acc).1 := by
  intro l
  induction l with
  | nil => intro acc; exact Grows.refl _
  | cons a rest ih => intro acc; exact (hs acc a).trans (ih _)

/-- Whatever a batch does — applied, skipped, matched fuzzily, inside someone else's insertion — every story
keeps its skeleton (paragraph properties, tables with their properties, rows, cells, other blocks, all in
order; paragraphs are only ever added), every existing comment entry stays where it is in all four comment
lists, and the session's author, date and counters only move forward. -/
theorem Grows_applyEdits (s : Sess) (edits : List HEdit) : Grows s (Doc.applyEdits s edits).1 := by
  unfold Doc.applyEdits applyEditsIndexedFull
  simp only
  exact (Grows_foldl indexedStep Grows_indexedStep _ (s, 0, 0, [])).trans (Grows_foldl heuristicStep Grows_heuristicStep _ _)

theorem Grows_applyEditsIndexed (s : Sess) (edits : List IEdit) : Grows s (applyEditsIndexed s edits).1 := by
  unfold applyEditsIndexed applyEditsIndexedFull
  exact Grows_foldl indexedStep Grows_indexedStep _ (s, 0, 0, [])

end Adeu.Doc
