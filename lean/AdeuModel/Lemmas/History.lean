import AdeuModel.Lemmas.Grow
import AdeuModel.Model.History
namespace Adeu.Doc
open Adeu

mutual
  theorem firstParaBlocks_skel (f : List Node → Option (List Node)) : ∀ (bs bs' : List Block),
      firstParaBlocks f bs = some bs' → skel bs' = skel bs
    | [], _, h => by simp [firstParaBlocks] at h
    | .para p :: rest, bs', h => by
      simp only [firstParaBlocks] at h
      split at h
      · injection h with h; subst h
        rw [skel_cons, skel_cons (.para p), skel_para, skel_para]
      · cases hr : firstParaBlocks f rest with
        | none => simp [hr] at h
        | some r =>
          simp only [hr, Option.map_some, Option.some.injEq] at h
          subst h
          rw [skel_cons, skel_cons (.para p) rest, firstParaBlocks_skel f rest r hr]
    | .table pr g rows :: rest, bs', h => by
      simp only [firstParaBlocks] at h
      split at h
      · rename_i rows' hrows
        injection h with h; subst h
        rw [skel_cons, skel_cons (.table pr g rows)]
        congr 1
        have := firstParaRows_skel f rows rows' hrows
        simp only [skel, skelRows, streamBlocks, List.filter_append, List.filter_cons, isStruct, List.filter_nil, ite_true,
          List.append_nil] at this ⊢
        rw [this]
      · cases hr : firstParaBlocks f rest with
        | none => simp [hr] at h
        | some r =>
          simp only [hr, Option.map_some, Option.some.injEq] at h
          subst h
          rw [skel_cons, skel_cons (.table pr g rows) rest, firstParaBlocks_skel f rest r hr]
    | .other x :: rest, bs', h => by
      simp only [firstParaBlocks] at h
      cases hr : firstParaBlocks f rest with
      | none => simp [hr] at h
      | some r =>
        simp only [hr, Option.map_some, Option.some.injEq] at h
        subst h
        rw [skel_cons, skel_cons (.other x) rest, firstParaBlocks_skel f rest r hr]
  theorem firstParaRows_skel (f : List Node → Option (List Node)) : ∀ (rs rs' : List Row),
      firstParaRows f rs = some rs' → skelRows rs' = skelRows rs
    | [], _, h => by simp [firstParaRows] at h
    | .mk pr cells :: rest, rs', h => by
      simp only [firstParaRows] at h
      split at h
      · rename_i cells' hc
        injection h with h; subst h
        have := firstParaCells_skel f cells cells' hc
        simp only [skelRows, skelCells, streamRows, List.filter_append, List.filter_cons, isStruct, List.filter_nil, ite_true] at this ⊢
        rw [this]
      · cases hr : firstParaRows f rest with
        | none => simp [hr] at h
        | some r =>
          simp only [hr, Option.map_some, Option.some.injEq] at h
          subst h
          have := firstParaRows_skel f rest r hr
          simp only [skelRows, streamRows, List.filter_append, List.filter_cons, isStruct, List.filter_nil, ite_true] at this ⊢
          rw [this]
  theorem firstParaCells_skel (f : List Node → Option (List Node)) : ∀ (cs cs' : List Cell),
      firstParaCells f cs = some cs' → skelCells cs' = skelCells cs
    | [], _, h => by simp [firstParaCells] at h
    | .mk pr s v bs :: rest, cs', h => by
      simp only [firstParaCells] at h
      split at h
      · rename_i bs' hb
        injection h with h; subst h
        have := firstParaBlocks_skel f bs bs' hb
        simp only [skel, skelCells, streamCells, List.filter_append, List.filter_cons, isStruct, List.filter_nil, ite_true] at this ⊢
        rw [this]
      · cases hr : firstParaCells f rest with
        | none => simp [hr] at h
        | some r =>
          simp only [hr, Option.map_some, Option.some.injEq] at h
          subst h
          have := firstParaCells_skel f rest r hr
          simp only [skelCells, streamCells, List.filter_append, List.filter_cons, isStruct, List.filter_nil, ite_true] at this ⊢
          rw [this]
end

theorem firstParaBlocks_getD_skel (f : List Node → Option (List Node)) (bs : List Block) :
    skel ((firstParaBlocks f bs).getD bs) = skel bs := by
  cases h : firstParaBlocks f bs with
  | none => rfl
  | some r => exact firstParaBlocks_skel f bs r h

theorem anchorReply_skel (body : List Block) (parent new : Str) : skel (anchorReply body parent new) = skel body := by
  unfold anchorReply
  simp only
  split
  · rfl
  · rename_i b1 h1
    have e1 := firstParaBlocks_skel _ body b1 h1
    split
    · exact e1
    · split
      · rw [firstParaBlocks_getD_skel, firstParaBlocks_getD_skel, e1]
      · rw [firstParaBlocks_getD_skel, firstParaBlocks_getD_skel, e1]

end Adeu.Doc

namespace Adeu.Doc
open Adeu

theorem Grows_setBody (s : Sess) (b : List Block) (h : skel b = skel s.doc.body) :
    Grows s { s with doc := { s.doc with body := b } } :=
  ⟨⟨SkelLe.refl _, by simp only [h]; exact List.Sublist.refl _, SkelLe.refl _, rfl, rfl⟩,
   List.prefix_refl _, List.prefix_refl _, List.prefix_refl _, List.prefix_refl _, rfl, rfl, Nat.le_refl _, Nat.le_refl _⟩

theorem Grows_applyAction (s : Sess) (a : Action) : Grows s (s.applyAction a).1 := by
  unfold Sess.applyAction
  simp only
  split
  · split
    · exact Grows_setBody s _ (skel_mapNodesBlocks _ _)
    · exact Grows.refl s
  · split
    · exact Grows_setBody s _ (skel_mapNodesBlocks _ _)
    · exact Grows.refl s
  · split
    · exact (Grows_addComment s (a.text.getD []) (some (parseTarget a.target).1)).trans
        (Grows_setBody _ _ (anchorReply_skel _ _ _))
    · exact Grows.refl s

theorem Grows_applyActions (s : Sess) (acts : List Action) : Grows s (s.applyActions acts).1 := by
  unfold Sess.applyActions
  suffices h : ∀ (acc : Sess × Nat × Nat), Grows s acc.1 →
      Grows s (acts.foldl (fun (acc : Sess × Nat × Nat) a =>
        if (acc.1.applyAction a).2 then ((acc.1.applyAction a).1, acc.2.1 + 1, acc.2.2)
        else ((acc.1.applyAction a).1, acc.2.1, acc.2.2 + 1)) acc).1 by
    exact h (s, 0, 0) (Grows.refl s)
  induction acts with
  | nil => intro acc h; exact h
  | cons a rest ih =>
    intro acc h
    simp only [List.foldl_cons]
    apply ih
    split <;> exact h.trans (Grows_applyAction _ _)

theorem Grows_acceptAll (s : Sess) : Grows s s.acceptAllRevisions := by
  unfold Sess.acceptAllRevisions acceptAll
  exact Grows_setBody s _ (skel_mapNodesBlocks _ _)

/-- what survives from one saved document to the next over a whole history -/
structure DocGrows (d d' : Document) : Prop where
  skel : DocLe d d'
  comments : d.comments <+: d'.comments
  commentsEx : d.commentsEx <+: d'.commentsEx
  commentsIds : d.commentsIds <+: d'.commentsIds
  commentsCex : d.commentsCex <+: d'.commentsCex

theorem DocGrows.refl (d : Document) : DocGrows d d :=
  ⟨DocLe.refl d, List.prefix_refl _, List.prefix_refl _, List.prefix_refl _, List.prefix_refl _⟩

theorem DocGrows.trans {a b c : Document} (h1 : DocGrows a b) (h2 : DocGrows b c) : DocGrows a c :=
  ⟨h1.skel.trans h2.skel, h1.comments.trans h2.comments, h1.commentsEx.trans h2.commentsEx,
   h1.commentsIds.trans h2.commentsIds, h1.commentsCex.trans h2.commentsCex⟩

theorem DocGrows_of_Grows {s s' : Sess} (h : Grows s s') : DocGrows s.doc s'.doc :=
  ⟨h.skel, h.comments, h.commentsEx, h.commentsIds, h.commentsCex⟩

/-- loading a document (normalisation, id scan) keeps every skeleton and every comment entry -/
theorem DocGrows_open (d : Document) (author date : Str) : DocGrows d (Sess.open d author date).doc := by
  have hc := canonDoc_normalize d
  simp only [canonDoc, CanonDoc.mk.injEq] at hc
  refine ⟨⟨?_, ?_, ?_, rfl, rfl⟩, ?_, ?_, ?_, ?_⟩
  · exact SkelLe_of_map_eq _ _ hc.1.symm
  · show (skel d.body).Sublist (skel (normalize d).body)
    rw [skel_of_stream_eq hc.2.1]; exact List.Sublist.refl _
  · exact SkelLe_of_map_eq _ _ hc.2.2.symm
  all_goals exact List.prefix_refl _

theorem DocGrows_stepDoc (d : Document) (st : Step) : DocGrows d (stepDoc d st).1 := by
  cases st with
  | edits a es =>
    exact (DocGrows_open d a sessionDate).trans (DocGrows_of_Grows (Grows_applyEditsIndexed _ es))
  | actions a acts =>
    exact (DocGrows_open d a sessionDate).trans (DocGrows_of_Grows (Grows_applyActions _ acts))
  | acceptAll =>
    exact (DocGrows_open d [] sessionDate).trans (DocGrows_of_Grows (Grows_acceptAll _))

/-- Over any history of sessions — edit batches by any authors, review actions, replies, accept-all, with a
save and reload between rounds — every story keeps its skeleton (paragraph properties, tables, rows, cells,
other blocks, in order; paragraphs are only added) and every comment entry present at some point is still
there, in place, at the end. -/
theorem DocGrows_runHistory (steps : List Step) : ∀ d : Document, DocGrows d (runHistory d steps).1 := by
  induction steps with
  | nil => intro d; exact DocGrows.refl d
  | cons st rest ih => intro d; exact (DocGrows_stepDoc d st).trans (ih _)

end Adeu.Doc
