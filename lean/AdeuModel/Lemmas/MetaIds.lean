import AdeuModel.Lemmas.ExtractRaw
/-
Layer D — which change identifiers a metadata block lists.

`metaBlock` threads one `seen` list through change signatures (`Chg:id`) and comment signatures
(`Com:id`).  Here the change lines are characterised on their own: they are the lines of the
(id, author) pairs of the snapshots' insertions and deletions, in order, each id once (first author
wins) — whatever comments the snapshots carry.
-/
namespace Adeu.Doc
open Adeu

def chgSig (id : Str) : Str := "Chg:".toList ++ id
def comSig (id : Str) : Str := "Com:".toList ++ id
def chgLine (p : Str × Option Str) : Str := ['['] ++ chgSig p.1 ++ [']', ' '] ++ ((truthy p.2).getD "Unknown".toList)

/-- the change lines of a block on their own: first occurrence of every id, in order -/
def chgFold (acc : List Str × List Str) (p : Str × Option Str) : List Str × List Str :=
  if acc.2.contains p.1 then acc else (acc.1 ++ [chgLine p], acc.2 ++ [p.1])

def pairsOf (states : List Snap) : List (Str × Option Str) := states.flatMap fun s => s.ins ++ s.del

def chgLines (states : List Snap) : List Str := ((pairsOf states).foldl chgFold ([], [])).1
def chgIds (states : List Snap) : List Str := ((pairsOf states).foldl chgFold ([], [])).2

theorem chgSig_inj {a b : Str} (h : chgSig a = chgSig b) : a = b := by
  unfold chgSig at h; exact List.append_cancel_left h

theorem chgSig_ne_comSig (a b : Str) : chgSig a ≠ comSig b := by
  unfold chgSig comSig; simp

/-- `seen` agrees with the id list on change signatures -/
def SeenOk (seen ids : List Str) : Prop := ∀ id, seen.contains (chgSig id) = ids.contains id

theorem SeenOk.add_chg {seen ids : List Str} (h : SeenOk seen ids) (x : Str) : SeenOk (seen ++ [chgSig x]) (ids ++ [x]) := by
  intro id
  have := h id
  simp only [List.contains_eq_mem, List.mem_append, List.mem_singleton, decide_eq_decide] at this ⊢
  constructor
  · rintro (h1 | h1)
    · exact Or.inl (this.1 h1)
    · exact Or.inr (chgSig_inj h1)
  · rintro (h1 | h1)
    · exact Or.inl (this.2 h1)
    · exact Or.inr (by rw [h1])

theorem SeenOk.add_com {seen ids : List Str} (h : SeenOk seen ids) (x : Str) : SeenOk (seen ++ [comSig x]) ids := by
  intro id
  have := h id
  simp only [List.contains_eq_mem, List.mem_append, List.mem_singleton, decide_eq_decide] at this ⊢
  constructor
  · rintro (h1 | h1)
    · exact this.1 h1
    · exact absurd h1 (chgSig_ne_comSig id x)
  · intro h1; exact Or.inl (this.2 h1)

/-- rendering a comment thread only adds comment signatures to `seen` -/
theorem renderComment_seen (cm : CMap) : ∀ (fuel : Nat) (cid : Str) (acc : List Str × List Str) (ids : List Str),
    SeenOk acc.2 ids → SeenOk (renderComment cm fuel cid acc).2 ids := by
  intro fuel
  induction fuel with
  | zero => intro cid acc ids h; simpa [renderComment] using h
  | succ n ih =>
    intro cid acc ids h
    obtain ⟨lines, seen⟩ := acc
    simp only [renderComment]
    split
    · exact h
    · rename_i data _
      split
      · exact h
      · -- fold over the children
        have hstart : SeenOk (seen ++ ["Com:".toList ++ cid]) ids := h.add_com cid
        generalize (childrenOf cm cid) = kids
        generalize hacc : (lines ++ [['['] ++ ("Com:".toList ++ cid) ++ [']', ' '] ++ data.author ++
            (if data.date.isEmpty then [] else " @ ".toList ++ dateDay data.date) ++ [':', ' '] ++ data.text],
            seen ++ ["Com:".toList ++ cid]) = acc0
        have h0 : SeenOk acc0.2 ids := by rw [← hacc]; exact hstart
        clear hacc hstart
        induction kids generalizing acc0 with
        | nil => simpa using h0
        | cons k ks ihk =>
          simp only [List.foldl_cons]
          exact ihk _ (ih k acc0 ids h0)

/-- one snapshot's contribution to a metadata block (the body of `metaBlock`'s fold) -/
def metaStep (cm : CMap) (acc : List Str × List Str × List Str) (s : Snap) : List Str × List Str × List Str :=
  let (chg, com, seen) := acc
  let (chg, seen) := (s.ins ++ s.del).foldl (fun (acc : List Str × List Str) p =>
    let sig := "Chg:".toList ++ p.1
    if acc.2.contains sig then acc
    else (acc.1 ++ [['['] ++ sig ++ [']', ' '] ++ ((truthy p.2).getD "Unknown".toList)], acc.2 ++ [sig])) (chg, seen)
  let (com, seen) := (sortBy id s.comments).foldl (fun acc root => renderComment cm (cm.length + 1) root acc) (com, seen)
  (chg, com, seen)

theorem metaBlock_eq (cm : CMap) (states : List Snap) :
    metaBlock cm states =
      joinWith ['\n'] ((states.foldl (metaStep cm) ([], [], [])).1 ++ (states.foldl (metaStep cm) ([], [], [])).2.1) := rfl

/-- the change part of one snapshot, against the stand-alone fold -/
theorem chg_pairs (ps : List (Str × Option Str)) : ∀ (chg seen ids : List Str), SeenOk seen ids →
    (ps.foldl (fun (acc : List Str × List Str) p =>
      let sig := "Chg:".toList ++ p.1
      if acc.2.contains sig then acc
      else (acc.1 ++ [['['] ++ sig ++ [']', ' '] ++ ((truthy p.2).getD "Unknown".toList)], acc.2 ++ [sig])) (chg, seen)).1 =
      (ps.foldl chgFold (chg, ids)).1 ∧
    SeenOk (ps.foldl (fun (acc : List Str × List Str) p =>
      let sig := "Chg:".toList ++ p.1
      if acc.2.contains sig then acc
      else (acc.1 ++ [['['] ++ sig ++ [']', ' '] ++ ((truthy p.2).getD "Unknown".toList)], acc.2 ++ [sig])) (chg, seen)).2
      (ps.foldl chgFold (chg, ids)).2 := by
  induction ps with
  | nil => intro chg seen ids h; exact ⟨rfl, h⟩
  | cons p rest ih =>
    intro chg seen ids h
    simp only [List.foldl_cons]
    have hc : seen.contains ("Chg:".toList ++ p.1) = ids.contains p.1 := h p.1
    by_cases hs : ids.contains p.1 = true
    · have hs' : seen.contains ("Chg:".toList ++ p.1) = true := by rw [hc]; exact hs
      simp only [hs', ↓reduceIte, chgFold, hs]
      exact ih chg seen ids h
    · have hs' : seen.contains ("Chg:".toList ++ p.1) = false := by rw [hc]; simpa using hs
      have hs2 : ids.contains p.1 = false := by simpa using hs
      simp only [hs', Bool.false_eq_true, ↓reduceIte, chgFold, hs2]
      exact ih _ _ _ (h.add_chg p.1)

theorem com_roots (cm : CMap) (roots : List Str) : ∀ (acc : List Str × List Str) (ids : List Str), SeenOk acc.2 ids →
    SeenOk (roots.foldl (fun acc root => renderComment cm (cm.length + 1) root acc) acc).2 ids := by
  induction roots with
  | nil => intro acc ids h; exact h
  | cons r rest ih => intro acc ids h; exact ih _ ids (renderComment_seen cm _ r acc ids h)

theorem metaStep_chg (cm : CMap) (s : Snap) (chg com seen ids : List Str) (h : SeenOk seen ids) :
    (metaStep cm (chg, com, seen) s).1 = ((s.ins ++ s.del).foldl chgFold (chg, ids)).1 ∧
    SeenOk (metaStep cm (chg, com, seen) s).2.2 ((s.ins ++ s.del).foldl chgFold (chg, ids)).2 := by
  obtain ⟨h1, h2⟩ := chg_pairs (s.ins ++ s.del) chg seen ids h
  unfold metaStep
  simp only
  refine ⟨h1, ?_⟩
  exact com_roots cm _ _ _ h2

theorem metaFold_chg (cm : CMap) : ∀ (states : List Snap) (chg com seen ids : List Str), SeenOk seen ids →
    (states.foldl (metaStep cm) (chg, com, seen)).1 = ((pairsOf states).foldl chgFold (chg, ids)).1 := by
  intro states
  induction states with
  | nil => intro chg com seen ids _; rfl
  | cons s rest ih =>
    intro chg com seen ids h
    obtain ⟨h1, h2⟩ := metaStep_chg cm s chg com seen ids h
    simp only [List.foldl_cons, pairsOf, List.flatMap_cons, List.foldl_append]
    have := ih (metaStep cm (chg, com, seen) s).1 (metaStep cm (chg, com, seen) s).2.1 (metaStep cm (chg, com, seen) s).2.2 _ h2
    rw [show metaStep cm (chg, com, seen) s = ((metaStep cm (chg, com, seen) s).1, (metaStep cm (chg, com, seen) s).2.1,
      (metaStep cm (chg, com, seen) s).2.2) from rfl, this, h1]
    simp [pairsOf, List.foldl_append]

/-- The change lines of a metadata block are `chgLines`: they do not depend on the comments. -/
theorem metaBlock_chgLines (cm : CMap) (states : List Snap) :
    metaBlock cm states = joinWith ['\n'] (chgLines states ++ (states.foldl (metaStep cm) ([], [], [])).2.1) := by
  rw [metaBlock_eq, metaFold_chg cm states [] [] [] [] (fun _ => rfl)]
  rfl

/-! `chgLines` lists every id of the snapshots exactly once, in order of first occurrence -/

theorem chgFold_inv (ps : List (Str × Option Str)) : ∀ (acc : List Str × List Str),
    acc.2.Nodup → acc.1.length = acc.2.length →
    (ps.foldl chgFold acc).2.Nodup ∧ (ps.foldl chgFold acc).1.length = (ps.foldl chgFold acc).2.length ∧
    (∀ id, id ∈ (ps.foldl chgFold acc).2 ↔ id ∈ acc.2 ∨ id ∈ ps.map (·.1)) := by
  induction ps with
  | nil => intro acc h1 h2; exact ⟨h1, h2, by simp⟩
  | cons p rest ih =>
    intro acc h1 h2
    simp only [List.foldl_cons]
    by_cases hc : acc.2.contains p.1 = true
    · have hm : p.1 ∈ acc.2 := by simpa using hc
      have : chgFold acc p = acc := by unfold chgFold; rw [if_pos hc]
      rw [this]
      obtain ⟨a, b, c⟩ := ih acc h1 h2
      refine ⟨a, b, ?_⟩
      intro id
      rw [c id]
      simp only [List.map_cons, List.mem_cons]
      constructor
      · rintro (h | h)
        · exact Or.inl h
        · exact Or.inr (Or.inr h)
      · rintro (h | h | h)
        · exact Or.inl h
        · exact Or.inl (h ▸ hm)
        · exact Or.inr h
    · have hm : p.1 ∉ acc.2 := by simpa using hc
      have hf : chgFold acc p = (acc.1 ++ [chgLine p], acc.2 ++ [p.1]) := by
        unfold chgFold; rw [if_neg hc]
      rw [hf]
      have hnd : (acc.2 ++ [p.1]).Nodup := by
        rw [List.nodup_append]
        refine ⟨h1, by simp, ?_⟩
        intro a ha b hb
        simp at hb; subst hb
        exact fun e => hm (e ▸ ha)
      obtain ⟨a, b, c⟩ := ih (acc.1 ++ [chgLine p], acc.2 ++ [p.1]) hnd (by simp [h2])
      refine ⟨a, b, ?_⟩
      intro id
      rw [c id]
      simp only [List.mem_append, List.map_cons, List.mem_cons, List.not_mem_nil, or_false]
      constructor
      · rintro ((h | h) | h)
        · exact Or.inl h
        · exact Or.inr (Or.inl h)
        · exact Or.inr (Or.inr h)
      · rintro (h | h | h)
        · exact Or.inl (Or.inl h)
        · exact Or.inl (Or.inr h)
        · exact Or.inr h

/-- A metadata block lists a change id iff one of its snapshots has that insertion or deletion open;
each listed id once, one line per id. -/
theorem chgIds_spec (states : List Snap) :
    (chgIds states).Nodup ∧ (chgLines states).length = (chgIds states).length ∧
    ∀ id, id ∈ chgIds states ↔ ∃ s ∈ states, id ∈ (s.ins ++ s.del).map (·.1) := by
  obtain ⟨a, b, c⟩ := chgFold_inv (pairsOf states) ([], []) List.nodup_nil rfl
  refine ⟨a, b, ?_⟩
  intro id
  unfold chgIds
  rw [c id]
  simp only [List.not_mem_nil, false_or, pairsOf, List.map_flatMap, List.mem_flatMap]

end Adeu.Doc
