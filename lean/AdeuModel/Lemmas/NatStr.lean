import AdeuModel.Model.Engine
namespace Adeu.Doc
open Adeu

theorem natStr_eq_toDigits (n : Nat) : natStr n = Nat.toDigits 10 n := by
  unfold natStr
  show (toString n).toList = _
  rw [Nat.toString_eq_repr, Nat.toList_repr]

theorem strToNat_eq_ofDigitChars (s : Str) : strToNat s = Nat.ofDigitChars 10 s 0 := by
  unfold strToNat
  rw [Nat.ofDigitChars_eq_foldl]
  congr 1
  funext n c
  show n * 10 + (c.toNat - 48) = 10 * n + (c.toNat - '0'.toNat)
  have : '0'.toNat = 48 := by decide
  omega

/-- reading back a decimal numeral gives the number -/
theorem strNat?_natStr (n : Nat) : strNat? (natStr n) = some n := by
  unfold strNat?
  have hd : allDigits (natStr n) = true := by
    unfold allDigits
    rw [natStr_eq_toDigits]
    simp only [Bool.and_eq_true, Bool.not_eq_true', List.all_eq_true]
    refine ⟨?_, ?_⟩
    · cases h : Nat.toDigits 10 n with
      | nil => exact absurd h Nat.toDigits_ne_nil
      | cons a r => rfl
    · intro c hc
      exact Nat.isDigit_of_mem_toDigits (by decide) (by decide) hc
  rw [if_pos hd, strToNat_eq_ofDigitChars, natStr_eq_toDigits, Nat.ofDigitChars_ten_toDigits]

theorem natStr_inj {a b : Nat} (h : natStr a = natStr b) : a = b := by
  have := strNat?_natStr a
  rw [h, strNat?_natStr] at this
  exact (Option.some.inj this).symm

end Adeu.Doc
