import AdeuModel.Lemmas.Grow
import AdeuModel.Lemmas.History
namespace Adeu.Doc
open Adeu

/-! ### the four comment lists stay linked entry by entry -/

/-- entry `i` of the comments part, of commentsExtended, of commentsIds and of commentsExtensible describe the same
comment: the paragraph id of the comment's last paragraph is the extended entry's id and the ids entry's key, and
the durable id of the ids entry is the extensible entry's key -/
def linked4 (cs : List Comment) (ex : List CommentEx) (ids : List (Str × Str)) (cex : List (Str × Str)) : Prop :=
  cs.map (fun c => c.paras.getLast?.bind (·.paraId)) = ex.map (·.paraId) ∧
  ex.map (·.paraId) = ids.map (fun i => some i.1) ∧
  ids.map (·.2) = cex.map (·.1)

theorem linked4_nil : linked4 [] [] [] [] := ⟨rfl, rfl, rfl⟩

theorem linked4_append {a a' : List Comment} {b b' : List CommentEx} {c c' d d' : List (Str × Str)}
    (h : linked4 a b c d) (h' : linked4 a' b' c' d') : linked4 (a ++ a') (b ++ b') (c ++ c') (d ++ d') := by
  obtain ⟨h1, h2, h3⟩ := h
  obtain ⟨h1', h2', h3'⟩ := h'
  simp only [linked4, List.map_append]
  exact ⟨by rw [h1, h1'], by rw [h2, h2'], by rw [h3, h3']⟩

structure LGrows (s s' : Sess) : Prop where
  grows : Grows s s'
  link : linked4 (s'.doc.comments.drop s.doc.comments.length) (s'.doc.commentsEx.drop s.doc.commentsEx.length)
    (s'.doc.commentsIds.drop s.doc.commentsIds.length) (s'.doc.commentsCex.drop s.doc.commentsCex.length)

theorem LGrows.refl (s : Sess) : LGrows s s := ⟨Grows.refl s, by simp [linked4]⟩

theorem drop_of_prefixes {α} {a b c : List α} (h1 : a <+: b) (h2 : b <+: c) :
    c.drop a.length = b.drop a.length ++ c.drop b.length := by
  obtain ⟨x, rfl⟩ := h1
  obtain ⟨y, rfl⟩ := h2
  simp [List.append_assoc]

theorem LGrows.trans {a b c : Sess} (h1 : LGrows a b) (h2 : LGrows b c) : LGrows a c := by
  refine ⟨h1.grows.trans h2.grows, ?_⟩
  rw [drop_of_prefixes h1.grows.comments h2.grows.comments, drop_of_prefixes h1.grows.commentsEx h2.grows.commentsEx,
    drop_of_prefixes h1.grows.commentsIds h2.grows.commentsIds, drop_of_prefixes h1.grows.commentsCex h2.grows.commentsCex]
  exact linked4_append h1.link h2.link

theorem LGrows_of_same {s s' : Sess} (hg : Grows s s') (h1 : s'.doc.comments = s.doc.comments)
    (h2 : s'.doc.commentsEx = s.doc.commentsEx) (h3 : s'.doc.commentsIds = s.doc.commentsIds)
    (h4 : s'.doc.commentsCex = s.doc.commentsCex) : LGrows s s' :=
  ⟨hg, by rw [h1, h2, h3, h4]; simp [linked4]⟩

theorem LGrows_modPara (s : Sess) (pp : PPath) (f : Para → Para × List Block) (hf : ParaKeep f) :
    LGrows s { s with doc := modPara s.doc pp f } := by
  obtain ⟨h1, h2, h3, h4, _⟩ := modPara_fields s.doc pp f
  exact LGrows_of_same (Grows_modPara s pp f hf) h1 h2 h3 h4

theorem LGrows_of_frame {s s' : Sess} (h : s'.frame = s.frame) : LGrows s s' := by
  have h' := h
  simp only [Sess.frame, Prod.mk.injEq] at h'
  exact LGrows_of_same (Grows_of_frame h) h'.2.1 h'.2.2.1 h'.2.2.2.1 h'.2.2.2.2.1

theorem LGrows_newRev (s : Sess) : LGrows s s.newRev.1 := LGrows_of_same (Grows_newRev s) rfl rfl rfl rfl

theorem LGrows_addComment (s : Sess) (text : Str) (parent : Option Str) : LGrows s (s.addComment text parent).1 := by
  refine ⟨Grows_addComment s text parent, ?_⟩
  simp [Sess.addComment, linked4]

theorem LGrows_mapBody (s : Sess) (g : List Node → List Node) :
    LGrows s { s with doc := { s.doc with body := mapNodesBlocks g s.doc.body } } :=
  LGrows_of_same (Grows_mapBody s g) rfl rfl rfl rfl

theorem LGrows_mapPart (s : Sess) (pi : Nat) (g : List Node → List Node) :
    LGrows s { s with doc := modPart s.doc pi (mapNodesBlocks g) } := by
  obtain ⟨h1, h2, h3, h4, _⟩ := modPart_fields s.doc pi (mapNodesBlocks g)
  exact LGrows_of_same (Grows_mapPart s pi g) h1 h2 h3 h4

theorem LGrows_trackDelete (s : Sess) (r : RunRef) : LGrows s (trackDelete s r).1 := by
  simp only [trackDelete]
  exact (LGrows_newRev s).trans (LGrows_modPara _ _ _ (fun p => ⟨rfl, rfl⟩))

theorem LGrows_foldl_trackDelete (ts : List RunRef) : ∀ s : Sess, LGrows s (ts.foldl (fun acc t => (trackDelete acc t).1) s) := by
  induction ts with
  | nil => intro s; exact LGrows.refl s
  | cons t rest ih => intro s; exact (LGrows_trackDelete s t).trans (ih _)

theorem LGrows_lineParas (lines : List Str) (style : Option Run) (sup : Bool) (ppr : Para) :
    ∀ (s : Sess), LGrows s (lineParas s lines style sup ppr).1 := by
  intro s
  unfold lineParas
  suffices h : ∀ (acc : Sess × List Block), LGrows s acc.1 →
      LGrows s (lines.foldl (fun (acc : Sess × List Block) line =>
        if (parseMdStyle line).1.isEmpty && (parseMdStyle line).2.isNone then (acc.1, acc.2)
        else ((acc.1.newRev).1, acc.2 ++ [Block.para (match (parseMdStyle line).2 with
          | some l => { style := some (headingStyleId l), ppr := [], nodes := [.ins (acc.1.newRev).2 (insRuns (parseMdStyle line).1 style sup)] }
          | none => { style := ppr.style, ppr := copyPPr ppr.ppr, nodes := [.ins (acc.1.newRev).2 (insRuns (parseMdStyle line).1 style sup)] })])) acc).1 by
    exact h (s, []) (LGrows.refl s)
  induction lines with
  | nil => intro acc h; exact h
  | cons l rest ih =>
    intro acc h
    simp only [List.foldl_cons]
    apply ih
    split
    · exact h
    · exact h.trans (LGrows_newRev _)

end Adeu.Doc

namespace Adeu.Doc
open Adeu

theorem LGrows_trackInsert (s : Sess) (text : Str) (style : Option Run) (hasPara : Bool) (ap : Para)
    (comment : Option Str) (sup : Bool) : LGrows s (trackInsert s text style hasPara ap comment sup).1 := by
  unfold trackInsert
  simp only
  repeat' first
    | exact LGrows.refl s
    | exact LGrows_lineParas _ _ _ _ s
    | exact (LGrows_lineParas _ _ _ _ s).trans (LGrows_addComment _ _ _)
    | exact LGrows_newRev s
    | exact (LGrows_newRev s).trans (LGrows_lineParas _ _ _ _ _)
    | split

theorem LGrows_placeInsertion (s : Sess) (a : RunRef) (before : Bool) (p : Para) (newText : Str) (comment : Option Str) :
    LGrows s (placeInsertion s a before p newText comment) := by
  unfold placeInsertion
  simp only
  split
  · exact (LGrows_trackInsert _ _ _ _ _ _ _).trans (LGrows_modPara _ _ _ (fun p => ⟨rfl, rfl⟩))
  · split
    · exact ((LGrows_trackInsert _ _ _ _ _ _ _).trans (LGrows_addComment _ _ _)).trans
        (LGrows_modPara _ _ _ (fun p => ⟨rfl, rfl⟩))
    · exact (LGrows_trackInsert _ _ _ _ _ _ _).trans (LGrows_modPara _ _ _ (fun p => ⟨rfl, rfl⟩))

theorem LGrows_modPara2 (s : Sess) (pp1 pp2 : PPath) (f1 f2 : Para → Para × List Block) (h1 : ParaKeep f1) (h2 : ParaKeep f2) :
    LGrows s { s with doc := modPara (modPara s.doc pp1 f1) pp2 f2 } :=
  (LGrows_modPara s pp1 f1 h1).trans (LGrows_modPara { s with doc := modPara s.doc pp1 f1 } pp2 f2 h2)

theorem LGrows_retireTargets (ts : List RunRef) : ∀ st : Retired, LGrows st.s (retireTargets st ts).s := by
  induction ts with
  | nil => intro st; exact LGrows.refl _
  | cons t rest ih =>
    intro st
    simp only [retireTargets]
    split
    · refine LGrows.trans ?_ (ih _)
      exact LGrows_modPara _ _ _ (fun p => ⟨rfl, rfl⟩)
    · refine LGrows.trans ?_ (ih _)
      exact LGrows_trackDelete _ _

theorem LGrows_replaceTargets (s : Sess) (targets : List RunRef) (lastT : RunRef) (op : EOp) (newText : Str)
    (comment : Option Str) : LGrows s (replaceTargets s targets lastT op newText comment) := by
  unfold replaceTargets
  simp only
  have hd : LGrows s (retireTargets { s := s } targets).s := LGrows_retireTargets targets { s := s }
  repeat' first
    | exact hd
    | exact (hd.trans (LGrows_addComment _ _ _)).trans (LGrows_modPara _ _ _ (fun p => ⟨rfl, rfl⟩))
    | exact (hd.trans (LGrows_addComment _ _ _)).trans
        (LGrows_modPara2 _ _ _ _ _ (fun p => ⟨rfl, rfl⟩) (fun p => ⟨rfl, rfl⟩))
    | exact (hd.trans (LGrows_trackInsert _ _ _ _ _ _ _)).trans (LGrows_modPara _ _ _ (fun p => ⟨rfl, rfl⟩))
    | exact ((hd.trans (LGrows_trackInsert _ _ _ _ _ _ _)).trans (LGrows_addComment _ _ _)).trans
        (LGrows_modPara _ _ _ (fun p => ⟨rfl, rfl⟩))
    | exact ((hd.trans (LGrows_trackInsert _ _ _ _ _ _ _)).trans (LGrows_addComment _ _ _)).trans
        (LGrows_modPara2 _ _ _ _ _ (fun p => ⟨rfl, rfl⟩) (fun p => ⟨rfl, rfl⟩))
    | split

end Adeu.Doc

namespace Adeu.Doc
open Adeu

theorem LGrows_nestedIns (s : Sess) (text : Str) (style : Option Run) (comment : Option Str) :
    LGrows s (nestedIns s text style comment).1 := by
  unfold nestedIns
  split
  · exact LGrows_newRev s
  · exact LGrows_trackInsert _ _ _ _ _ _ _

theorem LGrows_nestedReplace (s : Sess) (pi : Nat) (insId newText : Str) (comment : Option Str) :
    LGrows s (nestedReplace s pi insId newText comment).1 := by
  unfold nestedReplace
  have hr : LGrows s { s with doc := modPart s.doc pi fun bs => (rejectChange insId bs).1 } := LGrows_mapPart s pi _
  split
  · exact LGrows.refl s
  · simp only
    repeat' first
      | exact hr
      | exact hr.trans (LGrows_nestedIns _ _ _ _)
      | exact (hr.trans (LGrows_nestedIns _ _ _ _)).trans (LGrows_modPara _ _ _ (fun p => ⟨rfl, rfl⟩))
      | exact ((hr.trans (LGrows_nestedIns _ _ _ _)).trans (LGrows_addComment _ _ _)).trans
          (LGrows_modPara _ _ _ (fun p => ⟨rfl, rfl⟩))
      | split

theorem LGrows_applyInsertion (s : Sess) (spans : List OSpan) (start : Nat) (newText : Str) (comment : Option Str) :
    LGrows s (applyInsertion s spans start newText comment).1 := by
  unfold applyInsertion
  simp only
  have hr1 : ∀ bl, LGrows s (chooseAnchor s spans start bl).1 := fun bl => LGrows_of_frame (chooseAnchor_frame s spans start bl)
  split
  · exact hr1 _
  · split
    · exact hr1 _
    · exact (hr1 _).trans (LGrows_placeInsertion _ _ _ _ _ _)

theorem LGrows_applyReplace (s : Sess) (spans : List OSpan) (op : EOp) (start len : Nat) (newText : Str)
    (comment : Option Str) : LGrows s (applyReplace s spans op start len newText comment).1 := by
  unfold applyReplace
  simp only
  have hr := LGrows_of_frame (resolveRuns_frame s spans start (start + len))
  split
  · exact hr.trans (LGrows_replaceTargets _ _ _ _ _ _)
  · exact hr

theorem LGrows_applyIndexed (s : Sess) (clean : Bool) (start len : Nat) (newText : Str) (comment : Option Str)
    (op : Option EOp) : LGrows s (applyIndexed s clean start len newText comment op).1 := by
  unfold applyIndexed
  simp only
  split
  · exact LGrows.refl s
  · split
    · exact LGrows_nestedReplace _ _ _ _ _
    · split
      · exact LGrows_applyInsertion _ _ _ _ _
      · exact LGrows_applyReplace _ _ _ _ _ _ _

theorem LGrows_nestedProxyWith (s : Sess) (clean : Bool) (start len : Nat) (new : Str) (comment : Option Str) (id : Str)
    (r : Sess × Bool) (hr : nestedProxyWith s clean start len new comment id = some r) : LGrows s r.1 := by
  unfold nestedProxyWith at hr
  simp only at hr
  split at hr
  · injection hr with hr; subst hr; exact LGrows_applyIndexed _ _ _ _ _ _ _
  · cases hr

theorem LGrows_nestedProxyAt (s : Sess) (clean : Bool) (start len : Nat) (new : Str) (comment : Option Str)
    (r : Sess × Bool) (hr : nestedProxyAt s clean start len new comment = some r) : LGrows s r.1 := by
  unfold nestedProxyAt at hr
  split at hr
  · exact LGrows_nestedProxyWith _ _ _ _ _ _ _ r hr
  · cases hr

theorem LGrows_nestedInsertAt (s : Sess) (clean : Bool) (start : Nat) (new : Str) (comment : Option Str)
    (r : Sess × Bool) (hr : nestedInsertAt s clean start new comment = some r) : LGrows s r.1 := by
  unfold nestedInsertAt at hr
  split at hr
  · cases hr
  · split at hr
    · exact LGrows_nestedProxyWith _ _ _ _ _ _ _ r hr
    · cases hr

theorem LGrows_heuristicDirect (s : Sess) (m : HMatch) (e : HEdit) : LGrows s (heuristicDirect s m e).1 := by
  unfold heuristicDirect
  simp only
  split
  · exact LGrows.refl s
  · split
    · split
      · rename_i r hr; exact LGrows_nestedInsertAt _ _ _ _ _ r hr
      · exact LGrows_applyIndexed _ _ _ _ _ _ _
    · split
      · exact LGrows.refl s
      · split
        · rename_i r hr
          split at hr
          · exact LGrows_nestedInsertAt _ _ _ _ _ r hr
          · exact LGrows_nestedProxyAt _ _ _ _ _ _ r hr
        · exact LGrows_applyIndexed _ _ _ _ _ _ _

theorem LGrows_nestedProxy (s : Sess) (m : HMatch) (e : HEdit) (r : Sess × Bool) (hr : nestedProxy s m e = some r) :
    LGrows s r.1 :=
  LGrows_nestedProxyAt s m.clean m.start m.len e.new e.comment r hr

theorem LGrows_applyHeuristic (s : Sess) (occ : List (Nat × Nat)) (e : HEdit) : LGrows s (applyHeuristic s occ e).1 := by
  unfold applyHeuristic
  split
  · exact LGrows.refl s
  · split
    · exact LGrows.refl s
    · split
      · exact LGrows.refl s
      · simp only [heuristicApplyAt]
        split
        · rename_i r hr; exact LGrows_nestedProxy s _ e r hr
        · exact LGrows_heuristicDirect _ _ _

theorem LGrows_indexedStep (acc : Acc) (e : IEdit) : LGrows acc.1 (indexedStep acc e).1 := by
  obtain ⟨s, ap, sk, occ⟩ := acc
  simp only [indexedStep]
  split
  · exact LGrows.refl s
  · split <;> exact LGrows_applyIndexed _ _ _ _ _ _ _

theorem LGrows_heuristicStep (acc : Acc) (e : HEdit) : LGrows acc.1 (heuristicStep acc e).1 := by
  obtain ⟨s, ap, sk, occ⟩ := acc
  simp only [heuristicStep]
  split <;> exact LGrows_applyHeuristic _ _ _

theorem LGrows_foldl {α} (step : Acc → α → Acc) (hs : ∀ acc a, LGrows acc.1 (step acc a).1) :
    ∀ (l : List α) (acc : Acc), LGrows acc.1 (l.foldl step acc).1 := by
  intro l
  induction l with
  | nil => intro acc; exact LGrows.refl _
  | cons a rest ih => intro acc; exact (hs acc a).trans (ih _)

/-- Whatever a batch does — applied, skipped, matched fuzzily, inside someone else's insertion — every story
keeps its skeleton (paragraph properties, tables with their properties, rows, cells, other blocks, all in
order; paragraphs are only ever added), every existing comment entry stays where it is in all four comment
lists, and the session's author, date and counters only move forward. -/
theorem LGrows_applyEdits (s : Sess) (edits : List HEdit) : LGrows s (Doc.applyEdits s edits).1 := by
  unfold Doc.applyEdits applyEditsIndexedFull
  simp only
  exact (LGrows_foldl indexedStep LGrows_indexedStep _ (s, 0, 0, [])).trans (LGrows_foldl heuristicStep LGrows_heuristicStep _ _)

theorem LGrows_applyEditsIndexed (s : Sess) (edits : List IEdit) : LGrows s (applyEditsIndexed s edits).1 := by
  unfold applyEditsIndexed applyEditsIndexedFull
  exact LGrows_foldl indexedStep LGrows_indexedStep _ (s, 0, 0, [])

end Adeu.Doc

namespace Adeu.Doc
open Adeu
theorem LGrows_setBody (s : Sess) (b : List Block) (h : skel b = skel s.doc.body) :
    LGrows s { s with doc := { s.doc with body := b } } :=
  LGrows_of_same (Grows_setBody s b h) rfl rfl rfl rfl

theorem LGrows_applyAction (s : Sess) (a : Action) : LGrows s (s.applyAction a).1 := by
  unfold Sess.applyAction
  simp only
  split
  · split
    · exact LGrows_setBody s _ (skel_mapNodesBlocks _ _)
    · exact LGrows.refl s
  · split
    · exact LGrows_setBody s _ (skel_mapNodesBlocks _ _)
    · exact LGrows.refl s
  · split
    · exact (LGrows_addComment s (a.text.getD []) (some (parseTarget a.target).1)).trans
        (LGrows_setBody _ _ (anchorReply_skel _ _ _))
    · exact LGrows.refl s

theorem LGrows_applyActions (s : Sess) (acts : List Action) : LGrows s (s.applyActions acts).1 := by
  unfold Sess.applyActions
  suffices h : ∀ (acc : Sess × Nat × Nat), LGrows s acc.1 →
      LGrows s (acts.foldl (fun (acc : Sess × Nat × Nat) a =>
        if (acc.1.applyAction a).2 then ((acc.1.applyAction a).1, acc.2.1 + 1, acc.2.2)
        else ((acc.1.applyAction a).1, acc.2.1, acc.2.2 + 1)) acc).1 by
    exact h (s, 0, 0) (LGrows.refl s)
  induction acts with
  | nil => intro acc h; exact h
  | cons a rest ih =>
    intro acc h
    simp only [List.foldl_cons]
    apply ih
    split <;> exact h.trans (LGrows_applyAction _ _)

theorem LGrows_acceptAll (s : Sess) : LGrows s s.acceptAllRevisions := by
  unfold Sess.acceptAllRevisions acceptAll
  exact LGrows_setBody s _ (skel_mapNodesBlocks _ _)


end Adeu.Doc

namespace Adeu.Doc
open Adeu

/-- the four comment lists of a document are linked entry by entry -/
def DocLinked (d : Document) : Prop := linked4 d.comments d.commentsEx d.commentsIds d.commentsCex

theorem linked_of_LGrows {s s' : Sess} (h : LGrows s s') (h0 : DocLinked s.doc) : DocLinked s'.doc := by
  have e1 := List.prefix_iff_eq_append.mp h.grows.comments
  have e2 := List.prefix_iff_eq_append.mp h.grows.commentsEx
  have e3 := List.prefix_iff_eq_append.mp h.grows.commentsIds
  have e4 := List.prefix_iff_eq_append.mp h.grows.commentsCex
  unfold DocLinked
  rw [← e1, ← e2, ← e3, ← e4]
  exact linked4_append h0 h.link

theorem DocLinked_open (d : Document) (author date : Str) (h : DocLinked d) : DocLinked (Sess.open d author date).doc := h

/-- **The comment parts stay linked.**  If in the opened document entry `i` of comments.xml, commentsExtended,
commentsIds and commentsExtensible belong together (paragraph id / durable id), then so they do after any batch:
every comment a run adds brings exactly one entry in each part, with matching ids, at the same position. -/
theorem comment_parts_stay_linked (d : Document) (author date : Str) (edits : List HEdit) (h : DocLinked d) :
    DocLinked (Doc.applyEdits (Sess.open d author date) edits).1.doc :=
  linked_of_LGrows (LGrows_applyEdits _ edits) (DocLinked_open d author date h)

theorem comment_parts_stay_linked_indexed (d : Document) (author date : Str) (edits : List IEdit) (h : DocLinked d) :
    DocLinked (applyEditsIndexed (Sess.open d author date) edits).1.doc :=
  linked_of_LGrows (LGrows_applyEditsIndexed _ edits) (DocLinked_open d author date h)

theorem comment_parts_stay_linked_actions (d : Document) (author date : Str) (acts : List Action) (h : DocLinked d) :
    DocLinked ((Sess.open d author date).applyActions acts).1.doc :=
  linked_of_LGrows (LGrows_applyActions _ acts) (DocLinked_open d author date h)

theorem linked_over_history (steps : List Step) : ∀ d : Document, DocLinked d → DocLinked (runHistory d steps).1 := by
  induction steps with
  | nil => intro d h; exact h
  | cons st rest ih =>
    intro d h
    simp only [runHistory]
    apply ih
    cases st with
    | edits a es => exact comment_parts_stay_linked_indexed d a sessionDate es h
    | actions a acts => exact comment_parts_stay_linked_actions d a sessionDate acts h
    | acceptAll => exact linked_of_LGrows (LGrows_acceptAll _) (DocLinked_open d [] sessionDate h)

end Adeu.Doc
