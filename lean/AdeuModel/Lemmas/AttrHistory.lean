import AdeuModel.Lemmas.Attr
import AdeuModel.Lemmas.History
namespace Adeu.Doc
open Adeu

/-- The ids of the marks a session adds lie above every numeric revision id that the opened document carries in
the stories the engine reaches — so a new mark never shares its id with a mark that was already there. -/
theorem new_ids_above_old (d : Document) (author date : Str) (edits : List HEdit) (x : Rev)
    (hx : x ∈ revsDoc (Doc.applyEdits (Sess.open d author date) edits).1.doc)
    (hnew : x ∉ revsDoc (Sess.open d author date).doc) :
    ∃ k, x.id = natStr k ∧ x.author = some author ∧ x.date = some date ∧
      ∀ bs ∈ docParts (normalize d), ∀ n ∈ allNodesBlocks bs, ∀ rev k', revOf n = some rev → strNat? rev.id = some k' → k' < k := by
  rcases (RevOk_applyEdits (Sess.open d author date) edits).revs x hx with h | h
  · exact absurd h hnew
  · obtain ⟨ha, hd, k, hk1, _, hk3⟩ := h
    refine ⟨k, hk3, ha, hd, ?_⟩
    intro bs hbs n hn rev k' hr hk'
    have := newRev_fresh d author date bs n rev k' hbs hn hr hk'
    omega

end Adeu.Doc

namespace Adeu.Doc
open Adeu

/-! ### review actions and accept-all only remove marks -/

theorem revs_acceptN (id : Str) (ns : List Node) (x : Rev) (h : x ∈ revsNodes (ns.flatMap (acceptN id))) :
    x ∈ revsNodes ns := by
  obtain ⟨m, hm, hx⟩ := mem_revsNodes.mp h
  obtain ⟨n, hn, hmn⟩ := List.mem_flatMap.mp hm
  cases n with
  | ins rev ch =>
    simp only [acceptN] at hmn
    split at hmn
    · simp only [List.mem_map] at hmn
      obtain ⟨c, _, rfl⟩ := hmn
      cases c <;> simp [InsChild.toNode, revOf] at hx
    · simp only [List.mem_singleton] at hmn; subst hmn; exact mem_revsNodes.mpr ⟨_, hn, hx⟩
  | del rev runs =>
    simp only [acceptN] at hmn
    split at hmn
    · simp at hmn
    · simp only [List.mem_singleton] at hmn; subst hmn; exact mem_revsNodes.mpr ⟨_, hn, hx⟩
  | _ =>
    simp only [acceptN, List.mem_singleton] at hmn; subst hmn; exact mem_revsNodes.mpr ⟨_, hn, hx⟩

theorem revs_acceptAllN (ns : List Node) (x : Rev)
    (h : x ∈ revsNodes ((ns.flatMap acceptAllN).flatMap stripCommentN)) : x ∈ revsNodes ns := by
  obtain ⟨m, hm, hx⟩ := mem_revsNodes.mp h
  obtain ⟨n', hn', hmn'⟩ := List.mem_flatMap.mp hm
  obtain ⟨n, hn, hn'n⟩ := List.mem_flatMap.mp hn'
  -- n' comes from n by acceptAllN, m from n' by stripCommentN
  cases n with
  | ins rev ch =>
    simp only [acceptAllN, List.mem_map] at hn'n
    obtain ⟨c, _, rfl⟩ := hn'n
    cases c <;> simp [InsChild.toNode, stripCommentN] at hmn' <;> (try subst hmn') <;> simp [revOf] at hx
  | del rev runs => simp [acceptAllN] at hn'n
  | run r =>
    simp only [acceptAllN, List.mem_singleton] at hn'n; subst hn'n
    simp only [stripCommentN, List.mem_singleton] at hmn'; subst hmn'; simp [revOf] at hx
  | cs i => simp only [acceptAllN, List.mem_singleton] at hn'n; subst hn'n; simp [stripCommentN] at hmn'
  | ce i => simp only [acceptAllN, List.mem_singleton] at hn'n; subst hn'n; simp [stripCommentN] at hmn'
  | proof t =>
    simp only [acceptAllN, List.mem_singleton] at hn'n; subst hn'n
    simp only [stripCommentN, List.mem_singleton] at hmn'; subst hmn'; simp [revOf] at hx
  | hl a rs =>
    simp only [acceptAllN, List.mem_singleton] at hn'n; subst hn'n
    simp only [stripCommentN, List.mem_singleton] at hmn'; subst hmn'; simp [revOf] at hx
  | other y =>
    simp only [acceptAllN, List.mem_singleton] at hn'n; subst hn'n
    simp only [stripCommentN, List.mem_singleton] at hmn'; subst hmn'; simp [revOf] at hx

theorem insChildAfter_some (p : InsChild → Bool) (new : List InsChild) : ∀ (ch ch' : List InsChild),
    insChildAfter p new ch = some ch' → True := fun _ _ _ => trivial

/-- inserting range markers / a reference run next to an existing child adds no mark -/
theorem revs_insertAfterFirst (pTop : Node → Bool) (pIns : InsChild → Bool) (newTop : List Node) (newIns : List InsChild)
    (hnew : ∀ x, x ∉ revsNodes newTop) : ∀ (ns ns' : List Node),
    insertAfterFirst pTop pIns newTop newIns ns = some ns' → ∀ x ∈ revsNodes ns', x ∈ revsNodes ns := by
  intro ns
  induction ns with
  | nil => intro ns' h; simp [insertAfterFirst] at h
  | cons n rest ih =>
    intro ns' h x hx
    simp only [insertAfterFirst] at h
    split at h
    · injection h with h; subst h
      have e : n :: newTop ++ rest = [n] ++ newTop ++ rest := by simp
      rw [e, revsNodes_append, revsNodes_append, List.mem_append, List.mem_append] at hx
      rw [revsNodes_cons, List.mem_append]
      rcases hx with (hx | hx) | hx
      · exact Or.inl hx
      · exact absurd hx (hnew x)
      · exact Or.inr hx
    · split at h
      · rename_i rev ch
        split at h
        · rename_i ch' _
          injection h with h; subst h
          rw [revsNodes_cons, List.mem_append] at hx
          rw [revsNodes_cons, List.mem_append]
          rcases hx with hx | hx
          · left; rw [revsNodes_insNode] at hx ⊢; exact hx
          · exact Or.inr hx
        · cases hr : insertAfterFirst pTop pIns newTop newIns rest with
          | none => simp [hr] at h
          | some r =>
            simp only [hr, Option.map_some, Option.some.injEq] at h; subst h
            rw [revsNodes_cons, List.mem_append] at hx
            rw [revsNodes_cons, List.mem_append]
            rcases hx with hx | hx
            · exact Or.inl hx
            · exact Or.inr (ih r hr x hx)
      · cases hr : insertAfterFirst pTop pIns newTop newIns rest with
        | none => simp [hr] at h
        | some r =>
          simp only [hr, Option.map_some, Option.some.injEq] at h; subst h
          rw [revsNodes_cons, List.mem_append] at hx
          rw [revsNodes_cons, List.mem_append]
          rcases hx with hx | hx
          · exact Or.inl hx
          · exact Or.inr (ih r hr x hx)

end Adeu.Doc

namespace Adeu.Doc
open Adeu

mutual
  theorem revs_firstParaBlocks (f : List Node → Option (List Node))
      (hf : ∀ ns ns', f ns = some ns' → ∀ x ∈ revsNodes ns', x ∈ revsNodes ns) : ∀ (bs bs' : List Block),
      firstParaBlocks f bs = some bs' → ∀ x ∈ revsBlocks bs', x ∈ revsBlocks bs
    | [], _, h, _, _ => by simp [firstParaBlocks] at h
    | .para p :: rest, bs', h, x, hx => by
      simp only [firstParaBlocks] at h
      split at h
      · rename_i ns' hns
        injection h with h; subst h
        rw [revsBlocks_cons, revsBlocks_para, List.mem_append] at hx
        rw [revsBlocks_cons, revsBlocks_para, List.mem_append]
        rcases hx with hx | hx
        · exact Or.inl (hf _ _ hns x hx)
        · exact Or.inr hx
      · cases hr : firstParaBlocks f rest with
        | none => simp [hr] at h
        | some r =>
          simp only [hr, Option.map_some, Option.some.injEq] at h; subst h
          rw [revsBlocks_cons, List.mem_append] at hx
          rw [revsBlocks_cons, List.mem_append]
          rcases hx with hx | hx
          · exact Or.inl hx
          · exact Or.inr (revs_firstParaBlocks f hf rest r hr x hx)
    | .table pr g rows :: rest, bs', h, x, hx => by
      simp only [firstParaBlocks] at h
      split at h
      · rename_i rows' hrows
        injection h with h; subst h
        rw [revsBlocks_cons, revsBlocks_table, List.mem_append] at hx
        rw [revsBlocks_cons, revsBlocks_table, List.mem_append]
        rcases hx with hx | hx
        · exact Or.inl (revs_firstParaRows f hf rows rows' hrows x hx)
        · exact Or.inr hx
      · cases hr : firstParaBlocks f rest with
        | none => simp [hr] at h
        | some r =>
          simp only [hr, Option.map_some, Option.some.injEq] at h; subst h
          rw [revsBlocks_cons, List.mem_append] at hx
          rw [revsBlocks_cons, List.mem_append]
          rcases hx with hx | hx
          · exact Or.inl hx
          · exact Or.inr (revs_firstParaBlocks f hf rest r hr x hx)
    | .other y :: rest, bs', h, x, hx => by
      simp only [firstParaBlocks] at h
      cases hr : firstParaBlocks f rest with
      | none => simp [hr] at h
      | some r =>
        simp only [hr, Option.map_some, Option.some.injEq] at h; subst h
        rw [revsBlocks_cons, List.mem_append] at hx
        rw [revsBlocks_cons, List.mem_append]
        rcases hx with hx | hx
        · exact Or.inl hx
        · exact Or.inr (revs_firstParaBlocks f hf rest r hr x hx)
  theorem revs_firstParaRows (f : List Node → Option (List Node))
      (hf : ∀ ns ns', f ns = some ns' → ∀ x ∈ revsNodes ns', x ∈ revsNodes ns) : ∀ (rs rs' : List Row),
      firstParaRows f rs = some rs' → ∀ x ∈ revsStream (streamRows rs'), x ∈ revsStream (streamRows rs)
    | [], _, h, _, _ => by simp [firstParaRows] at h
    | .mk pr cells :: rest, rs', h, x, hx => by
      simp only [firstParaRows] at h
      split at h
      · rename_i cells' hc
        injection h with h; subst h
        rw [revs_rows_cons, List.mem_append] at hx
        rw [revs_rows_cons, List.mem_append]
        rcases hx with hx | hx
        · exact Or.inl (revs_firstParaCells f hf cells cells' hc x hx)
        · exact Or.inr hx
      · cases hr : firstParaRows f rest with
        | none => simp [hr] at h
        | some r =>
          simp only [hr, Option.map_some, Option.some.injEq] at h; subst h
          rw [revs_rows_cons, List.mem_append] at hx
          rw [revs_rows_cons, List.mem_append]
          rcases hx with hx | hx
          · exact Or.inl hx
          · exact Or.inr (revs_firstParaRows f hf rest r hr x hx)
  theorem revs_firstParaCells (f : List Node → Option (List Node))
      (hf : ∀ ns ns', f ns = some ns' → ∀ x ∈ revsNodes ns', x ∈ revsNodes ns) : ∀ (cs cs' : List Cell),
      firstParaCells f cs = some cs' → ∀ x ∈ revsStream (streamCells cs'), x ∈ revsStream (streamCells cs)
    | [], _, h, _, _ => by simp [firstParaCells] at h
    | .mk pr s v bs :: rest, cs', h, x, hx => by
      simp only [firstParaCells] at h
      split at h
      · rename_i bs' hb
        injection h with h; subst h
        rw [revs_cells_cons, List.mem_append] at hx
        rw [revs_cells_cons, List.mem_append]
        rcases hx with hx | hx
        · exact Or.inl (revs_firstParaBlocks f hf bs bs' hb x hx)
        · exact Or.inr hx
      · cases hr : firstParaCells f rest with
        | none => simp [hr] at h
        | some r =>
          simp only [hr, Option.map_some, Option.some.injEq] at h; subst h
          rw [revs_cells_cons, List.mem_append] at hx
          rw [revs_cells_cons, List.mem_append]
          rcases hx with hx | hx
          · exact Or.inl hx
          · exact Or.inr (revs_firstParaCells f hf rest r hr x hx)
end

theorem revs_firstParaBlocks_getD (f : List Node → Option (List Node))
    (hf : ∀ ns ns', f ns = some ns' → ∀ x ∈ revsNodes ns', x ∈ revsNodes ns) (bs : List Block) :
    ∀ x ∈ revsBlocks ((firstParaBlocks f bs).getD bs), x ∈ revsBlocks bs := by
  intro x hx
  cases h : firstParaBlocks f bs with
  | none => simpa [h] using hx
  | some r => rw [h] at hx; exact revs_firstParaBlocks f hf bs r h x hx

theorem revs_runMarker (cid : Str) (x : Rev) : x ∉ revsNodes [Node.run (crefRun cid)] := by
  intro h; obtain ⟨m, hm, hx⟩ := mem_revsNodes.mp h
  simp only [List.mem_singleton] at hm; subst hm; simp [revOf] at hx

theorem revs_ceOnly (cid : Str) (x : Rev) : x ∉ revsNodes [Node.ce cid] := by
  intro h; obtain ⟨m, hm, hx⟩ := mem_revsNodes.mp h
  simp only [List.mem_singleton] at hm; subst hm; simp [revOf] at hx

theorem revs_anchorReply (body : List Block) (parent new : Str) : ∀ x ∈ revsBlocks (anchorReply body parent new), x ∈ revsBlocks body := by
  intro x hx
  unfold anchorReply at hx
  simp only at hx
  split at hx
  · exact hx
  · rename_i b1 h1
    have e1 : ∀ y ∈ revsBlocks b1, y ∈ revsBlocks body :=
      revs_firstParaBlocks _ (revs_insertAfterFirst _ _ _ _ (revs_csMarkers new)) body b1 h1
    split at hx
    · exact e1 x hx
    · split at hx
      · apply e1
        apply revs_firstParaBlocks_getD _ (revs_insertAfterFirst _ _ _ _ (revs_ceOnly new)) b1
        exact revs_firstParaBlocks_getD _ (revs_insertAfterFirst _ _ _ _ (revs_runMarker new)) _ x hx
      · apply e1
        apply revs_firstParaBlocks_getD _ (revs_insertAfterFirst _ _ _ _ (revs_ceOnly new)) b1
        exact revs_firstParaBlocks_getD _ (revs_insertAfterFirst _ _ _ _ (revs_runMarker new)) _ x hx

end Adeu.Doc

namespace Adeu.Doc
open Adeu

theorem RevOk_applyEditsIndexed (s : Sess) (edits : List IEdit) : RevOk s (applyEditsIndexed s edits).1 := by
  unfold applyEditsIndexed applyEditsIndexedFull
  exact RevOk.foldl indexedStep (fun acc a h => RevOk.step_indexedStep acc h a) _ (s, 0, 0, []) (RevOk.refl s)

theorem revsDoc_setBody (d : Document) (b : List Block) (hb : ∀ x ∈ revsBlocks b, x ∈ revsBlocks d.body) :
    ∀ x ∈ revsDoc { d with body := b }, x ∈ revsDoc d := by
  intro x hx
  simp only [revsDoc, List.mem_append] at hx ⊢
  rcases hx with (hx | hx) | hx
  · exact Or.inl (Or.inl hx)
  · exact Or.inl (Or.inr (hb x hx))
  · exact Or.inr hx

theorem revs_applyAction (s : Sess) (a : Action) : ∀ x ∈ revsDoc (s.applyAction a).1.doc, x ∈ revsDoc s.doc := by
  unfold Sess.applyAction
  simp only
  split
  · split
    · exact revsDoc_setBody _ _ (revs_mapNodesBlocks _ (fun ns x hx => revs_acceptN _ ns x hx) _)
    · exact fun x hx => hx
  · split
    · exact revsDoc_setBody _ _ (revs_mapNodesBlocks _ (fun ns x hx => revs_rejectN _ ns x hx) _)
    · exact fun x hx => hx
  · split
    · intro x hx
      have h1 := revsDoc_setBody (s.addComment (a.text.getD []) (some (parseTarget a.target).1)).1.doc _
        (revs_anchorReply _ (parseTarget a.target).1 (s.addComment (a.text.getD []) (some (parseTarget a.target).1)).2) x hx
      simpa [Sess.addComment, revsDoc] using h1
    · exact fun x hx => hx

theorem revs_applyActions (s : Sess) (acts : List Action) : ∀ x ∈ revsDoc (s.applyActions acts).1.doc, x ∈ revsDoc s.doc := by
  unfold Sess.applyActions
  suffices h : ∀ (acc : Sess × Nat × Nat), (∀ x ∈ revsDoc acc.1.doc, x ∈ revsDoc s.doc) →
      ∀ x ∈ revsDoc (acts.foldl (fun (acc : Sess × Nat × Nat) a =>
        if (acc.1.applyAction a).2 then ((acc.1.applyAction a).1, acc.2.1 + 1, acc.2.2)
        else ((acc.1.applyAction a).1, acc.2.1, acc.2.2 + 1)) acc).1.doc, x ∈ revsDoc s.doc by
    exact h (s, 0, 0) (fun x hx => hx)
  induction acts with
  | nil => intro acc h; exact h
  | cons a rest ih =>
    intro acc h
    simp only [List.foldl_cons]
    apply ih
    split <;> exact fun x hx => h x (revs_applyAction _ _ x hx)

theorem revs_acceptAllRevisions (s : Sess) : ∀ x ∈ revsDoc s.acceptAllRevisions.doc, x ∈ revsDoc s.doc := by
  unfold Sess.acceptAllRevisions acceptAll
  exact revsDoc_setBody _ _ (revs_mapNodesBlocks _ (fun ns x hx => revs_acceptAllN ns x hx) _)

theorem revsDoc_open (d : Document) (author date : Str) : revsDoc (Sess.open d author date).doc = revsDoc d := by
  have h : canonDoc (Sess.open d author date).doc = canonDoc d := by
    have := canonDoc_normalize d
    simpa [Sess.open, canonDoc] using this
  exact revsDoc_of_canon h

/-- the authors of the edit rounds of a history -/
def roundAuthors : List Step → List Str
  | [] => []
  | .edits a _ :: rest => a :: roundAuthors rest
  | _ :: rest => roundAuthors rest

theorem marks_stepDoc (d : Document) (st : Step) : ∀ x ∈ revsDoc (stepDoc d st).1,
    x ∈ revsDoc d ∨ (x.date = some sessionDate ∧ ∃ a ∈ roundAuthors [st], x.author = some a) := by
  intro x hx
  cases st with
  | edits a es =>
    simp only [stepDoc] at hx
    rcases (RevOk_applyEditsIndexed (Sess.open d a sessionDate) es).revs x hx with h | h
    · left; rwa [revsDoc_open] at h
    · right
      obtain ⟨h1, h2, _⟩ := h
      exact ⟨h2, a, by simp [roundAuthors], h1⟩
  | actions a acts =>
    simp only [stepDoc] at hx
    left; rw [← revsDoc_open d a sessionDate]; exact revs_applyActions _ acts x hx
  | acceptAll =>
    simp only [stepDoc] at hx
    left; rw [← revsDoc_open d [] sessionDate]; exact revs_acceptAllRevisions _ x hx

/-- Over any history: every revision mark in the final document is a mark of the original document (unchanged id,
author, date) or was created in one of the edit rounds — it carries that round's author and the session date.
Review rounds and accept-all only remove marks. -/
theorem marks_over_history (steps : List Step) : ∀ (d : Document), ∀ x ∈ revsDoc (runHistory d steps).1,
    x ∈ revsDoc d ∨ (x.date = some sessionDate ∧ ∃ a ∈ roundAuthors steps, x.author = some a) := by
  induction steps with
  | nil => intro d x hx; exact Or.inl hx
  | cons st rest ih =>
    intro d x hx
    simp only [runHistory] at hx
    rcases ih (stepDoc d st).1 x hx with h | ⟨hd, a, ha, hau⟩
    · rcases marks_stepDoc d st x h with h' | ⟨hd, a, ha, hau⟩
      · exact Or.inl h'
      · right; refine ⟨hd, a, ?_, hau⟩
        cases st <;> simp_all [roundAuthors]
    · right; refine ⟨hd, a, ?_, hau⟩
      cases st <;> simp_all [roundAuthors]

end Adeu.Doc
