import AdeuModel.Model.Trim
namespace Adeu.Trim
open Adeu

theorem cpl_le_left (t n : Str) : commonPrefixLen t n ≤ t.length := by
  induction t generalizing n with
  | nil => simp [commonPrefixLen]
  | cons a as ih =>
    cases n with
    | nil => simp [commonPrefixLen]
    | cons b bs =>
      simp only [commonPrefixLen]
      split
      · have := ih bs; simp; omega
      · simp

theorem cpl_le_right (t n : Str) : commonPrefixLen t n ≤ n.length := by
  induction t generalizing n with
  | nil => simp [commonPrefixLen]
  | cons a as ih =>
    cases n with
    | nil => simp [commonPrefixLen]
    | cons b bs =>
      simp only [commonPrefixLen]
      split
      · have := ih bs; simp; omega
      · simp

theorem cpl_take (t n : Str) : ∀ k, k ≤ commonPrefixLen t n → t.take k = n.take k := by
  induction t generalizing n with
  | nil => intro k hk; simp [commonPrefixLen] at hk; subst hk; simp
  | cons a as ih =>
    intro k hk
    cases n with
    | nil => simp [commonPrefixLen] at hk; subst hk; simp
    | cons b bs =>
      simp only [commonPrefixLen] at hk
      split at hk
      · rename_i hab
        subst hab
        cases k with
        | zero => simp
        | succ k => simp only [List.take_succ_cons]; rw [ih bs k (by omega)]
      · have : k = 0 := by omega
        subst this; simp

theorem backWord_le (sp : Char → Bool) (t : Str) : ∀ p, backWord sp t p ≤ p := by
  intro p
  induction p with
  | zero => simp [backWord]
  | succ p ih =>
    unfold backWord
    split
    · split
      · omega
      · omega
    · omega

theorem lineStart_le (t : Str) : ∀ p, lineStart t p ≤ p := by
  intro p
  induction p with
  | zero => simp [lineStart]
  | succ p ih => unfold lineStart; split <;> omega

theorem hashScan_le (t : Str) (p : Nat) : ∀ temp, temp ≤ p → hashScan t p temp ≤ p := by
  intro temp
  induction temp with
  | zero => intro _; simp [hashScan]
  | succ k ih =>
    intro h
    unfold hashScan
    split
    · have := lineStart_le t k; omega
    · split
      · omega
      · exact ih (by omega)

theorem balPrefix_le (t : Str) : ∀ p, balPrefix t p ≤ p := by
  intro p
  induction p with
  | zero => simp [balPrefix]
  | succ p ih => unfold balPrefix; split <;> omega

theorem balSuffix_le (t : Str) : ∀ s, balSuffix t s ≤ s := by
  intro s
  induction s with
  | zero => simp [balSuffix]
  | succ s ih => unfold balSuffix; split <;> omega

theorem prefixPhase_le (sp : Char → Bool) (t n : Str) : prefixPhase sp t n ≤ commonPrefixLen t n := by
  unfold prefixPhase
  simp only
  generalize hp1 : (if commonPrefixLen t n < t.length ∧ commonPrefixLen t n < n.length
      then backWord sp t (commonPrefixLen t n) else commonPrefixLen t n) = p1
  have h1 : p1 ≤ commonPrefixLen t n := by
    subst hp1
    split
    · exact backWord_le _ _ _
    · exact Nat.le_refl _
  have h2 := hashScan_le t p1 p1 (Nat.le_refl _)
  have h3 := balPrefix_le t (hashScan t p1 p1)
  omega

theorem suffixPhase_le (sp : Char → Bool) (t n : Str) (p : Nat) :
    suffixPhase sp t n p ≤ min (commonPrefixLen t.reverse n.reverse) (min (t.length - p) (n.length - p)) := by
  unfold suffixPhase
  simp only
  generalize min (commonPrefixLen t.reverse n.reverse) (min (t.length - p) (n.length - p)) = s0
  generalize hs1 : (if 0 < s0 ∧ s0 < t.length then backWord sp t.reverse s0 else s0) = s1
  have h1 : s1 ≤ s0 := by
    subst hs1
    split
    · exact backWord_le _ _ _
    · exact Nat.le_refl _
  have h2 := balSuffix_le t s1
  split <;> omega

/-- The invariant carried to the result. -/
def Inv (t n : Str) (ps : Nat × Nat) : Prop :=
  ps.1 + ps.2 ≤ min t.length n.length ∧ t.take ps.1 = n.take ps.1 ∧
    t.drop (t.length - ps.2) = n.drop (n.length - ps.2)

theorem drop_eq_of_rev_take {t n : Str} {s : Nat} (h : t.reverse.take s = n.reverse.take s)
    (ht : s ≤ t.length) (hn : s ≤ n.length) : t.drop (t.length - s) = n.drop (n.length - s) := by
  have h1 : t.drop (t.length - s) = (t.reverse.take s).reverse := by
    rw [List.reverse_take]; simp
  have h2 : n.drop (n.length - s) = (n.reverse.take s).reverse := by
    rw [List.reverse_take]; simp
  rw [h1, h2, h]

theorem phases_inv (sp : Char → Bool) (t n : Str) :
    Inv t n (prefixPhase sp t n, suffixPhase sp t n (prefixPhase sp t n)) := by
  have hp := prefixPhase_le sp t n
  have hs := suffixPhase_le sp t n (prefixPhase sp t n)
  have hl := cpl_le_left t n
  have hr := cpl_le_right t n
  refine ⟨?_, cpl_take t n _ hp, ?_⟩
  · simp only; omega
  · simp only
    apply drop_eq_of_rev_take
    · exact cpl_take _ _ _ (by omega)
    · omega
    · omega

end Adeu.Trim

namespace Adeu.Trim
open Adeu

/-- middle part between a prefix of length `p` and a suffix of length `s` -/
def mid (t : Str) (p s : Nat) : Str := (t.take (t.length - s)).drop p

theorem mid_length (t : Str) (p s : Nat) : (mid t p s).length = t.length - s - p := by
  simp [mid, List.length_drop, List.length_take]

theorem mid_take (t : Str) (p s k : Nat) (hk : k ≤ t.length - s - p) :
    (mid t p s).take k = (t.drop p).take k := by
  simp only [mid, List.drop_take, List.take_take]
  congr 1; omega

theorem mid_drop (t : Str) (p s k : Nat) (hps : p + s ≤ t.length) (hk : k ≤ t.length - s - p) :
    (mid t p s).drop (t.length - s - p - k) = (t.drop (t.length - s - k)).take k := by
  simp only [mid, List.drop_take, List.drop_drop]
  have h1 : p + (t.length - s - p - k) = t.length - s - k := by omega
  have h2 : t.length - s - p - (t.length - s - p - k) = k := by omega
  rw [h1, h2]

theorem absorb_inv (t n m : Str) (ps : Nat × Nat) (h : Inv t n ps) : Inv t n (absorb t n m ps) := by
  obtain ⟨p, s⟩ := ps
  obtain ⟨hlen, hpre, hsuf⟩ := h
  simp only at hlen hpre hsuf
  unfold absorb
  simp only
  split
  · rename_i hc
    simp only [Bool.and_eq_true, decide_eq_true_eq] at hc
    obtain ⟨⟨⟨⟨⟨hst, hsn⟩, het⟩, hen⟩, hlt⟩, hln⟩ := hc
    change (mid t p s).length > 2 * m.length at hlt
    change (mid n p s).length > 2 * m.length at hln
    rw [mid_length] at hlt hln
    have hst' : (mid t p s).take m.length = m := by simpa [startsWith, mid] using hst
    have hsn' : (mid n p s).take m.length = m := by simpa [startsWith, mid] using hsn
    have het' : (mid t p s).drop ((mid t p s).length - m.length) = m := by
      have := het; simp only [endsWith, Bool.and_eq_true, decide_eq_true_eq] at this
      simpa [mid] using this.2
    have hen' : (mid n p s).drop ((mid n p s).length - m.length) = m := by
      have := hen; simp only [endsWith, Bool.and_eq_true, decide_eq_true_eq] at this
      simpa [mid] using this.2
    rw [mid_take _ _ _ _ (by omega)] at hst' hsn'
    rw [mid_length, mid_drop _ _ _ _ (by omega) (by omega)] at het' hen'
    refine ⟨?_, ?_, ?_⟩
    · simp only; omega
    · simp only
      rw [List.take_add, List.take_add, hpre, hst', hsn']
    · simp only
      have e1 : t.length - (s + m.length) = t.length - s - m.length := by omega
      have e2 : n.length - (s + m.length) = n.length - s - m.length := by omega
      rw [e1, e2]
      have d1 := (List.take_append_drop m.length (t.drop (t.length - s - m.length))).symm
      have d2 := (List.take_append_drop m.length (n.drop (n.length - s - m.length))).symm
      rw [List.drop_drop] at d1 d2
      have f1 : t.length - s - m.length + m.length = t.length - s := by omega
      have f2 : n.length - s - m.length + m.length = n.length - s := by omega
      rw [f1, het'] at d1
      rw [f2, hen'] at d2
      rw [d1, d2, hsuf]
  · exact ⟨hlen, hpre, hsuf⟩

theorem trim_inv (sp : Char → Bool) (t n : Str) : Inv t n (trim sp t n) := by
  unfold trim
  split
  · simp [Inv]
  · exact absorb_inv _ _ _ _ (absorb_inv _ _ _ _ (phases_inv sp t n))

end Adeu.Trim
