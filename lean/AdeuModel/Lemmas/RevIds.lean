import AdeuModel.Lemmas.AttrHistory
import AdeuModel.Lemmas.NatStr

namespace Adeu.Doc
open Adeu

/-- The id of a mark a run adds differs from the id of **every** mark the opened document carries in the stories
the engine reaches (numeric or not: the new id is a decimal numeral above every numeral found at load). -/
theorem new_ids_differ_from_old (d : Document) (author date : Str) (edits : List HEdit) (x : Rev)
    (hx : x ∈ revsDoc (Doc.applyEdits (Sess.open d author date) edits).1.doc)
    (hnew : x ∉ revsDoc (Sess.open d author date).doc) :
    ∀ bs ∈ docParts (normalize d), ∀ n ∈ allNodesBlocks bs, ∀ rev, revOf n = some rev → rev.id ≠ x.id := by
  obtain ⟨k, hk, _, _, habove⟩ := new_ids_above_old d author date edits x hx hnew
  intro bs hbs n hn rev hr heq
  have := habove bs hbs n hn rev k hr (by rw [heq, hk]; exact strNat?_natStr k)
  omega

end Adeu.Doc
