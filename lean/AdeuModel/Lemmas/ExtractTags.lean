import AdeuModel.Lemmas.ExtractDoc
/-
Layer D — annotation of the raw view for whole documents: every text character of every story (prefixes and
separators included) appears once, in document order, in the kind of block its enclosing marks call for.
`docTagged` is the specification (per-run tags from the open marks, virtual text tagged plain, containers that the
raw view drops as empty dropped); `doc_tagged` relates it to the string `extractText false d` through a flat
segment list.  No domain hypothesis: both sides decide emptiness on the raw text.
-/
namespace Adeu.Doc
open Adeu Adeu.Markup

abbrev TChar := Char × Tag

def plainT (s : Str) : List TChar := s.map (·, Tag.plain)

def joinT (sep : Str) : List (List TChar) → List TChar
  | [] => []
  | [x] => x
  | x :: r => x ++ plainT sep ++ joinT sep r

mutual
  def blocksTagged (cm : CMap) : List Block → List (List TChar)
    | [] => []
    | .para p :: rest => (plainT (paraPrefix p) ++ taggedSpec [] [] [] (items p)) :: blocksTagged cm rest
    | .table _ _ rows :: rest =>
      if (tableText false cm rows).isEmpty then blocksTagged cm rest
      else tableTagged cm rows :: blocksTagged cm rest
    | .other _ :: rest => blocksTagged cm rest
  def rowsCellTagged (cm : CMap) : List Row → List (List (List TChar))
    | [] => []
    | .mk _ cells :: rest => cellsTagged cm cells :: rowsCellTagged cm rest
  def cellsTagged (cm : CMap) : List Cell → List (List TChar)
    | [] => []
    | .mk _ _ _ blocks :: rest => joinT ['\n', '\n'] (blocksTagged cm blocks) :: cellsTagged cm rest
  def tableTagged (cm : CMap) (rows : List Row) : List TChar :=
    let texts := rowsCellTagged cm rows
    let cellsOf := rows.map Row.cells
    let rowStrs := (List.range rows.length).map fun ri =>
      joinT " | ".toList ((rowContentCells cellsOf ri).map fun (r, c) => ((texts[r]?).getD [])[c]?.getD [])
    joinT ['\n'] rowStrs
end

/-- the tagged characters of the raw view of a document -/
def docTagged (d : Document) : List TChar :=
  let cm := commentsMap d
  joinT ['\n', '\n'] (((docParts d).filter fun bs => !(containerText false cm bs).isEmpty).map fun bs =>
    joinT ['\n', '\n'] (blocksTagged cm bs))

def ReadsT (raw : Str) (T : List TChar) : Prop := ∃ segs : List Seg, raw = render segs ∧ tagsOf segs = T

theorem ReadsT.nil : ReadsT [] [] := ⟨[], rfl, rfl⟩
theorem ReadsT.plain (s : Str) : ReadsT s (plainT s) := ⟨[.plain s], by simp [Seg.render], by simp [Seg.tagged, plainT]⟩
theorem ReadsT.append {a b : Str} {A B : List TChar} (h1 : ReadsT a A) (h2 : ReadsT b B) : ReadsT (a ++ b) (A ++ B) := by
  obtain ⟨s1, r1, c1⟩ := h1
  obtain ⟨s2, r2, c2⟩ := h2
  exact ⟨s1 ++ s2, by simp [r1, r2], by simp [c1, c2]⟩

theorem ReadsT.joinWith (sep : Str) : ∀ {as : List Str} {bs : List (List TChar)}, All2 ReadsT as bs →
    ReadsT (joinWith sep as) (joinT sep bs)
  | _, _, .nil => ReadsT.nil
  | _, _, .cons h .nil => by simpa [Doc.joinWith, joinT] using h
  | _, _, .cons h (.cons h2 t) => by
    have ih := ReadsT.joinWith sep (.cons h2 t)
    simp only [Doc.joinWith, joinT]
    exact (h.append (ReadsT.plain sep)).append ih

theorem All2.map_fn2 {R : γ → δ → Prop} (f : α → γ) (g : α → δ) (h : ∀ x, R (f x) (g x)) :
    ∀ l : List α, All2 R (l.map f) (l.map g)
  | [] => .nil
  | x :: r => .cons (h x) (All2.map_fn2 f g h r)

theorem para_readsT (cm : CMap) (p : Para) : ReadsT (paraText false cm p) (taggedSpec [] [] [] (items p)) :=
  ⟨rawSegs cm p, paraText_raw_render cm p, rawSegs_tagged cm p⟩

theorem table_readsT (cm : CMap) (rows : List Row)
    (h : All2 (All2 ReadsT) (rowsCellTexts false cm rows) (rowsCellTagged cm rows)) :
    ReadsT (tableText false cm rows) (tableTagged cm rows) := by
  unfold tableText tableTagged
  simp only
  apply ReadsT.joinWith
  apply All2.map_fn2
  intro ri
  apply ReadsT.joinWith
  apply All2.map_fn2
  intro rc
  obtain ⟨r, c⟩ := rc
  simp only
  exact All2.get ReadsT.nil (All2.get (R := All2 ReadsT) (da := []) (db := []) .nil h r) c

mutual
  theorem blocks_readsT (cm : CMap) : ∀ (bs : List Block), All2 ReadsT (blocksText false cm bs) (blocksTagged cm bs)
    | [] => by simp only [blocksText, blocksTagged]; exact .nil
    | .para p :: rest => by
      simp only [blocksText, blocksTagged]
      exact .cons ((ReadsT.plain _).append (para_readsT cm p)) (blocks_readsT cm rest)
    | .table pr g rows :: rest => by
      have ht := table_readsT cm rows (rows_readsT cm rows)
      have ih := blocks_readsT cm rest
      simp only [blocksText, blocksTagged]
      by_cases hraw : (tableText false cm rows).isEmpty = true
      · simp only [hraw, ↓reduceIte]; exact ih
      · simp only [hraw, Bool.false_eq_true, ↓reduceIte]; exact .cons ht ih
    | .other x :: rest => by
      simp only [blocksText, blocksTagged]
      exact blocks_readsT cm rest
  theorem rows_readsT (cm : CMap) : ∀ (rows : List Row),
      All2 (All2 ReadsT) (rowsCellTexts false cm rows) (rowsCellTagged cm rows)
    | [] => by simp only [rowsCellTexts, rowsCellTagged]; exact .nil
    | .mk pr cells :: rest => by
      simp only [rowsCellTexts, rowsCellTagged]
      exact .cons (cells_readsT cm cells) (rows_readsT cm rest)
  theorem cells_readsT (cm : CMap) : ∀ (cells : List Cell), All2 ReadsT (cellsTexts false cm cells) (cellsTagged cm cells)
    | [] => by simp only [cellsTexts, cellsTagged]; exact .nil
    | .mk pr s v blocks :: rest => by
      simp only [cellsTexts, cellsTagged]
      exact .cons (ReadsT.joinWith _ (blocks_readsT cm blocks)) (cells_readsT cm rest)
end

theorem parts_readsT (cm : CMap) : ∀ parts : List (List Block),
    All2 ReadsT ((parts.map (containerText false cm)).filter (!·.isEmpty))
      ((parts.filter fun bs => !(containerText false cm bs).isEmpty).map fun bs => joinT ['\n', '\n'] (blocksTagged cm bs))
  | [] => .nil
  | bs :: rest => by
    have ih := parts_readsT cm rest
    simp only [List.map_cons, List.filter_cons]
    by_cases he : (containerText false cm bs).isEmpty = true
    · simp only [he, Bool.not_true, Bool.false_eq_true, ↓reduceIte]; exact ih
    · simp only [he, Bool.not_false, ↓reduceIte, List.map_cons]
      exact .cons (ReadsT.joinWith _ (blocks_readsT cm bs)) ih

/-- The raw view of a whole document is the rendering of a flat segment list whose text characters, tagged with
the kind of block they stand in, are `docTagged d`. -/
theorem doc_tagged (d : Document) : ReadsT (extractText false d) (docTagged d) := by
  unfold extractText docTagged
  exact ReadsT.joinWith _ (parts_readsT (commentsMap d) (docParts d))

end Adeu.Doc
