import AdeuModel.Model.Normalize
namespace Adeu.Doc
open Adeu

theorem fmt_eq_of_identical {a b : Run} (h : runsIdentical a b = true) : a.fmt = b.fmt := by
  simp only [runsIdentical, Bool.and_eq_true, beq_iff_eq] at h
  obtain ⟨⟨⟨h1, h2⟩, h3⟩, h4⟩ := h
  simp [Run.fmt, h1, h2, h3, h4]

theorem canonRun_merge {a b : Run} (h : mergeable a b = true) :
    canonRun (mergeRuns a b) = canonRun a ++ canonRun b := by
  simp only [mergeable, Bool.and_eq_true] at h
  have hf := fmt_eq_of_identical h.2
  have hm : (mergeRuns a b).fmt = a.fmt := rfl
  simp only [canonRun, hm]
  simp [mergeRuns, List.flatMap_append, hf]

theorem canonNodes_cons (n : Node) (l : List Node) : canonNodes (n :: l) = canonNode n ++ canonNodes l := by
  simp [canonNodes]

/-- Coalescing changes no content: same characters, formats, marks and elements in the same order. -/
theorem canonNodes_coalesce (l : List Node) : canonNodes (coalesce l) = canonNodes l := by
  fun_induction coalesce l with
  | case1 a b rest h ih =>
    rw [ih]
    simp only [canonNodes_cons, canonNode, canonRun_merge h, List.append_assoc]
  | case2 a b rest h ih =>
    simp only [canonNodes_cons, canonNode] at ih ⊢
    rw [ih]
  | case3 n rest hn ih =>
    simp only [canonNodes_cons, ih]
  | case4 => simp [coalesce]

theorem canonNodes_stripProof (l : List Node) : canonNodes (l.filter (!isProof ·)) = canonNodes l := by
  induction l with
  | nil => rfl
  | cons n r ih =>
    simp only [List.filter_cons]
    cases n <;> simp_all [isProof, canonNodes_cons, canonNode]

/-! ### idempotence -/

theorem runSpecial_merge (a b : Run) : runSpecial (mergeRuns a b) = (runSpecial a || runSpecial b) := by
  simp [runSpecial, mergeRuns, List.any_append]

theorem runsIdentical_merge_left (a b c : Run) : runsIdentical c (mergeRuns a b) = runsIdentical c a := rfl

theorem mergeable_merge_right {a b : Run} (c : Run) (h : mergeable a b = true) :
    mergeable c (mergeRuns a b) = mergeable c a := by
  simp only [mergeable, Bool.and_eq_true, Bool.not_eq_true'] at h
  simp only [mergeable, runSpecial_merge, runsIdentical_merge_left, h.1.1, h.1.2, Bool.or_self]

/-- the head run of a coalesced list starting with run `b` is not mergeable with a run that was
not mergeable with `b` -/
theorem coalesce_head (b : Run) (rest : List Node) :
    ∃ b' rest', coalesce (.run b :: rest) = .run b' :: rest' ∧ (∀ c, mergeable c b' = mergeable c b) := by
  generalize hl : (Node.run b :: rest) = l
  fun_induction coalesce l generalizing b rest with
  | case1 a b2 rest2 h ih =>
    cases hl
    obtain ⟨b', rest', he, hm⟩ := ih (mergeRuns a b2) rest2 rfl
    exact ⟨b', rest', he, fun c => by rw [hm c, mergeable_merge_right c h]⟩
  | case2 a b2 rest2 h ih =>
    cases hl
    exact ⟨a, _, rfl, fun _ => rfl⟩
  | case3 n rest2 hn ih =>
    cases hl
    exact ⟨b, _, rfl, fun _ => rfl⟩
  | case4 => cases hl

theorem coalesce_idem (l : List Node) : coalesce (coalesce l) = coalesce l := by
  fun_induction coalesce l with
  | case1 a b rest h ih => exact ih
  | case2 a b rest h ih =>
    obtain ⟨b', rest', he, hm⟩ := coalesce_head b rest
    rw [he] at ih ⊢
    have hn : mergeable a b' = false := by rw [hm a]; simpa using h
    rw [coalesce]
    simp only [hn, Bool.false_eq_true, ↓reduceIte]
    rw [ih]
  | case3 n rest hn ih =>
    cases n with
    | run a =>
      cases hr : coalesce rest with
      | nil => simp [coalesce]
      | cons m rest' =>
        cases m with
        | run b =>
          -- `rest` does not start with a run (case3), and coalesce keeps a non-run head
          exfalso
          cases rest with
          | nil => simp [coalesce] at hr
          | cons x xs =>
            cases x with
            | run y => exact hn a y xs rfl rfl
            | _ => simp [coalesce] at hr
        | _ => rw [hr] at ih; simp [coalesce, ih]
    | _ => simp [coalesce, ih]
  | case4 => simp [coalesce]

end Adeu.Doc

namespace Adeu.Doc
open Adeu

mutual
  theorem stream_coalesceBlocks : ∀ bs : List Block, streamBlocks (coalesceBlocks bs) = streamBlocks bs
    | [] => by simp [coalesceBlocks, streamBlocks]
    | .para p :: rest => by
      simp only [coalesceBlocks, streamBlocks, Para.coalesce, canonNodes_coalesce, stream_coalesceBlocks rest]
    | .table pr g rows :: rest => by
      simp only [coalesceBlocks, streamBlocks, stream_coalesceRows rows, stream_coalesceBlocks rest]
    | .other x :: rest => by
      simp only [coalesceBlocks, streamBlocks, stream_coalesceBlocks rest]
  theorem stream_coalesceRows : ∀ rs : List Row, streamRows (coalesceRows rs) = streamRows rs
    | [] => by simp [coalesceRows, streamRows]
    | .mk pr cells :: rest => by
      simp only [coalesceRows, streamRows, stream_coalesceCells cells, stream_coalesceRows rest]
  theorem stream_coalesceCells : ∀ cs : List Cell, streamCells (coalesceCells cs) = streamCells cs
    | [] => by simp [coalesceCells, streamCells]
    | .mk pr s v bs :: rest => by
      simp only [coalesceCells]
      split <;> simp only [streamCells, stream_coalesceBlocks bs, stream_coalesceCells rest]
end

mutual
  theorem stream_stripProofBlocks : ∀ bs : List Block, streamBlocks (stripProofBlocks bs) = streamBlocks bs
    | [] => by simp [stripProofBlocks, streamBlocks]
    | .para p :: rest => by
      simp only [stripProofBlocks, streamBlocks, Para.stripProof, canonNodes_stripProof, stream_stripProofBlocks rest]
    | .table pr g rows :: rest => by
      simp only [stripProofBlocks, streamBlocks, stream_stripProofRows rows, stream_stripProofBlocks rest]
    | .other x :: rest => by
      simp only [stripProofBlocks, streamBlocks, stream_stripProofBlocks rest]
  theorem stream_stripProofRows : ∀ rs : List Row, streamRows (stripProofRows rs) = streamRows rs
    | [] => by simp [stripProofRows, streamRows]
    | .mk pr cells :: rest => by
      simp only [stripProofRows, streamRows, stream_stripProofCells cells, stream_stripProofRows rest]
  theorem stream_stripProofCells : ∀ cs : List Cell, streamCells (stripProofCells cs) = streamCells cs
    | [] => by simp [stripProofCells, streamCells]
    | .mk pr s v bs :: rest => by
      simp only [stripProofCells, streamCells, stream_stripProofBlocks bs, stream_stripProofCells rest]
end

theorem normStories_go_stream (d : Document) : ∀ (ss : List Story) (seen : List Str),
    (normStories.go d seen ss).map (fun s => (s.ty, streamBlocks s.blocks)) =
      ss.map (fun s => (s.ty, streamBlocks s.blocks)) := by
  intro ss
  induction ss with
  | nil => intro seen; simp [normStories.go]
  | cons s rest ih =>
    intro seen
    simp only [normStories.go]
    split
    · simp only [List.map_cons, stream_coalesceBlocks, ih]
    · simp only [List.map_cons, ih]

/-- Loading (normalising) a document changes no content of any story. -/
theorem canonDoc_normalize (d : Document) : canonDoc (normalize d) = canonDoc d := by
  simp only [canonDoc, normalize, normStories, normStories_go_stream, stream_coalesceBlocks,
    stream_stripProofBlocks]

/-! ### idempotence at document level -/

theorem coalesce_noProof (l : List Node) (h : ∀ n ∈ l, isProof n = false) :
    ∀ n ∈ coalesce l, isProof n = false := by
  fun_induction coalesce l with
  | case1 a b rest hm ih =>
    exact ih (fun n hn => by
      simp only [List.mem_cons] at hn
      rcases hn with hn | hn
      · subst hn; rfl
      · exact h n (by simp [hn]))
  | case2 a b rest hm ih =>
    intro n hn
    simp only [List.mem_cons] at hn
    rcases hn with hn | hn
    · subst hn; rfl
    · exact ih (fun n hn => h n (by simp only [List.mem_cons] at hn ⊢; right; exact hn)) n hn
  | case3 n rest hn ih =>
    intro m hm
    simp only [List.mem_cons] at hm
    rcases hm with hm | hm
    · subst hm; exact h _ (by simp)
    · exact ih (fun n hn => h n (by simp [hn])) m hm
  | case4 => intro n hn; simp [coalesce] at hn

theorem stripProof_coalesce_stripProof (l : List Node) :
    (coalesce (l.filter (!isProof ·))).filter (!isProof ·) = coalesce (l.filter (!isProof ·)) := by
  apply List.filter_eq_self.mpr
  intro n hn
  have := coalesce_noProof (l.filter (!isProof ·)) (fun n hn => by
    have := (List.mem_filter.mp hn).2
    simpa using this) n hn
  simp [this]

mutual
  theorem coalesceBlocks_idem : ∀ bs : List Block, coalesceBlocks (coalesceBlocks bs) = coalesceBlocks bs
    | [] => by simp [coalesceBlocks]
    | .para p :: rest => by
      simp only [coalesceBlocks, Para.coalesce, coalesce_idem, coalesceBlocks_idem rest]
    | .table pr g rows :: rest => by
      simp only [coalesceBlocks, coalesceRows_idem rows, coalesceBlocks_idem rest]
    | .other x :: rest => by
      simp only [coalesceBlocks, coalesceBlocks_idem rest]
  theorem coalesceRows_idem : ∀ rs : List Row, coalesceRows (coalesceRows rs) = coalesceRows rs
    | [] => by simp [coalesceRows]
    | .mk pr cells :: rest => by
      simp only [coalesceRows, coalesceCells_idem cells, coalesceRows_idem rest]
  theorem coalesceCells_idem : ∀ cs : List Cell, coalesceCells (coalesceCells cs) = coalesceCells cs
    | [] => by simp [coalesceCells]
    | .mk pr s v bs :: rest => by
      simp only [coalesceCells]
      split
      · rename_i hv; simp only [coalesceCells, hv, ↓reduceIte, coalesceCells_idem rest]
      · rename_i hv; simp only [coalesceCells, hv, ↓reduceIte, coalesceBlocks_idem bs, coalesceCells_idem rest]
end

mutual
  theorem strip_coalesce_strip_blocks : ∀ bs : List Block,
      stripProofBlocks (coalesceBlocks (stripProofBlocks bs)) = coalesceBlocks (stripProofBlocks bs)
    | [] => by simp [stripProofBlocks, coalesceBlocks]
    | .para p :: rest => by
      simp only [stripProofBlocks, coalesceBlocks, Para.stripProof, Para.coalesce,
        stripProof_coalesce_stripProof, strip_coalesce_strip_blocks rest]
    | .table pr g rows :: rest => by
      simp only [stripProofBlocks, coalesceBlocks, strip_coalesce_strip_rows rows, strip_coalesce_strip_blocks rest]
    | .other x :: rest => by
      simp only [stripProofBlocks, coalesceBlocks, strip_coalesce_strip_blocks rest]
  theorem strip_coalesce_strip_rows : ∀ rs : List Row,
      stripProofRows (coalesceRows (stripProofRows rs)) = coalesceRows (stripProofRows rs)
    | [] => by simp [stripProofRows, coalesceRows]
    | .mk pr cells :: rest => by
      simp only [stripProofRows, coalesceRows, strip_coalesce_strip_cells cells, strip_coalesce_strip_rows rest]
  theorem strip_coalesce_strip_cells : ∀ cs : List Cell,
      stripProofCells (coalesceCells (stripProofCells cs)) = coalesceCells (stripProofCells cs)
    | [] => by simp [stripProofCells, coalesceCells]
    | .mk pr s v bs :: rest => by
      simp only [stripProofCells, coalesceCells]
      split
      · simp only [stripProofCells, strip_strip_blocks bs, strip_coalesce_strip_cells rest]
      · simp only [stripProofCells, strip_coalesce_strip_blocks bs, strip_coalesce_strip_cells rest]
  theorem strip_strip_blocks : ∀ bs : List Block, stripProofBlocks (stripProofBlocks bs) = stripProofBlocks bs
    | [] => by simp [stripProofBlocks]
    | .para p :: rest => by
      simp only [stripProofBlocks, Para.stripProof, List.filter_filter, Bool.and_self, strip_strip_blocks rest]
    | .table pr g rows :: rest => by
      simp only [stripProofBlocks, strip_strip_rows rows, strip_strip_blocks rest]
    | .other x :: rest => by
      simp only [stripProofBlocks, strip_strip_blocks rest]
  theorem strip_strip_rows : ∀ rs : List Row, stripProofRows (stripProofRows rs) = stripProofRows rs
    | [] => by simp [stripProofRows]
    | .mk pr cells :: rest => by
      simp only [stripProofRows, strip_strip_cells cells, strip_strip_rows rest]
  theorem strip_strip_cells : ∀ cs : List Cell, stripProofCells (stripProofCells cs) = stripProofCells cs
    | [] => by simp [stripProofCells]
    | .mk pr s v bs :: rest => by
      simp only [stripProofCells, strip_strip_blocks bs, strip_strip_cells rest]
end

theorem normStories_go_idem (d d' : Document) (h1 : d'.titlePg = d.titlePg) (h2 : d'.evenOdd = d.evenOdd) :
    ∀ (ss : List Story) (seen : List Str),
    normStories.go d' seen (normStories.go d seen ss) = normStories.go d seen ss := by
  intro ss
  induction ss with
  | nil => intro seen; simp [normStories.go]
  | cons s rest ih =>
    intro seen
    have hact : ∀ s' : Story, s'.ty = s.ty → activeStory d' s' = activeStory d s := by
      intro s' hs; simp [activeStory, hs, h1, h2]
    simp only [normStories.go]
    split
    · rename_i hc
      have hc' : (activeStory d' { s with blocks := coalesceBlocks s.blocks } && !seen.contains s.ty) = true := by
        have := hact { s with blocks := coalesceBlocks s.blocks } rfl
        rw [this]; exact hc
      simp only [normStories.go, hc', ↓reduceIte, coalesceBlocks_idem, ih]
    · rename_i hc
      have hc' : (activeStory d' s && !seen.contains s.ty) = false := by
        rw [hact s rfl]; simpa using hc
      simp only [normStories.go, hc', Bool.false_eq_true, ↓reduceIte, ih]

theorem normalize_idem (d : Document) : normalize (normalize d) = normalize d := by
  have hb : coalesceBlocks (stripProofBlocks (coalesceBlocks (stripProofBlocks d.body))) =
      coalesceBlocks (stripProofBlocks d.body) := by
    rw [strip_coalesce_strip_blocks, coalesceBlocks_idem]
  have hh := normStories_go_idem d (normalize d) rfl rfl d.headers []
  have hf := normStories_go_idem d (normalize d) rfl rfl d.footers []
  simp only [normalize, normStories] at hh hf ⊢
  rw [hh, hf, hb]

end Adeu.Doc
