import AdeuModel.Model.Engine
/-
Layer S/E — `_parse_inline_markdown`: the texts of the segments, concatenated, are the new text with only span
delimiters (`**`, `_`) removed - every other character is kept, in order.
-/
namespace Adeu.Doc
open Adeu

theorem findFrom_spec (p : Nat → Bool) (lo hi j : Nat) (h : findFrom p lo hi = some j) : lo ≤ j ∧ j < hi ∧ p j = true := by
  unfold findFrom at h
  have hm := List.mem_of_find?_eq_some h
  have hp := List.find?_some h
  simp only [List.mem_map, List.mem_range] at hm
  obtain ⟨k, hk, rfl⟩ := hm
  exact ⟨by omega, by omega, hp⟩

theorem lt_size_of_get {t : Array Char} {i : Nat} {c : Char} (h : t[i]? = some c) : i < t.size := by
  cases hlt : decide (i < t.size) with
  | true => simpa using hlt
  | false =>
    have : ¬ i < t.size := by simpa using hlt
    have hn : t[i]? = none := by simp; omega
    rw [hn] at h; cases h

theorem ite_map_some {α β} {c : Prop} [Decidable c] {o : Option α} {f : α → β} {y : β}
    (h : (if c then o.map f else none) = some y) : c ∧ ∃ a, o = some a ∧ f a = y := by
  by_cases hc : c
  · rw [if_pos hc] at h
    cases o with
    | none => cases h
    | some a => exact ⟨hc, a, rfl, by simpa using h⟩
  · rw [if_neg hc] at h; cases h

theorem findSpan_spec (t : Array Char) (s e : Nat) (b : Bool) (h : findSpan t = some (s, e, b)) :
    e ≤ t.size ∧
    (b = true → s + 5 ≤ e ∧ t[s]? = some '*' ∧ t[s + 1]? = some '*' ∧ t[e - 2]? = some '*' ∧ t[e - 1]? = some '*') ∧
    (b = false → s + 3 ≤ e ∧ t[s]? = some '_' ∧ t[e - 1]? = some '_') := by
  unfold findSpan at h
  simp only at h
  obtain ⟨i, _, hi⟩ := List.exists_of_findSome?_eq_some h
  clear h
  split at hi
  · rename_i m hm
    cases hi
    obtain ⟨hc, j, hj, he⟩ := ite_map_some hm
    cases he
    obtain ⟨h1, h2, h3⟩ := findFrom_spec _ _ _ _ hj
    simp only [Bool.and_eq_true, decide_eq_true_eq] at hc h3
    have hlt := lt_size_of_get h3.1.2
    refine ⟨by omega, fun _ => ⟨by omega, hc.1.1.1, hc.1.1.2, ?_, ?_⟩, (fun hx => by cases hx)⟩
    · have : j + 2 - 2 = j := by omega
      rw [this]; exact h3.1.1
    · have : j + 2 - 1 = j + 1 := by omega
      rw [this]; exact h3.1.2
  · obtain ⟨hc, j, hj, he⟩ := ite_map_some hi
    cases he
    obtain ⟨h1, h2, h3⟩ := findFrom_spec _ _ _ _ hj
    simp only [Bool.and_eq_true, decide_eq_true_eq] at hc h3
    refine ⟨by omega, (fun hx => by cases hx), fun _ => ⟨by omega, hc.1.1.1, ?_⟩⟩
    have : j + 1 - 1 = j := by omega
    rw [this]; exact h3.1.1

end Adeu.Doc

namespace Adeu.Doc
open Adeu

def notMarker (c : Char) : Bool := c != '*' && c != '_'

def segsText (segs : List Seg) : Str := segs.flatMap (·.text)

theorem getElem?_toArray (t : Str) (i : Nat) : t.toArray[i]? = t[i]? := by simp

/-- a list with `**` at `s` and at `e-2` splits into prefix, inner part and rest around the two delimiters -/
theorem split_bold (t : Str) (s e : Nat) (he : e ≤ t.length) (hse : s + 5 ≤ e)
    (h0 : t[s]? = some '*') (h1 : t[s + 1]? = some '*') (h2 : t[e - 2]? = some '*') (h3 : t[e - 1]? = some '*') :
    t = t.take s ++ ['*', '*'] ++ (t.take (e - 2)).drop (s + 2) ++ ['*', '*'] ++ t.drop e := by
  have a1 : t = t.take s ++ t.drop s := (List.take_append_drop s t).symm
  have a2 : t.drop s = '*' :: t.drop (s + 1) := by
    rw [List.drop_eq_getElem?_toList_append, h0]; rfl
  have a3 : t.drop (s + 1) = '*' :: t.drop (s + 2) := by
    rw [List.drop_eq_getElem?_toList_append, h1]; rfl
  have a4 : t.drop (s + 2) = (t.take (e - 2)).drop (s + 2) ++ t.drop (e - 2) := by
    have : t.drop (s + 2) = (t.drop (s + 2)).take (e - 2 - (s + 2)) ++ (t.drop (s + 2)).drop (e - 2 - (s + 2)) :=
      (List.take_append_drop _ _).symm
    rw [this, List.drop_drop, List.drop_take]
    congr 2
    omega
  have a5 : t.drop (e - 2) = '*' :: t.drop (e - 2 + 1) := by
    rw [List.drop_eq_getElem?_toList_append, h2]; rfl
  have a6 : t.drop (e - 2 + 1) = '*' :: t.drop e := by
    have h3' : t[e - 2 + 1]? = some '*' := by
      have : e - 2 + 1 = e - 1 := by omega
      rw [this]; exact h3
    rw [List.drop_eq_getElem?_toList_append, h3']
    have : e - 2 + 1 + 1 = e := by omega
    rw [this]; rfl
  calc t = t.take s ++ t.drop s := a1
    _ = _ := by rw [a2, a3, a4, a5, a6]; simp [List.append_assoc]

theorem split_ital (t : Str) (s e : Nat) (he : e ≤ t.length) (hse : s + 3 ≤ e)
    (h0 : t[s]? = some '_') (h3 : t[e - 1]? = some '_') :
    t = t.take s ++ ['_'] ++ (t.take (e - 1)).drop (s + 1) ++ ['_'] ++ t.drop e := by
  have a1 : t = t.take s ++ t.drop s := (List.take_append_drop s t).symm
  have a2 : t.drop s = '_' :: t.drop (s + 1) := by
    rw [List.drop_eq_getElem?_toList_append, h0]; rfl
  have a4 : t.drop (s + 1) = (t.take (e - 1)).drop (s + 1) ++ t.drop (e - 1) := by
    have : t.drop (s + 1) = (t.drop (s + 1)).take (e - 1 - (s + 1)) ++ (t.drop (s + 1)).drop (e - 1 - (s + 1)) :=
      (List.take_append_drop _ _).symm
    rw [this, List.drop_drop, List.drop_take]
    congr 2
    omega
  have a5 : t.drop (e - 1) = '_' :: t.drop e := by
    rw [List.drop_eq_getElem?_toList_append, h3]
    have : e - 1 + 1 = e := by omega
    rw [this]; rfl
  calc t = t.take s ++ t.drop s := a1
    _ = _ := by rw [a2, a4, a5]; simp [List.append_assoc]

end Adeu.Doc

namespace Adeu.Doc
open Adeu

theorem segsText_append (a b : List Seg) : segsText (a ++ b) = segsText a ++ segsText b := by simp [segsText]

theorem pre_seg (pre : Str) (b i : Bool) : segsText (if pre.isEmpty then [] else [(⟨pre, b, i⟩ : Seg)]) = pre := by
  by_cases h : pre.isEmpty = true
  · have : pre = [] := by simpa using h
    simp [this, segsText]
  · simp [h, segsText]

/-- `_parse_inline_markdown` only removes span delimiters: the segment texts, concatenated, are a subsequence of the
new text, and every character that is not `*` or `_` is kept (in order). -/
theorem parseInline_text : ∀ (fuel : Nat) (t : Str) (b i : Bool),
    List.Sublist (segsText (parseInline fuel t b i)) t ∧
    (segsText (parseInline fuel t b i)).filter notMarker = t.filter notMarker := by
  intro fuel
  induction fuel with
  | zero =>
    intro t b i
    simp only [parseInline]
    by_cases h : t.isEmpty = true
    · have : t = [] := by simpa using h
      simp [this, segsText]
    · simp [h, segsText]
  | succ n ih =>
    intro t b i
    simp only [parseInline]
    by_cases h : t.isEmpty = true
    · have : t = [] := by simpa using h
      simp [this, segsText]
    · simp only [h, Bool.false_eq_true, ↓reduceIte]
      cases hf : findSpan t.toArray with
      | none => simp [segsText]
      | some m =>
        obtain ⟨s, e, isBold⟩ := m
        obtain ⟨hle, hb, hi⟩ := findSpan_spec t.toArray s e isBold hf
        have hle' : e ≤ t.length := by simpa using hle
        simp only
        cases isBold with
        | true =>
          obtain ⟨h5, g0, g1, g2, g3⟩ := hb rfl
          rw [getElem?_toArray] at g0 g1 g2 g3
          have ht := split_bold t s e hle' h5 g0 g1 g2 g3
          obtain ⟨i1, i2⟩ := ih ((t.take (e - 2)).drop (s + 2)) (b || true) (i || !true)
          obtain ⟨j1, j2⟩ := ih (t.drop e) b i
          simp only [↓reduceIte, segsText_append, pre_seg]
          constructor
          · conv => rhs; rw [ht]
            have := ((List.Sublist.refl (t.take s)).append (List.nil_sublist ['*', '*'])).append i1
            have := (this.append (List.nil_sublist ['*', '*'])).append j1
            simpa [List.append_assoc] using this
          · conv => rhs; rw [ht]
            simp only [List.filter_append, i2, j2]
            simp [notMarker, List.filter]
        | false =>
          obtain ⟨h3, g0, g3⟩ := hi rfl
          rw [getElem?_toArray] at g0 g3
          have ht := split_ital t s e hle' h3 g0 g3
          obtain ⟨i1, i2⟩ := ih ((t.take (e - 1)).drop (s + 1)) (b || false) (i || !false)
          obtain ⟨j1, j2⟩ := ih (t.drop e) b i
          simp only [Bool.false_eq_true, ↓reduceIte, segsText_append, pre_seg]
          constructor
          · conv => rhs; rw [ht]
            have := ((List.Sublist.refl (t.take s)).append (List.nil_sublist ['_'])).append i1
            have := (this.append (List.nil_sublist ['_'])).append j1
            simpa [List.append_assoc] using this
          · conv => rhs; rw [ht]
            simp only [List.filter_append, i2, j2]
            simp [notMarker, List.filter]

/-- for the text of one inserted line -/
theorem inlineSegs_text (t : Str) :
    List.Sublist (segsText (inlineSegs t)) t ∧ (segsText (inlineSegs t)).filter notMarker = t.filter notMarker :=
  parseInline_text _ t false false

end Adeu.Doc

namespace Adeu.Doc
open Adeu

def insChildText : InsChild → Str
  | .run r => r.ch.flatMap fun | .t s => s | _ => []
  | _ => []

/-- the characters of the runs `track_insert` creates for one line are the segment texts -/
theorem insRuns_chars (t : Str) (style : Option Run) (sup : Bool) :
    (insRuns t style sup).flatMap insChildText = segsText (inlineSegs t) := by
  unfold insRuns segsText
  generalize inlineSegs t = segs
  induction segs with
  | nil => rfl
  | cons sg rest ih => simp [insChildText, ih]

end Adeu.Doc
