import AdeuModel.Model.Engine
namespace Adeu.Doc
open Adeu

/-- what the reader shows for a child of an insertion -/
def childText : InsChild → Str
  | .run r => runText r
  | _ => []

/-- the text as the reader shows it: a break is a newline, a literal tab a space -/
def shown (c : Char) : Char := if c = '\n' || c = '\r' then '\n' else if c = '\t' then ' ' else c

def joinShown : List Str → Str
  | [] => []
  | l :: ls => l.map shown ++ ls.flatMap fun x => '\n' :: x.map shown

theorem splitBreaks_go_ne (r : Str) : ∀ cur, splitBreaks.go cur r ≠ [] := by
  induction r with
  | nil => intro cur; simp [splitBreaks.go]
  | cons c r ih =>
    intro cur
    simp only [splitBreaks.go]
    split
    · simp
    · exact ih _

theorem joinShown_go (r : Str) : ∀ cur, joinShown (splitBreaks.go cur r) = cur.reverse.map shown ++ r.map shown := by
  induction r with
  | nil => intro cur; simp [splitBreaks.go, joinShown]
  | cons c r ih =>
    intro cur
    simp only [splitBreaks.go]
    split
    · rename_i hc
      have hne := splitBreaks_go_ne r []
      have h0 := ih []
      match hg : splitBreaks.go [] r with
      | [] => exact absurd hg hne
      | l :: ls =>
        rw [hg] at h0
        simp only [joinShown, List.reverse_nil, List.map_nil, List.nil_append] at h0
        simp only [joinShown, List.flatMap_cons, List.map_cons]
        have hs : shown c = '\n' := by simp only [shown]; rw [if_pos hc]
        rw [hs]
        simp only [List.cons_append, List.append_assoc]
        rw [h0]
    · rw [ih]
      simp [List.map_append]

theorem joinShown_splitBreaks (t : Str) : joinShown (splitBreaks t) = t.map shown := by
  unfold splitBreaks
  rw [joinShown_go]; simp

end Adeu.Doc

namespace Adeu.Doc
open Adeu

/-- a line without bold / italic spans is one plain segment (or none when empty) -/
def PlainLine (line : Str) : Prop := inlineSegs line = if line.isEmpty then [] else [⟨line, false, false⟩]

theorem map_shown_noBreak (l : Str) (h : ∀ c ∈ l, c ≠ '\n' ∧ c ≠ '\r') :
    l.map (fun c => if c = '\t' then ' ' else c) = l.map shown := by
  apply List.map_congr_left
  intro c hc
  obtain ⟨h1, h2⟩ := h c hc
  simp [shown, h1, h2]

theorem splitBreaks_go_noBreak (r : Str) : ∀ cur, (∀ c ∈ cur, c ≠ '\n' ∧ c ≠ '\r') →
    ∀ l ∈ splitBreaks.go cur r, ∀ c ∈ l, c ≠ '\n' ∧ c ≠ '\r' := by
  induction r with
  | nil => intro cur hcur l hl c hc; simp [splitBreaks.go] at hl; subst hl; exact hcur c (by simpa using hc)
  | cons x r ih =>
    intro cur hcur l hl
    simp only [splitBreaks.go] at hl
    split at hl
    · rcases List.mem_cons.mp hl with rfl | hl
      · intro c hc; exact hcur c (by simpa using hc)
      · exact ih [] (by simp) l hl
    · rename_i hx
      refine ih (x :: cur) ?_ l hl
      intro c hc
      rcases List.mem_cons.mp hc with rfl | hc
      · simpa [not_or] using hx
      · exact hcur c hc

theorem splitBreaks_noBreak (t : Str) : ∀ l ∈ splitBreaks t, ∀ c ∈ l, c ≠ '\n' ∧ c ≠ '\r' :=
  splitBreaks_go_noBreak t [] (by simp)

theorem insRuns_text (line : Str) (style : Option Run) (hp : PlainLine line) (hb : ∀ c ∈ line, c ≠ '\n' ∧ c ≠ '\r') :
    (insRuns line style false).flatMap childText = line.map shown := by
  unfold insRuns
  rw [hp]
  split
  · rename_i he
    have : line = [] := by simpa using he
    subst this; simp
  · simp only [List.map_cons, List.map_nil, List.flatMap_cons, List.flatMap_nil, List.append_nil, childText, runText, atomText]
    exact map_shown_noBreak line hb

theorem brRun_text (style : Option Run) : childText (brRun style) = ['\n'] := by
  simp [brRun, childText, runText, atomText]

/-- **the rewritten insertion reads as the replacement text**: for lines without bold / italic markers, the text
the reader extracts from the new inline insertion is the replacement text itself (breaks as newlines, a literal tab
as the space the reader shows for it) - no character of the insertion's text is lost or reordered -/
theorem inlineLines_text (text : Str) (style : Option Run) (hp : ∀ l ∈ splitBreaks text, PlainLine l) :
    (inlineLines text style).flatMap childText = text.map shown := by
  rw [← joinShown_splitBreaks]
  unfold inlineLines
  have hb := splitBreaks_noBreak text
  generalize splitBreaks text = ls at hp hb
  match ls with
  | [] => simp [joinShown]
  | l :: rest =>
    simp only [joinShown, List.flatMap_append]
    rw [insRuns_text l style (hp l (by simp)) (hb l (by simp))]
    congr 1
    have hp' : ∀ x ∈ rest, PlainLine x := fun x hx => hp x (by simp [hx])
    have hb' : ∀ x ∈ rest, ∀ c ∈ x, c ≠ '\n' ∧ c ≠ '\r' := fun x hx => hb x (by simp [hx])
    clear hp hb
    induction rest with
    | nil => simp
    | cons y ys ih =>
      simp only [List.flatMap_cons, List.flatMap_append, List.flatMap_nil, List.append_nil]
      rw [brRun_text, insRuns_text y style (hp' y (by simp)) (hb' y (by simp))]
      rw [ih (fun x hx => hp' x (by simp [hx])) (fun x hx => hb' x (by simp [hx]))]
      simp

end Adeu.Doc

namespace Adeu.Doc
open Adeu
example : ∀ l ∈ splitBreaks "brown\nlazy cat ".toList, PlainLine l := by
  have h : splitBreaks "brown\nlazy cat ".toList = ["brown".toList, "lazy cat ".toList] := by decide +kernel
  rw [h]
  intro l hl
  simp only [List.mem_cons, List.not_mem_nil, or_false] at hl
  rcases hl with rfl | rfl <;> (unfold PlainLine; decide +kernel)
example : (inlineLines "brown\nlazy cat ".toList none).flatMap childText = "brown\nlazy cat ".toList := by decide +kernel
end Adeu.Doc
