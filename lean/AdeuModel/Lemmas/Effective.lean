import AdeuModel.Lemmas.Trim
import AdeuModel.Lemmas.Frame
namespace Adeu.Doc
open Adeu

/-- what `heuristicDirect` hands to the indexed step, as a pure function of the matched text: `none` = nothing to do
(new text equals the matched text, or nothing left after trimming); otherwise (start, length of the range to replace,
replacement text) -/
def effectiveEdit (text : Str) (start len : Nat) (new : Str) : Option (Nat × Nat × Str) :=
  let actual := (text.drop start).take len
  if actual = new then none
  else if actual.isPrefixOf new then some (start + len, 0, new.drop actual.length)
  else
    let pq := Trim.trim Trim.pyIsSpace actual new
    let ft := (actual.take (actual.length - pq.2)).drop pq.1
    let fn := (new.take (new.length - pq.2)).drop pq.1
    if ft.isEmpty && fn.isEmpty then none else some (start + pq.1, ft.length, fn)

theorem take_add_drop (l : List Char) (a b : Nat) : l.take (a + b) = l.take a ++ (l.drop a).take b := by
  rw [List.take_add]

/-- Trimming the common context, or turning an extension into an insertion, never changes what the edit means on
the text: replacing the effective range by the effective text gives exactly the text with the *whole* matched range
replaced by the *whole* new text — for all texts, all in-bounds matches, all new texts. -/
theorem effectiveEdit_same_text (text : Str) (start len : Nat) (new : Str) (hb : start + len ≤ text.length) :
    (match effectiveEdit text start len new with
     | none => text
     | some (s', l', n') => text.take s' ++ n' ++ text.drop (s' + l')) =
    text.take start ++ new ++ text.drop (start + len) := by
  have hal : ((text.drop start).take len).length = len := by simp; omega
  have hsplit : text = text.take start ++ (text.drop start).take len ++ text.drop (start + len) := by
    conv => lhs; rw [← List.take_append_drop start text]
    rw [List.append_assoc]
    congr 1
    rw [← List.drop_drop, List.take_append_drop]
  unfold effectiveEdit
  simp only
  generalize hA : (text.drop start).take len = actual at hal hsplit ⊢
  split
  · rename_i hcase
    split at hcase
    · rename_i heq; subst heq; exact hsplit
    · split at hcase
      · cases hcase
      · split at hcase
        · -- nothing left after trimming: the middle parts are both empty, so actual = new
          rename_i hne hnp hemp
          exfalso
          obtain ⟨hl, hp, hs⟩ := Trim.trim_inv Trim.pyIsSpace actual new
          generalize (Trim.trim Trim.pyIsSpace actual new).1 = p at *
          generalize (Trim.trim Trim.pyIsSpace actual new).2 = q at *
          simp only [Bool.and_eq_true, List.isEmpty_iff] at hemp
          have h1 : (actual.take (actual.length - q)).drop p = [] := hemp.1
          have h2 : (new.take (new.length - q)).drop p = [] := hemp.2
          have e1 : actual.length - q ≤ p := by
            have := congrArg List.length h1; simp at this; omega
          have e2 : new.length - q ≤ p := by
            have := congrArg List.length h2; simp at this; omega
          have la : actual.length = p + q := by omega
          have ln : new.length = p + q := by omega
          apply hne
          calc actual = actual.take p ++ actual.drop p := (List.take_append_drop p actual).symm
            _ = new.take p ++ new.drop p := by
                rw [hp]; congr 1
                have : actual.drop p = actual.drop (actual.length - q) := by rw [la]; congr 1; omega
                rw [this, hs]; congr 1; omega
            _ = new := List.take_append_drop p new
        · cases hcase
  · rename_i s' l' n' hcase
    split at hcase
    · cases hcase
    · split at hcase
      · rename_i hne hpre
        injection hcase with hcase
        simp only [Prod.mk.injEq] at hcase
        obtain ⟨rfl, rfl, rfl⟩ := hcase
        have hnew : new = actual ++ new.drop actual.length := by
          have := List.prefix_iff_eq_append.mp (List.isPrefixOf_iff_prefix.mp hpre)
          exact this.symm
        rw [Nat.add_zero]
        conv => rhs; rw [hnew]
        have : text.take (start + len) = text.take start ++ actual := by rw [take_add_drop, hA]
        rw [this]; simp [List.append_assoc]
      · split at hcase
        · cases hcase
        · rename_i hne hnp hemp
          injection hcase with hcase
          simp only [Prod.mk.injEq] at hcase
          obtain ⟨rfl, rfl, rfl⟩ := hcase
          obtain ⟨hl, hp, hs⟩ := Trim.trim_inv Trim.pyIsSpace actual new
          generalize (Trim.trim Trim.pyIsSpace actual new).1 = p at *
          generalize (Trim.trim Trim.pyIsSpace actual new).2 = q at *
          have hpl : p ≤ len := by omega
          -- left part
          have hleft : text.take (start + p) = text.take start ++ new.take p := by
            rw [take_add_drop]
            congr 1
            have : (text.drop start).take p = actual.take p := by
              rw [← hA, List.take_take]; congr 1; omega
            rw [this, hp]
          -- right part
          have hlen : ((actual.take (actual.length - q)).drop p).length = len - q - p := by simp; omega
          have hright : text.drop (start + p + ((actual.take (actual.length - q)).drop p).length) =
              new.drop (new.length - q) ++ text.drop (start + len) := by
            rw [hlen]
            have e : start + p + (len - q - p) = start + (len - q) := by omega
            rw [e, ← List.drop_drop]
            have h3 : (text.drop start) = actual ++ text.drop (start + len) := by
              rw [← hA, ← List.drop_drop, List.take_append_drop]
            rw [h3, List.drop_append_of_le_length (by omega)]
            congr 1
            rw [← hs]; congr 1; omega
          rw [hleft, hright]
          have hmid : new.take p ++ (new.take (new.length - q)).drop p ++ new.drop (new.length - q) = new := by
            have h1 : new.take p ++ (new.take (new.length - q)).drop p = new.take (new.length - q) := by
              have : new.take p = (new.take (new.length - q)).take p := by
                rw [List.take_take]; congr 1; omega
              rw [this, List.take_append_drop]
            rw [h1, List.take_append_drop]
          simp only [List.append_assoc] at hmid ⊢
          rw [← List.append_assoc (new.take p), ← List.append_assoc, ← List.append_assoc] 
          simp only [List.append_assoc]
          congr 1
          rw [← List.append_assoc, ← List.append_assoc, List.append_assoc (new.take p)]
          rw [hmid]

end Adeu.Doc

namespace Adeu.Doc
open Adeu

/-- `heuristicDirect` is: compute the effective edit from the matched text, then hand it to the indexed step (as an
insertion when nothing is left to replace; through the rewrite "inside a pending insertion = replace that insertion"
when the changed part, or the insertion point, lies inside one) -/
theorem heuristicDirect_eq (s : Sess) (m : HMatch) (e : HEdit) :
    heuristicDirect s m e =
      match effectiveEdit (ospansText (s.spans m.clean)) m.start m.len e.new with
      | none => (s, true)
      | some (st, ln, nw) =>
        if ln = 0 then
          match nestedInsertAt s m.clean st nw e.comment with
          | some r => r
          | none => applyIndexed s m.clean st 0 nw e.comment (some .insertion)
        else
          match nestedProxyAt s m.clean st ln nw e.comment with
          | some r => r
          | none => applyIndexed s m.clean st ln nw e.comment (some (if nw.isEmpty then .deletion else .modification)) := by
  unfold heuristicDirect effectiveEdit
  simp only
  generalize (List.take m.len (List.drop m.start (ospansText (s.spans m.clean)))) = actual
  split
  · rfl
  · split
    · simp; rfl
    · generalize Trim.trim Trim.pyIsSpace actual e.new = pq
      generalize hft : (actual.take (actual.length - pq.2)).drop pq.1 = ft
      generalize (e.new.take (e.new.length - pq.2)).drop pq.1 = fn
      split
      · rfl
      · simp only
        cases ft with
        | nil => simp; rfl
        | cons c r => simp; rfl

end Adeu.Doc
