import AdeuModel.Lemmas.Engine
namespace Adeu.Doc
open Adeu

/-- one review action on a paragraph child: accept (`true`) or reject (`false`) change `id` -/
def actN (acc : Bool) (id : Str) : Node → List Node := if acc then acceptN id else rejectN id

theorem toNode_notRev (c : InsChild) (id : Str) : hasRevN id c.toNode = false := by
  cases c <;> rfl

theorem actN_other (acc : Bool) (id : Str) (n : Node) (h : hasRevN id n = false) : actN acc id n = [n] := by
  cases acc
  · exact rejectN_other id n h
  · exact acceptN_other id n h

theorem actN_flatMap_unknown (acc : Bool) (id : Str) (ns : List Node) (h : ∀ n ∈ ns, hasRevN id n = false) :
    ns.flatMap (actN acc id) = ns := by
  cases acc
  · exact reject_unknown id ns h
  · exact accept_unknown id ns h

/-- the children an action produces carry no revision mark at all -/
theorem actN_result_other (acc : Bool) (i j : Str) (n : Node) (hn : hasRevN i n = true) :
    ∀ m ∈ actN acc i n, hasRevN j m = false := by
  intro m hm
  cases n with
  | ins rev ch =>
    have hid : rev.id = i := by simpa [hasRevN] using hn
    cases acc
    · simp [actN, rejectN, hid] at hm
    · simp [actN, acceptN, hid] at hm
      obtain ⟨c, _, rfl⟩ := hm
      exact toNode_notRev c j
  | del rev runs =>
    have hid : rev.id = i := by simpa [hasRevN] using hn
    cases acc
    · simp [actN, rejectN, hid] at hm
      obtain ⟨r, _, rfl⟩ := hm
      rfl
    · simp [actN, acceptN, hid] at hm
  | _ => simp [hasRevN] at hn

theorem hasRevN_ne {i j : Str} (hij : i ≠ j) (n : Node) (h : hasRevN i n = true) : hasRevN j n = false := by
  cases n with
  | ins rev ch =>
    have h1 : rev.id = i := by simpa [hasRevN] using h
    simp only [hasRevN, decide_eq_false_iff_not]
    intro h'; exact hij (h1.symm.trans h')
  | del rev rs =>
    have h1 : rev.id = i := by simpa [hasRevN] using h
    simp only [hasRevN, decide_eq_false_iff_not]
    intro h'; exact hij (h1.symm.trans h')
  | _ => simp [hasRevN] at h

/-- Actions on distinct ids commute (all four accept/reject combinations), at one paragraph child. -/
theorem actN_comm (a b : Bool) (i j : Str) (hij : i ≠ j) (n : Node) :
    (actN a i n).flatMap (actN b j) = (actN b j n).flatMap (actN a i) := by
  by_cases hi : hasRevN i n = true
  · have hj : hasRevN j n = false := hasRevN_ne hij n hi
    rw [actN_other b j n hj]
    simp only [List.flatMap_cons, List.flatMap_nil, List.append_nil]
    exact actN_flatMap_unknown b j _ (actN_result_other a i j n hi)
  · have hi' : hasRevN i n = false := by simpa using hi
    rw [actN_other a i n hi']
    simp only [List.flatMap_cons, List.flatMap_nil, List.append_nil]
    by_cases hj : hasRevN j n = true
    · exact (actN_flatMap_unknown a i _ (actN_result_other b j i n hj)).symm
    · have hj' : hasRevN j n = false := by simpa using hj
      rw [actN_other b j n hj']
      simp [actN_other a i n hi']

theorem flatMap_comm {α} (f g : α → List α) (h : ∀ a, (f a).flatMap g = (g a).flatMap f) (l : List α) :
    (l.flatMap f).flatMap g = (l.flatMap g).flatMap f := by
  induction l with
  | nil => rfl
  | cons a as ih => simp [List.flatMap_append, h a, ih]

theorem actNodes_comm (a b : Bool) (i j : Str) (hij : i ≠ j) (ns : List Node) :
    (ns.flatMap (actN a i)).flatMap (actN b j) = (ns.flatMap (actN b j)).flatMap (actN a i) :=
  flatMap_comm _ _ (actN_comm a b i j hij) ns

/-- after an action on `i` no child carries `i` any more (a second action on it is skipped) -/
theorem actNodes_clears (acc : Bool) (i : Str) (ns : List Node) :
    ∀ m ∈ ns.flatMap (actN acc i), hasRevN i m = false := by
  intro m hm
  simp only [List.mem_flatMap] at hm
  obtain ⟨n, _, hmn⟩ := hm
  by_cases hi : hasRevN i n = true
  · exact actN_result_other acc i i n hi m hmn
  · have hi' : hasRevN i n = false := by simpa using hi
    rw [actN_other acc i n hi'] at hmn
    simp at hmn; subst hmn; exact hi'

theorem actNodes_idem (acc acc' : Bool) (i : Str) (ns : List Node) :
    (ns.flatMap (actN acc i)).flatMap (actN acc' i) = ns.flatMap (actN acc i) :=
  actN_flatMap_unknown acc' i _ (actNodes_clears acc i ns)

/-- accepting a change never alters the accepted-view characters of a paragraph -/
theorem acceptedChars_acceptN (i : Str) (n : Node) :
    acceptedChars (acceptN i n) = acceptedCharsN n := by
  cases n with
  | ins rev ch =>
    by_cases h : rev.id = i
    · simp only [acceptN, h, ↓reduceIte, acceptedChars, acceptedCharsN, List.flatMap_map]
      congr 1
      funext c
      cases c <;> rfl
    · simp [acceptN, h, acceptedChars]
  | del rev runs =>
    by_cases h : rev.id = i
    · simp [acceptN, h, acceptedChars, acceptedCharsN]
    · simp [acceptN, h, acceptedChars, acceptedCharsN]
  | _ => simp [acceptN, acceptedChars]

theorem acceptedChars_accept (i : Str) (ns : List Node) :
    acceptedChars (ns.flatMap (acceptN i)) = acceptedChars ns := by
  induction ns with
  | nil => rfl
  | cons n rest ih =>
    have h := acceptedChars_acceptN i n
    simp only [acceptedChars, List.flatMap_cons, List.flatMap_append] at *
    rw [h, ih]

/-- `accept_all_revisions` leaves the accepted-view characters as they are (before comment stripping) -/
theorem acceptedChars_acceptAllN (ns : List Node) : acceptedChars (ns.flatMap acceptAllN) = acceptedChars ns := by
  induction ns with
  | nil => rfl
  | cons n rest ih =>
    simp only [acceptedChars, List.flatMap_cons, List.flatMap_append] at *
    rw [ih]
    congr 1
    cases n with
    | ins rev ch =>
      simp only [acceptAllN, acceptedCharsN, List.flatMap_map]
      congr 1
      funext c
      cases c <;> rfl
    | _ => simp [acceptAllN, acceptedCharsN]

theorem acceptAllN_noRev (ns : List Node) : ∀ m ∈ ns.flatMap acceptAllN, isRevN m = false := by
  intro m hm
  simp only [List.mem_flatMap] at hm
  obtain ⟨n, _, hmn⟩ := hm
  cases n with
  | ins rev ch =>
    simp [acceptAllN] at hmn
    obtain ⟨c, _, rfl⟩ := hmn
    cases c <;> rfl
  | del rev runs => simp [acceptAllN] at hmn
  | _ => simp [acceptAllN] at hmn; subst hmn; rfl

/-! ### counting -/
theorem applyActions_total (s : Sess) (acts : List Action) :
    (s.applyActions acts).2.1 + (s.applyActions acts).2.2 = acts.length := by
  unfold Sess.applyActions
  suffices h : ∀ (l : List Action) (acc : Sess × Nat × Nat),
      (l.foldl (fun (acc : Sess × Nat × Nat) a =>
        if (acc.1.applyAction a).2 then ((acc.1.applyAction a).1, acc.2.1 + 1, acc.2.2)
        else ((acc.1.applyAction a).1, acc.2.1, acc.2.2 + 1)) acc).2.1 +
      (l.foldl (fun (acc : Sess × Nat × Nat) a =>
        if (acc.1.applyAction a).2 then ((acc.1.applyAction a).1, acc.2.1 + 1, acc.2.2)
        else ((acc.1.applyAction a).1, acc.2.1, acc.2.2 + 1)) acc).2.2 = acc.2.1 + acc.2.2 + l.length by
    have := h acts (s, 0, 0)
    simpa using this
  intro l
  induction l with
  | nil => intro acc; simp
  | cons a rest ih =>
    intro acc
    simp only [List.foldl_cons, List.length_cons]
    rw [ih]
    split <;> (simp only; omega)

end Adeu.Doc
