import AdeuModel.Lemmas.ExtractRaw
import AdeuModel.Model.Engine
import AdeuModel.Model.ShownShape
/-
Layers D + E — a comment attached to a change is shown with that change.

What the engine writes for a commented edit (`attachCommentNodes`, C10_anchor_encloses) is a range start in
front of the marks of the edit and the range end + reference run behind them.  Read back by the reader model,
the run inside the insertion contributes a snapshot in which both the insertion's id and the comment's id are
open - so they are rendered in one metadata block (`rawSegs_notes`, `metaGroups_flatten`).
-/
namespace Adeu.Doc
open Adeu

theorem itemsFrom_append (st : FieldSt) : ∀ (a b : List Node) (k : Nat),
    itemsFrom st (a ++ b) k = itemsFrom st a k ++ itemsFrom (stAfter st a k) b (k + a.length) := by
  intro a
  induction a generalizing st with
  | nil => intro b k; simp [itemsFrom, stAfter]
  | cons n rest ih =>
    intro b k
    simp only [List.cons_append, itemsFrom, stAfter, ih, List.append_assoc, List.length_cons]
    have : k + 1 + rest.length = k + (rest.length + 1) := by omega
    rw [this]

/-- the open marks after a list of items -/
def marksAfter : RevMap → RevMap → List Str → List Item → RevMap × RevMap × List Str
  | i, d, c, [] => (i, d, c)
  | i, d, c, .run _ _ :: rest => marksAfter i d c rest
  | i, d, c, .ev ty id a :: rest =>
    match ty with
    | .start => marksAfter i d (setAdd id c) rest
    | .end_ => marksAfter i d (setDel id c) rest
    | .insStart => marksAfter (revSet id a i) d c rest
    | .insEnd => marksAfter (revDel id i) d c rest
    | .delStart => marksAfter i (revSet id a d) c rest
    | .delEnd => marksAfter i (revDel id d) c rest
    | .ref => marksAfter i d c rest

theorem snapSpec_append : ∀ (a b : List Item) (i d : RevMap) (c : List Str),
    snapSpec i d c (a ++ b) =
      snapSpec i d c a ++ snapSpec (marksAfter i d c a).1 (marksAfter i d c a).2.1 (marksAfter i d c a).2.2 b := by
  intro a
  induction a with
  | nil => intro b i d c; simp [snapSpec, marksAfter]
  | cons it rest ih =>
    intro b i d c
    cases it with
    | run r loc => simp [snapSpec, marksAfter, ih, List.append_assoc]
    | ev ty id au => cases ty <;> simp [snapSpec, marksAfter, ih]

theorem mem_setAdd (k : Str) (s : List Str) : k ∈ setAdd k s := by
  unfold setAdd; split
  · rename_i h; simpa using h
  · simp

theorem mem_revSet (k : Str) (a : Option Str) : ∀ m : RevMap, k ∈ (revSet k a m).map (·.1)
  | [] => by simp [revSet]
  | (k', a') :: r => by
    simp only [revSet]
    split
    · simp
    · simp only [List.map_cons, List.mem_cons]; exact Or.inr (mem_revSet k a r)

theorem fold_plain : ∀ (l : List Atom) (s : FieldSt), l.all isT = true → l.foldl fieldStep s = s := by
  intro l
  induction l with
  | nil => intro s _; rfl
  | cons a rest ih =>
    intro s h
    rw [List.all_cons, Bool.and_eq_true] at h
    obtain ⟨h1, h2⟩ := h
    cases a <;> simp [isT] at h1
    simp only [List.foldl_cons, fieldStep]
    exact ih s h2

theorem refs_plain : ∀ (l : List Atom), l.all isT = true →
    (l.filterMap fun | .cref id => if id.isEmpty then none else some (Item.ev .ref id none) | _ => none) = [] := by
  intro l
  induction l with
  | nil => intro _; rfl
  | cons a rest ih =>
    intro h
    rw [List.all_cons, Bool.and_eq_true] at h
    obtain ⟨h1, h2⟩ := h
    cases a <;> simp [isT] at h1
    simp only [List.filterMap_cons]
    exact ih h2

/-- a run of plain text outside any complex field is emitted as it is -/
theorem processRun_textRun (st : FieldSt) (r : Run) (loc : Loc)
    (hst : st.hide = false) (hr : r.ch.all isT = true) :
    (processRun st r loc).2 = [Item.run r loc] ∧ (processRun st r loc).1.hide = false := by
  unfold processRun
  have hmem : ∀ (a : Atom), a ∈ r.ch →
      (match a with
        | Atom.cref id => if id = [] then none else some (Item.ev EvTy.ref id none)
        | _ => none) = none := by
    intro a ha
    have := (List.all_eq_true.1 hr) a ha
    cases a <;> simp [isT] at this ⊢
  simp only [fold_plain r.ch st hr]
  by_cases hf : st.inField = true
  · simp [hf, hst]; exact hmem
  · simp [hf, hst]; exact hmem

end Adeu.Doc

namespace Adeu.Doc
open Adeu

/-- the snapshot a commented insertion contributes: comment range start, an insertion holding one text run,
range end and reference run, read in any context of open marks -/
theorem snap_of_commented_ins (st : FieldSt) (k : Nat) (cid : Str) (rev : Rev) (r : Run) (post : List Node)
    (i d : RevMap) (c : List Str)
    (hst : st.hide = false) (hr : r.ch.all isT = true)
    (hseg : (applyFormatting (runText r) (runMarkers r).1 (runMarkers r).2).isEmpty = false) :
    ({ ins := revSet rev.id rev.author i, del := d, comments := setAdd cid c } : Snap) ∈
      snapSpec i d c (itemsFrom st ([.cs cid, .ins rev [.run r], .ce cid, .run (crefRun cid)] ++ post) k) := by
  obtain ⟨h1, _⟩ := processRun_textRun st r ⟨k + 1, some 0⟩ hst hr
  have hprod : processRun st r ⟨k + 1, some 0⟩ = ((processRun st r ⟨k + 1, some 0⟩).1, [Item.run r ⟨k + 1, some 0⟩]) := by
    rw [← h1]
  simp only [List.cons_append, itemsFrom, nodeItems, insItems]
  rw [hprod]
  simp only [List.nil_append, List.cons_append, List.append_nil, snapSpec, hseg, Bool.false_eq_true, ↓reduceIte,
    List.singleton_append, List.mem_cons, true_or]

/-- **Shown with the change.**  In a paragraph that holds `… ⟨range start cid⟩ ⟨w:ins rev: one text run⟩ ⟨range end
cid⟩ ⟨reference⟩ …` (what `attachCommentNodes` leaves around an insertion) the reader's metadata is built from a
snapshot in which both the insertion `rev.id` and the comment `cid` are open: the change and its comment are
rendered in the same metadata block, directly behind the inserted text. -/
theorem comment_shown_with_insertion (cm : CMap) (p : Para) (pre post : List Node) (cid : Str) (rev : Rev) (r : Run)
    (hn : p.nodes = pre ++ ([.cs cid, .ins rev [.run r], .ce cid, .run (crefRun cid)] ++ post))
    (hst : (stAfter {} pre 0).hide = false) (hr : r.ch.all isT = true)
    (hseg : (applyFormatting (runText r) (runMarkers r).1 (runMarkers r).2).isEmpty = false) :
    ∃ snap ∈ (metaGroups cm p).flatten, cid ∈ snap.comments ∧ rev.id ∈ snap.ins.map (·.1) := by
  rw [metaGroups_flatten]
  unfold items
  rw [hn, itemsFrom_append, snapSpec_append]
  refine ⟨_, List.mem_append_right _ (snap_of_commented_ins _ _ cid rev r post _ _ _ hst hr hseg), ?_, ?_⟩
  · exact mem_setAdd cid _
  · exact mem_revSet rev.id rev.author _

end Adeu.Doc

namespace Adeu.Doc
open Adeu

theorem marksAfter_runs (i d : RevMap) (c : List Str) (k : Nat) : ∀ (runs : List Run) (j : Nat),
    marksAfter i d c ((runs.zipIdx j).map fun (r, q) => Item.run r ⟨k, some q⟩) = (i, d, c) := by
  intro runs
  induction runs with
  | nil => intro j; rfl
  | cons r rest ih => intro j; simp only [List.zipIdx_cons, List.map_cons, marksAfter]; exact ih (j + 1)

/-- a commented deletion: the deleted run's snapshot has the deletion and the comment open -/
theorem comment_shown_with_deletion (cm : CMap) (p : Para) (pre post : List Node) (cid : Str) (rev : Rev) (r : Run)
    (hn : p.nodes = pre ++ ([.cs cid, .del rev [r], .ce cid, .run (crefRun cid)] ++ post))
    (hseg : (applyFormatting (runText r) (runMarkers r).1 (runMarkers r).2).isEmpty = false) :
    ∃ snap ∈ (metaGroups cm p).flatten, cid ∈ snap.comments ∧ rev.id ∈ snap.del.map (·.1) := by
  rw [metaGroups_flatten]
  unfold items
  rw [hn, itemsFrom_append, snapSpec_append]
  generalize (marksAfter [] [] [] (itemsFrom {} pre 0)) = m
  refine ⟨{ ins := m.1, del := revSet rev.id rev.author m.2.1, comments := setAdd cid m.2.2 }, List.mem_append_right _ ?_,
    mem_setAdd cid _, mem_revSet rev.id rev.author _⟩
  simp only [List.cons_append, itemsFrom, nodeItems, List.zipIdx_cons, List.zipIdx_nil, List.map_cons, List.map_nil,
    List.nil_append, List.cons_append, snapSpec, hseg, Bool.false_eq_true, ↓reduceIte, List.singleton_append,
    List.mem_cons, true_or]

/-- a commented replacement (`⟨start⟩ ⟨w:del⟩ ⟨w:ins⟩ ⟨end⟩ ⟨reference⟩`): the inserted run's snapshot has the
insertion and the comment open -/
theorem comment_shown_with_replacement (cm : CMap) (p : Para) (pre post : List Node) (cid : Str) (rd ri : Rev) (dr r : Run)
    (hn : p.nodes = pre ++ ([.cs cid, .del rd [dr], .ins ri [.run r], .ce cid, .run (crefRun cid)] ++ post))
    (hst : (stAfter {} pre 0).hide = false) (hr : r.ch.all isT = true)
    (hseg : (applyFormatting (runText r) (runMarkers r).1 (runMarkers r).2).isEmpty = false) :
    ∃ snap ∈ (metaGroups cm p).flatten, cid ∈ snap.comments ∧ ri.id ∈ snap.ins.map (·.1) := by
  rw [metaGroups_flatten]
  unfold items
  rw [hn, itemsFrom_append, snapSpec_append]
  obtain ⟨h1, _⟩ := processRun_textRun (stAfter {} pre 0) r ⟨0 + pre.length + 1 + 1, some 0⟩ hst hr
  have hprod : processRun (stAfter {} pre 0) r ⟨0 + pre.length + 1 + 1, some 0⟩ =
      ((processRun (stAfter {} pre 0) r ⟨0 + pre.length + 1 + 1, some 0⟩).1, [Item.run r ⟨0 + pre.length + 1 + 1, some 0⟩]) := by
    rw [← h1]
  generalize (marksAfter [] [] [] (itemsFrom {} pre 0)) = m
  refine ⟨{ ins := revSet ri.id ri.author m.1, del := revDel rd.id (revSet rd.id rd.author m.2.1), comments := setAdd cid m.2.2 },
    List.mem_append_right _ ?_, mem_setAdd cid _, mem_revSet ri.id ri.author _⟩
  simp only [List.cons_append, itemsFrom, nodeItems, insItems, List.zipIdx_cons, List.zipIdx_nil, List.map_cons, List.map_nil]
  rw [hprod]
  by_cases hd : (applyFormatting (runText dr) (runMarkers dr).1 (runMarkers dr).2).isEmpty = true
  · simp [snapSpec, hseg, hd]
  · simp [snapSpec, hseg, hd]

end Adeu.Doc
