import AdeuModel.Lemmas.ExtractRaw
/-
Layer D — the raw view of whole stories and documents reads, with every annotation accepted, as the
accepted view.  `Reads raw clean` : the raw string is the rendering of a *flat* list of CriticMarkup
segments (balanced, never nested) whose accepted reading is `clean`.

Lifted from paragraphs (`rawSegs_accept`) through blocks, nested tables (python-docx's `row.cells`
substitution for merged cells included) and the header / body / footer stories by mutual induction.
The one place where the two views can part is a container (table, story) that is dropped as empty
in one view and kept in the other; `domBlocks` / `domDoc` say that this does not happen, and
`deletedOnly_counterexample` shows that the hypothesis is needed (open finding
F-deleted-only-container).
-/
namespace Adeu.Doc
open Adeu Adeu.Markup

def Reads (raw clean : Str) : Prop :=
  ∃ segs : List Seg, raw = render segs ∧ acceptView segs = clean ∧ BraceFree segs

theorem braceFree_of_B {segs : List Seg} (h : braceFreeB segs = true) : BraceFree segs := by
  intro sg hsg c hc
  unfold braceFreeB at h
  have := (List.all_eq_true.1 h) sg hsg
  have := (List.all_eq_true.1 this) c hc
  simpa using this

theorem BraceFree.append {a b : List Seg} (ha : BraceFree a) (hb : BraceFree b) : BraceFree (a ++ b) := by
  intro sg hsg
  rcases List.mem_append.1 hsg with h | h
  · exact ha sg h
  · exact hb sg h

theorem Reads.nil : Reads [] [] := ⟨[], rfl, rfl, by intro sg h; cases h⟩
theorem Reads.plain (s : Str) (hs : ∀ c ∈ s, c ≠ '{' ∧ c ≠ '}') : Reads s s :=
  ⟨[.plain s], by simp [Seg.render], by simp [Seg.accepted], by
    intro sg h c hc
    simp at h; subst h
    exact hs c hc⟩
theorem Reads.append {a a' b b' : Str} (h1 : Reads a a') (h2 : Reads b b') : Reads (a ++ b) (a' ++ b') := by
  obtain ⟨s1, r1, c1, b1⟩ := h1
  obtain ⟨s2, r2, c2, b2⟩ := h2
  exact ⟨s1 ++ s2, by simp [r1, r2], by simp [c1, c2], BraceFree.append b1 b2⟩

/-- a string that reads as `clean` is parsed by the CriticMarkup reader, and its accepted reading is `clean` -/
theorem Reads.parse {raw clean : Str} (h : Reads raw clean) : (parse raw).map acceptView = some clean := by
  obtain ⟨segs, r, c, b⟩ := h
  rw [r, parse_render segs b]
  simp [acceptView_normAcc, c]

theorem ite_some_none {α} (c : Prop) [Decidable c] (x : α) (h : α) (e : (if c then some x else none) = some h) : h = x := by
  split at e <;> simp_all

theorem paraPrefix_chars (p : Para) : ∀ c ∈ paraPrefix p, c = '#' ∨ c = ' ' := by
  intro c hc
  unfold paraPrefix at hc
  simp only at hc
  split at hc
  · rename_i h heq
    split at heq
    · have := ite_some_none _ _ _ heq
      subst this
      simp only [List.mem_append, List.mem_replicate, List.mem_singleton] at hc
      rcases hc with hc | hc
      · exact Or.inl hc.2
      · exact Or.inr hc
    · cases heq
  · split at hc
    · simp only [List.mem_cons, List.not_mem_nil, or_false] at hc; exact hc
    · split at hc
      · split at hc
        · split at hc
          · split at hc
            · simp only [List.mem_cons, List.not_mem_nil, or_false] at hc
              rcases hc with hc | hc | hc
              · exact Or.inl hc
              · exact Or.inl hc
              · exact Or.inr hc
            · simp at hc
          · simp at hc
        · simp at hc
      · simp at hc

theorem paraPrefix_braceFree (p : Para) : ∀ c ∈ paraPrefix p, c ≠ '{' ∧ c ≠ '}' := by
  intro c hc
  rcases paraPrefix_chars p c hc with h | h <;> (subst h; decide)

theorem render_eq_nil_accept : ∀ segs : List Seg, render segs = [] → acceptView segs = []
  | [], _ => rfl
  | sg :: rest, h => by
    have h' : sg.render ++ render rest = [] := by simpa [render] using h
    have h1 : sg.render = [] := (List.append_eq_nil_iff.1 h').1
    have h2 : render rest = [] := (List.append_eq_nil_iff.1 h').2
    have ih := render_eq_nil_accept rest h2
    cases sg with
    | plain s =>
      have : s = [] := by simpa [Seg.render] using h1
      simp [acceptView, this, Seg.accepted] at ih ⊢
      exact ih
    | del s => simp [Seg.render] at h1
    | ins s => simp [Seg.render] at h1
    | hl s => simp [Seg.render] at h1
    | note s => simp [Seg.render] at h1

/-- nothing written in the raw view ⇒ nothing in the accepted view -/
theorem Reads.clean_nil {raw clean : Str} (h : Reads raw clean) (hr : raw = []) : clean = [] := by
  obtain ⟨segs, r, c, _⟩ := h
  rw [← c]; exact render_eq_nil_accept segs (by rw [← r]; exact hr)

inductive All2 (R : α → β → Prop) : List α → List β → Prop
  | nil : All2 R [] []
  | cons {a b as bs} : R a b → All2 R as bs → All2 R (a :: as) (b :: bs)

theorem All2.get {R : α → β → Prop} {da : α} {db : β} (hd : R da db) :
    ∀ {as : List α} {bs : List β}, All2 R as bs → ∀ i : Nat, R ((as[i]?).getD da) ((bs[i]?).getD db)
  | _, _, .nil, i => by simpa using hd
  | _, _, .cons h t, 0 => by simpa using h
  | _, _, .cons h t, i + 1 => by simpa using All2.get hd t i

theorem All2.length {R : α → β → Prop} : ∀ {as : List α} {bs : List β}, All2 R as bs → as.length = bs.length
  | _, _, .nil => rfl
  | _, _, .cons _ t => by simp [All2.length t]

theorem Reads.joinWith (sep : Str) (hs : ∀ c ∈ sep, c ≠ '{' ∧ c ≠ '}') :
    ∀ {as bs : List Str}, All2 Reads as bs → Reads (joinWith sep as) (joinWith sep bs)
  | _, _, .nil => Reads.nil
  | _, _, .cons h .nil => by simpa [Doc.joinWith] using h
  | _, _, .cons h (.cons h2 t) => by
    have ih := Reads.joinWith sep hs (.cons h2 t)
    simp only [Doc.joinWith]
    exact (h.append (Reads.plain sep hs)).append ih

theorem All2.map_fn {R : γ → δ → Prop} (f : α → γ) (g : α → δ) (h : ∀ x, R (f x) (g x)) :
    ∀ l : List α, All2 R (l.map f) (l.map g)
  | [] => .nil
  | x :: r => .cons (h x) (All2.map_fn f g h r)

/-- dropping empty strings on both sides keeps the lists aligned when emptiness agrees -/
theorem All2.filter_nonempty : ∀ {as bs : List Str}, All2 (fun a b => Reads a b ∧ (b = [] → a = [])) as bs →
    All2 Reads (as.filter (!·.isEmpty)) (bs.filter (!·.isEmpty))
  | _, _, .nil => .nil
  | a :: as, b :: bs, .cons h t => by
    have ih := All2.filter_nonempty t
    by_cases ha : a = []
    · have hb : b = [] := h.1.clean_nil ha
      simpa [ha, hb] using ih
    · have hb : b ≠ [] := fun e => ha (h.2 e)
      have ha' : a.isEmpty = false := by simpa using ha
      have hb' : b.isEmpty = false := by simpa using hb
      simp only [List.filter_cons, ha', hb', Bool.not_false, ↓reduceIte]
      exact .cons h.1 ih

/-! ### paragraphs, blocks, tables -/

theorem para_reads (cm : CMap) (p : Para) (h : braceFreeB (rawSegs cm p) = true) :
    Reads (paraText false cm p) (paraText true cm p) :=
  ⟨rawSegs cm p, paraText_raw_render cm p, rawSegs_accept cm p, braceFree_of_B h⟩

theorem table_reads (cm : CMap) (rows : List Row)
    (h : All2 (All2 Reads) (rowsCellTexts false cm rows) (rowsCellTexts true cm rows)) :
    Reads (tableText false cm rows) (tableText true cm rows) := by
  unfold tableText
  simp only
  apply Reads.joinWith _ (by decide)
  apply All2.map_fn
  intro ri
  apply Reads.joinWith _ (by decide)
  apply All2.map_fn
  intro rc
  obtain ⟨r, c⟩ := rc
  simp only
  exact All2.get Reads.nil (All2.get (R := All2 Reads) (da := []) (db := []) .nil h r) c

mutual
  theorem blocks_reads (cm : CMap) : ∀ (bs : List Block), domBlocks cm bs = true →
      All2 Reads (blocksText false cm bs) (blocksText true cm bs)
    | [], _ => by simp only [blocksText]; exact .nil
    | .para p :: rest, h => by
      simp only [domBlocks, Bool.and_eq_true] at h
      simp only [blocksText]
      exact .cons ((Reads.plain _ (paraPrefix_braceFree p)).append (para_reads cm p h.1)) (blocks_reads cm rest h.2)
    | .table pr g rows :: rest, h => by
      simp only [domBlocks, Bool.and_eq_true, Bool.or_eq_true, Bool.not_eq_true'] at h
      obtain ⟨⟨he, hr⟩, hb⟩ := h
      have ht := table_reads cm rows (rows_reads cm rows hr)
      have ih := blocks_reads cm rest hb
      simp only [blocksText]
      by_cases hraw : (tableText false cm rows).isEmpty = true
      · have hclean : tableText true cm rows = [] := ht.clean_nil (by simpa using hraw)
        simp only [hraw, ↓reduceIte, hclean, List.isEmpty_nil]
        exact ih
      · have hclean : (tableText true cm rows).isEmpty = false := by
          rcases he with he | he
          · exact he
          · exact absurd he hraw
        simp only [hraw, hclean, Bool.false_eq_true, ↓reduceIte]
        exact .cons ht ih
    | .other x :: rest, h => by
      simp only [domBlocks] at h
      simp only [blocksText]
      exact blocks_reads cm rest h
  theorem rows_reads (cm : CMap) : ∀ (rows : List Row), domRows cm rows = true →
      All2 (All2 Reads) (rowsCellTexts false cm rows) (rowsCellTexts true cm rows)
    | [], _ => by simp only [rowsCellTexts]; exact .nil
    | .mk pr cells :: rest, h => by
      simp only [domRows, Bool.and_eq_true] at h
      simp only [rowsCellTexts]
      exact .cons (cells_reads cm cells h.1) (rows_reads cm rest h.2)
  theorem cells_reads (cm : CMap) : ∀ (cells : List Cell), domCells cm cells = true →
      All2 Reads (cellsTexts false cm cells) (cellsTexts true cm cells)
    | [], _ => by simp only [cellsTexts]; exact .nil
    | .mk pr s v blocks :: rest, h => by
      simp only [domCells, Bool.and_eq_true] at h
      simp only [cellsTexts]
      exact .cons (Reads.joinWith _ (by decide) (blocks_reads cm blocks h.1)) (cells_reads cm rest h.2)
end

theorem container_reads (cm : CMap) (bs : List Block) (h : domBlocks cm bs = true) :
    Reads (containerText false cm bs) (containerText true cm bs) :=
  Reads.joinWith _ (by decide) (blocks_reads cm bs h)

theorem parts_reads (cm : CMap) : ∀ parts : List (List Block),
    (parts.all fun bs => domBlocks cm bs && (!(containerText true cm bs).isEmpty || (containerText false cm bs).isEmpty)) = true →
    All2 (fun a b => Reads a b ∧ (b = [] → a = [])) (parts.map (containerText false cm)) (parts.map (containerText true cm))
  | [], _ => .nil
  | bs :: rest, h => by
    simp only [List.all_cons, Bool.and_eq_true, Bool.or_eq_true, Bool.not_eq_true'] at h
    obtain ⟨⟨hd, he⟩, hr⟩ := h
    refine .cons ⟨container_reads cm bs hd, ?_⟩ (parts_reads cm rest hr)
    intro hb
    rcases he with he | he
    · simp [hb] at he
    · simpa using he

/-- The raw view of a whole document is a flat, balanced CriticMarkup rendering whose reading with every
annotation accepted is the accepted view of that document. -/
theorem doc_reads (d : Document) (h : domDoc d = true) : Reads (extractText false d) (extractText true d) := by
  unfold extractText
  exact Reads.joinWith _ (by decide) (All2.filter_nonempty (parts_reads (commentsMap d) (docParts d) h))

end Adeu.Doc
