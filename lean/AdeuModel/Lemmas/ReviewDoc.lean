import AdeuModel.Lemmas.Review
import AdeuModel.Lemmas.Grow
namespace Adeu.Doc
open Adeu

mutual
  theorem mapNodesBlocks_comp (f g : List Node → List Node) : ∀ bs : List Block,
      mapNodesBlocks f (mapNodesBlocks g bs) = mapNodesBlocks (fun ns => f (g ns)) bs
    | [] => by simp [mapNodesBlocks]
    | .para p :: rest => by simp only [mapNodesBlocks, mapNodesBlocks_comp f g rest]
    | .table pr gr rows :: rest => by simp only [mapNodesBlocks, mapNodesRows_comp f g rows, mapNodesBlocks_comp f g rest]
    | .other x :: rest => by simp only [mapNodesBlocks, mapNodesBlocks_comp f g rest]
  theorem mapNodesRows_comp (f g : List Node → List Node) : ∀ rs : List Row,
      mapNodesRows f (mapNodesRows g rs) = mapNodesRows (fun ns => f (g ns)) rs
    | [] => by simp [mapNodesRows]
    | .mk pr cells :: rest => by simp only [mapNodesRows, mapNodesCells_comp f g cells, mapNodesRows_comp f g rest]
  theorem mapNodesCells_comp (f g : List Node → List Node) : ∀ cs : List Cell,
      mapNodesCells f (mapNodesCells g cs) = mapNodesCells (fun ns => f (g ns)) cs
    | [] => by simp [mapNodesCells]
    | .mk pr s v bs :: rest => by simp only [mapNodesCells, mapNodesBlocks_comp f g bs, mapNodesCells_comp f g rest]
end

mutual
  theorem mapNodesBlocks_congr (f g : List Node → List Node) (h : ∀ ns, f ns = g ns) : ∀ bs : List Block,
      mapNodesBlocks f bs = mapNodesBlocks g bs
    | [] => by simp [mapNodesBlocks]
    | .para p :: rest => by simp only [mapNodesBlocks, h, mapNodesBlocks_congr f g h rest]
    | .table pr gr rows :: rest => by simp only [mapNodesBlocks, mapNodesRows_congr f g h rows, mapNodesBlocks_congr f g h rest]
    | .other x :: rest => by simp only [mapNodesBlocks, mapNodesBlocks_congr f g h rest]
  theorem mapNodesRows_congr (f g : List Node → List Node) (h : ∀ ns, f ns = g ns) : ∀ rs : List Row,
      mapNodesRows f rs = mapNodesRows g rs
    | [] => by simp [mapNodesRows]
    | .mk pr cells :: rest => by simp only [mapNodesRows, mapNodesCells_congr f g h cells, mapNodesRows_congr f g h rest]
  theorem mapNodesCells_congr (f g : List Node → List Node) (h : ∀ ns, f ns = g ns) : ∀ cs : List Cell,
      mapNodesCells f cs = mapNodesCells g cs
    | [] => by simp [mapNodesCells]
    | .mk pr s v bs :: rest => by simp only [mapNodesCells, mapNodesBlocks_congr f g h bs, mapNodesCells_congr f g h rest]
end

/-- accept / reject of change `id` on the whole main story -/
def actChange (acc : Bool) (id : Str) (body : List Block) : List Block × Bool :=
  if acc then acceptChange id body else rejectChange id body

theorem actChange_fst (acc : Bool) (id : Str) (body : List Block) :
    (actChange acc id body).1 = mapNodesBlocks (·.flatMap (actN acc id)) body := by
  cases acc <;> simp [actChange, acceptChange, rejectChange, actN]

/-- Document level: actions on distinct ids commute on the whole main story (tables, nested tables included). -/
theorem actChange_comm (a b : Bool) (i j : Str) (hij : i ≠ j) (body : List Block) :
    (actChange b j (actChange a i body).1).1 = (actChange a i (actChange b j body).1).1 := by
  simp only [actChange_fst, mapNodesBlocks_comp]
  apply mapNodesBlocks_congr
  intro ns
  exact actNodes_comm a b i j hij ns

mutual
  theorem mapNodesBlocks_id (f : List Node → List Node) : ∀ bs : List Block,
      (∀ ns, (∀ n ∈ ns, n ∈ allNodesBlocks bs) → f ns = ns) → mapNodesBlocks f bs = bs
    | [], _ => by simp [mapNodesBlocks]
    | .para p :: rest, h => by
      simp only [mapNodesBlocks]
      rw [h p.nodes (fun n hn => by simp [allNodesBlocks, hn])]
      rw [mapNodesBlocks_id f rest (fun ns hns => h ns (fun n hn => by simp [allNodesBlocks, hns n hn]))]
    | .table pr gr rows :: rest, h => by
      simp only [mapNodesBlocks]
      rw [mapNodesRows_id f rows (fun ns hns => h ns (fun n hn => by simp [allNodesBlocks, hns n hn]))]
      rw [mapNodesBlocks_id f rest (fun ns hns => h ns (fun n hn => by simp [allNodesBlocks, hns n hn]))]
    | .other x :: rest, h => by
      simp only [mapNodesBlocks]
      rw [mapNodesBlocks_id f rest (fun ns hns => h ns (fun n hn => by simpa [allNodesBlocks] using hns n hn))]
  theorem mapNodesRows_id (f : List Node → List Node) : ∀ rs : List Row,
      (∀ ns, (∀ n ∈ ns, n ∈ allNodesRows rs) → f ns = ns) → mapNodesRows f rs = rs
    | [], _ => by simp [mapNodesRows]
    | .mk pr cells :: rest, h => by
      simp only [mapNodesRows]
      rw [mapNodesCells_id f cells (fun ns hns => h ns (fun n hn => by simp [allNodesRows, hns n hn]))]
      rw [mapNodesRows_id f rest (fun ns hns => h ns (fun n hn => by simp [allNodesRows, hns n hn]))]
  theorem mapNodesCells_id (f : List Node → List Node) : ∀ cs : List Cell,
      (∀ ns, (∀ n ∈ ns, n ∈ allNodesCells cs) → f ns = ns) → mapNodesCells f cs = cs
    | [], _ => by simp [mapNodesCells]
    | .mk pr s v bs :: rest, h => by
      simp only [mapNodesCells]
      rw [mapNodesBlocks_id f bs (fun ns hns => h ns (fun n hn => by simp [allNodesCells, hns n hn]))]
      rw [mapNodesCells_id f rest (fun ns hns => h ns (fun n hn => by simp [allNodesCells, hns n hn]))]
end

/-- Document level: an action on an id that no change of the main story carries is reported as skipped
and leaves the story exactly as it is. -/
theorem actChange_unknown (acc : Bool) (id : Str) (body : List Block) (h : hasRev id body = false) :
    actChange acc id body = (body, false) := by
  have hn : ∀ n ∈ allNodesBlocks body, hasRevN id n = false := by
    simpa [hasRev] using h
  have hb : mapNodesBlocks (·.flatMap (actN acc id)) body = body :=
    mapNodesBlocks_id _ body
      (fun ns hns => actN_flatMap_unknown acc id ns (fun n hn' => hn n (hns n hn')))
  have h1 := actChange_fst acc id body
  rw [hb] at h1
  cases acc <;> simp_all [actChange, acceptChange, rejectChange]

/-- Document level: whatever the action, the skeleton of the story (paragraph properties, tables, rows,
cells, other blocks) is untouched — an action only touches paragraph children. -/
theorem actChange_skel (acc : Bool) (id : Str) (body : List Block) : skel (actChange acc id body).1 = skel body := by
  rw [actChange_fst]; exact skel_mapNodesBlocks _ body

end Adeu.Doc
