import AdeuModel.Lemmas.Diff
/-
Edit scripts applied one edit at a time from the right (the engine's order for indexed edits) —
text-level lemmas for C12.
-/
namespace Adeu
open Adeu.Diff

/-- One-at-a-time application from the right leaves the first `base` characters alone and equals
the simultaneous left-to-right replacement. -/
theorem applyDesc_eq (s : Str) (es : List Edit) : ∀ (base : Nat), SortedFrom base es → InRange s.length es →
    base ≤ s.length →
    applyDesc s es = s.take base ++ applyFrom base (s.drop base) es := by
  induction es with
  | nil => intro base _ _ _; simp [applyDesc, applyFrom]
  | cons e es ih =>
    intro base hs hr hb
    obtain ⟨h1, h2⟩ := hs
    have he : e.idx + e.target.length ≤ s.length := hr e (by simp)
    have ih' := ih (e.idx + e.target.length) h2 (fun x hx => hr x (by simp [hx])) he
    simp only [applyDesc, List.foldr_cons] at ih' ⊢
    rw [ih']
    simp only [replaceOne, applyFrom]
    have hlen : (s.take (e.idx + e.target.length)).length = e.idx + e.target.length := by
      simp [List.length_take]; omega
    have ht : (List.take (e.idx + e.target.length) s ++
          applyFrom (e.idx + e.target.length) (List.drop (e.idx + e.target.length) s) es).take e.idx = s.take e.idx := by
      rw [List.take_append_of_le_length (by omega), List.take_take]
      congr 1; omega
    have hd : (List.take (e.idx + e.target.length) s ++
          applyFrom (e.idx + e.target.length) (List.drop (e.idx + e.target.length) s) es).drop (e.idx + e.target.length) =
        applyFrom (e.idx + e.target.length) (List.drop (e.idx + e.target.length) s) es := by
      rw [List.drop_append_of_le_length (by omega)]
      simp [List.drop_eq_nil_of_le (Nat.le_of_eq hlen)]
    rw [ht, hd]
    have h3 : s.take e.idx = s.take base ++ (s.drop base).take (e.idx - base) := by
      have : e.idx = base + (e.idx - base) := by omega
      conv => lhs; rw [this]
      rw [List.take_add]
    have h4 : (s.drop base).drop (e.idx - base + e.target.length) = s.drop (e.idx + e.target.length) := by
      rw [List.drop_drop]; congr 1; omega
    rw [h3, h4]
    simp

theorem applyDesc_eq_applyEdits (s : Str) (es : List Edit) (hs : SortedFrom 0 es) (hr : InRange s.length es) :
    applyDesc s es = applyEdits s es := by
  have := applyDesc_eq s es 0 hs hr (Nat.zero_le _)
  simpa [applyEdits] using this

/-- every edit the loop emits addresses a range of the first text -/
theorem go_inRange (ds : DiffList) : ∀ (cur : Nat) (p : Option (Nat × Str)),
    (∀ i d, p = some (i, d) → cur = i + d.length) →
    ∀ e ∈ go ds cur p, e.idx + e.target.length ≤ cur + (src ds).length := by
  induction ds with
  | nil =>
    intro cur p hp e he
    cases p with
    | none => simp [go, flush] at he
    | some q =>
      obtain ⟨i, d⟩ := q
      simp [go, flush] at he; subst he
      have := hp i d rfl
      simp [src]; omega
  | cons x ds ih =>
    intro cur p hp e he
    obtain ⟨o, t⟩ := x
    cases o with
    | eq =>
      simp only [go, List.mem_append] at he
      rcases he with he | he
      · cases p with
        | none => simp [flush] at he
        | some q =>
          obtain ⟨i, d⟩ := q
          simp [flush] at he; subst he
          have := hp i d rfl
          simp [src]; omega
      · have := ih (cur + t.length) none (by intro i d h; cases h) e he
        simp [src]; omega
    | del =>
      cases p with
      | none =>
        simp only [go] at he
        have := ih (cur + t.length) (some (cur, t)) (by intro i d h; cases h; rfl) e he
        simp [src]; omega
      | some q =>
        obtain ⟨i, d⟩ := q
        simp only [go] at he
        have hc := hp i d rfl
        have := ih (cur + t.length) (some (i, d ++ t)) (by intro i' d' h; cases h; simp; omega) e he
        simp [src]; omega
    | ins =>
      cases p with
      | some q =>
        obtain ⟨i, d⟩ := q
        simp only [go, List.mem_cons] at he
        have hc := hp i d rfl
        rcases he with he | he
        · subst he; simp [src]; omega
        · have := ih cur none (by intro i d h; cases h) e he
          simpa [src] using this
      | none =>
        have hrest : ∀ e ∈ go ds cur none, e.idx + e.target.length ≤ cur + (src ((Op.ins, t) :: ds)).length := by
          intro e he
          have := ih cur none (by intro i d h; cases h) e he
          simpa [src] using this
        simp only [go] at he
        split at he
        · split at he
          · rename_i nt ds'
            split at he
            · simp only [List.mem_cons] at he
              rcases he with he | he
              · subst he; simp [stdIns]
              · exact hrest e he
            · simp only [List.mem_cons] at he
              rcases he with he | he
              · subst he
                obtain ⟨r, hr⟩ := anchorTarget_prefix nt
                have : (anchorTarget nt).length ≤ nt.length := by
                  have := congrArg List.length hr; simp at this; omega
                simp [src]; omega
              · exact hrest e he
          · simp only [List.mem_cons] at he
            rcases he with he | he
            · subst he; simp [stdIns]
            · exact hrest e he
        · simp only [List.mem_cons] at he
          rcases he with he | he
          · subst he; simp [stdIns]
          · exact hrest e he

theorem editsOfDiffs_inRange (ds : DiffList) : InRange (src ds).length (editsOfDiffs ds) := by
  intro e he
  have := go_inRange ds 0 none (by intro i d h; cases h) e he
  simpa using this

theorem sortedFrom_ge : ∀ (l : List Edit) (b : Nat), SortedFrom b l → ∀ y ∈ l, b ≤ y.idx := by
  intro l
  induction l with
  | nil => intro b _ y hy; simp at hy
  | cons z l ihl =>
    intro b hb y hy
    obtain ⟨hb1, hb2⟩ := hb
    simp only [List.mem_cons] at hy
    rcases hy with rfl | hy
    · exact hb1
    · have := ihl _ hb2 y hy; omega

theorem sortedFrom_pairwise : ∀ (l : List Edit) (b : Nat), SortedFrom b l → l.Pairwise (fun x y => x.idx ≤ y.idx) := by
  intro l
  induction l with
  | nil => intro _ _; exact List.Pairwise.nil
  | cons z l ih =>
    intro b hb
    obtain ⟨_, hb2⟩ := hb
    refine List.Pairwise.cons ?_ (ih _ hb2)
    intro y hy
    have := sortedFrom_ge l _ hb2 y hy
    omega

/-- Later edits of a sorted script never collide with an earlier one under the engine's overlap
guard `a < oe ∧ b > os` (occupied ranges are those of the edits applied before, i.e. to the right). -/
theorem sorted_guard_silent (es : List Edit) : ∀ (base : Nat), SortedFrom base es →
    ∀ (pre post : List Edit) (e : Edit), es = pre ++ e :: post →
    ∀ e' ∈ post, ¬ (e.idx < e'.idx + e'.target.length ∧ e.idx + e.target.length > e'.idx) := by
  induction es with
  | nil => intro base _ pre post e h; simp at h
  | cons x es ih =>
    intro base hs pre post e h e' he'
    obtain ⟨h1, h2⟩ := hs
    cases pre with
    | nil =>
      simp only [List.nil_append, List.cons.injEq] at h
      obtain ⟨rfl, rfl⟩ := h
      have : ∀ (l : List Edit) (b : Nat), SortedFrom b l → ∀ y ∈ l, b ≤ y.idx := by
        intro l
        induction l with
        | nil => intro b _ y hy; simp at hy
        | cons z l ihl =>
          intro b hb y hy
          obtain ⟨hb1, hb2⟩ := hb
          simp only [List.mem_cons] at hy
          rcases hy with rfl | hy
          · exact hb1
          · have := ihl _ hb2 y hy; omega
      have := this _ _ h2 e' he'
      omega
    | cons p pre =>
      simp only [List.cons_append, List.cons.injEq] at h
      exact ih _ h2 pre post e h.2 e' he'

end Adeu
