import AdeuModel.Lemmas.Grow
import AdeuModel.Lemmas.History
import AdeuModel.Lemmas.NatStr

namespace Adeu.Doc
open Adeu

/-! ### who wrote the comment entries: `Grows` plus "every entry is an old one or one written by this session" -/

/-- a comment entry written by the session between `s` and `s'`: the session's author, no parent attribute, not
resolved, one paragraph, an id handed out from the session's counter -/
def NewCom (s s' : Sess) (c : Comment) : Prop :=
  c.author = some s.author ∧ c.legacyParent = none ∧ c.doneAttr = none ∧ c.paras.length = 1 ∧
    ∃ k, s.nextCom ≤ k ∧ k < s'.nextCom ∧ c.id = natStr k

structure CGrows (s s' : Sess) : Prop where
  grows : Grows s s'
  coms : ∀ c ∈ s'.doc.comments, c ∈ s.doc.comments ∨ NewCom s s' c
  ids : (s'.doc.comments.drop s.doc.comments.length).map (·.id) =
    (List.range' s.nextCom (s'.nextCom - s.nextCom)).map natStr

theorem CGrows.refl (s : Sess) : CGrows s s := ⟨Grows.refl s, fun _ hc => Or.inl hc, by simp⟩

theorem CGrows.trans {a b c : Sess} (h1 : CGrows a b) (h2 : CGrows b c) : CGrows a c := by
  refine ⟨h1.grows.trans h2.grows, ?_, ?_⟩
  rotate_left
  · obtain ⟨x, hx⟩ := h1.grows.comments
    obtain ⟨y, hy⟩ := h2.grows.comments
    have i1 := h1.ids
    have i2 := h2.ids
    have n1 := h1.grows.nextCom
    have n2 := h2.grows.nextCom
    rw [← hy] at i2 ⊢
    rw [← hx] at i1 i2 ⊢
    rw [List.drop_left] at i1 i2
    rw [List.append_assoc, List.drop_left, List.map_append, i1, i2, ← List.map_append]
    congr 1
    have : c.nextCom - a.nextCom = (b.nextCom - a.nextCom) + (c.nextCom - b.nextCom) := by omega
    rw [this, ← List.range'_append_1]
    congr 2
    omega
  intro x hx
  rcases h2.coms x hx with h | h
  · rcases h1.coms x h with h' | h'
    · exact Or.inl h'
    · obtain ⟨p1, p2, p3, p4, k, k1, k2, k3⟩ := h'
      exact Or.inr ⟨p1, p2, p3, p4, k, k1, Nat.lt_of_lt_of_le k2 h2.grows.nextCom, k3⟩
  · obtain ⟨p1, p2, p3, p4, k, k1, k2, k3⟩ := h
    exact Or.inr ⟨by rw [p1, h1.grows.author], p2, p3, p4, k, Nat.le_trans h1.grows.nextCom k1, k2, k3⟩

theorem CGrows_of_same {s s' : Sess} (hg : Grows s s') (hc : s'.doc.comments = s.doc.comments)
    (hn : s'.nextCom = s.nextCom) : CGrows s s' :=
  ⟨hg, fun c h => Or.inl (hc ▸ h), by rw [hc, hn]; simp⟩

theorem CGrows_modPara (s : Sess) (pp : PPath) (f : Para → Para × List Block) (hf : ParaKeep f) :
    CGrows s { s with doc := modPara s.doc pp f } :=
  CGrows_of_same (Grows_modPara s pp f hf) (modPara_fields s.doc pp f).1 rfl

theorem CGrows_of_frame {s s' : Sess} (h : s'.frame = s.frame) : CGrows s s' := by
  have h' := h
  simp only [Sess.frame, Prod.mk.injEq] at h'
  exact CGrows_of_same (Grows_of_frame h) h'.2.1 h'.2.2.2.2.2.2.2.2.2.2.2.1

theorem CGrows_newRev (s : Sess) : CGrows s s.newRev.1 := CGrows_of_same (Grows_newRev s) rfl rfl

theorem CGrows_addComment (s : Sess) (text : Str) (parent : Option Str) : CGrows s (s.addComment text parent).1 := by
  refine ⟨Grows_addComment s text parent, ?_, ?_⟩
  rotate_left
  · simp [Sess.addComment]
  intro c hc
  simp only [Sess.addComment, List.mem_append, List.mem_singleton] at hc
  rcases hc with h | h
  · exact Or.inl h
  · right; rw [h]; exact ⟨rfl, rfl, rfl, rfl, s.nextCom, Nat.le_refl _, Nat.lt_succ_self _, rfl⟩

theorem CGrows_mapBody (s : Sess) (g : List Node → List Node) :
    CGrows s { s with doc := { s.doc with body := mapNodesBlocks g s.doc.body } } :=
  CGrows_of_same (Grows_mapBody s g) rfl rfl

theorem CGrows_mapPart (s : Sess) (pi : Nat) (g : List Node → List Node) :
    CGrows s { s with doc := modPart s.doc pi (mapNodesBlocks g) } :=
  CGrows_of_same (Grows_mapPart s pi g) (modPart_fields s.doc pi _).1 rfl

theorem CGrows_trackDelete (s : Sess) (r : RunRef) : CGrows s (trackDelete s r).1 := by
  simp only [trackDelete]
  exact (CGrows_newRev s).trans (CGrows_modPara _ _ _ (fun p => ⟨rfl, rfl⟩))

theorem CGrows_foldl_trackDelete (ts : List RunRef) : ∀ s : Sess, CGrows s (ts.foldl (fun acc t => (trackDelete acc t).1) s) := by
  induction ts with
  | nil => intro s; exact CGrows.refl s
  | cons t rest ih => intro s; exact (CGrows_trackDelete s t).trans (ih _)

theorem CGrows_lineParas (lines : List Str) (style : Option Run) (sup : Bool) (ppr : Para) :
    ∀ (s : Sess), CGrows s (lineParas s lines style sup ppr).1 := by
  intro s
  unfold lineParas
  suffices h : ∀ (acc : Sess × List Block), CGrows s acc.1 →
      CGrows s (lines.foldl (fun (acc : Sess × List Block) line =>
        if (parseMdStyle line).1.isEmpty && (parseMdStyle line).2.isNone then (acc.1, acc.2)
        else ((acc.1.newRev).1, acc.2 ++ [Block.para (match (parseMdStyle line).2 with
          | some l => { style := some (headingStyleId l), ppr := [], nodes := [.ins (acc.1.newRev).2 (insRuns (parseMdStyle line).1 style sup)] }
          | none => { style := ppr.style, ppr := copyPPr ppr.ppr, nodes := [.ins (acc.1.newRev).2 (insRuns (parseMdStyle line).1 style sup)] })])) acc).1 by
    exact h (s, []) (CGrows.refl s)
  induction lines with
  | nil => intro acc h; exact h
  | cons l rest ih =>
    intro acc h
    simp only [List.foldl_cons]
    apply ih
    split
    · exact h
    · exact h.trans (CGrows_newRev _)

end Adeu.Doc

namespace Adeu.Doc
open Adeu

theorem CGrows_trackInsert (s : Sess) (text : Str) (style : Option Run) (hasPara : Bool) (ap : Para)
    (comment : Option Str) (sup : Bool) : CGrows s (trackInsert s text style hasPara ap comment sup).1 := by
  unfold trackInsert
  simp only
  repeat' first
    | exact CGrows.refl s
    | exact CGrows_lineParas _ _ _ _ s
    | exact (CGrows_lineParas _ _ _ _ s).trans (CGrows_addComment _ _ _)
    | exact CGrows_newRev s
    | exact (CGrows_newRev s).trans (CGrows_lineParas _ _ _ _ _)
    | split

theorem CGrows_placeInsertion (s : Sess) (a : RunRef) (before : Bool) (p : Para) (newText : Str) (comment : Option Str) :
    CGrows s (placeInsertion s a before p newText comment) := by
  unfold placeInsertion
  simp only
  split
  · exact (CGrows_trackInsert _ _ _ _ _ _ _).trans (CGrows_modPara _ _ _ (fun p => ⟨rfl, rfl⟩))
  · split
    · exact ((CGrows_trackInsert _ _ _ _ _ _ _).trans (CGrows_addComment _ _ _)).trans
        (CGrows_modPara _ _ _ (fun p => ⟨rfl, rfl⟩))
    · exact (CGrows_trackInsert _ _ _ _ _ _ _).trans (CGrows_modPara _ _ _ (fun p => ⟨rfl, rfl⟩))

theorem CGrows_modPara2 (s : Sess) (pp1 pp2 : PPath) (f1 f2 : Para → Para × List Block) (h1 : ParaKeep f1) (h2 : ParaKeep f2) :
    CGrows s { s with doc := modPara (modPara s.doc pp1 f1) pp2 f2 } :=
  (CGrows_modPara s pp1 f1 h1).trans (CGrows_modPara { s with doc := modPara s.doc pp1 f1 } pp2 f2 h2)

theorem CGrows_retireTargets (ts : List RunRef) : ∀ st : Retired, CGrows st.s (retireTargets st ts).s := by
  induction ts with
  | nil => intro st; exact CGrows.refl _
  | cons t rest ih =>
    intro st
    simp only [retireTargets]
    split
    · refine CGrows.trans ?_ (ih _)
      exact CGrows_modPara _ _ _ (fun p => ⟨rfl, rfl⟩)
    · refine CGrows.trans ?_ (ih _)
      exact CGrows_trackDelete _ _

theorem CGrows_replaceTargets (s : Sess) (targets : List RunRef) (lastT : RunRef) (op : EOp) (newText : Str)
    (comment : Option Str) : CGrows s (replaceTargets s targets lastT op newText comment) := by
  unfold replaceTargets
  simp only
  have hd : CGrows s (retireTargets { s := s } targets).s := CGrows_retireTargets targets { s := s }
  repeat' first
    | exact hd
    | exact (hd.trans (CGrows_addComment _ _ _)).trans (CGrows_modPara _ _ _ (fun p => ⟨rfl, rfl⟩))
    | exact (hd.trans (CGrows_addComment _ _ _)).trans
        (CGrows_modPara2 _ _ _ _ _ (fun p => ⟨rfl, rfl⟩) (fun p => ⟨rfl, rfl⟩))
    | exact (hd.trans (CGrows_trackInsert _ _ _ _ _ _ _)).trans (CGrows_modPara _ _ _ (fun p => ⟨rfl, rfl⟩))
    | exact ((hd.trans (CGrows_trackInsert _ _ _ _ _ _ _)).trans (CGrows_addComment _ _ _)).trans
        (CGrows_modPara _ _ _ (fun p => ⟨rfl, rfl⟩))
    | exact ((hd.trans (CGrows_trackInsert _ _ _ _ _ _ _)).trans (CGrows_addComment _ _ _)).trans
        (CGrows_modPara2 _ _ _ _ _ (fun p => ⟨rfl, rfl⟩) (fun p => ⟨rfl, rfl⟩))
    | split

end Adeu.Doc

namespace Adeu.Doc
open Adeu

theorem CGrows_nestedIns (s : Sess) (text : Str) (style : Option Run) (comment : Option Str) :
    CGrows s (nestedIns s text style comment).1 := by
  unfold nestedIns
  split
  · exact CGrows_newRev s
  · exact CGrows_trackInsert _ _ _ _ _ _ _

theorem CGrows_nestedReplace (s : Sess) (pi : Nat) (insId newText : Str) (comment : Option Str) :
    CGrows s (nestedReplace s pi insId newText comment).1 := by
  unfold nestedReplace
  have hr : CGrows s { s with doc := modPart s.doc pi fun bs => (rejectChange insId bs).1 } := CGrows_mapPart s pi _
  split
  · exact CGrows.refl s
  · simp only
    repeat' first
      | exact hr
      | exact hr.trans (CGrows_nestedIns _ _ _ _)
      | exact (hr.trans (CGrows_nestedIns _ _ _ _)).trans (CGrows_modPara _ _ _ (fun p => ⟨rfl, rfl⟩))
      | exact ((hr.trans (CGrows_nestedIns _ _ _ _)).trans (CGrows_addComment _ _ _)).trans
          (CGrows_modPara _ _ _ (fun p => ⟨rfl, rfl⟩))
      | split

theorem CGrows_applyInsertion (s : Sess) (spans : List OSpan) (start : Nat) (newText : Str) (comment : Option Str) :
    CGrows s (applyInsertion s spans start newText comment).1 := by
  unfold applyInsertion
  simp only
  have hr1 : ∀ bl, CGrows s (chooseAnchor s spans start bl).1 := fun bl => CGrows_of_frame (chooseAnchor_frame s spans start bl)
  split
  · exact hr1 _
  · split
    · exact hr1 _
    · exact (hr1 _).trans (CGrows_placeInsertion _ _ _ _ _ _)

theorem CGrows_applyReplace (s : Sess) (spans : List OSpan) (op : EOp) (start len : Nat) (newText : Str)
    (comment : Option Str) : CGrows s (applyReplace s spans op start len newText comment).1 := by
  unfold applyReplace
  simp only
  have hr := CGrows_of_frame (resolveRuns_frame s spans start (start + len))
  split
  · exact hr.trans (CGrows_replaceTargets _ _ _ _ _ _)
  · exact hr

theorem CGrows_applyIndexed (s : Sess) (clean : Bool) (start len : Nat) (newText : Str) (comment : Option Str)
    (op : Option EOp) : CGrows s (applyIndexed s clean start len newText comment op).1 := by
  unfold applyIndexed
  simp only
  split
  · exact CGrows.refl s
  · split
    · exact CGrows_nestedReplace _ _ _ _ _
    · split
      · exact CGrows_applyInsertion _ _ _ _ _
      · exact CGrows_applyReplace _ _ _ _ _ _ _

theorem CGrows_nestedProxyWith (s : Sess) (clean : Bool) (start len : Nat) (new : Str) (comment : Option Str) (id : Str)
    (r : Sess × Bool) (hr : nestedProxyWith s clean start len new comment id = some r) : CGrows s r.1 := by
  unfold nestedProxyWith at hr
  simp only at hr
  split at hr
  · injection hr with hr; subst hr; exact CGrows_applyIndexed _ _ _ _ _ _ _
  · cases hr

theorem CGrows_nestedProxyAt (s : Sess) (clean : Bool) (start len : Nat) (new : Str) (comment : Option Str)
    (r : Sess × Bool) (hr : nestedProxyAt s clean start len new comment = some r) : CGrows s r.1 := by
  unfold nestedProxyAt at hr
  split at hr
  · exact CGrows_nestedProxyWith _ _ _ _ _ _ _ r hr
  · cases hr

theorem CGrows_nestedInsertAt (s : Sess) (clean : Bool) (start : Nat) (new : Str) (comment : Option Str)
    (r : Sess × Bool) (hr : nestedInsertAt s clean start new comment = some r) : CGrows s r.1 := by
  unfold nestedInsertAt at hr
  split at hr
  · cases hr
  · split at hr
    · exact CGrows_nestedProxyWith _ _ _ _ _ _ _ r hr
    · cases hr

theorem CGrows_heuristicDirect (s : Sess) (m : HMatch) (e : HEdit) : CGrows s (heuristicDirect s m e).1 := by
  unfold heuristicDirect
  simp only
  split
  · exact CGrows.refl s
  · split
    · split
      · rename_i r hr; exact CGrows_nestedInsertAt _ _ _ _ _ r hr
      · exact CGrows_applyIndexed _ _ _ _ _ _ _
    · split
      · exact CGrows.refl s
      · split
        · rename_i r hr
          split at hr
          · exact CGrows_nestedInsertAt _ _ _ _ _ r hr
          · exact CGrows_nestedProxyAt _ _ _ _ _ _ r hr
        · exact CGrows_applyIndexed _ _ _ _ _ _ _

theorem CGrows_nestedProxy (s : Sess) (m : HMatch) (e : HEdit) (r : Sess × Bool) (hr : nestedProxy s m e = some r) :
    CGrows s r.1 :=
  CGrows_nestedProxyAt s m.clean m.start m.len e.new e.comment r hr

theorem CGrows_applyHeuristic (s : Sess) (occ : List (Nat × Nat)) (e : HEdit) : CGrows s (applyHeuristic s occ e).1 := by
  unfold applyHeuristic
  split
  · exact CGrows.refl s
  · split
    · exact CGrows.refl s
    · split
      · exact CGrows.refl s
      · simp only [heuristicApplyAt]
        split
        · rename_i r hr; exact CGrows_nestedProxy s _ e r hr
        · exact CGrows_heuristicDirect _ _ _

theorem CGrows_indexedStep (acc : Acc) (e : IEdit) : CGrows acc.1 (indexedStep acc e).1 := by
  obtain ⟨s, ap, sk, occ⟩ := acc
  simp only [indexedStep]
  split
  · exact CGrows.refl s
  · split <;> exact CGrows_applyIndexed _ _ _ _ _ _ _

theorem CGrows_heuristicStep (acc : Acc) (e : HEdit) : CGrows acc.1 (heuristicStep acc e).1 := by
  obtain ⟨s, ap, sk, occ⟩ := acc
  simp only [heuristicStep]
  split <;> exact CGrows_applyHeuristic _ _ _

theorem CGrows_foldl {α} (step : Acc → α → Acc) (hs : ∀ acc a, CGrows acc.1 (step acc a).1) :
    ∀ (l : List α) (acc : Acc), CGrows acc.1 (l.foldl step acc).1 := by
  intro l
  induction l with
  | nil => intro acc; exact CGrows.refl _
  | cons a rest ih => intro acc; exact (hs acc a).trans (ih _)

/-- Whatever a batch does — applied, skipped, matched fuzzily, inside someone else's insertion — every story
keeps its skeleton (paragraph properties, tables with their properties, rows, cells, other blocks, all in
order; paragraphs are only ever added), every existing comment entry stays where it is in all four comment
lists, and the session's author, date and counters only move forward. -/
theorem CGrows_applyEdits (s : Sess) (edits : List HEdit) : CGrows s (Doc.applyEdits s edits).1 := by
  unfold Doc.applyEdits applyEditsIndexedFull
  simp only
  exact (CGrows_foldl indexedStep CGrows_indexedStep _ (s, 0, 0, [])).trans (CGrows_foldl heuristicStep CGrows_heuristicStep _ _)

theorem CGrows_applyEditsIndexed (s : Sess) (edits : List IEdit) : CGrows s (applyEditsIndexed s edits).1 := by
  unfold applyEditsIndexed applyEditsIndexedFull
  exact CGrows_foldl indexedStep CGrows_indexedStep _ (s, 0, 0, [])

end Adeu.Doc

namespace Adeu.Doc
open Adeu

theorem comId_fold (l : List Comment) : ∀ m : Nat,
    m ≤ l.foldl (fun m c => match strNat? c.id with | some k => max m k | none => m) m ∧
    ∀ c ∈ l, ∀ k, strNat? c.id = some k → k ≤ l.foldl (fun m c => match strNat? c.id with | some k => max m k | none => m) m := by
  induction l with
  | nil => intro m; exact ⟨Nat.le_refl _, fun c hc => by cases hc⟩
  | cons a rest ih =>
    intro m
    simp only [List.foldl_cons]
    refine ⟨?_, ?_⟩
    · refine Nat.le_trans ?_ (ih _).1
      split
      · exact Nat.le_max_left _ _
      · exact Nat.le_refl _
    · intro c hc k hk
      rcases List.mem_cons.mp hc with rfl | hc
      · refine Nat.le_trans ?_ (ih _).1
        rw [hk]; exact Nat.le_max_right _ _
      · exact (ih _).2 c hc k hk

/-- the comment id handed out next is larger than every numeric comment id of the opened document -/
theorem nextCommentId_gt (d : Document) (c : Comment) (k : Nat) (hc : c ∈ d.comments) (hk : strNat? c.id = some k) :
    k < nextCommentId d := by
  exact Nat.lt_succ_of_le ((comId_fold d.comments 0).2 c hc k hk)

/-- **Who wrote the comment entries of the result.**  After any batch (literal or searched targets, applied or
skipped) every entry of the comments part is an entry the opened document already had, or an entry written by this
run: this run's author, no parent attribute, not resolved, one paragraph, and a numeric id above every numeric id
the document carried - so it cannot be taken for (or collide with) an existing comment. -/
theorem new_comments_attributed (d : Document) (author date : Str) (edits : List HEdit) (c : Comment)
    (hc : c ∈ (Doc.applyEdits (Sess.open d author date) edits).1.doc.comments) :
    c ∈ (normalize d).comments ∨
      (c.author = some author ∧ c.legacyParent = none ∧ c.doneAttr = none ∧ c.paras.length = 1 ∧
        ∃ k, c.id = natStr k ∧ ∀ c' ∈ (normalize d).comments, ∀ k', strNat? c'.id = some k' → k' < k) := by
  rcases (CGrows_applyEdits (Sess.open d author date) edits).coms c hc with h | h
  · exact Or.inl h
  · obtain ⟨p1, p2, p3, p4, k, k1, _, k3⟩ := h
    refine Or.inr ⟨p1, p2, p3, p4, k, k3, ?_⟩
    intro c' hc' k' hk'
    have := nextCommentId_gt (normalize d) c' k' hc' hk'
    have h0 : (Sess.open d author date).nextCom = nextCommentId (normalize d) := rfl
    omega

theorem new_comments_attributed_indexed (d : Document) (author date : Str) (edits : List IEdit) (c : Comment)
    (hc : c ∈ (applyEditsIndexed (Sess.open d author date) edits).1.doc.comments) :
    c ∈ (normalize d).comments ∨
      (c.author = some author ∧ c.legacyParent = none ∧ c.doneAttr = none ∧ c.paras.length = 1 ∧
        ∃ k, c.id = natStr k ∧ ∀ c' ∈ (normalize d).comments, ∀ k', strNat? c'.id = some k' → k' < k) := by
  rcases (CGrows_applyEditsIndexed (Sess.open d author date) edits).coms c hc with h | h
  · exact Or.inl h
  · obtain ⟨p1, p2, p3, p4, k, k1, _, k3⟩ := h
    refine Or.inr ⟨p1, p2, p3, p4, k, k3, ?_⟩
    intro c' hc' k' hk'
    have := nextCommentId_gt (normalize d) c' k' hc' hk'
    have h0 : (Sess.open d author date).nextCom = nextCommentId (normalize d) := rfl
    omega

end Adeu.Doc

namespace Adeu.Doc
open Adeu

/-! ### comment entries over review rounds and whole histories -/

theorem CGrows_setBody (s : Sess) (b : List Block) (h : skel b = skel s.doc.body) :
    CGrows s { s with doc := { s.doc with body := b } } :=
  CGrows_of_same (Grows_setBody s b h) rfl rfl

theorem CGrows_applyAction (s : Sess) (a : Action) : CGrows s (s.applyAction a).1 := by
  unfold Sess.applyAction
  simp only
  split
  · split
    · exact CGrows_setBody s _ (skel_mapNodesBlocks _ _)
    · exact CGrows.refl s
  · split
    · exact CGrows_setBody s _ (skel_mapNodesBlocks _ _)
    · exact CGrows.refl s
  · split
    · exact (CGrows_addComment s (a.text.getD []) (some (parseTarget a.target).1)).trans
        (CGrows_setBody _ _ (anchorReply_skel _ _ _))
    · exact CGrows.refl s

theorem CGrows_applyActions (s : Sess) (acts : List Action) : CGrows s (s.applyActions acts).1 := by
  unfold Sess.applyActions
  suffices h : ∀ (acc : Sess × Nat × Nat), CGrows s acc.1 →
      CGrows s (acts.foldl (fun (acc : Sess × Nat × Nat) a =>
        if (acc.1.applyAction a).2 then ((acc.1.applyAction a).1, acc.2.1 + 1, acc.2.2)
        else ((acc.1.applyAction a).1, acc.2.1, acc.2.2 + 1)) acc).1 by
    exact h (s, 0, 0) (CGrows.refl s)
  induction acts with
  | nil => intro acc h; exact h
  | cons a rest ih =>
    intro acc h
    simp only [List.foldl_cons]
    apply ih
    split <;> exact h.trans (CGrows_applyAction _ _)

theorem CGrows_acceptAll (s : Sess) : CGrows s s.acceptAllRevisions := by
  unfold Sess.acceptAllRevisions acceptAll
  exact CGrows_setBody s _ (skel_mapNodesBlocks _ _)

/-- the authors of the sessions of a history that can write comment entries (edit rounds and review rounds) -/
def sessionAuthors : List Step → List Str
  | [] => []
  | .edits a _ :: rest => a :: sessionAuthors rest
  | .actions a _ :: rest => a :: sessionAuthors rest
  | .acceptAll :: rest => sessionAuthors rest

theorem comments_stepDoc (d : Document) (st : Step) : ∀ c ∈ (stepDoc d st).1.comments,
    c ∈ d.comments ∨ ∃ a ∈ sessionAuthors [st], c.author = some a := by
  intro c hc
  cases st with
  | edits a es =>
    rcases (CGrows_applyEditsIndexed (Sess.open d a sessionDate) es).coms c hc with h | h
    · exact Or.inl h
    · exact Or.inr ⟨a, by simp [sessionAuthors], h.1⟩
  | actions a acts =>
    rcases (CGrows_applyActions (Sess.open d a sessionDate) acts).coms c hc with h | h
    · exact Or.inl h
    · exact Or.inr ⟨a, by simp [sessionAuthors], h.1⟩
  | acceptAll =>
    rcases (CGrows_acceptAll (Sess.open d [] sessionDate)).coms c hc with h | h
    · exact Or.inl h
    · left
      have : (Sess.open d [] sessionDate).acceptAllRevisions.doc.comments = d.comments := rfl
      simp only [stepDoc] at hc
      rw [this] at hc; exact hc

/-- Over any history - edit rounds, review rounds with replies, accept-all, a save and reload between rounds - every
entry of the comments part at the end is an entry of the original document or was written in one of the rounds, under
that round's author. -/
theorem comments_over_history (steps : List Step) : ∀ (d : Document), ∀ c ∈ (runHistory d steps).1.comments,
    c ∈ d.comments ∨ ∃ a ∈ sessionAuthors steps, c.author = some a := by
  induction steps with
  | nil => intro d c hc; exact Or.inl hc
  | cons st rest ih =>
    intro d c hc
    simp only [runHistory] at hc
    rcases ih (stepDoc d st).1 c hc with h | ⟨a, ha, hau⟩
    · rcases comments_stepDoc d st c h with h' | ⟨a, ha, hau⟩
      · exact Or.inl h'
      · right; refine ⟨a, ?_, hau⟩
        cases st <;> simp_all [sessionAuthors]
    · right; refine ⟨a, ?_, hau⟩
      cases st <;> simp_all [sessionAuthors]

end Adeu.Doc

namespace Adeu.Doc
open Adeu

theorem ids_unique_of_CGrows {s s' : Sess} (h : CGrows s s')
    (hold : ∀ c ∈ s.doc.comments, ∀ k, strNat? c.id = some k → k < s.nextCom)
    (hn : (s.doc.comments.map (·.id)).Nodup) : (s'.doc.comments.map (·.id)).Nodup := by
  obtain ⟨x, hx⟩ := h.grows.comments
  have hi := h.ids
  rw [← hx] at hi ⊢
  rw [List.drop_left] at hi
  rw [List.map_append, hi, List.nodup_append]
  refine ⟨hn, ?_, ?_⟩
  · exact List.Pairwise.map natStr (fun a b hab hs => hab (natStr_inj hs)) (List.nodup_range' (step := 1))
  · intro a ha b hb hab
    obtain ⟨c, hc, rfl⟩ := List.mem_map.mp ha
    obtain ⟨k, hk, rfl⟩ := List.mem_map.mp hb
    have hk' := (List.mem_range'_1.mp hk).1
    have := hold c hc k (by rw [hab]; exact strNat?_natStr k)
    omega

/-- **Comment ids stay unique.**  If the comment ids of the opened document are pairwise distinct, so are those of
the result of any batch: the ids of the entries a run adds are consecutive numerals from its counter, which starts
above every numeric id the document carries. -/
theorem comment_ids_stay_unique (d : Document) (author date : Str) (edits : List HEdit)
    (hn : ((normalize d).comments.map (·.id)).Nodup) :
    ((Doc.applyEdits (Sess.open d author date) edits).1.doc.comments.map (·.id)).Nodup :=
  ids_unique_of_CGrows (CGrows_applyEdits (Sess.open d author date) edits)
    (fun c hc k hk => nextCommentId_gt (normalize d) c k hc hk) hn

theorem comment_ids_stay_unique_indexed (d : Document) (author date : Str) (edits : List IEdit)
    (hn : ((normalize d).comments.map (·.id)).Nodup) :
    ((applyEditsIndexed (Sess.open d author date) edits).1.doc.comments.map (·.id)).Nodup :=
  ids_unique_of_CGrows (CGrows_applyEditsIndexed (Sess.open d author date) edits)
    (fun c hc k hk => nextCommentId_gt (normalize d) c k hc hk) hn

theorem comment_ids_stay_unique_actions (d : Document) (author date : Str) (acts : List Action)
    (hn : ((normalize d).comments.map (·.id)).Nodup) :
    (((Sess.open d author date).applyActions acts).1.doc.comments.map (·.id)).Nodup :=
  ids_unique_of_CGrows (CGrows_applyActions (Sess.open d author date) acts)
    (fun c hc k hk => nextCommentId_gt (normalize d) c k hc hk) hn

/-- ... and over any history of sessions (each round reloads the document and restarts its counter above the ids
it finds) -/
theorem comment_ids_unique_over_history (steps : List Step) : ∀ (d : Document),
    (d.comments.map (·.id)).Nodup → ((runHistory d steps).1.comments.map (·.id)).Nodup := by
  induction steps with
  | nil => intro d h; exact h
  | cons st rest ih =>
    intro d h
    simp only [runHistory]
    apply ih
    cases st with
    | edits a es => exact comment_ids_stay_unique_indexed d a sessionDate es h
    | actions a acts => exact comment_ids_stay_unique_actions d a sessionDate acts h
    | acceptAll => exact h

end Adeu.Doc
