import AdeuModel.Model.Mapper
namespace Adeu.Doc
open Adeu

def piecesText (ps : List Piece) : Str := ps.flatMap (·.text)

@[simp] theorem spansText_nil : spansText [] = [] := rfl
@[simp] theorem spansText_append (a b : List Span) : spansText (a ++ b) = spansText a ++ spansText b := by
  simp [spansText]
@[simp] theorem spansText_cons (a : Span) (b : List Span) : spansText (a :: b) = a.text ++ spansText b := by
  simp [spansText]

@[simp] theorem spansText_virt (pp : PPath) (t : Str) : spansText (virt pp t) = t := by
  unfold virt
  split
  · rename_i h; simp at h; simp [h]
  · simp [spansText]

@[simp] theorem pieceSpan_text (pp : PPath) (p : Piece) : (pieceSpan pp p).text = p.text := by
  unfold pieceSpan; split <;> rfl

@[simp] theorem spansText_pieces (pp : PPath) (ps : List Piece) :
    spansText (ps.map (pieceSpan pp)) = piecesText ps := by
  induction ps with
  | nil => rfl
  | cons p r ih => simp_all [piecesText, spansText]

@[simp] theorem piecesText_append (a b : List Piece) : piecesText (a ++ b) = piecesText a ++ piecesText b := by
  simp [piecesText]

/-- wrapping each non-empty part, with a newline piece before every part but the first -/
def wrapPart (pre suf : Str) (p : Str) : Str := if p.isEmpty then [] else pre ++ p ++ suf

theorem joinWith_cons_cons (sep x y : Str) (r : List Str) :
    joinWith sep (x :: y :: r) = x ++ sep ++ joinWith sep (y :: r) := rfl

theorem splitNl_ne_nil (t : Str) : splitNl t ≠ [] := by
  induction t with
  | nil => simp [splitNl]
  | cons c r ih =>
    simp only [splitNl]
    split
    · simp
    · split <;> simp

theorem pieces_parts (pre suf : Str) (ref : RunRef) (i d : Option Str) :
    ∀ (parts : List Str) (k : Nat),
    piecesText ((parts.zipIdx k).flatMap fun (part, idx) =>
      (if idx > 0 then [(⟨true, ['\n'], some ref, i, d⟩ : Piece)] else []) ++
      (if part.isEmpty then [] else
        (if pre.isEmpty then [] else [(⟨false, pre, none, i, d⟩ : Piece)]) ++ [⟨true, part, some ref, i, d⟩] ++
        (if suf.isEmpty then [] else [⟨false, suf, none, i, d⟩]))) =
    (if k > 0 ∧ parts ≠ [] then ['\n'] else []) ++ joinWith ['\n'] (parts.map (wrapPart pre suf)) := by
  intro parts
  induction parts with
  | nil => intro k; simp [piecesText, joinWith]
  | cons p r ih =>
    intro k
    simp only [List.zipIdx_cons, List.flatMap_cons, piecesText_append, ih (k + 1)]
    have hp : piecesText (if p.isEmpty then [] else
        (if pre.isEmpty then [] else [(⟨false, pre, none, i, d⟩ : Piece)]) ++ [⟨true, p, some ref, i, d⟩] ++
        (if suf.isEmpty then [] else [⟨false, suf, none, i, d⟩])) = wrapPart pre suf p := by
      unfold wrapPart
      by_cases h1 : p.isEmpty <;> by_cases h2 : pre.isEmpty <;> by_cases h3 : suf.isEmpty <;>
        simp_all [piecesText]
    rw [hp]
    cases r with
    | nil =>
      by_cases hk : k > 0 <;> simp [hk, piecesText, joinWith]
    | cons q r' =>
      simp only [List.map_cons, joinWith_cons_cons]
      by_cases hk : k > 0 <;> simp [hk, piecesText, List.append_assoc]

theorem runPieces_text (r : Run) (ref : RunRef) (i d : Option Str) (h : (runText r).isEmpty = false) :
    piecesText (runPieces r ref i d) = applyFormatting (runText r) (runMarkers r).1 (runMarkers r).2 := by
  unfold runPieces applyFormatting
  generalize runMarkers r = m
  obtain ⟨pre, suf⟩ := m
  simp only
  by_cases hm : (pre.isEmpty && suf.isEmpty) = true
  · simp only [Bool.and_eq_true] at hm
    have h1 : pre = [] := by simpa using hm.1
    have h2 : suf = [] := by simpa using hm.2
    subst h1; subst h2
    simp [piecesText, h]
  · have hm' : (pre.isEmpty && suf.isEmpty) = false := by simpa using hm
    simp only [hm', Bool.not_false, Bool.and_true, Bool.false_eq_true, ↓reduceIte, h]
    by_cases hn : (runText r).contains '\n' = true
    · simp only [hn, ↓reduceIte, Bool.not_true]
      have := pieces_parts pre suf ref i d (splitNl (runText r)) 0
      simp only [Nat.lt_irrefl, false_and, ↓reduceIte, List.nil_append, gt_iff_lt] at this
      simp only [List.zipIdx, gt_iff_lt] at this ⊢
      rw [this]
      simp only [Bool.false_eq_true, ↓reduceIte]
      rfl
    · have hn' : (runText r).contains '\n' = false := by simpa using hn
      simp only [hn', Bool.false_and, Bool.false_eq_true, ↓reduceIte, Bool.not_false]
      by_cases h1 : pre.isEmpty <;> by_cases h2 : suf.isEmpty <;> simp_all [piecesText]

end Adeu.Doc

namespace Adeu.Doc
open Adeu

/-- every waiting piece carries text, so "no pieces" and "no pending text" coincide -/
def NE (ps : List Piece) : Prop := ∀ p ∈ ps, p.text ≠ []

theorem piecesText_eq_nil {ps : List Piece} (h : NE ps) : piecesText ps = [] ↔ ps = [] := by
  constructor
  · intro ht
    cases ps with
    | nil => rfl
    | cons p r =>
      have := h p (by simp)
      simp [piecesText] at ht
      exact absurd ht.1 this
  · intro h; subst h; rfl

theorem splitNl_length (t : Str) : (splitNl t).length = t.count '\n' + 1 := by
  induction t with
  | nil => simp [splitNl]
  | cons c r ih =>
    simp only [splitNl]
    split
    · rename_i h; rw [h] at ih; simp at ih
    · rename_i hd tl h
      rw [h] at ih
      by_cases hc : c = '\n'
      · subst hc; simp at ih ⊢; omega
      · simp [hc] at ih ⊢
        exact ih

theorem joinWith_nonempty_of_two (sep : Str) (hs : sep ≠ []) : ∀ l : List Str, 2 ≤ l.length → joinWith sep l ≠ []
  | x :: y :: r, _ => by simp [joinWith_cons_cons, hs]
  | [_], h => by simp at h
  | [], h => by simp at h

theorem applyFormatting_isEmpty (t pre suf : Str) : (applyFormatting t pre suf).isEmpty = t.isEmpty := by
  unfold applyFormatting
  by_cases hm : (pre.isEmpty && suf.isEmpty) = true
  · simp [hm]
  · have hm' : (pre.isEmpty && suf.isEmpty) = false := by simpa using hm
    simp only [hm', Bool.false_eq_true, ↓reduceIte]
    by_cases ht : t.isEmpty = true
    · simp [ht]
    · have ht' : t.isEmpty = false := by simpa using ht
      simp only [ht', Bool.false_eq_true, ↓reduceIte]
      by_cases hn : t.contains '\n' = true
      · simp only [hn, Bool.not_true, Bool.false_eq_true, ↓reduceIte]
        have hc : 1 ≤ t.count '\n' := by
          have : '\n' ∈ t := by simpa using hn
          exact List.count_pos_iff.mpr this
        have hl : 2 ≤ ((splitNl t).map fun p => if p.isEmpty then [] else pre ++ p ++ suf).length := by
          rw [List.length_map, splitNl_length]; omega
        have := joinWith_nonempty_of_two ['\n'] (by simp) _ hl
        simpa using this
      · have hn' : t.contains '\n' = false := by simpa using hn
        simp only [hn', Bool.not_false, ↓reduceIte]
        have : t ≠ [] := by simpa using ht'
        simp [this]

theorem runPieces_NE (r : Run) (ref : RunRef) (i d : Option Str) : NE (runPieces r ref i d) := by
  intro p hp
  unfold runPieces at hp
  generalize runMarkers r = m at hp
  obtain ⟨pre, suf⟩ := m
  simp only at hp
  split at hp
  · simp only [List.mem_flatMap] at hp
    obtain ⟨⟨part, idx⟩, _, hp⟩ := hp
    simp only [List.mem_append] at hp
    rcases hp with hp | hp
    · split at hp
      · simp at hp; subst hp; simp
      · simp at hp
    · split at hp
      · simp at hp
      · rename_i hpe
        simp only [List.mem_append] at hp
        rcases hp with (hp | hp) | hp
        · split at hp
          · simp at hp
          · rename_i h; simp at hp; subst hp; simpa using h
        · simp at hp; subst hp; simpa using hpe
        · split at hp
          · simp at hp
          · rename_i h; simp at hp; subst hp; simpa using h
  · simp only [List.mem_append] at hp
    rcases hp with (hp | hp) | hp
    · split at hp
      · simp at hp
      · rename_i h; simp at hp; subst hp; simpa using h
    · split at hp
      · simp at hp
      · rename_i h; simp at hp; subst hp; simpa using h
    · split at hp
      · simp at hp
      · rename_i h; simp at hp; subst hp; simpa using h

/-- the simulation relation between the writer's and the reader's paragraph state -/
structure Rel (ms : MSt) (ps : PSt) : Prop where
  out : ps.out = spansText ms.out
  pending : ps.pending = piecesText ms.pending
  ne : NE ms.pending
  wr : ps.wr = ms.wr
  ins : ps.ins = evMap ms.insEv
  del : ps.del = evMap ms.delEv
  comments : ps.comments = ms.comments
  deferred : ps.deferred = ms.deferred

theorem Rel.pendingEmpty {ms : MSt} {ps : PSt} (h : Rel ms ps) : ps.pending.isEmpty = ms.pending.isEmpty := by
  have := piecesText_eq_nil h.ne
  rw [← h.pending] at this
  cases hp : ms.pending with
  | nil => have := this.mpr hp; simp [this]
  | cons a b =>
    have h1 : ps.pending ≠ [] := fun hh => by have := this.mp hh; rw [hp] at this; cases this
    cases hq : ps.pending with
    | nil => exact absurd hq h1
    | cons _ _ => rfl

theorem Rel.flush {ms : MSt} {ps : PSt} (pp : PPath) (h : Rel ms ps) : Rel (ms.flush pp) ps.flush := by
  have he := h.pendingEmpty
  unfold MSt.flush PSt.flush
  by_cases hp : ms.pending.isEmpty = true
  · simp only [hp, he, ↓reduceIte]; exact h
  · have hp' : ms.pending.isEmpty = false := by simpa using hp
    simp only [hp', he, Bool.false_eq_true, ↓reduceIte]
    exact { out := by simp [h.out, h.pending, h.wr, List.append_assoc]
            pending := rfl
            ne := by intro p hp; cases hp
            wr := rfl
            ins := h.ins, del := h.del, comments := h.comments, deferred := h.deferred }

/-- Well-formed event stream: revision marks open and close without nesting.
State: the id of the open insertion / deletion. -/
def WF : Option Str → Option Str → List Item → Prop
  | _, _, [] => True
  | i, d, .run _ _ :: r => WF i d r
  | i, d, .ev ty id _ :: r =>
    match ty with
    | .insStart => i = none ∧ WF (some id) d r
    | .insEnd => i = some id ∧ WF none d r
    | .delStart => d = none ∧ WF i (some id) r
    | .delEnd => d = some id ∧ WF i none r
    | _ => WF i d r

theorem revSet_nil (k : Str) (a : Option Str) : revSet k a [] = [(k, a)] := rfl
theorem revDel_single (k : Str) (a : Option Str) : revDel k [(k, a)] = [] := by simp [revDel]

end Adeu.Doc

namespace Adeu.Doc
open Adeu

def idOf (e : Option (Str × Option Str)) : Option Str := e.map (·.1)

theorem evMap_isEmpty (e : Option (Str × Option Str)) : (evMap e).isEmpty = !(idOf e).isSome := by
  cases e <;> rfl

theorem MSt.flush_insEv (pp : PPath) (s : MSt) : (s.flush pp).insEv = s.insEv := by
  unfold MSt.flush; split <;> rfl
theorem MSt.flush_delEv (pp : PPath) (s : MSt) : (s.flush pp).delEv = s.delEv := by
  unfold MSt.flush; split <;> rfl

theorem ev_rel (pp : PPath) {ms : MSt} {ps : PSt} (h : Rel ms ps) (ty : EvTy) (id : Str) (a : Option Str)
    (rest : List Item) (hw : WF (idOf ms.insEv) (idOf ms.delEv) (.ev ty id a :: rest)) :
    Rel (mApplyEv (ms.flush pp) ty id a) (applyEv ps.flush ty id a) ∧
    WF (idOf (mApplyEv (ms.flush pp) ty id a).insEv) (idOf (mApplyEv (ms.flush pp) ty id a).delEv) rest := by
  have hf := h.flush pp
  have hi := MSt.flush_insEv pp ms
  have hd := MSt.flush_delEv pp ms
  cases ty with
  | start =>
    refine ⟨{ hf with comments := by simp [applyEv, mApplyEv, hf.comments] }, ?_⟩
    simpa [mApplyEv, hi, hd, WF] using hw
  | end_ =>
    refine ⟨{ hf with comments := by simp [applyEv, mApplyEv, hf.comments] }, ?_⟩
    simpa [mApplyEv, hi, hd, WF] using hw
  | ref =>
    refine ⟨hf, ?_⟩
    simpa [mApplyEv, hi, hd, WF] using hw
  | insStart =>
    simp only [WF] at hw
    have hn : ms.insEv = none := by
      cases he : ms.insEv with
      | none => rfl
      | some p => rw [he] at hw; simp [idOf] at hw
    refine ⟨{ hf with ins := ?_ }, ?_⟩
    · simp only [applyEv, mApplyEv, hf.ins, hi, hn, evMap, revSet]
    · simpa [mApplyEv, hd, idOf] using hw.2
  | insEnd =>
    simp only [WF] at hw
    obtain ⟨a', he⟩ : ∃ a', ms.insEv = some (id, a') := by
      cases he : ms.insEv with
      | none => rw [he] at hw; simp [idOf] at hw
      | some p => obtain ⟨k, a'⟩ := p; rw [he] at hw; simp [idOf] at hw; exact ⟨a', by rw [hw.1]⟩
    refine ⟨{ hf with ins := ?_ }, ?_⟩
    · simp only [applyEv, mApplyEv, hf.ins, hi, he, evMap, revDel_single]
    · simpa [mApplyEv, hd, idOf] using hw.2
  | delStart =>
    simp only [WF] at hw
    have hn : ms.delEv = none := by
      cases he : ms.delEv with
      | none => rfl
      | some p => rw [he] at hw; simp [idOf] at hw
    refine ⟨{ hf with del := ?_ }, ?_⟩
    · simp only [applyEv, mApplyEv, hf.del, hd, hn, evMap, revSet]
    · simpa [mApplyEv, hi, idOf] using hw.2
  | delEnd =>
    simp only [WF] at hw
    obtain ⟨a', he⟩ : ∃ a', ms.delEv = some (id, a') := by
      cases he : ms.delEv with
      | none => rw [he] at hw; simp [idOf] at hw
      | some p => obtain ⟨k, a'⟩ := p; rw [he] at hw; simp [idOf] at hw; exact ⟨a', by rw [hw.1]⟩
    refine ⟨{ hf with del := ?_ }, ?_⟩
    · simp only [applyEv, mApplyEv, hf.del, hd, he, evMap, revDel_single]
    · simpa [mApplyEv, hi, idOf] using hw.2

end Adeu.Doc

namespace Adeu.Doc
open Adeu

theorem NE_append {a b : List Piece} (ha : NE a) (hb : NE b) : NE (a ++ b) := by
  intro p hp
  rcases List.mem_append.mp hp with h | h
  · exact ha p h
  · exact hb p h

theorem push_rel (pp : PPath) {ms : MSt} {ps : PSt} (h : Rel ms ps) (pieces : List Piece) (seg : Str)
    (nw : Str × Str) (ht : piecesText pieces = seg) (hn : NE pieces) :
    Rel (ms.push pp pieces nw) (ps.push seg nw) ∧ (ms.push pp pieces nw).insEv = ms.insEv ∧
      (ms.push pp pieces nw).delEv = ms.delEv := by
  have hpe := h.pendingEmpty
  have hwr := h.wr
  unfold MSt.push PSt.push
  by_cases hc : (!ms.pending.isEmpty && decide (nw = ms.wr)) = true
  · have hc' : (!ps.pending.isEmpty && decide (nw = ps.wr)) = true := by rw [hpe, hwr]; exact hc
    simp only [hc, hc', ↓reduceIte]
    refine ⟨{ h with pending := by simp [h.pending, ht], ne := NE_append h.ne hn }, ?_, ?_⟩ <;> first | rfl | trivial
  · have hc' : ¬ (!ps.pending.isEmpty && decide (nw = ps.wr)) = true := by rw [hpe, hwr]; exact hc
    simp only [hc, hc', Bool.false_eq_true, ↓reduceIte]
    by_cases hp : ms.pending.isEmpty = true
    · have hp' : ps.pending.isEmpty = true := by rw [hpe]; exact hp
      simp only [hp, hp', ↓reduceIte]
      refine ⟨{ h with pending := by simp [ht], ne := hn, wr := rfl }, ?_, ?_⟩ <;> first | rfl | trivial
    · have hp' : ¬ ps.pending.isEmpty = true := by rw [hpe]; exact hp
      simp only [hp, hp', Bool.false_eq_true, ↓reduceIte]
      have hout : ps.out ++ ps.wr.1 ++ ps.pending ++ ps.wr.2 =
          spansText (ms.out ++ virt pp ms.wr.1 ++ ms.pending.map (pieceSpan pp) ++ virt pp ms.wr.2) := by
        simp [h.out, h.pending, h.wr, List.append_assoc]
      refine ⟨{ h with out := hout, pending := ht.symm, ne := hn, wr := rfl }, ?_, ?_⟩ <;> first | rfl | trivial

theorem evMap_isEmpty' (e : Option (Str × Option Str)) : (evMap e).isEmpty = !e.isSome := by
  cases e <;> rfl

theorem meta_rel (cm : CMap) (pp : PPath) {ms : MSt} {ps : PSt} (h : Rel ms ps) (rest : List Item) :
    Rel (ms.meta cm pp rest) (ps.meta cm rest) ∧ (ms.meta cm pp rest).insEv = ms.insEv ∧
      (ms.meta cm pp rest).delEv = ms.delEv := by
  unfold MSt.meta PSt.meta
  simp only
  have hr2 : Rel { ms with deferred := ms.deferred ++ [{ ins := evMap ms.insEv, del := evMap ms.delEv, comments := ms.comments }] }
      { ps with deferred := ps.deferred ++ [{ ins := ps.ins, del := ps.del, comments := ps.comments }] } :=
    { h with deferred := by simp [h.deferred, h.ins, h.del, h.comments] }
  have hcond : ((!ps.ins.isEmpty || !ps.del.isEmpty) && nextIsRedline (!ps.ins.isEmpty) (!ps.del.isEmpty) rest) =
      ((ms.insEv.isSome || ms.delEv.isSome) && nextIsRedline ms.insEv.isSome ms.delEv.isSome rest) := by
    rw [h.ins, h.del, evMap_isEmpty', evMap_isEmpty']; simp
  rw [hcond]
  split
  · refine ⟨hr2, ?_, ?_⟩ <;> first | rfl | trivial
  · have hr3 := hr2.flush pp
    refine ⟨{ hr3 with out := ?_, deferred := rfl }, ?_, ?_⟩
    · simp [hr3.out, hr3.deferred]
    · simp [MSt.flush_insEv]
    · simp [MSt.flush_delEv]

theorem run_rel (clean : Bool) (cm : CMap) (pp : PPath) {ms : MSt} {ps : PSt} (h : Rel ms ps)
    (r : Run) (loc : Loc) (rest : List Item) :
    Rel (mapStep clean cm pp ms (.run r loc) rest) (paraStep clean cm ps (.run r loc) rest) ∧
    (mapStep clean cm pp ms (.run r loc) rest).insEv = ms.insEv ∧
    (mapStep clean cm pp ms (.run r loc) rest).delEv = ms.delEv := by
  unfold mapStep paraStep
  simp only
  by_cases ht : (runText r).isEmpty = true
  · have hseg : (applyFormatting (runText r) (runMarkers r).1 (runMarkers r).2).isEmpty = true := by
      rw [applyFormatting_isEmpty]; exact ht
    simp only [ht, ↓reduceIte, hseg]
    refine ⟨?_, ?_, ?_⟩
    · split <;> exact h
    · trivial
    · trivial
  · have ht' : (runText r).isEmpty = false := by simpa using ht
    have hseg : (applyFormatting (runText r) (runMarkers r).1 (runMarkers r).2).isEmpty = false := by
      rw [applyFormatting_isEmpty]; exact ht'
    have hpt := runPieces_text r ⟨pp, loc⟩ (ms.insEv.map (·.1)) (ms.delEv.map (·.1)) ht'
    have hpn := runPieces_NE r ⟨pp, loc⟩ (ms.insEv.map (·.1)) (ms.delEv.map (·.1))
    have hdel : (!ps.del.isEmpty) = (ms.delEv.map (·.1)).isSome := by
      rw [h.del, evMap_isEmpty']; cases ms.delEv <;> rfl
    simp only [ht', Bool.false_eq_true, ↓reduceIte, hseg, hdel]
    cases clean with
    | true =>
      simp only [Bool.true_and, ↓reduceIte]
      by_cases hds : (ms.delEv.map (·.1)).isSome = true
      · simp only [hds, ↓reduceIte]
        refine ⟨h, ?_, ?_⟩ <;> first | rfl | trivial
      · simp only [hds, Bool.false_eq_true, ↓reduceIte]
        exact push_rel pp h _ _ _ hpt hpn
    | false =>
      simp only [Bool.false_and, Bool.false_eq_true, ↓reduceIte]
      have hp := push_rel pp h _ _ (wrappers (evMap ms.insEv) (evMap ms.delEv) ms.comments) hpt hpn
      rw [h.ins, h.del, h.comments]
      obtain ⟨hr1, hi1, hd1⟩ := hp
      obtain ⟨hr2, hi2, hd2⟩ := meta_rel cm pp hr1 rest
      exact ⟨hr2, hi2.trans hi1, hd2.trans hd1⟩

end Adeu.Doc

namespace Adeu.Doc
open Adeu

theorem loop_rel (clean : Bool) (cm : CMap) (pp : PPath) : ∀ (its : List Item) (ms : MSt) (ps : PSt),
    Rel ms ps → WF (idOf ms.insEv) (idOf ms.delEv) its →
    Rel (mapLoop clean cm pp ms its) (paraLoop clean cm ps its) := by
  intro its
  induction its with
  | nil => intro ms ps h _; simpa [mapLoop, paraLoop] using h
  | cons it rest ih =>
    intro ms ps h hw
    simp only [mapLoop, paraLoop]
    cases it with
    | run r loc =>
      obtain ⟨hr, hi, hd⟩ := run_rel clean cm pp h r loc rest
      exact ih _ _ hr (by rw [hi, hd]; simpa [WF] using hw)
    | ev ty id a =>
      obtain ⟨hr, hw'⟩ := ev_rel pp h ty id a rest hw
      exact ih _ _ hr hw'

/-! ### the item stream of a paragraph is well formed -/

theorem WF_append_runs_events (i d : Option Str) :
    ∀ (a b : List Item), (∀ x ∈ a, ∀ ty id au, x = Item.ev ty id au →
      ty = .start ∨ ty = .end_ ∨ ty = .ref) → WF i d b → WF i d (a ++ b) := by
  intro a
  induction a with
  | nil => intro b _ h; simpa using h
  | cons x r ih =>
    intro b hx hb
    cases x with
    | run r' l => simp only [List.cons_append, WF]; exact ih b (fun y hy => hx y (by simp [hy])) hb
    | ev ty id au =>
      have := hx (.ev ty id au) (by simp) ty id au rfl
      have hrec := ih b (fun y hy => hx y (by simp [hy])) hb
      rcases this with h | h | h <;> subst h <;> simpa [WF] using hrec

theorem processRun_plain (st : FieldSt) (r : Run) (loc : Loc) :
    ∀ x ∈ (processRun st r loc).2, ∀ ty id au, x = Item.ev ty id au → ty = .start ∨ ty = .end_ ∨ ty = .ref := by
  intro x hx ty id au he
  subst he
  simp only [processRun, List.mem_append, List.mem_filterMap] at hx
  rcases hx with ⟨a, _, ha⟩ | hx
  · cases a <;> simp at ha
    right; right; exact ha.2.1.symm
  · split at hx <;> simp at hx

theorem insItems_plain (ni : Nat) : ∀ (ch : List InsChild) (st : FieldSt) (k : Nat),
    ∀ x ∈ (insItems st ni ch k).2, ∀ ty id au, x = Item.ev ty id au → ty = .start ∨ ty = .end_ ∨ ty = .ref := by
  intro ch
  induction ch with
  | nil => intro st k x hx; simp [insItems] at hx
  | cons c rest ih =>
    intro st k x hx ty id au he
    cases c with
    | run r =>
      simp only [insItems, List.mem_append] at hx
      rcases hx with hx | hx
      · exact processRun_plain st r _ x hx ty id au he
      · exact ih _ _ x hx ty id au he
    | cs cid =>
      simp only [insItems, List.mem_cons] at hx
      rcases hx with hx | hx
      · subst he; cases hx; left; rfl
      · exact ih _ _ x hx ty id au he
    | ce cid =>
      simp only [insItems, List.mem_cons] at hx
      rcases hx with hx | hx
      · subst he; cases hx; right; left; rfl
      · exact ih _ _ x hx ty id au he
    | other o =>
      simp only [insItems] at hx
      exact ih _ _ x hx ty id au he

theorem WF_itemsFrom : ∀ (ns : List Node) (st : FieldSt) (ni : Nat), WF none none (itemsFrom st ns ni) := by
  intro ns
  induction ns with
  | nil => intro st ni; simp [itemsFrom, WF]
  | cons n rest ih =>
    intro st ni
    simp only [itemsFrom]
    cases n with
    | run r =>
      simp only [nodeItems]
      exact WF_append_runs_events none none _ _ (processRun_plain st r _) (ih _ _)
    | ins rev ch =>
      simp only [nodeItems, List.cons_append, WF, List.append_assoc, true_and]
      refine WF_append_runs_events (some rev.id) none _ _ (insItems_plain ni ch st 0) ?_
      simp only [List.cons_append, List.nil_append, WF, true_and]
      exact ih _ _
    | del rev runs =>
      simp only [nodeItems, List.cons_append, WF, List.append_assoc, true_and]
      refine WF_append_runs_events none (some rev.id) _ _ ?_ ?_
      · intro x hx ty id au he
        subst he
        simp only [List.mem_map] at hx
        obtain ⟨⟨r, k⟩, _, h⟩ := hx
        cases h
      · simp only [List.cons_append, List.nil_append, WF, true_and]
        exact ih _ _
    | cs id => simp only [nodeItems, List.cons_append, List.nil_append, WF]; exact ih _ _
    | ce id => simp only [nodeItems, List.cons_append, List.nil_append, WF]; exact ih _ _
    | proof t => simp only [nodeItems, List.nil_append]; exact ih _ _
    | hl a rs => simp only [nodeItems, List.nil_append]; exact ih _ _
    | other x => simp only [nodeItems, List.nil_append]; exact ih _ _

theorem NE_nil : NE [] := by intro p hp; cases hp

theorem Rel_init : Rel {} {} :=
  { out := rfl, pending := rfl, ne := NE_nil, wr := rfl, ins := rfl, del := rfl,
    comments := rfl, deferred := rfl }

/-- The writer's paragraph index and the reader's paragraph text are the same string. -/
theorem paraSpans_text (clean : Bool) (cm : CMap) (pp : PPath) (p : Para) :
    spansText (paraSpans clean cm pp p) = paraText clean cm p := by
  have h := loop_rel clean cm pp (items p) {} {} Rel_init (by simpa [idOf, items] using WF_itemsFrom p.nodes {} 0)
  have hf := h.flush pp
  unfold paraSpans paraText
  simp only
  rw [← hf.deferred]
  split
  · exact hf.out.symm
  · simp [hf.out]

end Adeu.Doc

namespace Adeu.Doc
open Adeu

theorem joinWith_cons' (sep x : Str) (r : List Str) :
    joinWith sep (x :: r) = x ++ (if r = [] then [] else sep ++ joinWith sep r) := by
  cases r with
  | nil => simp [joinWith]
  | cons y r' => simp [joinWith_cons_cons, List.append_assoc]

theorem spansText_joinSpans (sep : Span) : ∀ l : List (List Span),
    spansText (joinSpans sep l) = joinWith sep.text (l.map spansText)
  | [] => rfl
  | [x] => by simp [joinSpans, joinWith]
  | x :: y :: r => by
    have ih := spansText_joinSpans sep (y :: r)
    simp only [joinSpans, spansText_append, spansText_cons, spansText_nil, List.append_nil] at ih ⊢
    simp only [List.map_cons, joinWith_cons_cons] at ih ⊢
    rw [ih]

def nn : Str := ['\n', '\n']

def lead (em : Nat) (l : List Str) : Str := if em > 0 ∧ l ≠ [] then nn else []

theorem getD_map_map (cellSp : List (List (List Span))) (r c : Nat) :
    spansText (((cellSp[r]?).getD [])[c]?.getD []) =
      (((cellSp.map (·.map spansText))[r]?).getD [])[c]?.getD [] := by
  simp only [List.getElem?_map]
  cases h1 : cellSp[r]? with
  | none => simp
  | some row =>
    simp only [Option.map_some, Option.getD_some, List.getElem?_map]
    cases h2 : row[c]? with
    | none => simp
    | some x => simp

theorem table_text_of_rows (clean : Bool) (cm : CMap) (pp : PPath) (rows : List Row)
    (h : (rowsCellSpans clean cm pp rows 0).map (·.map spansText) = rowsCellTexts clean cm rows) :
    spansText (tableSpans clean cm pp rows) = tableText clean cm rows := by
  unfold tableSpans tableText
  simp only [spansText_joinSpans, sepSpan, List.map_map]
  congr 1
  apply List.map_congr_left
  intro ri _
  simp only [Function.comp, spansText_joinSpans, List.map_map]
  congr 1
  apply List.map_congr_left
  intro ⟨r, c⟩ _
  simp only [Function.comp]
  rw [getD_map_map, h]

mutual
  theorem blocks_text (clean : Bool) (cm : CMap) : ∀ (bs : List Block) (pp : PPath) (bi em : Nat),
      spansText (blocksSpans clean cm pp bs bi em) =
        lead em (blocksText clean cm bs) ++ joinWith nn (blocksText clean cm bs)
    | [], pp, bi, em => by simp [blocksSpans, blocksText, lead, joinWith]
    | .para p :: rest, pp, bi, em => by
      have ih := blocks_text clean cm rest pp (bi + 1) (em + 1)
      simp only [blocksSpans, blocksText, spansText_append, spansText_virt, paraSpans_text, ih, joinWith_cons', nn]
      by_cases hem : em > 0 <;> by_cases hr : blocksText clean cm rest = [] <;>
        simp [hem, hr, lead, sepSpan, spansText, joinWith, nn, List.append_assoc]
    | .table pr g rows :: rest, pp, bi, em => by
      have ht := table_text_of_rows clean cm (pp ++ [bi]) rows (rows_text clean cm rows (pp ++ [bi]) 0)
      simp only [blocksSpans, blocksText]
      rw [ht]
      by_cases he : (tableText clean cm rows).isEmpty = true
      · simp only [he, ↓reduceIte]
        exact blocks_text clean cm rest pp (bi + 1) em
      · simp only [he, Bool.false_eq_true, ↓reduceIte]
        have ih := blocks_text clean cm rest pp (bi + 1) (em + 1)
        simp only [spansText_append, ht, ih, joinWith_cons', nn]
        by_cases hem : em > 0 <;> by_cases hr : blocksText clean cm rest = [] <;>
          simp [hem, hr, lead, sepSpan, spansText, joinWith, nn, List.append_assoc]
    | .other x :: rest, pp, bi, em => by
      simp only [blocksSpans, blocksText]
      exact blocks_text clean cm rest pp (bi + 1) em
  theorem rows_text (clean : Bool) (cm : CMap) : ∀ (rows : List Row) (pp : PPath) (ri : Nat),
      (rowsCellSpans clean cm pp rows ri).map (·.map spansText) = rowsCellTexts clean cm rows
    | [], pp, ri => by simp [rowsCellSpans, rowsCellTexts]
    | .mk pr cells :: rest, pp, ri => by
      simp only [rowsCellSpans, rowsCellTexts, List.map_cons, cells_text clean cm cells (pp ++ [ri]) 0,
        rows_text clean cm rest pp (ri + 1)]
  theorem cells_text (clean : Bool) (cm : CMap) : ∀ (cells : List Cell) (pp : PPath) (ci : Nat),
      (cellsSpans clean cm pp cells ci).map spansText = cellsTexts clean cm cells
    | [], pp, ci => by simp [cellsSpans, cellsTexts]
    | .mk pr s v blocks :: rest, pp, ci => by
      have hb := blocks_text clean cm blocks (pp ++ [ci]) 0 0
      simp only [cellsSpans, cellsTexts, List.map_cons, hb, cells_text clean cm rest pp (ci + 1)]
      simp [lead, nn]
end

theorem container_text (clean : Bool) (cm : CMap) (pp : PPath) (bs : List Block) :
    spansText (blocksSpans clean cm pp bs 0 0) = containerText clean cm bs := by
  rw [blocks_text]; simp [lead, containerText, nn]

theorem go_text (clean : Bool) (cm : CMap) : ∀ (parts : List (List Block)) (pi em : Nat),
    spansText (buildSpansWith.go cm clean parts pi em) =
      lead em ((parts.map (containerText clean cm)).filter (!·.isEmpty)) ++
        joinWith nn ((parts.map (containerText clean cm)).filter (!·.isEmpty)) := by
  intro parts
  induction parts with
  | nil => intro pi em; simp [buildSpansWith.go, lead, joinWith]
  | cons part rest ih =>
    intro pi em
    simp only [buildSpansWith.go, container_text, List.map_cons, List.filter_cons]
    by_cases he : (containerText clean cm part).isEmpty = true
    · simp only [he, ↓reduceIte, Bool.not_true, Bool.false_eq_true]
      exact ih (pi + 1) em
    · have he' : (containerText clean cm part).isEmpty = false := by simpa using he
      simp only [he', Bool.false_eq_true, ↓reduceIte, Bool.not_false, spansText_append, container_text, ih,
        joinWith_cons']
      by_cases hem : em > 0 <;>
        by_cases hr : List.filter (fun x => !x.isEmpty) (List.map (containerText clean cm) rest) = [] <;>
        simp [hem, hr, lead, sepSpan, spansText, joinWith, nn, List.append_assoc]

/-- The text the engine indexes equals the text the client reads, in both views. -/
theorem mapperText_eq_extractText (clean : Bool) (d : Document) : mapperText clean d = extractText clean d := by
  unfold mapperText buildSpans buildSpansWith extractText
  rw [go_text]
  simp [lead, nn]

end Adeu.Doc
