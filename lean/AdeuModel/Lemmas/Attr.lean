import AdeuModel.Lemmas.Grow
namespace Adeu.Doc
open Adeu

/-! ### the revision marks of a story, read off its canonical content stream -/

def revOfD : DItem → Option Rev
  | .c (.insOpen r) => some r
  | .c (.delOpen r) => some r
  | _ => none

def revsStream (l : List DItem) : List Rev := l.filterMap revOfD
def revsBlocks (bs : List Block) : List Rev := revsStream (streamBlocks bs)

def revOfC : CItem → Option Rev
  | .insOpen r => some r
  | .delOpen r => some r
  | _ => none

/-- the marks among the children of one paragraph -/
def revsNodes (ns : List Node) : List Rev := (canonNodes ns).filterMap revOfC

theorem revsStream_append (a b : List DItem) : revsStream (a ++ b) = revsStream a ++ revsStream b := by
  simp [revsStream, List.filterMap_append]

theorem revsStream_map_c (l : List CItem) : revsStream (l.map DItem.c) = l.filterMap revOfC := by
  induction l with
  | nil => rfl
  | cons a r ih =>
    simp only [List.map_cons, revsStream, List.filterMap_cons] at ih ⊢
    cases a <;> simp [revOfD, revOfC, ih]

theorem revsStream_cons_none (d : DItem) (l : List DItem) (h : revOfD d = none) : revsStream (d :: l) = revsStream l := by
  simp [revsStream, List.filterMap_cons, h]

theorem revsStream_wrap (o c : DItem) (A B : List DItem) (ho : revOfD o = none) (hc : revOfD c = none) :
    revsStream (o :: A ++ [c] ++ B) = revsStream A ++ revsStream B := by
  rw [List.cons_append, List.cons_append, revsStream_cons_none _ _ ho, revsStream_append, revsStream_append]
  have : revsStream [c] = [] := by simp [revsStream, hc]
  rw [this, List.append_nil]

theorem revsBlocks_cons (b : Block) (bs : List Block) : revsBlocks (b :: bs) = revsBlocks [b] ++ revsBlocks bs := by
  unfold revsBlocks; rw [streamBlocks_cons, revsStream_append]

theorem revsBlocks_append (a b : List Block) : revsBlocks (a ++ b) = revsBlocks a ++ revsBlocks b := by
  induction a with
  | nil => simp [revsBlocks, streamBlocks, revsStream]
  | cons x r ih => rw [List.cons_append, revsBlocks_cons, revsBlocks_cons x r, ih, List.append_assoc]

theorem revsBlocks_para (p : Para) : revsBlocks [.para p] = revsNodes p.nodes := by
  have : streamBlocks [.para p] = DItem.paraOpen p.style p.ppr :: (canonNodes p.nodes).map .c ++ [.paraClose] ++ [] := by
    simp [streamBlocks]
  unfold revsBlocks
  rw [this, revsStream_wrap _ _ _ _ rfl rfl, revsStream_map_c]
  simp [revsNodes, revsStream]

theorem revsBlocks_table (pr g : Str) (rows : List Row) : revsBlocks [.table pr g rows] = revsStream (streamRows rows) := by
  have : streamBlocks [.table pr g rows] = DItem.tblOpen pr g :: streamRows rows ++ [.tblClose] ++ [] := by
    simp [streamBlocks]
  unfold revsBlocks
  rw [this, revsStream_wrap _ _ _ _ rfl rfl]
  simp [revsStream]

theorem revs_rows_cons (pr : Str) (cells : List Cell) (rs : List Row) :
    revsStream (streamRows (.mk pr cells :: rs)) = revsStream (streamCells cells) ++ revsStream (streamRows rs) := by
  simp only [streamRows]; exact revsStream_wrap _ _ _ _ rfl rfl

theorem revs_cells_cons (pr : Str) (s : Nat) (v : VM) (bs : List Block) (cs : List Cell) :
    revsStream (streamCells (.mk pr s v bs :: cs)) = revsBlocks bs ++ revsStream (streamCells cs) := by
  simp only [streamCells]; exact revsStream_wrap _ _ _ _ rfl rfl

theorem revsBlocks_nil : revsBlocks [] = [] := by simp [revsBlocks, streamBlocks, revsStream]

/-- a paragraph update whose marks are the paragraph's own marks or new ones satisfying `New` -/
def ParaRevs (New : Rev → Prop) (f : Para → Para × List Block) : Prop :=
  ∀ p, (∀ x ∈ revsNodes (f p).1.nodes, x ∈ revsNodes p.nodes ∨ New x) ∧ (∀ x ∈ revsBlocks (f p).2, New x)

mutual
  theorem revs_modBlocks (New : Rev → Prop) (f : Para → Para × List Block) (hf : ParaRevs New f) :
      ∀ (path : List Nat) (bs : List Block) (x : Rev), x ∈ revsBlocks (modBlocks f path bs) → x ∈ revsBlocks bs ∨ New x
    | [], bs, x, h => by simp [modBlocks] at h; exact Or.inl h
    | _ :: _, [], x, h => by simp [modBlocks, revsBlocks_nil] at h
    | 0 :: rest, .para p :: bs, x, h => by
      cases rest with
      | nil =>
        obtain ⟨h1, h2⟩ := hf p
        simp only [modBlocks] at h
        rw [revsBlocks_append, revsBlocks_cons, revsBlocks_para, List.mem_append, List.mem_append] at h
        rw [revsBlocks_cons, revsBlocks_para, List.mem_append]
        rcases h with (h | h) | h
        · rcases h1 x h with h | h
          · exact Or.inl (Or.inl h)
          · exact Or.inr h
        · exact Or.inr (h2 x h)
        · exact Or.inl (Or.inr h)
      | cons a r => simp only [modBlocks] at h; exact Or.inl h
    | 0 :: rest, .table pr g rows :: bs, x, h => by
      match rest with
      | [] => simp only [modBlocks] at h; exact Or.inl h
      | [_] => simp only [modBlocks] at h; exact Or.inl h
      | ri :: ci :: more =>
        simp only [modBlocks] at h
        rw [revsBlocks_cons, List.mem_append] at h
        rw [revsBlocks_cons, List.mem_append]
        rw [revsBlocks_table] at h ⊢
        rcases h with h | h
        · rcases revs_modRows New f hf ri ci more rows x h with h' | h'
          · exact Or.inl (Or.inl h')
          · exact Or.inr h'
        · exact Or.inl (Or.inr h)
    | 0 :: rest, .other y :: bs, x, h => by simp only [modBlocks] at h; exact Or.inl h
    | (k + 1) :: rest, b :: bs, x, h => by
      simp only [modBlocks] at h
      rw [revsBlocks_cons, List.mem_append] at h
      rw [revsBlocks_cons, List.mem_append]
      rcases h with h | h
      · exact Or.inl (Or.inl h)
      · rcases revs_modBlocks New f hf (k :: rest) bs x h with h' | h'
        · exact Or.inl (Or.inr h')
        · exact Or.inr h'
  theorem revs_modRows (New : Rev → Prop) (f : Para → Para × List Block) (hf : ParaRevs New f) :
      ∀ (ri ci : Nat) (more : List Nat) (rows : List Row) (x : Rev),
        x ∈ revsStream (streamRows (modRows f ri ci more rows)) → x ∈ revsStream (streamRows rows) ∨ New x
    | _, _, _, [], x, h => by simp [modRows] at h; exact Or.inl h
    | 0, ci, more, .mk pr cells :: rs, x, h => by
      simp only [modRows] at h
      rw [revs_rows_cons, List.mem_append] at h
      rw [revs_rows_cons, List.mem_append]
      rcases h with h | h
      · rcases revs_modCells New f hf ci more cells x h with h' | h'
        · exact Or.inl (Or.inl h')
        · exact Or.inr h'
      · exact Or.inl (Or.inr h)
    | k + 1, ci, more, .mk pr cells :: rs, x, h => by
      simp only [modRows] at h
      rw [revs_rows_cons, List.mem_append] at h
      rw [revs_rows_cons, List.mem_append]
      rcases h with h | h
      · exact Or.inl (Or.inl h)
      · rcases revs_modRows New f hf k ci more rs x h with h' | h'
        · exact Or.inl (Or.inr h')
        · exact Or.inr h'
  theorem revs_modCells (New : Rev → Prop) (f : Para → Para × List Block) (hf : ParaRevs New f) :
      ∀ (ci : Nat) (more : List Nat) (cells : List Cell) (x : Rev),
        x ∈ revsStream (streamCells (modCells f ci more cells)) → x ∈ revsStream (streamCells cells) ∨ New x
    | _, _, [], x, h => by simp [modCells] at h; exact Or.inl h
    | 0, more, .mk pr s v bs :: cs, x, h => by
      simp only [modCells] at h
      rw [revs_cells_cons, List.mem_append] at h
      rw [revs_cells_cons, List.mem_append]
      rcases h with h | h
      · rcases revs_modBlocks New f hf more bs x h with h' | h'
        · exact Or.inl (Or.inl h')
        · exact Or.inr h'
      · exact Or.inl (Or.inr h)
    | k + 1, more, .mk pr s v bs :: cs, x, h => by
      simp only [modCells] at h
      rw [revs_cells_cons, List.mem_append] at h
      rw [revs_cells_cons, List.mem_append]
      rcases h with h | h
      · exact Or.inl (Or.inl h)
      · rcases revs_modCells New f hf k more cs x h with h' | h'
        · exact Or.inl (Or.inr h')
        · exact Or.inr h'
end

end Adeu.Doc

namespace Adeu.Doc
open Adeu

/-! ### marks among paragraph children -/

theorem revsNodes_append (a b : List Node) : revsNodes (a ++ b) = revsNodes a ++ revsNodes b := by
  simp [revsNodes, canonNodes, List.flatMap_append, List.filterMap_append]

theorem revsNodes_cons (n : Node) (l : List Node) : revsNodes (n :: l) = revsNodes [n] ++ revsNodes l := by
  rw [← List.singleton_append, revsNodes_append]

theorem revsNodes_nil : revsNodes [] = [] := rfl

theorem revOfC_canonAtom (f : Fmt) (a : Atom) : (canonAtom f a).filterMap revOfC = [] := by
  cases a <;> simp [canonAtom, revOfC, List.filterMap_map, Function.comp_def]

theorem revOfC_canonRun (r : Run) : (canonRun r).filterMap revOfC = [] := by
  unfold canonRun
  induction r.ch with
  | nil => rfl
  | cons a rest ih => simp [List.flatMap_cons, List.filterMap_append, revOfC_canonAtom, ih]

theorem revOfC_flatMap_canonRun (rs : List Run) : (rs.flatMap canonRun).filterMap revOfC = [] := by
  induction rs with
  | nil => rfl
  | cons a rest ih => simp [List.flatMap_cons, List.filterMap_append, revOfC_canonRun, ih]

theorem revOfC_canonInsChild (c : InsChild) : (canonInsChild c).filterMap revOfC = [] := by
  cases c <;> simp [canonInsChild, revOfC_canonRun, revOfC]

theorem revOfC_flatMap_canonInsChild (ch : List InsChild) : (ch.flatMap canonInsChild).filterMap revOfC = [] := by
  induction ch with
  | nil => rfl
  | cons a rest ih => simp [List.flatMap_cons, List.filterMap_append, revOfC_canonInsChild, ih]

/-- the marks of one paragraph child: its own mark, if it is one -/
theorem revsNodes_single (n : Node) : revsNodes [n] = (revOf n).toList := by
  have e : revsNodes [n] = (canonNode n).filterMap revOfC := by simp [revsNodes, canonNodes]
  rw [e]
  cases n with
  | run r => simp [canonNode, revOfC_canonRun, revOf]
  | ins rev ch =>
    simp only [canonNode, List.filterMap_cons, List.filterMap_append, revOfC, revOfC_flatMap_canonInsChild, revOf]
    rfl
  | del rev runs =>
    simp only [canonNode, List.filterMap_cons, List.filterMap_append, revOfC, revOfC_flatMap_canonRun, revOf]
    rfl
  | hl a runs =>
    simp only [canonNode, List.filterMap_cons, List.filterMap_append, revOfC, revOfC_flatMap_canonRun, revOf]
    rfl
  | cs id => rfl
  | ce id => rfl
  | proof t => rfl
  | other x => rfl

theorem mem_revsNodes {x : Rev} {ns : List Node} : x ∈ revsNodes ns ↔ ∃ n ∈ ns, revOf n = some x := by
  induction ns with
  | nil => simp [revsNodes_nil]
  | cons n rest ih =>
    rw [revsNodes_cons, List.mem_append, revsNodes_single, ih]
    constructor
    · rintro (h | ⟨m, hm, hx⟩)
      · exact ⟨n, List.mem_cons_self, by simpa [Option.mem_toList] using h⟩
      · exact ⟨m, List.mem_cons_of_mem _ hm, hx⟩
    · rintro ⟨m, hm, hx⟩
      rcases List.mem_cons.mp hm with rfl | hm
      · left; simpa [Option.mem_toList] using hx
      · right; exact ⟨m, hm, hx⟩

theorem revs_insertNodesAt (ns new : List Node) (i : Nat) (x : Rev) (h : x ∈ revsNodes (insertNodesAt ns i new)) :
    x ∈ revsNodes ns ∨ x ∈ revsNodes new := by
  unfold insertNodesAt at h
  rw [revsNodes_append, revsNodes_append, List.mem_append, List.mem_append] at h
  rcases h with (h | h) | h
  · left; obtain ⟨n, hn, hx⟩ := mem_revsNodes.mp h; exact mem_revsNodes.mpr ⟨n, List.mem_of_mem_take hn, hx⟩
  · exact Or.inr h
  · left; obtain ⟨n, hn, hx⟩ := mem_revsNodes.mp h; exact mem_revsNodes.mpr ⟨n, List.mem_of_mem_drop hn, hx⟩

theorem revs_attachCommentNodes (ns : List Node) (i j : Nat) (cid : Str) (x : Rev)
    (h : x ∈ revsNodes (attachCommentNodes ns i j cid)) : x ∈ revsNodes ns := by
  unfold attachCommentNodes at h
  rcases revs_insertNodesAt _ _ _ x h with h | h
  · rcases revs_insertNodesAt _ _ _ x h with h | h
    · exact h
    · obtain ⟨n, hn, hx⟩ := mem_revsNodes.mp h
      simp only [List.mem_singleton] at hn; subst hn; simp [revOf] at hx
  · obtain ⟨n, hn, hx⟩ := mem_revsNodes.mp h
    simp only [List.mem_cons, List.not_mem_nil, or_false] at hn
    rcases hn with rfl | rfl <;> simp [revOf] at hx

end Adeu.Doc

namespace Adeu.Doc
open Adeu

theorem mem_flatMap_zipIdx {α β} (F : α × Nat → List β) : ∀ (l : List α) (k : Nat) (y : β),
    y ∈ (l.zipIdx k).flatMap F → ∃ a ∈ l, ∃ i, y ∈ F (a, i) := by
  intro l
  induction l with
  | nil => intro k y h; simp at h
  | cons a rest ih =>
    intro k y h
    simp only [List.zipIdx_cons, List.flatMap_cons, List.mem_append] at h
    rcases h with h | h
    · exact ⟨a, List.mem_cons_self, k, h⟩
    · obtain ⟨b, hb, i, hy⟩ := ih (k + 1) y h
      exact ⟨b, List.mem_cons_of_mem _ hb, i, hy⟩

theorem mem_map_zipIdx {α β} (F : α × Nat → β) : ∀ (l : List α) (k : Nat) (y : β),
    y ∈ (l.zipIdx k).map F → ∃ a ∈ l, ∃ i, y = F (a, i) := by
  intro l
  induction l with
  | nil => intro k y h; simp at h
  | cons a rest ih =>
    intro k y h
    simp only [List.zipIdx_cons, List.map_cons, List.mem_cons] at h
    rcases h with h | h
    · exact ⟨a, List.mem_cons_self, k, h⟩
    · obtain ⟨b, hb, i, hy⟩ := ih (k + 1) y h
      exact ⟨b, List.mem_cons_of_mem _ hb, i, hy⟩

/-- `track_delete_run` on the children of a paragraph: the marks are the old ones plus the new deletion -/
theorem revs_deleteRunNodes (ns : List Node) (loc : Loc) (rev : Rev) (x : Rev)
    (h : x ∈ revsNodes (deleteRunNodes ns loc rev)) : x ∈ revsNodes ns ∨ x = rev := by
  obtain ⟨m, hm, hx⟩ := mem_revsNodes.mp h
  unfold deleteRunNodes replaceRun at hm
  split at hm
  · obtain ⟨n, hn, i, hmi⟩ := mem_flatMap_zipIdx _ ns 0 m hm
    simp only at hmi
    split at hmi
    · cases n with
      | run r =>
        simp only [List.mem_singleton] at hmi; subst hmi
        right; simpa [revOf] using hx.symm
      | _ =>
        simp only [List.mem_singleton] at hmi; subst hmi
        exact Or.inl (mem_revsNodes.mpr ⟨_, hn, hx⟩)
    · simp only [List.mem_singleton] at hmi; subst hmi
      exact Or.inl (mem_revsNodes.mpr ⟨_, hn, hx⟩)
  · obtain ⟨n, hn, i, hmi⟩ := mem_map_zipIdx _ ns 0 m hm
    simp only at hmi
    left
    split at hmi
    · cases n with
      | ins rv ch => subst hmi; exact mem_revsNodes.mpr ⟨_, hn, by simpa [revOf] using hx⟩
      | del rv runs => subst hmi; exact mem_revsNodes.mpr ⟨_, hn, by simpa [revOf] using hx⟩
      | _ => subst hmi; exact mem_revsNodes.mpr ⟨_, hn, hx⟩
    · subst hmi; exact mem_revsNodes.mpr ⟨_, hn, hx⟩

theorem revs_takeOutOfIns (ns : List Node) (n k : Nat) (x : Rev)
    (h : x ∈ revsNodes (takeOutOfIns ns n k).1) : x ∈ revsNodes ns := by
  obtain ⟨m, hm, hx⟩ := mem_revsNodes.mp h
  unfold takeOutOfIns at hm
  split at hm
  · rename_i rev ch hn
    simp only at hm
    split at hm
    · simp only at hm
      rcases List.mem_or_eq_of_mem_set hm with hm | hm
      · exact mem_revsNodes.mpr ⟨m, hm, hx⟩
      · subst hm
        exact mem_revsNodes.mpr ⟨.ins rev ch, List.mem_of_getElem? hn, by simpa [revOf] using hx⟩
    · simp only [List.mem_append, List.mem_map] at hm
      rcases hm with (hm | ⟨c, _, rfl⟩) | hm
      · exact mem_revsNodes.mpr ⟨m, List.mem_of_mem_take hm, hx⟩
      · cases c <;> simp [InsChild.toNode, revOf] at hx
      · exact mem_revsNodes.mpr ⟨m, List.mem_of_mem_drop hm, hx⟩
  · exact mem_revsNodes.mpr ⟨m, hm, hx⟩

theorem revs_rejectN (id : Str) (ns : List Node) (x : Rev) (h : x ∈ revsNodes (ns.flatMap (rejectN id))) :
    x ∈ revsNodes ns := by
  obtain ⟨m, hm, hx⟩ := mem_revsNodes.mp h
  obtain ⟨n, hn, hmn⟩ := List.mem_flatMap.mp hm
  cases n with
  | ins rev ch =>
    simp only [rejectN] at hmn
    split at hmn
    · simp at hmn
    · simp only [List.mem_singleton] at hmn; subst hmn; exact mem_revsNodes.mpr ⟨_, hn, hx⟩
  | del rev runs =>
    simp only [rejectN] at hmn
    split at hmn
    · simp only [List.mem_map] at hmn
      obtain ⟨r, _, rfl⟩ := hmn
      simp [revOf] at hx
    · simp only [List.mem_singleton] at hmn; subst hmn; exact mem_revsNodes.mpr ⟨_, hn, hx⟩
  | _ =>
    simp only [rejectN, List.mem_singleton] at hmn; subst hmn; exact mem_revsNodes.mpr ⟨_, hn, hx⟩

end Adeu.Doc

namespace Adeu.Doc
open Adeu

/-! ### documents and sessions -/

def revsStories (ss : List Story) : List Rev := ss.flatMap fun s => revsBlocks s.blocks

/-- every revision mark of every story (paragraph children; marks inside opaque properties are not touched by the engine) -/
def revsDoc (d : Document) : List Rev := revsStories d.headers ++ revsBlocks d.body ++ revsStories d.footers

theorem revs_modFirstStory (New : Rev → Prop) (ty : Str) (g : List Block → List Block)
    (hg : ∀ bs x, x ∈ revsBlocks (g bs) → x ∈ revsBlocks bs ∨ New x) :
    ∀ (ss : List Story) (x : Rev), x ∈ revsStories (modFirstStory ty g ss) → x ∈ revsStories ss ∨ New x := by
  intro ss
  induction ss with
  | nil => intro x h; simp [modFirstStory, revsStories] at h
  | cons s rest ih =>
    intro x h
    simp only [modFirstStory] at h
    split at h
    · simp only [revsStories, List.flatMap_cons, List.mem_append] at h ⊢
      rcases h with h | h
      · rcases hg _ x h with h' | h'
        · exact Or.inl (Or.inl h')
        · exact Or.inr h'
      · exact Or.inl (Or.inr h)
    · simp only [revsStories, List.flatMap_cons, List.mem_append] at h ⊢
      rcases h with h | h
      · exact Or.inl (Or.inl h)
      · rcases ih x h with h' | h'
        · exact Or.inl (Or.inr h')
        · exact Or.inr h'

theorem revs_modPart (New : Rev → Prop) (d : Document) (pi : Nat) (g : List Block → List Block)
    (hg : ∀ bs x, x ∈ revsBlocks (g bs) → x ∈ revsBlocks bs ∨ New x) (x : Rev)
    (h : x ∈ revsDoc (modPart d pi g)) : x ∈ revsDoc d ∨ New x := by
  unfold modPart at h
  split at h
  · simp only [revsDoc, List.mem_append] at h ⊢
    rcases h with (h | h) | h
    · exact Or.inl (Or.inl (Or.inl h))
    · rcases hg _ x h with h' | h'
      · exact Or.inl (Or.inl (Or.inr h'))
      · exact Or.inr h'
    · exact Or.inl (Or.inr h)
  · simp only [revsDoc, List.mem_append] at h ⊢
    rcases h with (h | h) | h
    · rcases revs_modFirstStory New _ g hg _ x h with h' | h'
      · exact Or.inl (Or.inl (Or.inl h'))
      · exact Or.inr h'
    · exact Or.inl (Or.inl (Or.inr h))
    · exact Or.inl (Or.inr h)
  · simp only [revsDoc, List.mem_append] at h ⊢
    rcases h with (h | h) | h
    · exact Or.inl (Or.inl (Or.inl h))
    · exact Or.inl (Or.inl (Or.inr h))
    · rcases revs_modFirstStory New _ g hg _ x h with h' | h'
      · exact Or.inl (Or.inr h')
      · exact Or.inr h'
  · exact Or.inl h

theorem revs_modPara (New : Rev → Prop) (d : Document) (pp : PPath) (f : Para → Para × List Block)
    (hf : ParaRevs New f) (x : Rev) (h : x ∈ revsDoc (modPara d pp f)) : x ∈ revsDoc d ∨ New x := by
  cases pp with
  | nil => exact Or.inl h
  | cons pi rest => exact revs_modPart New d pi _ (fun bs y hy => revs_modBlocks New f hf rest bs y hy) x h

theorem revsStories_of_map_eq : ∀ (a b : List Story),
    a.map (fun s => (s.ty, streamBlocks s.blocks)) = b.map (fun s => (s.ty, streamBlocks s.blocks)) →
    revsStories a = revsStories b := by
  intro a
  induction a with
  | nil => intro b h; cases b with
    | nil => rfl
    | cons y r => simp at h
  | cons x r ih =>
    intro b h
    cases b with
    | nil => simp at h
    | cons y r' =>
      simp only [List.map_cons, List.cons.injEq, Prod.mk.injEq] at h
      simp only [revsStories, List.flatMap_cons, revsBlocks, h.1.2]
      have := ih r' h.2
      simp only [revsStories, revsBlocks] at this
      rw [this]

theorem revsDoc_of_canon {a b : Document} (h : canonDoc a = canonDoc b) : revsDoc a = revsDoc b := by
  simp only [canonDoc, CanonDoc.mk.injEq] at h
  simp only [revsDoc, revsStories_of_map_eq _ _ h.1, revsStories_of_map_eq _ _ h.2.2, revsBlocks, h.2.1]

/-- a mark created by the session that started as `s0`, seen from `s`: the session's author and date, an id handed
out after `s0` -/
def Fresh (s0 s : Sess) (r : Rev) : Prop :=
  r.author = some s0.author ∧ r.date = some s0.date ∧ ∃ k, s0.nextRev < k ∧ k ≤ s.nextRev ∧ r.id = natStr k

theorem Fresh.mono {s0 s s' : Sess} {r : Rev} (h : Fresh s0 s r) (hle : s.nextRev ≤ s'.nextRev) : Fresh s0 s' r := by
  obtain ⟨h1, h2, k, h3, h4, h5⟩ := h
  exact ⟨h1, h2, k, h3, Nat.le_trans h4 hle, h5⟩

/-- since `s0`, the session has only grown the document (`Grows`) and every mark of every story is one of `s0`'s or
a fresh one of this session -/
structure RevOk (s0 s : Sess) : Prop where
  grows : Grows s0 s
  revs : ∀ x ∈ revsDoc s.doc, x ∈ revsDoc s0.doc ∨ Fresh s0 s x

theorem RevOk.refl (s : Sess) : RevOk s s := ⟨Grows.refl s, fun _ h => Or.inl h⟩

theorem RevOk.step_frame {s0 s s' : Sess} (h : RevOk s0 s) (hf : s'.frame = s.frame) : RevOk s0 s' := by
  have hg := Grows_of_frame hf
  refine ⟨h.grows.trans hg, ?_⟩
  have hc : canonDoc s'.doc = canonDoc s.doc := by
    simp only [Sess.frame, Prod.mk.injEq] at hf; exact hf.1
  intro x hx
  rw [revsDoc_of_canon hc] at hx
  rcases h.revs x hx with h' | h'
  · exact Or.inl h'
  · exact Or.inr (h'.mono hg.nextRev)

theorem RevOk.step_newRev {s0 s : Sess} (h : RevOk s0 s) : RevOk s0 s.newRev.1 ∧ Fresh s0 s.newRev.1 s.newRev.2 := by
  have hg := Grows_newRev s
  refine ⟨⟨h.grows.trans hg, ?_⟩, ?_⟩
  · intro x hx
    rcases h.revs x hx with h' | h'
    · exact Or.inl h'
    · exact Or.inr (h'.mono hg.nextRev)
  · simp only [Sess.newRev]
    exact ⟨by rw [h.grows.author], by rw [h.grows.date], s.nextRev + 1, Nat.lt_succ_of_le h.grows.nextRev, Nat.le_refl _, rfl⟩

theorem RevOk.step_addComment {s0 s : Sess} (h : RevOk s0 s) (text : Str) (parent : Option Str) :
    RevOk s0 (s.addComment text parent).1 := by
  have hg := Grows_addComment s text parent
  refine ⟨h.grows.trans hg, ?_⟩
  intro x hx
  have e : revsDoc (s.addComment text parent).1.doc = revsDoc s.doc := by simp [Sess.addComment, revsDoc]
  rw [e] at hx
  rcases h.revs x hx with h' | h'
  · exact Or.inl h'
  · exact Or.inr (h'.mono hg.nextRev)

theorem RevOk.step_modPara {s0 s : Sess} (h : RevOk s0 s) (pp : PPath) (f : Para → Para × List Block)
    (hk : ParaKeep f) (hf : ParaRevs (Fresh s0 s) f) : RevOk s0 { s with doc := modPara s.doc pp f } := by
  refine ⟨h.grows.trans (Grows_modPara s pp f hk), ?_⟩
  intro x hx
  rcases revs_modPara (Fresh s0 s) s.doc pp f hf x hx with h' | h'
  · exact h.revs x h'
  · exact Or.inr h'

end Adeu.Doc

namespace Adeu.Doc
open Adeu

/-! ### the engine's steps -/

theorem RevOk.step_trackDelete {s0 s : Sess} (h : RevOk s0 s) (t : RunRef) : RevOk s0 (trackDelete s t).1 := by
  obtain ⟨h1, hfr⟩ := h.step_newRev
  simp only [trackDelete]
  refine h1.step_modPara _ _ (fun p => ⟨rfl, rfl⟩) ?_
  intro p
  refine ⟨?_, ?_⟩
  · intro x hx
    rcases revs_deleteRunNodes _ _ _ x hx with h' | h'
    · exact Or.inl h'
    · right; rw [h']; exact hfr
  · intro x hx; simp [revsBlocks_nil] at hx

theorem RevOk.step_takeOut {s0 s : Sess} (h : RevOk s0 s) (pp : PPath) (n k : Nat) :
    RevOk s0 { s with doc := modPara s.doc pp fun p => ({ p with nodes := (takeOutOfIns p.nodes n k).1 }, []) } := by
  refine h.step_modPara _ _ (fun p => ⟨rfl, rfl⟩) ?_
  intro p
  exact ⟨fun x hx => Or.inl (revs_takeOutOfIns _ _ _ x hx), fun x hx => by simp [revsBlocks_nil] at hx⟩

theorem RevOk.step_retireTargets (s0 : Sess) (ts : List RunRef) : ∀ st : Retired, RevOk s0 st.s → RevOk s0 (retireTargets st ts).s := by
  induction ts with
  | nil => intro st h; exact h
  | cons t rest ih =>
    intro st h
    simp only [retireTargets]
    split
    · exact ih _ (h.step_takeOut _ _ _)
    · exact ih _ (h.step_trackDelete _)

theorem revsNodes_insNode (rev : Rev) (ch : List InsChild) : revsNodes [.ins rev ch] = [rev] := by
  rw [revsNodes_single]; rfl

theorem RevOk.step_lineParas {s0 s : Sess} (h : RevOk s0 s) (lines : List Str) (style : Option Run) (sup : Bool) (ppr : Para) :
    RevOk s0 (lineParas s lines style sup ppr).1 ∧
    ∀ x ∈ revsBlocks (lineParas s lines style sup ppr).2, Fresh s0 (lineParas s lines style sup ppr).1 x := by
  unfold lineParas
  suffices hh : ∀ (acc : Sess × List Block), (RevOk s0 acc.1 ∧ ∀ x ∈ revsBlocks acc.2, Fresh s0 acc.1 x) →
      let r := lines.foldl (fun (acc : Sess × List Block) line =>
        if (parseMdStyle line).1.isEmpty && (parseMdStyle line).2.isNone then (acc.1, acc.2)
        else ((acc.1.newRev).1, acc.2 ++ [Block.para (match (parseMdStyle line).2 with
          | some l => { style := some (headingStyleId l), ppr := [], nodes := [.ins (acc.1.newRev).2 (insRuns (parseMdStyle line).1 style sup)] }
          | none => { style := ppr.style, ppr := copyPPr ppr.ppr, nodes := [.ins (acc.1.newRev).2 (insRuns (parseMdStyle line).1 style sup)] })])) acc
      RevOk s0 r.1 ∧ ∀ x ∈ revsBlocks r.2, Fresh s0 r.1 x by
    exact hh (s, []) ⟨h, fun x hx => by simp [revsBlocks_nil] at hx⟩
  induction lines with
  | nil => intro acc ha; exact ha
  | cons l rest ih =>
    intro acc ha
    simp only [List.foldl_cons]
    apply ih
    split
    · exact ha
    · obtain ⟨h1, hfr⟩ := ha.1.step_newRev
      refine ⟨h1, ?_⟩
      intro x hx
      rw [revsBlocks_append, List.mem_append] at hx
      rcases hx with hx | hx
      · exact (ha.2 x hx).mono (Grows_newRev acc.1).nextRev
      · rw [revsBlocks_para] at hx
        have : x = (acc.1.newRev).2 := by
          split at hx <;> simpa [revsNodes_insNode] using hx
        rw [this]; exact hfr

end Adeu.Doc

namespace Adeu.Doc
open Adeu

theorem revs_decorate_go (cid : Str) (n : Nat) : ∀ (bs : List Block) (k : Nat) (x : Rev),
    x ∈ revsBlocks ((bs.zipIdx k).map fun (b, i) =>
      match b with
      | .para p =>
        .para { p with nodes := (if i = 0 then [Node.cs cid] else []) ++ p.nodes ++
                                 (if i + 1 = n then [Node.ce cid, Node.run (crefRun cid)] else []) }
      | b => b) → x ∈ revsBlocks bs := by
  intro bs
  induction bs with
  | nil => intro k x h; simpa using h
  | cons b rest ih =>
    intro k x h
    simp only [List.zipIdx_cons, List.map_cons] at h
    rw [revsBlocks_cons, List.mem_append] at h
    rw [revsBlocks_cons, List.mem_append]
    rcases h with h | h
    · left
      cases b with
      | para p =>
        simp only [revsBlocks_para] at h ⊢
        rw [revsNodes_append, revsNodes_append, List.mem_append, List.mem_append] at h
        rcases h with (h | h) | h
        · split at h
          · obtain ⟨m, hm, hx⟩ := mem_revsNodes.mp h
            simp only [List.mem_singleton] at hm; subst hm; simp [revOf] at hx
          · simp [revsNodes_nil] at h
        · exact h
        · split at h
          · obtain ⟨m, hm, hx⟩ := mem_revsNodes.mp h
            simp only [List.mem_cons, List.not_mem_nil, or_false] at hm
            rcases hm with rfl | rfl <;> simp [revOf] at hx
          · simp [revsNodes_nil] at h
      | table pr g rows => exact h
      | other y => exact h
    · exact Or.inr (ih (k + 1) x h)

theorem revs_decorateBlocks (bs : List Block) (cid : Str) (x : Rev) (h : x ∈ revsBlocks (decorateBlocks bs cid)) :
    x ∈ revsBlocks bs := by
  unfold decorateBlocks at h
  exact revs_decorate_go cid bs.length bs 0 x h

/-- the three facts about what `track_insert` hands back -/
structure InsertOk (s0 : Sess) (r : Sess × Option Node × List Block) : Prop where
  ok : RevOk s0 r.1
  node : ∀ n, r.2.1 = some n → ∀ x ∈ revsNodes [n], Fresh s0 r.1 x
  blocks : ∀ x ∈ revsBlocks r.2.2, Fresh s0 r.1 x

theorem InsertOk.nothing {s0 s : Sess} (h : RevOk s0 s) : InsertOk s0 (s, none, []) :=
  ⟨h, (fun _ hn => by cases hn), (fun x hx => by simp [revsBlocks_nil] at hx)⟩

theorem InsertOk.paras {s0 s : Sess} (h : RevOk s0 s) (lines : List Str) (style : Option Run) (sup : Bool) (ap : Para) :
    InsertOk s0 ((lineParas s lines style sup ap).1, none, (lineParas s lines style sup ap).2) := by
  obtain ⟨h1, h2⟩ := h.step_lineParas lines style sup ap
  exact ⟨h1, (fun _ hn => by cases hn), h2⟩

theorem InsertOk.parasCommented {s0 s : Sess} (h : RevOk s0 s) (lines : List Str) (style : Option Run) (sup : Bool) (ap : Para)
    (c : Str) :
    InsertOk s0 (((lineParas s lines style sup ap).1.addComment c none).1, none,
      decorateBlocks (lineParas s lines style sup ap).2 ((lineParas s lines style sup ap).1.addComment c none).2) := by
  obtain ⟨h1, h2⟩ := h.step_lineParas lines style sup ap
  refine ⟨h1.step_addComment _ _, (fun _ hn => by cases hn), ?_⟩
  intro x hx
  exact (h2 x (revs_decorateBlocks _ _ x hx)).mono (Grows_addComment _ _ _).nextRev

theorem InsertOk.inline {s0 s : Sess} (h : RevOk s0 s) (ch : List InsChild) :
    InsertOk s0 (s.newRev.1, some (Node.ins s.newRev.2 ch), []) := by
  obtain ⟨h1, hfr⟩ := h.step_newRev
  refine ⟨h1, ?_, (fun x hx => by simp [revsBlocks_nil] at hx)⟩
  intro n hn x hx
  injection hn with hn; subst hn
  rw [revsNodes_insNode] at hx
  simp only [List.mem_singleton] at hx; subst hx
  exact hfr

theorem InsertOk.inlineParas {s0 s : Sess} (h : RevOk s0 s) (ch : List InsChild) (lines : List Str) (style : Option Run)
    (sup : Bool) (ap : Para) :
    InsertOk s0 ((lineParas s.newRev.1 lines style sup ap).1, some (Node.ins s.newRev.2 ch),
      (lineParas s.newRev.1 lines style sup ap).2) := by
  obtain ⟨h1, hfr⟩ := h.step_newRev
  obtain ⟨h2, h3⟩ := h1.step_lineParas lines style sup ap
  refine ⟨h2, ?_, h3⟩
  intro n hn x hx
  injection hn with hn; subst hn
  rw [revsNodes_insNode] at hx
  simp only [List.mem_singleton] at hx; subst hx
  exact hfr.mono (Grows_lineParas _ _ _ _ _).nextRev

/-- `track_insert`: the session after it is still fine, and every mark of what it hands back (the inline `w:ins`,
the new paragraphs) is a fresh mark of this session -/
theorem RevOk.step_trackInsert {s0 s : Sess} (h : RevOk s0 s) (text : Str) (style : Option Run) (hasPara : Bool) (ap : Para)
    (comment : Option Str) (sup : Bool) : InsertOk s0 (trackInsert s text style hasPara ap comment sup) := by
  unfold trackInsert
  simp only
  repeat' first
    | exact InsertOk.nothing h
    | exact InsertOk.paras h _ _ _ _
    | exact InsertOk.parasCommented h _ _ _ _ _
    | exact InsertOk.inline h _
    | exact InsertOk.inlineParas h _ _ _ _ _
    | split

end Adeu.Doc

namespace Adeu.Doc
open Adeu

/-! ### placing what `track_insert` handed back -/

theorem revs_csMarkers (cid : Str) (x : Rev) : x ∉ revsNodes [Node.cs cid] := by
  intro h; obtain ⟨m, hm, hx⟩ := mem_revsNodes.mp h
  simp only [List.mem_singleton] at hm; subst hm; simp [revOf] at hx

theorem revs_ceMarkers (cid : Str) (x : Rev) : x ∉ revsNodes [Node.ce cid, Node.run (crefRun cid)] := by
  intro h; obtain ⟨m, hm, hx⟩ := mem_revsNodes.mp h
  simp only [List.mem_cons, List.not_mem_nil, or_false] at hm
  rcases hm with rfl | rfl <;> simp [revOf] at hx

/-- a paragraph update `nodes := g nodes` (+ new paragraphs) whose new marks all satisfy `New` -/
theorem ParaRevs_of (New : Rev → Prop) (g : List Node → List Node) (extra : List Block)
    (hg : ∀ ns x, x ∈ revsNodes (g ns) → x ∈ revsNodes ns ∨ New x) (he : ∀ x ∈ revsBlocks extra, New x) :
    ParaRevs New (fun p => ({ p with nodes := g p.nodes }, extra)) :=
  fun p => ⟨fun x hx => hg p.nodes x hx, he⟩

theorem ParaRevs_same (New : Rev → Prop) (extra : List Block) (he : ∀ x ∈ revsBlocks extra, New x) :
    ParaRevs New (fun p => (p, extra)) :=
  fun _ => ⟨fun _ hx => Or.inl hx, he⟩

theorem g_insert (New : Rev → Prop) (n : Node) (i : Nat) (hn : ∀ x ∈ revsNodes [n], New x) :
    ∀ ns x, x ∈ revsNodes (insertNodesAt ns i [n]) → x ∈ revsNodes ns ∨ New x := by
  intro ns x hx
  rcases revs_insertNodesAt _ _ _ x hx with h | h
  · exact Or.inl h
  · exact Or.inr (hn x h)

theorem g_insert_attach (New : Rev → Prop) (n : Node) (i a b : Nat) (cid : Str) (hn : ∀ x ∈ revsNodes [n], New x) :
    ∀ ns x, x ∈ revsNodes (attachCommentNodes (insertNodesAt ns i [n]) a b cid) → x ∈ revsNodes ns ∨ New x :=
  fun ns x hx => g_insert New n i hn ns x (revs_attachCommentNodes _ _ _ _ x hx)

theorem g_attach (New : Rev → Prop) (a b : Nat) (cid : Str) :
    ∀ ns x, x ∈ revsNodes (attachCommentNodes ns a b cid) → x ∈ revsNodes ns ∨ New x :=
  fun _ x hx => Or.inl (revs_attachCommentNodes _ _ _ _ x hx)

theorem g_ce (New : Rev → Prop) (i : Nat) (cid : Str) :
    ∀ ns x, x ∈ revsNodes (insertNodesAt ns i [Node.ce cid, Node.run (crefRun cid)]) → x ∈ revsNodes ns ∨ New x := by
  intro ns x hx
  rcases revs_insertNodesAt _ _ _ x hx with h | h
  · exact Or.inl h
  · exact absurd h (revs_ceMarkers cid x)

theorem g_cs (New : Rev → Prop) (i : Nat) (cid : Str) :
    ∀ ns x, x ∈ revsNodes (insertNodesAt ns i [Node.cs cid]) → x ∈ revsNodes ns ∨ New x := by
  intro ns x hx
  rcases revs_insertNodesAt _ _ _ x hx with h | h
  · exact Or.inl h
  · exact absurd h (revs_csMarkers cid x)

theorem g_insert_ce (New : Rev → Prop) (n : Node) (i k : Nat) (cid : Str) (hn : ∀ x ∈ revsNodes [n], New x) :
    ∀ ns x, x ∈ revsNodes (insertNodesAt (insertNodesAt ns i [n]) k [Node.ce cid, Node.run (crefRun cid)]) →
      x ∈ revsNodes ns ∨ New x := by
  intro ns x hx
  rcases g_ce New k cid _ x hx with h | h
  · exact g_insert New n i hn ns x h
  · exact Or.inr h

theorem noBlocks (New : Rev → Prop) : ∀ x ∈ revsBlocks ([] : List Block), New x :=
  fun x hx => by simp [revsBlocks_nil] at hx

/-- what the engine does with the result of `track_insert` in one paragraph: nothing inline, the `w:ins` inserted,
or the `w:ins` inserted and a comment range put around it -/
theorem RevOk.place {s0 : Sess} {r : Sess × Option Node × List Block} (h : InsertOk s0 r) (pp : PPath) (at_ a b : Nat)
    (comment : Option Str) :
    RevOk s0 (match r.2.1 with
      | none => { r.1 with doc := modPara r.1.doc pp fun p => (p, r.2.2) }
      | some insNode =>
        match truthyStr comment with
        | some c =>
          { (r.1.addComment c none).1 with doc := modPara (r.1.addComment c none).1.doc pp fun p =>
              ({ p with nodes := attachCommentNodes (insertNodesAt p.nodes at_ [insNode]) a b (r.1.addComment c none).2 }, r.2.2) }
        | none => { r.1 with doc := modPara r.1.doc pp fun p => ({ p with nodes := insertNodesAt p.nodes at_ [insNode] }, r.2.2) }) := by
  split
  · exact h.ok.step_modPara _ _ (fun p => ⟨rfl, rfl⟩) (ParaRevs_same _ _ h.blocks)
  · rename_i insNode hn
    split
    · have hc := h.ok.step_addComment ‹Str› none
      have hle := (Grows_addComment r.1 ‹Str› none).nextRev
      exact hc.step_modPara _ _ (fun p => ⟨rfl, rfl⟩)
        (ParaRevs_of _ _ _ (g_insert_attach _ insNode at_ a b _ (fun x hx => (h.node insNode hn x hx).mono hle))
          (fun x hx => (h.blocks x hx).mono hle))
    · exact h.ok.step_modPara _ _ (fun p => ⟨rfl, rfl⟩)
        (ParaRevs_of _ _ _ (g_insert _ insNode at_ (h.node insNode hn)) h.blocks)

theorem RevOk.step_placeInsertion {s0 s : Sess} (h : RevOk s0 s) (a : RunRef) (before : Bool) (p : Para) (newText : Str)
    (comment : Option Str) : RevOk s0 (placeInsertion s a before p newText comment) := by
  unfold placeInsertion
  simp only
  exact RevOk.place (h.step_trackInsert _ _ _ _ _ _) a.para _ _ _ comment

end Adeu.Doc

namespace Adeu.Doc
open Adeu

theorem RevOk.step_modPara2 {s0 s : Sess} (h : RevOk s0 s) (pp1 pp2 : PPath) (f1 f2 : Para → Para × List Block)
    (hk1 : ParaKeep f1) (hk2 : ParaKeep f2) (hf1 : ParaRevs (Fresh s0 s) f1) (hf2 : ParaRevs (Fresh s0 s) f2) :
    RevOk s0 { s with doc := modPara (modPara s.doc pp1 f1) pp2 f2 } :=
  (h.step_modPara pp1 f1 hk1 hf1).step_modPara pp2 f2 hk2 hf2

theorem RevOk.step_replaceTargets {s0 s : Sess} (h : RevOk s0 s) (targets : List RunRef) (lastT : RunRef) (op : EOp)
    (newText : Str) (comment : Option Str) : RevOk s0 (replaceTargets s targets lastT op newText comment) := by
  unfold replaceTargets
  simp only
  have hd : RevOk s0 (retireTargets { s := s } targets).s := RevOk.step_retireTargets s0 targets { s := s } h
  split
  · -- pure deletion
    split
    · rename_i c fd ld _ _ _
      have hc := hd.step_addComment c none
      split
      · exact hc.step_modPara _ _ (fun p => ⟨rfl, rfl⟩) (ParaRevs_of _ _ _ (g_attach _ _ _ _) (noBlocks _))
      · exact hc.step_modPara2 _ _ _ _ (fun p => ⟨rfl, rfl⟩) (fun p => ⟨rfl, rfl⟩)
          (ParaRevs_of _ _ _ (g_ce _ _ _) (noBlocks _)) (ParaRevs_of _ _ _ (g_cs _ _ _) (noBlocks _))
    · exact hd
  · split
    · exact hd
    · split
      · exact hd
      · rename_i apara anode after _
        split
        · exact hd
        · rename_i p _
          generalize hr : trackInsert (retireTargets { s := s } targets).s _ _ true p comment _ = r
          have hI : InsertOk s0 r := by rw [← hr]; exact hd.step_trackInsert _ _ _ _ _ _
          split
          · exact hI.ok.step_modPara _ _ (fun p => ⟨rfl, rfl⟩) (ParaRevs_same _ _ hI.blocks)
          · rename_i insNode hn
            split
            · rename_i c _
              have hc := hI.ok.step_addComment c none
              have hle := (Grows_addComment r.1 c none).nextRev
              have hN : ∀ x ∈ revsNodes [insNode], Fresh s0 (r.1.addComment c none).1 x :=
                fun x hx => (hI.node insNode hn x hx).mono hle
              have hB : ∀ x ∈ revsBlocks r.2.2, Fresh s0 (r.1.addComment c none).1 x := fun x hx => (hI.blocks x hx).mono hle
              split
              · split
                · exact hc.step_modPara _ _ (fun p => ⟨rfl, rfl⟩) (ParaRevs_of _ _ _ (g_insert_attach _ insNode _ _ _ _ hN) hB)
                · exact hc.step_modPara2 _ _ _ _ (fun p => ⟨rfl, rfl⟩) (fun p => ⟨rfl, rfl⟩)
                    (ParaRevs_of _ _ _ (g_insert_ce _ insNode _ _ _ hN) hB) (ParaRevs_of _ _ _ (g_cs _ _ _) (noBlocks _))
              · exact hc.step_modPara _ _ (fun p => ⟨rfl, rfl⟩) (ParaRevs_of _ _ _ (g_insert_attach _ insNode _ _ _ _ hN) hB)
            · exact hI.ok.step_modPara _ _ (fun p => ⟨rfl, rfl⟩) (ParaRevs_of _ _ _ (g_insert _ insNode _ (hI.node insNode hn)) hI.blocks)

end Adeu.Doc

namespace Adeu.Doc
open Adeu

mutual
  theorem revs_mapNodesBlocks (g : List Node → List Node) (hg : ∀ ns x, x ∈ revsNodes (g ns) → x ∈ revsNodes ns) :
      ∀ (bs : List Block) (x : Rev), x ∈ revsBlocks (mapNodesBlocks g bs) → x ∈ revsBlocks bs
    | [], x, h => by simpa [mapNodesBlocks] using h
    | .para p :: rest, x, h => by
      simp only [mapNodesBlocks] at h
      rw [revsBlocks_cons, revsBlocks_para, List.mem_append] at h
      rw [revsBlocks_cons, revsBlocks_para, List.mem_append]
      rcases h with h | h
      · exact Or.inl (hg _ x h)
      · exact Or.inr (revs_mapNodesBlocks g hg rest x h)
    | .table pr gr rows :: rest, x, h => by
      simp only [mapNodesBlocks] at h
      rw [revsBlocks_cons, revsBlocks_table, List.mem_append] at h
      rw [revsBlocks_cons, revsBlocks_table, List.mem_append]
      rcases h with h | h
      · exact Or.inl (revs_mapNodesRows g hg rows x h)
      · exact Or.inr (revs_mapNodesBlocks g hg rest x h)
    | .other y :: rest, x, h => by
      simp only [mapNodesBlocks] at h
      rw [revsBlocks_cons, List.mem_append] at h
      rw [revsBlocks_cons, List.mem_append]
      rcases h with h | h
      · exact Or.inl h
      · exact Or.inr (revs_mapNodesBlocks g hg rest x h)
  theorem revs_mapNodesRows (g : List Node → List Node) (hg : ∀ ns x, x ∈ revsNodes (g ns) → x ∈ revsNodes ns) :
      ∀ (rs : List Row) (x : Rev), x ∈ revsStream (streamRows (mapNodesRows g rs)) → x ∈ revsStream (streamRows rs)
    | [], x, h => by simpa [mapNodesRows] using h
    | .mk pr cells :: rest, x, h => by
      simp only [mapNodesRows] at h
      rw [revs_rows_cons, List.mem_append] at h
      rw [revs_rows_cons, List.mem_append]
      rcases h with h | h
      · exact Or.inl (revs_mapNodesCells g hg cells x h)
      · exact Or.inr (revs_mapNodesRows g hg rest x h)
  theorem revs_mapNodesCells (g : List Node → List Node) (hg : ∀ ns x, x ∈ revsNodes (g ns) → x ∈ revsNodes ns) :
      ∀ (cs : List Cell) (x : Rev), x ∈ revsStream (streamCells (mapNodesCells g cs)) → x ∈ revsStream (streamCells cs)
    | [], x, h => by simpa [mapNodesCells] using h
    | .mk pr s v bs :: rest, x, h => by
      simp only [mapNodesCells] at h
      rw [revs_cells_cons, List.mem_append] at h
      rw [revs_cells_cons, List.mem_append]
      rcases h with h | h
      · exact Or.inl (revs_mapNodesBlocks g hg bs x h)
      · exact Or.inr (revs_mapNodesCells g hg rest x h)
end

theorem RevOk.step_mapBody {s0 s : Sess} (h : RevOk s0 s) (g : List Node → List Node)
    (hg : ∀ ns x, x ∈ revsNodes (g ns) → x ∈ revsNodes ns) :
    RevOk s0 { s with doc := { s.doc with body := mapNodesBlocks g s.doc.body } } := by
  refine ⟨h.grows.trans (Grows_mapBody s g), ?_⟩
  intro x hx
  simp only [revsDoc, List.mem_append] at hx
  have : x ∈ revsDoc s.doc := by
    simp only [revsDoc, List.mem_append]
    rcases hx with (hx | hx) | hx
    · exact Or.inl (Or.inl hx)
    · exact Or.inl (Or.inr (revs_mapNodesBlocks g hg _ x hx))
    · exact Or.inr hx
  exact h.revs x this

theorem RevOk.step_mapPart {s0 s : Sess} (h : RevOk s0 s) (pi : Nat) (g : List Node → List Node)
    (hg : ∀ ns x, x ∈ revsNodes (g ns) → x ∈ revsNodes ns) :
    RevOk s0 { s with doc := modPart s.doc pi (mapNodesBlocks g) } := by
  refine ⟨h.grows.trans (Grows_mapPart s pi g), ?_⟩
  intro x hx
  rcases revs_modPart (fun _ => False) s.doc pi (mapNodesBlocks g)
    (fun bs y hy => Or.inl (revs_mapNodesBlocks g hg bs y hy)) x hx with h' | h'
  · exact h.revs x h'
  · exact h'.elim

theorem RevOk.step_nestedIns {s0 s : Sess} (h : RevOk s0 s) (text : Str) (style : Option Run) (comment : Option Str) :
    InsertOk s0 (nestedIns s text style comment) := by
  unfold nestedIns
  split
  · exact InsertOk.inline h _
  · exact h.step_trackInsert _ _ _ _ _ _

theorem RevOk.step_nestedReplace {s0 s : Sess} (h : RevOk s0 s) (pi : Nat) (insId newText : Str) (comment : Option Str) :
    RevOk s0 (nestedReplace s pi insId newText comment).1 := by
  unfold nestedReplace
  have hr : RevOk s0 { s with doc := modPart s.doc pi fun bs => (rejectChange insId bs).1 } :=
    h.step_mapPart pi _ (fun ns x hx => revs_rejectN insId ns x hx)
  split
  · exact h
  · simp only
    split
    · exact hr
    · generalize hq : nestedIns { s with doc := modPart s.doc pi fun bs => (rejectChange insId bs).1 } newText _ comment = r
      have hI : InsertOk s0 r := by rw [← hq]; exact hr.step_nestedIns _ _ _
      split
      · exact hI.ok
      · rename_i insNode hn
        split
        · rename_i c _
          have hc := hI.ok.step_addComment c none
          have hle := (Grows_addComment r.1 c none).nextRev
          exact hc.step_modPara _ _ (fun p => ⟨rfl, rfl⟩)
            (ParaRevs_of _ _ _ (g_insert_attach _ insNode _ _ _ _ (fun x hx => (hI.node insNode hn x hx).mono hle)) (noBlocks _))
        · exact hI.ok.step_modPara _ _ (fun p => ⟨rfl, rfl⟩)
            (ParaRevs_of _ _ _ (g_insert _ insNode _ (hI.node insNode hn)) (noBlocks _))

end Adeu.Doc

namespace Adeu.Doc
open Adeu

theorem RevOk.step_applyInsertion {s0 s : Sess} (h : RevOk s0 s) (spans : List OSpan) (start : Nat) (newText : Str)
    (comment : Option Str) : RevOk s0 (applyInsertion s spans start newText comment).1 := by
  unfold applyInsertion
  simp only
  have hr1 : ∀ bl, RevOk s0 (chooseAnchor s spans start bl).1 := fun bl => h.step_frame (chooseAnchor_frame s spans start bl)
  split
  · exact hr1 _
  · split
    · exact hr1 _
    · exact (hr1 _).step_placeInsertion _ _ _ _ _

theorem RevOk.step_applyReplace {s0 s : Sess} (h : RevOk s0 s) (spans : List OSpan) (op : EOp) (start len : Nat)
    (newText : Str) (comment : Option Str) : RevOk s0 (applyReplace s spans op start len newText comment).1 := by
  unfold applyReplace
  simp only
  have hr := h.step_frame (resolveRuns_frame s spans start (start + len))
  split
  · exact hr.step_replaceTargets _ _ _ _ _
  · exact hr

theorem RevOk.step_applyIndexed {s0 s : Sess} (h : RevOk s0 s) (clean : Bool) (start len : Nat) (newText : Str)
    (comment : Option Str) (op : Option EOp) : RevOk s0 (applyIndexed s clean start len newText comment op).1 := by
  unfold applyIndexed
  simp only
  split
  · exact h
  · split
    · exact h.step_nestedReplace _ _ _ _
    · split
      · exact h.step_applyInsertion _ _ _ _
      · exact h.step_applyReplace _ _ _ _ _ _

theorem RevOk.step_nestedProxyWith {s0 s : Sess} (h : RevOk s0 s) (clean : Bool) (start len : Nat) (new : Str)
    (comment : Option Str) (id : Str) (r : Sess × Bool) (hr : nestedProxyWith s clean start len new comment id = some r) :
    RevOk s0 r.1 := by
  unfold nestedProxyWith at hr
  simp only at hr
  split at hr
  · injection hr with hr; subst hr; exact h.step_applyIndexed _ _ _ _ _ _
  · cases hr

theorem RevOk.step_nestedProxyAt {s0 s : Sess} (h : RevOk s0 s) (clean : Bool) (start len : Nat) (new : Str)
    (comment : Option Str) (r : Sess × Bool) (hr : nestedProxyAt s clean start len new comment = some r) : RevOk s0 r.1 := by
  unfold nestedProxyAt at hr
  split at hr
  · exact h.step_nestedProxyWith _ _ _ _ _ _ r hr
  · cases hr

theorem RevOk.step_nestedInsertAt {s0 s : Sess} (h : RevOk s0 s) (clean : Bool) (start : Nat) (new : Str)
    (comment : Option Str) (r : Sess × Bool) (hr : nestedInsertAt s clean start new comment = some r) : RevOk s0 r.1 := by
  unfold nestedInsertAt at hr
  split at hr
  · cases hr
  · split at hr
    · exact h.step_nestedProxyWith _ _ _ _ _ _ r hr
    · cases hr

theorem RevOk.step_heuristicDirect {s0 s : Sess} (h : RevOk s0 s) (m : HMatch) (e : HEdit) :
    RevOk s0 (heuristicDirect s m e).1 := by
  unfold heuristicDirect
  simp only
  split
  · exact h
  · split
    · split
      · rename_i r hr; exact h.step_nestedInsertAt _ _ _ _ r hr
      · exact h.step_applyIndexed _ _ _ _ _ _
    · split
      · exact h
      · split
        · rename_i r hr
          split at hr
          · exact h.step_nestedInsertAt _ _ _ _ r hr
          · exact h.step_nestedProxyAt _ _ _ _ _ r hr
        · exact h.step_applyIndexed _ _ _ _ _ _

theorem RevOk.step_applyHeuristic {s0 s : Sess} (h : RevOk s0 s) (occ : List (Nat × Nat)) (e : HEdit) :
    RevOk s0 (applyHeuristic s occ e).1 := by
  unfold applyHeuristic
  split
  · exact h
  · split
    · exact h
    · split
      · exact h
      · simp only [heuristicApplyAt]
        split
        · rename_i r hr; exact h.step_nestedProxyAt _ _ _ _ _ r hr
        · exact h.step_heuristicDirect _ _

theorem RevOk.step_indexedStep {s0 : Sess} (acc : Acc) (h : RevOk s0 acc.1) (e : IEdit) : RevOk s0 (indexedStep acc e).1 := by
  obtain ⟨s, ap, sk, occ⟩ := acc
  simp only [indexedStep]
  split
  · exact h
  · split <;> exact h.step_applyIndexed _ _ _ _ _ _

theorem RevOk.step_heuristicStep {s0 : Sess} (acc : Acc) (h : RevOk s0 acc.1) (e : HEdit) : RevOk s0 (heuristicStep acc e).1 := by
  obtain ⟨s, ap, sk, occ⟩ := acc
  simp only [heuristicStep]
  split <;> exact h.step_applyHeuristic _ _

theorem RevOk.foldl {α} {s0 : Sess} (step : Acc → α → Acc) (hs : ∀ acc a, RevOk s0 acc.1 → RevOk s0 (step acc a).1) :
    ∀ (l : List α) (acc : Acc), RevOk s0 acc.1 → RevOk s0 (l.foldl step acc).1 := by
  intro l
  induction l with
  | nil => intro acc h; exact h
  | cons a rest ih => intro acc h; exact ih _ (hs acc a h)

/-- Every revision mark in every story after a batch — whatever was applied, skipped or matched fuzzily — is one of
the marks the document had when the session started (same id, author, date) or a mark of this session: its author
and date are the session's and its id was handed out after the ids scanned at session start. -/
theorem RevOk_applyEdits (s : Sess) (edits : List HEdit) : RevOk s (Doc.applyEdits s edits).1 := by
  unfold Doc.applyEdits applyEditsIndexedFull
  simp only
  exact RevOk.foldl heuristicStep (fun acc a h => RevOk.step_heuristicStep acc h a) _ _
    (RevOk.foldl indexedStep (fun acc a h => RevOk.step_indexedStep acc h a) _ (s, 0, 0, []) (RevOk.refl s))

end Adeu.Doc
