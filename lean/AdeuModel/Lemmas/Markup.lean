import AdeuModel.Model.Markup
/-
Lemmas about the preview model (C14).
-/
namespace Adeu.Markup
open Adeu

/-! ### views are monoid homomorphisms -/

@[simp] theorem render_nil : render [] = [] := rfl
@[simp] theorem rejectView_nil : rejectView [] = [] := rfl
@[simp] theorem acceptView_nil : acceptView [] = [] := rfl

@[simp] theorem render_cons (s : Seg) (l : List Seg) : render (s :: l) = s.render ++ render l := by
  simp [render]
@[simp] theorem rejectView_cons (s : Seg) (l : List Seg) : rejectView (s :: l) = s.rejected ++ rejectView l := by
  simp [rejectView]
@[simp] theorem acceptView_cons (s : Seg) (l : List Seg) : acceptView (s :: l) = s.accepted ++ acceptView l := by
  simp [acceptView]
@[simp] theorem render_append (a b : List Seg) : render (a ++ b) = render a ++ render b := by
  simp [render]
@[simp] theorem rejectView_append (a b : List Seg) : rejectView (a ++ b) = rejectView a ++ rejectView b := by
  simp [rejectView]
@[simp] theorem acceptView_append (a b : List Seg) : acceptView (a ++ b) = acceptView a ++ acceptView b := by
  simp [acceptView]

/-! ### marker stripping -/

theorem prefix_suffix_split (m t : Str) (hp : m.isPrefixOf t = true) (hs : m.isSuffixOf t = true)
    (hl : 2 * m.length ≤ t.length) :
    m ++ slice t m.length (t.length - m.length) ++ m = t := by
  rw [List.isPrefixOf_iff_prefix] at hp
  rw [List.isSuffixOf_iff_suffix] at hs
  obtain ⟨r, hr⟩ := hp
  obtain ⟨q, hq⟩ := hs
  have hlen : t.length = m.length + r.length := by rw [← hr]; simp
  have hqlen : t.length = q.length + m.length := by rw [← hq]; simp
  have hdrop : t.drop m.length = r := by rw [← hr]; simp
  have hm : t.drop (t.length - m.length) = m := by
    have : t.length - m.length = q.length := by omega
    rw [this, ← hq]; simp
  have hr2 : r.drop (r.length - m.length) = m := by
    rw [← hdrop, List.drop_drop]
    have : m.length + ((t.drop m.length).length - m.length) = t.length - m.length := by
      simp [List.length_drop]; omega
    rw [this, hm]
  unfold slice
  rw [hdrop]
  have : t.length - m.length - m.length = r.length - m.length := by omega
  rw [this, List.append_assoc]
  conv => rhs; rw [← hr]
  congr 1
  conv => rhs; rw [← List.take_append_drop (r.length - m.length) r]
  rw [hr2]

theorem find?_some_mem {α} (p : α → Bool) (l : List α) (a : α) (h : l.find? p = some a) : p a = true :=
  List.find?_some h

theorem stripBalanced_concat (t : Str) :
    (stripBalanced t).1 ++ (stripBalanced t).2.1 ++ (stripBalanced t).2.2 = t := by
  unfold stripBalanced
  split
  · rename_i m hm
    have h := List.find?_some hm
    unfold shouldStrip at h
    simp only [Bool.and_eq_true, decide_eq_true_eq] at h
    exact prefix_suffix_split m t h.1.1.1 h.1.1.2 h.1.2
  · simp

theorem stripBalanced_sym (t : Str) : (stripBalanced t).1 = (stripBalanced t).2.2 := by
  unfold stripBalanced
  split <;> rfl

/-! ### one suggestion -/

theorem rejectView_metaSegs (c : Str) (i : Nat) (o : Opts) : rejectView (metaSegs c i o) = [] := by
  unfold metaSegs
  cases hi : o.includeIndex <;> cases hc : c.isEmpty <;> simp [hi, hc, Seg.rejected]

theorem acceptView_metaSegs (c : Str) (i : Nat) (o : Opts) : acceptView (metaSegs c i o) = [] := by
  unfold metaSegs
  cases hi : o.includeIndex <;> cases hc : c.isEmpty <;> simp [hi, hc, Seg.accepted]

/-- rejecting the suggestion gives back the matched text -/
theorem rejectView_buildMarkup (actual new c : Str) (i : Nat) (o : Opts) :
    rejectView (buildMarkup actual new c i o) = actual := by
  have hc := stripBalanced_concat actual
  unfold buildMarkup
  simp only [rejectView_append, rejectView_cons, rejectView_nil, rejectView_metaSegs, List.append_nil,
    Seg.rejected]
  split
  · rename_i h1
    split
    · -- hoisted, same markers
      cases ho : o.highlightOnly <;> simp_all [Seg.rejected]
      all_goals (split <;> split <;> simp_all [Seg.rejected])
    · cases ho : o.highlightOnly <;> simp_all [Seg.rejected]
      all_goals (split <;> split <;> simp_all [Seg.rejected])
  · cases ho : o.highlightOnly
    · simp only [ho, Bool.false_eq_true, ↓reduceIte]
      split <;> split <;> simp_all [Seg.rejected]
    · simp_all [Seg.rejected]

/-- accepting the suggestion gives the new text (suggestion mode) -/
theorem acceptView_buildMarkup (actual new c : Str) (i : Nat) (o : Opts) (ho : o.highlightOnly = false) :
    acceptView (buildMarkup actual new c i o) = new := by
  have hsym := stripBalanced_sym actual
  unfold buildMarkup
  simp only [acceptView_append, acceptView_cons, acceptView_nil, acceptView_metaSegs, List.append_nil,
    Seg.accepted, ho, Bool.false_eq_true, ↓reduceIte, Bool.not_false, Bool.and_true]
  split
  · rename_i h1
    split
    · rename_i h2
      simp only [Bool.and_eq_true, decide_eq_true_eq] at h2
      have := prefix_suffix_split (stripBalanced actual).1 new h2.1.2 (by rw [hsym]; exact h2.2) (by omega)
      simp only
      split <;> split <;> simp_all [Seg.accepted]
    · simp only
      split <;> split <;> simp_all [Seg.accepted]
  · rename_i h1
    have he : (stripBalanced actual).1 = [] := by simpa using h1
    have he2 : (stripBalanced actual).2.2 = [] := by rw [← hsym]; exact he
    simp only [he, he2]
    split <;> split <;> simp_all [Seg.accepted]

/-- in highlight-only mode nothing but wrappers is added -/
theorem acceptView_buildMarkup_hl (actual new c : Str) (i : Nat) (o : Opts) (ho : o.highlightOnly = true) :
    acceptView (buildMarkup actual new c i o) = actual := by
  have hc := stripBalanced_concat actual
  unfold buildMarkup
  simp only [acceptView_append, acceptView_cons, acceptView_nil, acceptView_metaSegs, List.append_nil,
    Seg.accepted, ho]
  simp_all [Seg.accepted]

/-! ### splicing right to left -/

/-- every match lies left of the previous one: `m.s < m.e ≤ P`, then the next one ends at or before `m.s` -/
def Chain : Nat → List Match → Prop
  | _, [] => True
  | P, m :: ms => m.s < m.e ∧ m.e ≤ P ∧ Chain m.s ms

def spliceFold (g : Match → Str) (text : Str) (ms : List Match) : Str :=
  ms.foldl (fun res m => res.take m.s ++ g m ++ res.drop m.e) text

def tailStep (g : Match → Str) (text : Str) (acc : Nat × Str) (m : Match) : Nat × Str :=
  (m.s, g m ++ slice text m.e acc.1 ++ acc.2)

theorem splice_tail (g : Match → Str) (text : Str) (ms : List Match) : ∀ (P : Nat) (tail : Str),
    Chain P ms → P ≤ text.length →
    ms.foldl (fun res m => res.take m.s ++ g m ++ res.drop m.e) (text.take P ++ tail) =
      text.take (ms.foldl (tailStep g text) (P, tail)).1 ++ (ms.foldl (tailStep g text) (P, tail)).2 := by
  induction ms with
  | nil => intro P tail _ _; rfl
  | cons m ms ih =>
    intro P tail hc hP
    obtain ⟨h1, h2, h3⟩ := hc
    simp only [List.foldl_cons]
    have hlen : (text.take P).length = P := by simp [List.length_take]; omega
    have ht : (text.take P ++ tail).take m.s = text.take m.s := by
      rw [List.take_append_of_le_length (by omega), List.take_take]
      congr 1; omega
    have hd : (text.take P ++ tail).drop m.e = slice text m.e P ++ tail := by
      rw [List.drop_append_of_le_length (by omega)]
      congr 1
      unfold slice
      rw [List.drop_take]
    rw [ht, hd]
    have := ih m.s (g m ++ slice text m.e P ++ tail) h3 (by omega)
    simp only [List.append_assoc] at this ⊢
    rw [this]
    simp [tailStep]

/-- the segment fold seen through a view `v` (a homomorphism) is the tail fold of the viewed markups -/
theorem segFold_view (v : List Seg → Str) (hv : ∀ a b, v (a ++ b) = v a ++ v b)
    (hp : ∀ s l, v (Seg.plain s :: l) = s ++ v l)
    (text : Str) (edits : List MEdit) (o : Opts) (ms : List Match) : ∀ (P : Nat) (segs : List Seg),
    ((ms.foldl (segStep text edits o) (P, segs)).1, v (ms.foldl (segStep text edits o) (P, segs)).2) =
      ms.foldl (tailStep (fun m => v (markupOf text edits o m)) text) (P, v segs) := by
  induction ms with
  | nil => intro P segs; rfl
  | cons m ms ih =>
    intro P segs
    simp only [List.foldl_cons, segStep, tailStep]
    rw [ih]
    congr 2
    rw [hv, hp, List.append_assoc]

theorem spliceFold_id (text : Str) (ms : List Match) (hle : ∀ m ∈ ms, m.s ≤ m.e) :
    spliceFold (fun m => slice text m.s m.e) text ms = text := by
  unfold spliceFold
  suffices h : ∀ res, res = text →
      ms.foldl (fun res m => res.take m.s ++ slice text m.s m.e ++ res.drop m.e) res = text from h text rfl
  induction ms with
  | nil => intro res h; simpa using h
  | cons m ms ih =>
    intro res h
    subst h
    simp only [List.foldl_cons]
    apply ih (fun x hx => hle x (by simp [hx]))
    unfold slice
    have hm := hle m (by simp)
    have : res.drop m.e = (res.drop m.s).drop (m.e - m.s) := by
      rw [List.drop_drop]; congr 1; omega
    rw [this, List.append_assoc, List.take_append_drop, List.take_append_drop]

/-! ### the kept matches form a chain -/

def NonOverlap (a b : Match) : Prop := ¬ (a.s < b.e ∧ a.e > b.s)

theorem nonOverlap_symm {a b : Match} (h : NonOverlap a b) : NonOverlap b a := by
  unfold NonOverlap at *; omega

theorem overlaps_false {occ : List Match} {m : Match} (h : overlaps occ m = false) :
    ∀ o ∈ occ, NonOverlap o m := by
  intro o ho
  unfold overlaps at h
  rw [List.any_eq_false] at h
  have := h o ho
  simp only [Bool.and_eq_true, decide_eq_true_eq, not_and] at this
  unfold NonOverlap
  omega

theorem filterOverlap_pairwise (ms : List Match) : ∀ (occ : List Match), occ.Pairwise NonOverlap →
    (filterOverlap ms occ).Pairwise NonOverlap := by
  induction ms with
  | nil => intro occ h; simpa [filterOverlap] using h
  | cons m ms ih =>
    intro occ h
    unfold filterOverlap
    split
    · exact ih occ h
    · rename_i hov
      apply ih
      rw [List.pairwise_append]
      refine ⟨h, List.pairwise_singleton _ _, ?_⟩
      intro a ha b hb
      simp only [List.mem_singleton] at hb
      subst hb
      exact overlaps_false (by simpa using hov) a ha

theorem filterOverlap_mem (ms : List Match) : ∀ (occ : List Match) (x : Match),
    x ∈ filterOverlap ms occ → x ∈ ms ∨ x ∈ occ := by
  induction ms with
  | nil => intro occ x h; right; simpa [filterOverlap] using h
  | cons m ms ih =>
    intro occ x h
    unfold filterOverlap at h
    split at h
    · rcases ih occ x h with h | h
      · left; simp [h]
      · right; exact h
    · rcases ih _ x h with h | h
      · left; simp [h]
      · simp only [List.mem_append, List.mem_singleton] at h
        rcases h with h | h
        · right; exact h
        · left; simp [h]

theorem chain_of (L : List Match) : ∀ (P : Nat), (∀ x ∈ L, x.s < x.e ∧ x.e ≤ P) →
    L.Pairwise (fun a b => a.s ≥ b.s) → L.Pairwise NonOverlap → Chain P L := by
  induction L with
  | nil => intro _ _ _ _; trivial
  | cons m ms ih =>
    intro P hall hs hn
    have hm := hall m (by simp)
    rw [List.pairwise_cons] at hs hn
    refine ⟨hm.1, hm.2, ih m.s ?_ hs.2 hn.2⟩
    intro x hx
    have hx' := hall x (by simp [hx])
    refine ⟨hx'.1, ?_⟩
    have h1 := hs.1 x hx
    have h2 := hn.1 x hx
    unfold NonOverlap at h2
    omega

theorem matchesFrom_spec (text : Str) (eds : List MEdit) : ∀ (i : Nat) (m : Match), m ∈ matchesFrom text eds i →
    m.s < m.e ∧ i ≤ m.idx ∧ ∃ ed, eds[m.idx - i]? = some ed ∧ findMatch text ed.target ed.fz = some (m.s, m.e) := by
  induction eds with
  | nil => intro i m h; simp [matchesFrom] at h
  | cons ed rest ih =>
    intro i m h
    unfold matchesFrom at h
    rw [List.mem_append] at h
    rcases h with h | h
    · split at h
      · rename_i s e hf
        split at h
        · simp at h
        · simp only [List.mem_singleton] at h
          subst h
          rename_i hse
          exact ⟨by show s < e; omega, Nat.le_refl _, ed, by simp, hf⟩
      · simp at h
    · obtain ⟨h1, h2, ed', h3, h4⟩ := ih (i + 1) m h
      refine ⟨h1, by omega, ed', ?_, h4⟩
      have : m.idx - i = (m.idx - (i + 1)) + 1 := by omega
      rw [this]
      simpa using h3

theorem keptDesc_chain (text : Str) (edits : List MEdit)
    (hb : ∀ m ∈ matchesFrom text edits 0, m.e ≤ text.length) :
    Chain text.length (keptDesc text edits) := by
  unfold keptDesc
  have hperm := List.mergeSort_perm (filterOverlap (matchesFrom text edits 0) []) (fun a b => decide (a.s ≥ b.s))
  apply chain_of
  · intro x hx
    have hx1 := hperm.mem_iff.mp hx
    rcases filterOverlap_mem _ _ _ hx1 with h | h
    · exact ⟨(matchesFrom_spec text edits 0 x h).1, hb x h⟩
    · simp at h
  · have := List.pairwise_mergeSort (le := fun (a b : Match) => decide (a.s ≥ b.s))
      (by intro a b c h1 h2; simp only [decide_eq_true_eq] at *; omega)
      (by intro a b; simp only [Bool.or_eq_true, decide_eq_true_eq]; omega)
      (filterOverlap (matchesFrom text edits 0) [])
    exact this.imp (by intro a b h; simpa using h)
  · exact (hperm.pairwise_iff (fun h => nonOverlap_symm h)).mpr
      (filterOverlap_pairwise _ [] List.Pairwise.nil)

theorem chain_le (ms : List Match) : ∀ P, Chain P ms → ∀ m ∈ ms, m.s ≤ m.e := by
  induction ms with
  | nil => intro _ _ m h; simp at h
  | cons x ms ih =>
    intro P hc m hm
    obtain ⟨h1, _, h3⟩ := hc
    simp only [List.mem_cons] at hm
    rcases hm with rfl | hm
    · omega
    · exact ih _ h3 m hm

/-! ### matches are in bounds when the recorded fuzzy spans are -/

theorem findFrom_bound (pat : Str) : ∀ (s : Str) (i k : Nat), findFrom pat s i = some k →
    i ≤ k ∧ (k - i) + pat.length ≤ s.length := by
  intro s
  induction s with
  | nil =>
    intro i k h
    unfold findFrom at h
    split at h
    · rename_i hp
      have hp' : pat = [] := List.isEmpty_iff.mp hp
      injection h with h
      subst hp'
      simp [h]
    · cases h
  | cons c s ih =>
    intro i k h
    unfold findFrom at h
    split at h
    · rename_i hp
      cases h
      rw [List.isPrefixOf_iff_prefix] at hp
      have := hp.length_le
      simp at this ⊢; omega
    · have := ih (i + 1) k h
      simp; omega

theorem expand_bound (text marker : Str) (se : Nat × Nat) (h : se.2 ≤ text.length) :
    (expand text marker se).2 ≤ text.length := by
  unfold expand
  split
  · split
    · rename_i hp
      rw [List.isPrefixOf_iff_prefix] at hp
      have := hp.length_le
      simp [List.length_drop] at this ⊢; omega
    · split <;> simpa using h
  · exact h

theorem safeBounds_bound (text : Str) (s e : Nat) (h : e ≤ text.length) : (safeBounds text s e).2 ≤ text.length := by
  unfold safeBounds expandRound
  repeat apply expand_bound
  exact h

theorem trimTrail_le (st : Str × Nat) (m : Str) : (trimTrail st m).2 ≤ st.2 := by
  unfold trimTrail; split <;> simp

theorem refine_bound (text : Str) (s e : Nat) : (refine text s e).2 ≤ e := by
  unfold refine
  simp only [List.foldl_cons, List.foldl_nil]
  have h1 := trimTrail_le
  exact Nat.le_trans (h1 _ _) (Nat.le_trans (h1 _ _) (Nat.le_trans (h1 _ _) (h1 _ _)))

theorem replaceSmart_length (s : Str) : (replaceSmart s).length = s.length := by simp [replaceSmart]

theorem findMatch_bound (text target : Str) (fz : Option (Nat × Nat)) (s e : Nat)
    (hfz : ∀ a b, fz = some (a, b) → b ≤ text.length) (h : findMatch text target fz = some (s, e)) :
    e ≤ text.length := by
  unfold findMatch at h
  split at h
  · cases h
  · split at h
    · rename_i i hi
      have hb := findFrom_bound target text 0 i hi
      have he := Option.some.inj h
      have : e = (safeBounds text i (i + target.length)).2 := by rw [he]
      rw [this]
      exact safeBounds_bound text i _ (by omega)
    · split at h
      · rename_i i hi
        have hb := findFrom_bound _ _ 0 i hi
        rw [replaceSmart_length, replaceSmart_length] at hb
        have he := Option.some.inj h
        have : e = (safeBounds text i (i + target.length)).2 := by rw [he]
        rw [this]
        exact safeBounds_bound text i _ (by omega)
      · split at h
        · rename_i a b
          have he := Option.some.inj h
          have : e = (safeBounds text (refine text a b).1 (refine text a b).2).2 := by rw [he]
          rw [this]
          apply safeBounds_bound
          exact Nat.le_trans (refine_bound text a b) (hfz a b rfl)
        · cases h

/-- the recorded fuzzy spans end inside the text -/
def FzInBounds (text : Str) (edits : List MEdit) : Prop :=
  ∀ ed ∈ edits, ∀ a b, ed.fz = some (a, b) → b ≤ text.length

theorem matches_inBounds (text : Str) (edits : List MEdit) (h : FzInBounds text edits) :
    ∀ m ∈ matchesFrom text edits 0, m.e ≤ text.length := by
  intro m hm
  obtain ⟨_, _, ed, he, hf⟩ := matchesFrom_spec text edits 0 m hm
  have hmem : ed ∈ edits := List.mem_of_getElem? he
  exact findMatch_bound text ed.target ed.fz m.s m.e (h ed hmem) hf

end Adeu.Markup

/-! ### reading the rendering back -/
namespace Adeu.Markup
open Adeu

theorem rejectView_flushPlain (acc : Str) : rejectView (flushPlain acc) = acc := by
  unfold flushPlain; split <;> simp_all [Seg.rejected]

theorem acceptView_flushPlain (acc : Str) : acceptView (flushPlain acc) = acc := by
  unfold flushPlain; split <;> simp_all [Seg.accepted]

theorem rejectView_normAcc (segs : List Seg) : ∀ acc, rejectView (normAcc acc segs) = acc ++ rejectView segs := by
  induction segs with
  | nil => intro acc; simp [normAcc, rejectView_flushPlain]
  | cons sg rest ih =>
    intro acc
    cases sg <;> simp [normAcc, ih, rejectView_flushPlain, Seg.rejected]

theorem acceptView_normAcc (segs : List Seg) : ∀ acc, acceptView (normAcc acc segs) = acc ++ acceptView segs := by
  induction segs with
  | nil => intro acc; simp [normAcc, acceptView_flushPlain]
  | cons sg rest ih =>
    intro acc
    cases sg <;> simp [normAcc, ih, acceptView_flushPlain, Seg.accepted]

theorem no_opener (c : Char) (r : Str) (hc : c ≠ '{') :
    openers.find? (fun o => o.1.isPrefixOf (c :: r)) = none := by
  rw [List.find?_eq_none]
  intro o ho
  simp only [openers, List.mem_cons, List.not_mem_nil, or_false] at ho
  rcases ho with rfl | rfl | rfl | rfl <;> simp [List.isPrefixOf, hc.symm, Ne.symm hc]

/-- plain text without '{' is collected character by character -/
theorem parseFuel_plain (s : Str) (hs : ∀ c ∈ s, c ≠ '{') : ∀ (n : Nat) (acc tail : Str),
    s.length + tail.length ≤ n → parseFuel n acc (s ++ tail) = parseFuel (n - s.length) (acc ++ s) tail := by
  induction s with
  | nil => intro n acc tail _; simp
  | cons c s ih =>
    intro n acc tail hn
    cases n with
    | zero => simp at hn
    | succ n =>
      have hc : c ≠ '{' := hs c (by simp)
      simp only [List.cons_append, parseFuel, no_opener c (s ++ tail) hc]
      rw [ih (fun x hx => hs x (by simp [hx])) n (acc ++ [c]) tail (by simp at hn; omega)]
      simp

theorem splitAtFirst_closer (cl s tail : Str) (hcl : cl ≠ []) (hlast : cl.getLast? = some '}')
    (hs : ∀ c ∈ s, c ≠ '}') (hcl' : ∀ c ∈ cl.dropLast, c ≠ '}') :
    splitAtFirst cl (s ++ cl ++ tail) = some (s, tail) := by
  induction s with
  | nil =>
    simp only [List.nil_append]
    cases h : cl ++ tail with
    | nil => simp at h; exact absurd h.1 hcl
    | cons c r =>
      unfold splitAtFirst
      have : cl.isPrefixOf (c :: r) = true := by
        rw [← h, List.isPrefixOf_iff_prefix]; exact List.prefix_append _ _
      simp only [this, ↓reduceIte]
      rw [← h]; simp
  | cons c s ih =>
    simp only [List.cons_append]
    unfold splitAtFirst
    have hnp : cl.isPrefixOf (c :: (s ++ cl ++ tail)) = false := by
      -- a prefix match would put '}' (the last character of `cl`) inside `c :: s` or inside `cl` before its end
      rw [Bool.eq_false_iff]
      intro hp
      rw [List.isPrefixOf_iff_prefix] at hp
      obtain ⟨t, ht⟩ := hp
      -- position of the last char of cl inside c :: s ++ cl ++ tail is < |c::s| + |cl| - 1, i.e. in (c::s) ++ cl.dropLast
      have hlen : cl.length ≥ 1 := by
        cases cl with
        | nil => exact absurd rfl hcl
        | cons _ _ => simp
      have hget : (c :: (s ++ cl ++ tail))[cl.length - 1]? = some '}' := by
        rw [← ht]
        rw [List.getElem?_append_left (by omega)]
        rw [List.getLast?_eq_getElem?] at hlast
        exact hlast
      -- but that position lies in (c :: s) ++ cl.dropLast, where no '}' is
      have hsplit : c :: (s ++ cl ++ tail) = ((c :: s) ++ cl.dropLast) ++ ([cl.getLast (by simpa using hcl)] ++ tail) := by
        have := List.dropLast_concat_getLast (by simpa using hcl : cl ≠ [])
        simp only [List.cons_append, List.append_assoc]
        conv => lhs; rw [← this]
        simp
      rw [hsplit, List.getElem?_append_left (by simp; omega)] at hget
      have hmem := List.mem_of_getElem? hget
      rw [List.mem_append] at hmem
      rcases hmem with hm | hm
      · exact hs '}' hm rfl
      · exact hcl' '}' hm rfl
    simp only [hnp, Bool.false_eq_true, ↓reduceIte]
    have := ih (fun x hx => hs x (by simp [hx]))
    simp only [List.append_assoc] at this ⊢
    rw [this]
    rfl

/-- The rendering of a brace-free segment list reads back as that list (adjacent plain pieces joined). -/
theorem parseFuel_render (segs : List Seg) (hb : BraceFree segs) : ∀ (n : Nat) (acc : Str),
    (render segs).length ≤ n → parseFuel n acc (render segs) = some (normAcc acc segs) := by
  induction segs with
  | nil =>
    intro n acc _
    cases n <;> simp [parseFuel, normAcc]
  | cons sg rest ih =>
    intro n acc hn
    have hrest : BraceFree rest := fun x hx => hb x (by simp [hx])
    have hsg := hb sg (by simp)
    have block : ∀ (op cl : Str) (mk : Str → Seg) (s : Str), sg.content = s →
        (op, cl, mk) ∈ openers → openers.find? (fun o => o.1.isPrefixOf (op ++ (s ++ cl ++ render rest))) = some (op, cl, mk) →
        op.length = 3 → cl ≠ [] → cl.getLast? = some '}' → (∀ c ∈ cl.dropLast, c ≠ '}') →
        render (sg :: rest) = op ++ (s ++ cl ++ render rest) →
        normAcc acc (sg :: rest) = flushPlain acc ++ mk s :: normAcc [] rest →
        parseFuel n acc (render (sg :: rest)) = some (normAcc acc (sg :: rest)) := by
      intro op cl mk s hcont _ hfind hop hcl hlast hdl hrender hnorm
      rw [hrender, hnorm]
      have hlen : (op ++ (s ++ cl ++ render rest)).length ≤ n := by rw [← hrender]; exact hn
      cases hopc : op with
      | nil => simp [hopc] at hop
      | cons c r =>
        cases n with
        | zero => simp [hopc] at hlen
        | succ n =>
          simp only [List.cons_append, parseFuel]
          rw [hopc] at hfind
          simp only [List.cons_append] at hfind
          rw [hfind]
          simp only
          have hdrop : (c :: (r ++ (s ++ cl ++ render rest))).drop 3 = s ++ cl ++ render rest := by
            have : (c :: r).length = 3 := by rw [← hopc]; exact hop
            have : c :: (r ++ (s ++ cl ++ render rest)) = (c :: r) ++ (s ++ cl ++ render rest) := rfl
            rw [this, List.drop_left' (by rw [← hopc]; exact hop)]
          rw [hdrop, splitAtFirst_closer cl s (render rest) hcl hlast
            (fun x hx => (hsg x (by rw [hcont]; exact hx)).2) hdl]
          simp only
          rw [ih hrest n [] (by simp [hopc] at hlen; omega)]
          rfl
    cases sg with
    | plain s =>
      simp only [render_cons, Seg.render, normAcc]
      rw [parseFuel_plain s (fun c hc => (hsg c hc).1) n acc (render rest) (by simpa [render_cons, Seg.render] using hn)]
      exact ih hrest _ _ (by simp [render_cons, Seg.render] at hn; omega)
    | del s =>
      exact block "{--".toList "--}".toList Seg.del s rfl (by simp [openers]) (by simp [openers, List.isPrefixOf])
        rfl (by simp) (by decide) (by decide) (by simp [render_cons, Seg.render]) (by simp [normAcc])
    | ins s =>
      exact block "{++".toList "++}".toList Seg.ins s rfl (by simp [openers]) (by simp [openers, List.isPrefixOf])
        rfl (by simp) (by decide) (by decide) (by simp [render_cons, Seg.render]) (by simp [normAcc])
    | hl s =>
      exact block "{==".toList "==}".toList Seg.hl s rfl (by simp [openers]) (by simp [openers, List.isPrefixOf])
        rfl (by simp) (by decide) (by decide) (by simp [render_cons, Seg.render]) (by simp [normAcc])
    | note s =>
      exact block "{>>".toList "<<}".toList Seg.note s rfl (by simp [openers]) (by simp [openers, List.isPrefixOf])
        rfl (by simp) (by decide) (by decide) (by simp [render_cons, Seg.render]) (by simp [normAcc])

theorem parse_render (segs : List Seg) (hb : BraceFree segs) : parse (render segs) = some (normAcc [] segs) :=
  parseFuel_render segs hb _ [] (Nat.le_refl _)

end Adeu.Markup
