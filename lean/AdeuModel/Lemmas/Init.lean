import AdeuModel.Model.Init
namespace Adeu.Init
open Adeu J

def Op.isBak : Op → Bool
  | .bakTrunc | .bakAppend _ => true
  | _ => false

theorem exec_append (s : St) (a b : List Op) : exec s (a ++ b) = exec (exec s a) b := by
  simp [exec, List.foldl_append]

theorem exec_cfg_of_bak (ops : List Op) : ∀ (s : St), (∀ op ∈ ops, op.isBak = true) → (exec s ops).cfg = s.cfg := by
  induction ops with
  | nil => intro s _; rfl
  | cons op ops ih =>
    intro s h
    have h1 := h op (by simp)
    have := ih (step s op) (fun o ho => h o (by simp [ho]))
    simp only [exec, List.foldl_cons] at this ⊢
    rw [this]
    cases op <;> simp_all [step, Op.isBak]

theorem exec_bak_of_nonbak (ops : List Op) : ∀ (s : St), (∀ op ∈ ops, op.isBak = false) → (exec s ops).bak = s.bak := by
  induction ops with
  | nil => intro s _; rfl
  | cons op ops ih =>
    intro s h
    have h1 := h op (by simp)
    have := ih (step s op) (fun o ho => h o (by simp [ho]))
    simp only [exec, List.foldl_cons] at this ⊢
    rw [this]
    cases op <;> simp_all [step, Op.isBak]

theorem exec_cfg_dir_of_nonbak (ops : List Op) : ∀ (s : St), (∀ op ∈ ops, op.isBak = true) → (exec s ops).dir = s.dir := by
  induction ops with
  | nil => intro s _; rfl
  | cons op ops ih =>
    intro s h
    have h1 := h op (by simp)
    have := ih (step s op) (fun o ho => h o (by simp [ho]))
    simp only [exec, List.foldl_cons] at this ⊢
    rw [this]
    cases op <;> simp_all [step, Op.isBak]

theorem exec_bakAppend (raw : Bytes) : ∀ (s : St) (acc : Bytes), s.bak = some acc →
    (exec s (raw.map .bakAppend)).bak = some (acc ++ raw) := by
  induction raw with
  | nil => intro s acc h; simp [exec, h]
  | cons b r ih =>
    intro s acc h
    simp only [List.map_cons, exec, List.foldl_cons]
    have := ih (step s (.bakAppend b)) (acc ++ [b]) (by simp [step, h])
    simpa [exec, List.append_assoc] using this

theorem exec_cfgAppend (raw : Bytes) : ∀ (s : St) (acc : Bytes), s.cfg = some acc →
    (exec s (raw.map .cfgAppend)).cfg = some (acc ++ raw) := by
  induction raw with
  | nil => intro s acc h; simp [exec, h]
  | cons b r ih =>
    intro s acc h
    simp only [List.map_cons, exec, List.foldl_cons]
    have := ih (step s (.cfgAppend b)) (acc ++ [b]) (by simp [step, h])
    simpa [exec, List.append_assoc] using this

theorem backupOps_isBak (r : Option Bytes) : ∀ op ∈ backupOps r, op.isBak = true := by
  intro op h
  cases r with
  | none => simp [backupOps] at h
  | some raw =>
    simp only [backupOps, List.mem_cons, List.mem_map] at h
    rcases h with h | ⟨b, _, h⟩
    · subst h; rfl
    · subst h; rfl

theorem writeOps_nonBak (v : J) : ∀ op ∈ writeOps v, op.isBak = false := by
  intro op h
  simp only [writeOps, List.mem_cons, List.mem_map] at h
  rcases h with h | h | ⟨b, _, h⟩ <;> subst h <;> rfl

theorem exec_backup_full (s : St) (raw : Bytes) : (exec s (backupOps (some raw))).bak = some raw := by
  simp only [backupOps, exec, List.foldl_cons]
  have := exec_bakAppend raw (step s .bakTrunc) [] (by simp [step])
  simpa [exec] using this

/-- The operation list always starts with the complete backup. -/
theorem handleInit_ops (entry : J) (prior : Prior) :
    ∃ w, (handleInit entry prior).1 = backupOps prior.raw ++ w ∧ ∀ op ∈ w, op.isBak = false := by
  unfold handleInit
  simp only
  split
  · rename_i v _
    exact ⟨writeOps v, rfl, writeOps_nonBak v⟩
  · exact ⟨[], by simp, by simp⟩

theorem crash_safe (entry : J) (prior : Prior) (k : Nat) (c : Bytes) (hc : prior.raw = some c) :
    (crashAfter entry prior k).cfg = some c ∨ (crashAfter entry prior k).bak = some c := by
  obtain ⟨w, hw, hnb⟩ := handleInit_ops entry prior
  unfold crashAfter
  rw [hw, List.take_append]
  by_cases hk : k ≤ (backupOps prior.raw).length
  · -- crash during the backup: the configuration file has not been touched
    left
    have h0 : k - (backupOps prior.raw).length = 0 := by omega
    rw [h0, List.take_zero, List.append_nil]
    rw [exec_cfg_of_bak _ _ (fun op h => backupOps_isBak _ op (List.mem_of_mem_take h))]
    simp [initSt, hc]
  · -- crash later: the backup is complete and nothing touches it any more
    right
    have h1 : List.take k (backupOps prior.raw) = backupOps prior.raw := List.take_of_length_le (by omega)
    rw [h1, exec_append, exec_bak_of_nonbak _ _ (fun op h => hnb op (List.mem_of_mem_take h)), hc]
    exact exec_backup_full _ c

theorem success_state (entry : J) (prior : Prior) (v : J)
    (h : startData prior >>= setAdeu entry = .ok v) :
    (handleInit entry prior).2 = .ok ∧
    (exec (initSt prior) (handleInit entry prior).1).cfg = some (toBytes (dump 0 v)) ∧
    (exec (initSt prior) (handleInit entry prior).1).bak = prior.raw ∧
    (exec (initSt prior) (handleInit entry prior).1).dir = true := by
  have hops : handleInit entry prior = (backupOps prior.raw ++ writeOps v, .ok) := by
    unfold handleInit; simp only [h]
  rw [hops]
  refine ⟨rfl, ?_, ?_, ?_⟩
  · simp only [exec_append, writeOps]
    simp only [exec, List.foldl_cons]
    have := exec_cfgAppend (toBytes (dump 0 v))
      (step (step (List.foldl step (initSt prior) (backupOps prior.raw)) .mkdir) .cfgTrunc) [] (by simp [step])
    simpa [exec] using this
  · rw [exec_append, exec_bak_of_nonbak _ _ (writeOps_nonBak v)]
    cases hr : prior.raw with
    | none => simp [backupOps, exec, initSt]
    | some raw => exact exec_backup_full _ raw
  · simp only [exec_append, writeOps]
    simp only [exec, List.foldl_cons]
    generalize (List.foldl step (initSt prior) (backupOps prior.raw)) = s0
    have : ∀ (bs : Bytes) (s : St), s.dir = true → (List.foldl step s (bs.map .cfgAppend)).dir = true := by
      intro bs
      induction bs with
      | nil => intro s h; simpa using h
      | cons b r ih => intro s h; simp only [List.map_cons, List.foldl_cons]; exact ih _ (by simp [step, h])
    exact this _ _ (by simp [step])

/-- A failing run performs the backup and nothing else: the configuration file is untouched. -/
theorem failure_untouched (entry : J) (prior : Prior) (e : Outcome)
    (h : startData prior >>= setAdeu entry = .error e) :
    (handleInit entry prior).2 = e ∧
    (exec (initSt prior) (handleInit entry prior).1).cfg = prior.raw := by
  have hops : handleInit entry prior = (backupOps prior.raw, e) := by
    unfold handleInit; simp only [h]
  rw [hops]
  refine ⟨rfl, ?_⟩
  rw [exec_cfg_of_bak _ _ (backupOps_isBak _)]
  rfl

/-! ### `setAdeu` changes the adeu server entry and nothing else -/

theorem lookup_setKey_ne (k k' : Str) (v : J) (kvs : List (Str × J)) (h : k' ≠ k) :
    lookup k' (setKey k v kvs) = lookup k' kvs := by
  induction kvs with
  | nil => simp [setKey, lookup, Ne.symm h]
  | cons x r ih =>
    obtain ⟨a, b⟩ := x
    simp only [setKey]
    split
    · rename_i hak; subst hak; simp [lookup, Ne.symm h]
    · simp only [lookup]; split <;> simp_all

theorem lookup_setKey_eq (k : Str) (v : J) (kvs : List (Str × J)) :
    lookup k (setKey k v kvs) = some v := by
  induction kvs with
  | nil => simp [setKey, lookup]
  | cons x r ih =>
    obtain ⟨a, b⟩ := x
    simp only [setKey]
    split
    · simp [lookup]
    · rename_i hak; simp [lookup, hak, ih]

theorem lookup_append_ne (k k' : Str) (v : J) (kvs : List (Str × J)) (h : k' ≠ k) :
    lookup k' (kvs ++ [(k, v)]) = lookup k' kvs := by
  induction kvs with
  | nil => simp [lookup, Ne.symm h]
  | cons x r ih => obtain ⟨a, b⟩ := x; simp only [List.cons_append, lookup]; split <;> simp_all

theorem lookup_append_new (k : Str) (v : J) (kvs : List (Str × J)) (h : lookup k kvs = none) :
    lookup k (kvs ++ [(k, v)]) = some v := by
  induction kvs with
  | nil => simp [lookup]
  | cons x r ih =>
    obtain ⟨a, b⟩ := x
    simp only [lookup] at h
    split at h
    · cases h
    · rename_i hak; simp [lookup, hak, ih h]

/-- keys other than `k`, in order -/
def otherKeys (k : Str) (kvs : List (Str × J)) : List (Str × J) := kvs.filter (fun p => p.1 != k)

theorem otherKeys_setKey (k : Str) (v : J) (kvs : List (Str × J)) :
    otherKeys k (setKey k v kvs) = otherKeys k kvs := by
  induction kvs with
  | nil => simp [setKey, otherKeys]
  | cons x r ih =>
    obtain ⟨a, b⟩ := x
    simp only [setKey]
    split
    · rename_i hak; subst hak; simp [otherKeys]
    · rename_i hak
      simp only [otherKeys, List.filter_cons] at ih ⊢
      simp [ih]

theorem otherKeys_append (k : Str) (v : J) (kvs : List (Str × J)) :
    otherKeys k (kvs ++ [(k, v)]) = otherKeys k kvs := by
  simp [otherKeys, List.filter_append]

theorem setKey_idem (k : Str) (v : J) (kvs : List (Str × J)) :
    setKey k v (setKey k v kvs) = setKey k v kvs := by
  induction kvs with
  | nil => simp [setKey]
  | cons x r ih =>
    obtain ⟨a, b⟩ := x
    simp only [setKey]
    split
    · simp [setKey]
    · rename_i hak; simp [setKey, hak, ih]

theorem setKey_append_new (k : Str) (v v' : J) (kvs : List (Str × J)) (h : lookup k kvs = none) :
    setKey k v' (kvs ++ [(k, v)]) = kvs ++ [(k, v')] := by
  induction kvs with
  | nil => simp [setKey]
  | cons x r ih =>
    obtain ⟨a, b⟩ := x
    simp only [lookup] at h
    split at h
    · cases h
    · rename_i hak; simp [setKey, hak, ih h]

end Adeu.Init
