import Lean.Data.Json
import AdeuModel.Model.Doc
import AdeuModel.Model.Extract
/-! JSON decoding of the abstract document (wire format of harness/ooxml.py). -/
open Lean Adeu Adeu.Doc

namespace DriverDoc

def optStr (j : Json) (k : String) : Option Str :=
  match j.getObjVal? k with
  | .ok (Json.str s) => some s.toList
  | _ => none

def reqStr (j : Json) (k : String) : Except String Str :=
  match j.getObjVal? k with
  | .ok (Json.str s) => pure s.toList
  | .ok Json.null => pure []
  | _ => throw s!"missing string field {k}"

def arr (j : Json) (k : String) : Except String (List Json) :=
  match j.getObjVal? k with
  | .ok (Json.arr a) => pure a.toList
  | .ok Json.null => pure []
  | .error _ => pure []
  | _ => throw s!"field {k} is not an array"

def boolD (j : Json) (k : String) (d : Bool) : Bool :=
  match j.getObjVal? k with
  | .ok (Json.bool b) => b
  | _ => d

def parseAtom (j : Json) : Except String Atom := do
  let k ← j.getObjValAs? String "k"
  match k with
  | "t" => pure (.t (← reqStr j "s"))
  | "dt" => pure (.dt (← reqStr j "s"))
  | "tab" => pure .tab
  | "br" =>
    match j.getObjValAs? String "type" with
    | .ok ty => pure (.brT ty.toList)
    | _ => pure .br
  | "cr" => pure .cr
  | "nbh" => pure .nbh
  | "cref" => pure (.cref (← reqStr j "id"))
  | "fld" =>
    let ty ← j.getObjValAs? String "type"
    pure (.fld (match ty with | "begin" => .begin | "separate" => .separate | "end" => .end_ | _ => .unknown))
  | "instr" => pure (.instr (← reqStr j "s"))
  | "o" => pure (.other (← reqStr j "xml"))
  | _ => throw s!"bad atom {k}"

def parseRun (j : Json) : Except String Run := do
  let ch ← (← arr j "ch").mapM parseAtom
  pure { b := optStr j "b", i := optStr j "i", rest := (← reqStr j "rest"), ch := ch, emptyRPr := boolD j "empty_rpr" false }

def parseRev (j : Json) : Except String Rev := do
  pure { id := (← reqStr j "id"), author := optStr j "author", date := optStr j "date" }

def parseInsChild (j : Json) : Except String InsChild := do
  let k ← j.getObjValAs? String "k"
  match k with
  | "r" => pure (.run (← parseRun (← j.getObjVal? "run")))
  | "cs" => pure (.cs (← reqStr j "id"))
  | "ce" => pure (.ce (← reqStr j "id"))
  | "o" => pure (.other (← reqStr j "xml"))
  | _ => throw s!"bad ins child {k}"

def parseNode (j : Json) : Except String Node := do
  let k ← j.getObjValAs? String "k"
  match k with
  | "r" => pure (.run (← parseRun (← j.getObjVal? "run")))
  | "ins" => pure (.ins (← parseRev j) (← (← arr j "ch").mapM parseInsChild))
  | "del" => pure (.del (← parseRev j) (← (← arr j "runs").mapM parseRun))
  | "cs" => pure (.cs (← reqStr j "id"))
  | "ce" => pure (.ce (← reqStr j "id"))
  | "proof" => pure (.proof (← reqStr j "type"))
  | "hl" => pure (.hl ((optStr j "rid").getD [] ++ ['|'] ++ (optStr j "anchor").getD []) (← (← arr j "runs").mapM parseRun))
  | "o" => pure (.other (← reqStr j "xml"))
  | _ => throw s!"bad node {k}"

def parsePara (j : Json) : Except String Para := do
  pure { style := optStr j "style", ppr := (← reqStr j "ppr"), nodes := (← (← arr j "nodes").mapM parseNode),
         paraId := optStr j "para_id" }

mutual
  partial def parseBlock (j : Json) : Except String Block := do
    match j.getObjVal? "p" with
    | .ok p => pure (.para (← parsePara p))
    | .error _ =>
      match j.getObjVal? "tbl" with
      | .ok t =>
        let rows ← (← arr t "rows").mapM parseRow
        pure (.table (← reqStr t "pr") ((optStr t "grid").getD []) rows)
      | .error _ => pure (.other ((optStr j "other").getD []))
  partial def parseRow (j : Json) : Except String Row := do
    pure (.mk (← reqStr j "pr") (← (← arr j "cells").mapM parseCell))
  partial def parseCell (j : Json) : Except String Cell := do
    let span := (j.getObjValAs? Nat "span").toOption.getD 1
    let vm := match optStr j "vmerge" with
      | some s => if s = "restart".toList then VM.restart else VM.continue_
      | none => VM.none
    pure (.mk (← reqStr j "pr") span vm (← (← arr j "blocks").mapM parseBlock))
end

def parseStory (j : Json) : Except String Story := do
  pure { ty := (← reqStr j "type"), blocks := (← (← arr j "blocks").mapM parseBlock) }

def parseComment (j : Json) : Except String Comment := do
  let paras ← (← arr j "paras").mapM fun p => do
    let texts ← (← arr p "text").mapM fun t => match t with
      | Json.str s => pure s.toList
      | _ => throw "comment text"
    pure ({ paraId := optStr p "para_id", text := texts } : CPara)
  pure { id := (← reqStr j "id"), author := optStr j "author", date := optStr j "date", initials := optStr j "initials",
         paras := paras, legacyParent := optStr j "legacy_parent", doneAttr := optStr j "done_attr" }

def parseDoc (j : Json) : Except String Document := do
  let parts := (j.getObjVal? "parts").toOption.getD Json.null
  let hasExt := match parts.getObjVal? "extended" with
    | .ok (Json.bool b) => b
    | .ok (Json.str _) => true
    | _ => false
  let ex ← (← arr j "comments_ex").mapM fun e =>
    pure ({ paraId := optStr e "para_id", parent := optStr e "parent", done := optStr e "done" } : CommentEx)
  pure { headers := (← (← arr j "headers").mapM parseStory), body := (← (← arr j "body").mapM parseBlock),
         footers := (← (← arr j "footers").mapM parseStory), titlePg := boolD j "title_pg" false,
         evenOdd := boolD j "even_odd" false, comments := (← (← arr j "comments").mapM parseComment),
         commentsEx := ex, hasExtended := hasExt,
         commentsIds := (← (← arr j "comments_ids").mapM fun e => do pure ((← reqStr e "para_id"), (← reqStr e "durable"))),
         commentsCex := (← (← arr j "comments_cex").mapM fun e => do pure ((← reqStr e "durable"), (← reqStr e "date"))) }

end DriverDoc

namespace DriverDoc
open Lean Adeu Adeu.Doc

def sJ (s : Str) : Json := Json.str (String.ofList s)
def oJ (o : Option Str) : Json := match o with | some s => sJ s | none => Json.null

def atomJ : Atom → Json
  | .t s => Json.mkObj [("k", "t"), ("s", sJ s)]
  | .dt s => Json.mkObj [("k", "dt"), ("s", sJ s)]
  | .tab => Json.mkObj [("k", "tab")]
  | .br => Json.mkObj [("k", "br")]
  | .brT ty => Json.mkObj [("k", "br"), ("type", sJ ty)]
  | .cr => Json.mkObj [("k", "cr")]
  | .nbh => Json.mkObj [("k", "nbh")]
  | .cref id => Json.mkObj [("k", "cref"), ("id", sJ id)]
  | .fld ty => Json.mkObj [("k", "fld"), ("type", match ty with | .begin => "begin" | .separate => "separate" | .end_ => "end" | .unknown => "unknown")]
  | .instr s => Json.mkObj [("k", "instr"), ("s", sJ s)]
  | .other x => Json.mkObj [("k", "o"), ("xml", sJ x)]

def runJ (r : Run) : Json :=
  Json.mkObj ([("b", oJ r.b), ("i", oJ r.i), ("rest", sJ r.rest), ("ch", Json.arr (r.ch.map atomJ).toArray)] ++
    (if r.emptyRPr then [("empty_rpr", Json.bool true)] else []))

def revJ (r : Rev) : List (String × Json) := [("id", sJ r.id), ("author", oJ r.author), ("date", oJ r.date)]

def insChildJ : InsChild → Json
  | .run r => Json.mkObj [("k", "r"), ("run", runJ r)]
  | .cs id => Json.mkObj [("k", "cs"), ("id", sJ id)]
  | .ce id => Json.mkObj [("k", "ce"), ("id", sJ id)]
  | .other x => Json.mkObj [("k", "o"), ("xml", sJ x)]

def nodeJ : Node → Json
  | .run r => Json.mkObj [("k", "r"), ("run", runJ r)]
  | .ins rev ch => Json.mkObj ([("k", Json.str "ins")] ++ revJ rev ++ [("ch", Json.arr (ch.map insChildJ).toArray)])
  | .del rev runs => Json.mkObj ([("k", Json.str "del")] ++ revJ rev ++ [("runs", Json.arr (runs.map runJ).toArray)])
  | .cs id => Json.mkObj [("k", "cs"), ("id", sJ id)]
  | .ce id => Json.mkObj [("k", "ce"), ("id", sJ id)]
  | .proof ty => Json.mkObj [("k", "proof"), ("type", sJ ty)]
  | .hl attrs runs =>
    let rid := attrs.takeWhile (· != '|')
    let anchor := (attrs.dropWhile (· != '|')).drop 1
    Json.mkObj [("k", "hl"), ("rid", if rid.isEmpty then Json.null else sJ rid),
      ("anchor", if anchor.isEmpty then Json.null else sJ anchor), ("runs", Json.arr (runs.map runJ).toArray)]
  | .other x => Json.mkObj [("k", "o"), ("xml", sJ x)]

def paraJ (p : Para) : Json :=
  Json.mkObj ([("style", oJ p.style), ("ppr", sJ p.ppr), ("nodes", Json.arr (p.nodes.map nodeJ).toArray)] ++
    (match p.paraId with | some x => [("para_id", sJ x)] | none => []))

mutual
  partial def blockJ : Block → Json
    | .para p => Json.mkObj [("p", paraJ p)]
    | .table pr g rows =>
      Json.mkObj [("tbl", Json.mkObj ([("pr", sJ pr), ("rows", Json.arr (rows.map rowJ).toArray)] ++
        (if g.isEmpty then [] else [("grid", sJ g)])))]
    | .other x => Json.mkObj [("other", sJ x)]
  partial def rowJ : Row → Json
    | .mk pr cells => Json.mkObj [("pr", sJ pr), ("cells", Json.arr (cells.map cellJ).toArray)]
  partial def cellJ : Cell → Json
    | .mk pr span vm blocks =>
      Json.mkObj [("pr", sJ pr), ("span", toJson span),
        ("vmerge", match vm with | .none => Json.null | .restart => "restart" | .continue_ => "continue"),
        ("blocks", Json.arr (blocks.map blockJ).toArray)]
end

def storyJ (s : Story) : Json := Json.mkObj [("type", sJ s.ty), ("blocks", Json.arr (s.blocks.map blockJ).toArray)]

/-- stories of a document (comments are passed through untouched by the ops that use this) -/
def docStoriesJ (d : Document) : Json :=
  Json.mkObj [("headers", Json.arr (d.headers.map storyJ).toArray), ("body", Json.arr (d.body.map blockJ).toArray),
    ("footers", Json.arr (d.footers.map storyJ).toArray)]

end DriverDoc

namespace DriverDoc
open Lean Adeu Adeu.Doc

def commentJ (c : Comment) : Json :=
  Json.mkObj [("id", sJ c.id), ("author", oJ c.author), ("date", oJ c.date), ("initials", oJ c.initials),
    ("paras", Json.arr (c.paras.map fun p => Json.mkObj [("para_id", oJ p.paraId), ("text", Json.arr (p.text.map sJ).toArray)]).toArray),
    ("legacy_parent", oJ c.legacyParent), ("done_attr", oJ c.doneAttr)]

def docFullJ (d : Document) : Json :=
  Json.mkObj [("headers", Json.arr (d.headers.map storyJ).toArray), ("body", Json.arr (d.body.map blockJ).toArray),
    ("footers", Json.arr (d.footers.map storyJ).toArray),
    ("comments", Json.arr (d.comments.map commentJ).toArray),
    ("comments_ex", Json.arr (d.commentsEx.map fun e =>
      Json.mkObj [("para_id", oJ e.paraId), ("parent", oJ e.parent), ("done", oJ e.done)]).toArray),
    ("comments_ids", Json.arr (d.commentsIds.map fun (p, du) => Json.mkObj [("para_id", sJ p), ("durable", sJ du)]).toArray),
    ("comments_cex", Json.arr (d.commentsCex.map fun (du, dt) => Json.mkObj [("durable", sJ du), ("date", sJ dt)]).toArray)]

end DriverDoc
