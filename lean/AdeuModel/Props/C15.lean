import AdeuModel.Props.C14
/-
C15 — preview and commit agree on what will change (text side).

For exact, unique, non-overlapping targets with balanced formatting markers the preview marks every
edit, exactly at the occurrence of its target, and its accepted reading is the simultaneous
replacement of the targets by the new texts — the reference semantics the commit is held to by
C02 / C12 (accepted view of the committed document == the same replacement; decided there by the
whole-document correspondence and oracle, hence `_partial` here).
-/
namespace Adeu.Props.C15
open Adeu Adeu.Markup Adeu.Props.C14

/-- the four marker counts of a target are even: the safe-boundary step leaves its range alone -/
def Balanced (t : Str) : Prop :=
  count mBold t % 2 = 0 ∧ count mUU t % 2 = 0 ∧ count mU t % 2 = 0 ∧ count mStar t % 2 = 0

theorem findFrom_slice (pat : Str) : ∀ (s : Str) (i k : Nat), findFrom pat s i = some k →
    slice s (k - i) (k - i + pat.length) = pat := by
  intro s
  induction s with
  | nil =>
    intro i k h
    unfold findFrom at h
    split at h
    · rename_i hp
      have hp' : pat = [] := List.isEmpty_iff.mp hp
      subst hp'; simp [slice]
    · cases h
  | cons c s ih =>
    intro i k h
    unfold findFrom at h
    split at h
    · rename_i hp
      injection h with h
      subst h
      rw [List.isPrefixOf_iff_prefix] at hp
      obtain ⟨r, hr⟩ := hp
      simp [slice, ← hr]
    · have hb := findFrom_bound pat s (i + 1) k h
      have := ih (i + 1) k h
      have hk : k - i = (k - (i + 1)) + 1 := by omega
      rw [hk]
      simpa [slice] using this

theorem expand_balanced (text marker : Str) (se : Nat × Nat)
    (h : count marker (slice text se.1 se.2) % 2 = 0) : expand text marker se = se := by
  unfold expand
  simp [h]

/-- an exact occurrence with balanced markers is matched as it stands -/
theorem findMatch_exact (text target : Str) (fz : Option (Nat × Nat)) (i : Nat)
    (hne : target ≠ []) (hf : find target text = some i) (hb : Balanced target) :
    findMatch text target fz = some (i, i + target.length) := by
  have hs : slice text i (i + target.length) = target := by
    have := findFrom_slice target text 0 i hf
    simpa using this
  unfold findMatch
  have : target.isEmpty = false := by
    cases target with
    | nil => exact absurd rfl hne
    | cons _ _ => rfl
  simp only [this, Bool.false_eq_true, ↓reduceIte, hf]
  obtain ⟨h1, h2, h3, h4⟩ := hb
  have e1 : expandRound text (i, i + target.length) = (i, i + target.length) := by
    unfold expandRound
    rw [expand_balanced text mBold _ (by simpa [hs] using h1)]
    rw [expand_balanced text mUU _ (by simpa [hs] using h2)]
    rw [expand_balanced text mU _ (by simpa [hs] using h3)]
    rw [expand_balanced text mStar _ (by simpa [hs] using h4)]
  unfold safeBounds
  rw [e1, e1]

theorem filterOverlap_all (ms : List Match) : ∀ (occ : List Match), (occ ++ ms).Pairwise NonOverlap →
    filterOverlap ms occ = occ ++ ms := by
  induction ms with
  | nil => intro occ _; simp [filterOverlap]
  | cons m ms ih =>
    intro occ h
    unfold filterOverlap
    have hno : overlaps occ m = false := by
      unfold overlaps
      rw [List.any_eq_false]
      intro o ho
      rw [List.pairwise_append] at h
      have := h.2.2 o ho m (by simp)
      unfold NonOverlap at this
      simp only [Bool.and_eq_true, decide_eq_true_eq]
      omega
    simp only [hno, Bool.false_eq_true, ↓reduceIte]
    have := ih (occ ++ [m]) (by simpa using h)
    simpa using this

/-- Every edit of a list with exact, balanced, pairwise non-overlapping targets is marked: the kept
matches are the matches of all edits (one per edit, in some order). -/
theorem C15_all_marked (text : Str) (edits : List MEdit)
    (hdis : (matchesFrom text edits 0).Pairwise NonOverlap) :
    (keptDesc text edits).Perm (matchesFrom text edits 0) := by
  unfold keptDesc
  have := filterOverlap_all (matchesFrom text edits 0) [] (by simpa using hdis)
  rw [this]
  simpa using List.mergeSort_perm (matchesFrom text edits 0) _

/-- one match per edit when every target is found exactly -/
theorem matchesFrom_exact (text : Str) : ∀ (edits : List MEdit) (k : Nat) (pos : List Nat),
    pos.length = edits.length →
    (∀ j (h : j < edits.length), (edits[j]).target ≠ [] ∧ find (edits[j]).target text = some (pos[j]!) ∧
      Balanced (edits[j]).target) →
    matchesFrom text edits k =
      (List.range edits.length).map fun j => ⟨pos[j]!, pos[j]! + (edits[j]!).target.length, k + j⟩ := by
  intro edits
  induction edits with
  | nil => intro k pos _ _; rfl
  | cons ed rest ih =>
    intro k pos hl h
    cases pos with
    | nil => simp at hl
    | cons p ps =>
      have h0 := h 0 (by simp)
      simp only [List.getElem_cons_zero, List.getElem!_cons_zero] at h0
      have hm := findMatch_exact text ed.target ed.fz p h0.1 h0.2.1 h0.2.2
      unfold matchesFrom
      rw [hm]
      have hlen : 0 < ed.target.length := by
        cases ht : ed.target with
        | nil => exact absurd ht h0.1
        | cons _ _ => simp
      have hlt : ¬ (p ≥ p + ed.target.length) := by omega
      simp only [hlt, ↓reduceIte]
      have ih' := ih (k + 1) ps (by simpa using hl) (by
        intro j hj
        have := h (j + 1) (by simp; omega)
        simpa using this)
      rw [ih', List.length_cons, List.range_succ_eq_map, List.map_cons, List.map_map]
      simp only [List.singleton_append, List.getElem!_cons_zero, Nat.add_zero, List.cons.injEq, true_and]
      apply List.map_congr_left
      intro j _
      simp only [Function.comp, List.getElem!_cons_succ]
      congr 1
      omega

/-- … and the accepted reading of the preview is the simultaneous replacement (C14_accept_exact,
restated for this property): what the commit must produce on the accepted view. -/
theorem C15_preview_accepts_replacement_partial (text : Str) (edits : List MEdit) (o : Opts)
    (h : FzInBounds text edits) (ho : o.highlightOnly = false) :
    acceptView (previewSegs text edits o) = applyEdits text (scriptOf text edits) :=
  C14_accept_exact text edits o h ho

end Adeu.Props.C15
