import AdeuModel.Lemmas.Engine
import AdeuModel.Lemmas.Grow
/-
C10 — comments requested with an edit or a reply are never lost or misattached (model-level clauses).
-/
namespace Adeu.Props.C10
open Adeu Adeu.Doc

/-- `add_comment` appends exactly one comment with the given text and the session's author;
existing comments keep their text, author, date and position; the stories are untouched. -/
theorem C10_one_new_comment (s : Sess) (text : Str) (parent : Option Str) :
    ∃ c, (s.addComment text parent).1.doc.comments = s.doc.comments ++ [c] ∧
      c.id = (s.addComment text parent).2 ∧ c.author = some s.author ∧ c.paras.map (·.text) = [[text]] ∧
      (s.addComment text parent).1.doc.body = s.doc.body := by
  have h := addComment_spec s text parent
  simp only at h
  exact ⟨_, h.1, rfl, rfl, rfl, h.2.2.2.1⟩

/-- The range markers attached for an edit's comment enclose the marks created by that edit: the
start goes in front of the first deletion (child `i`), the end and the reference run directly
behind the insertion (child `j`). -/
theorem C10_anchor_encloses (ns : List Node) (i j : Nat) (cid : Str) :
    attachCommentNodes ns i j cid =
      insertNodesAt (insertNodesAt ns i [.cs cid]) (j + 2) [.ce cid, .run (crefRun cid)] := rfl

example : attachCommentNodes [.other "a".toList, .other "del".toList, .other "ins".toList, .other "z".toList] 1 2 "7".toList =
    [.other "a".toList, .cs "7".toList, .other "del".toList, .other "ins".toList, .ce "7".toList,
     .run (crefRun "7".toList), .other "z".toList] := by decide

/-- Existing comments keep their entry (text, author, date, paragraph ids, threading record) and their
position in all four comment parts, whatever the batch does: the lists only grow at the end. -/
theorem C10_existing_untouched (s : Sess) (edits : List HEdit) :
    s.doc.comments <+: (Doc.applyEdits s edits).1.doc.comments ∧
    s.doc.commentsEx <+: (Doc.applyEdits s edits).1.doc.commentsEx ∧
    s.doc.commentsIds <+: (Doc.applyEdits s edits).1.doc.commentsIds ∧
    s.doc.commentsCex <+: (Doc.applyEdits s edits).1.doc.commentsCex :=
  let g := Grows_applyEdits s edits
  ⟨g.comments, g.commentsEx, g.commentsIds, g.commentsCex⟩

/-- A reply to a comment that does not exist is skipped and adds nothing. -/
theorem C10_reply_unknown_skipped (s : Sess) (tgt tid : Str) (c : Bool) (text : Option Str)
    (hp : parseTarget tgt = (tid, c, true)) (h : s.doc.comments.any (·.id = tid) = false) :
    s.applyAction { kind := .reply, target := tgt, text := text } = (s, false) := by
  simp only [Sess.applyAction, hp, h, Bool.and_false, Bool.false_eq_true, ↓reduceIte]

example : parseTarget "Com:5".toList = ("5".toList, false, true) := by decide

end Adeu.Props.C10
