import AdeuModel.Lemmas.LGrow
import AdeuModel.Lemmas.ComGrow
import AdeuModel.Lemmas.Engine
import AdeuModel.Lemmas.Grow
import AdeuModel.Lemmas.ShownWith
import AdeuModel.Lemmas.Threads
import AdeuModel.Lemmas.NewComment
import AdeuModel.Lemmas.EndToEnd
/-
C10 — comments requested with an edit or a reply are never lost or misattached (model-level clauses).
-/
namespace Adeu.Props.C10
open Adeu Adeu.Doc

/-- `add_comment` appends exactly one comment with the given text and the session's author;
existing comments keep their text, author, date and position; the stories are untouched. -/
theorem C10_one_new_comment (s : Sess) (text : Str) (parent : Option Str) :
    ∃ c, (s.addComment text parent).1.doc.comments = s.doc.comments ++ [c] ∧
      c.id = (s.addComment text parent).2 ∧ c.author = some s.author ∧ c.paras.map (·.text) = [[text]] ∧
      (s.addComment text parent).1.doc.body = s.doc.body := by
  have h := addComment_spec s text parent
  simp only at h
  exact ⟨_, h.1, rfl, rfl, rfl, h.2.2.2.1⟩

/-- The range markers attached for an edit's comment enclose the marks created by that edit: the
start goes in front of the first deletion (child `i`), the end and the reference run directly
behind the insertion (child `j`). -/
theorem C10_anchor_encloses (ns : List Node) (i j : Nat) (cid : Str) :
    attachCommentNodes ns i j cid =
      insertNodesAt (insertNodesAt ns i [.cs cid]) (j + 2) [.ce cid, .run (crefRun cid)] := rfl

example : attachCommentNodes [.other "a".toList, .other "del".toList, .other "ins".toList, .other "z".toList] 1 2 "7".toList =
    [.other "a".toList, .cs "7".toList, .other "del".toList, .other "ins".toList, .ce "7".toList,
     .run (crefRun "7".toList), .other "z".toList] := by decide

/-- The comment the engine writes is the comment the reader reads (layers E + D): after `add_comment` the reader's comment
map has an entry under the new id with exactly that text (stripped), the session's author, not resolved - whatever comments
the document held before (an id clash included: the new entry is the last one; the threading pass changes `parent` only).
With C10_comment_shown_with_* and C04_block_lists_anchored_comments: the requested comment text is rendered, under its id,
in the metadata block behind the change it explains. -/
theorem C10_new_comment_read_back (s : Sess) (text : Str) (parent : Option Str) :
    ∃ dd, cmGet (commentsMap (s.addComment text parent).1.doc) (s.addComment text parent).2 = some dd ∧
      (dd.text = stripStr Trim.pyIsSpace (([text].filter (!·.isEmpty)).flatten ++ ['\n']) ∧
      dd.author = (truthy (some s.author)).getD "Unknown".toList ∧ dd.resolved = false) :=
  addComment_read_back s text parent

/-! ### shown with the change (reader model on what the engine writes) -/

/-- A comment attached to an insertion (`⟨range start⟩ ⟨w:ins: text run⟩ ⟨range end⟩ ⟨reference⟩`, the shape
`attachCommentNodes` leaves - C10_anchor_encloses) is read back with it: the metadata of the paragraph's raw view is
built from a snapshot in which the insertion's id *and* the comment's id are open, so `[Chg:id]` and the comment's
thread are rendered in the same `{>>…<<}` block behind the inserted text (C04_meta_blocks_are_rendered_groups,
C04_block_lists_open_changes_once).  Any paragraph content before / after; the run is plain text outside a hidden
PAGE / NUMPAGES field. -/
theorem C10_comment_shown_with_insertion (cm : CMap) (p : Para) (pre post : List Node) (cid : Str) (rev : Rev) (r : Run)
    (hn : p.nodes = pre ++ ([.cs cid, .ins rev [.run r], .ce cid, .run (crefRun cid)] ++ post))
    (hst : (stAfter {} pre 0).hide = false) (hr : r.ch.all isT = true)
    (hseg : (applyFormatting (runText r) (runMarkers r).1 (runMarkers r).2).isEmpty = false) :
    ∃ snap ∈ (metaGroups cm p).flatten, cid ∈ snap.comments ∧ rev.id ∈ snap.ins.map (·.1) :=
  comment_shown_with_insertion cm p pre post cid rev r hn hst hr hseg

/-- … a comment on a pure deletion with the deleted text … -/
theorem C10_comment_shown_with_deletion (cm : CMap) (p : Para) (pre post : List Node) (cid : Str) (rev : Rev) (r : Run)
    (hn : p.nodes = pre ++ ([.cs cid, .del rev [r], .ce cid, .run (crefRun cid)] ++ post))
    (hseg : (applyFormatting (runText r) (runMarkers r).1 (runMarkers r).2).isEmpty = false) :
    ∃ snap ∈ (metaGroups cm p).flatten, cid ∈ snap.comments ∧ rev.id ∈ snap.del.map (·.1) :=
  comment_shown_with_deletion cm p pre post cid rev r hn hseg

/-- … and a comment on a replacement with the inserted half of it. -/
theorem C10_comment_shown_with_replacement (cm : CMap) (p : Para) (pre post : List Node) (cid : Str) (rd ri : Rev) (dr r : Run)
    (hn : p.nodes = pre ++ ([.cs cid, .del rd [dr], .ins ri [.run r], .ce cid, .run (crefRun cid)] ++ post))
    (hst : (stAfter {} pre 0).hide = false) (hr : r.ch.all isT = true)
    (hseg : (applyFormatting (runText r) (runMarkers r).1 (runMarkers r).2).isEmpty = false) :
    ∃ snap ∈ (metaGroups cm p).flatten, cid ∈ snap.comments ∧ ri.id ∈ snap.ins.map (·.1) :=
  comment_shown_with_replacement cm p pre post cid rd ri dr r hn hst hr hseg

/-- **End to end** (engine model + reader model): let the session add a comment with `add_comment` and let a paragraph of the
resulting document hold the range of that comment around an insertion, as `attachCommentNodes` leaves it. Then the raw
view of that paragraph - read with the comment map of the *resulting* document - has a metadata block `{>>…<<}` that is
built from a snapshot in which the insertion is open and that has a line `[Com:id] …` for the new comment. -/
theorem C10_commented_insertion_end_to_end (s : Sess) (text : Str) (p : Para) (pre post : List Node) (rev : Rev) (r : Run)
    (hn : p.nodes = pre ++ ([.cs (s.addComment text none).2, .ins rev [.run r], .ce (s.addComment text none).2,
      .run (crefRun (s.addComment text none).2)] ++ post))
    (hst : (stAfter {} pre 0).hide = false) (hr : r.ch.all isT = true)
    (hseg : (applyFormatting (runText r) (runMarkers r).1 (runMarkers r).2).isEmpty = false) :
    ∃ states : List Snap,
      metaBlock (commentsMap (s.addComment text none).1.doc) states ∈
        notesOf (rawSegs (commentsMap (s.addComment text none).1.doc) p) ∧
      (∃ snap ∈ states, (s.addComment text none).2 ∈ snap.comments ∧ rev.id ∈ snap.ins.map (·.1)) ∧
      ∃ l ∈ (states.foldl (metaStep (commentsMap (s.addComment text none).1.doc)) ([], [], [])).2.1,
        comHead (s.addComment text none).2 <+: l := by
  obtain ⟨dd, hd, _⟩ := addComment_read_back s text none
  exact commented_insertion_rendered _ p pre post _ rev r dd hn hst hr hseg hd

/-- The same chain for a commented pure deletion and a commented replacement. -/
theorem C10_commented_deletion_end_to_end (s : Sess) (text : Str) (p : Para) (pre post : List Node) (rev : Rev) (r : Run)
    (hn : p.nodes = pre ++ ([.cs (s.addComment text none).2, .del rev [r], .ce (s.addComment text none).2,
      .run (crefRun (s.addComment text none).2)] ++ post))
    (hseg : (applyFormatting (runText r) (runMarkers r).1 (runMarkers r).2).isEmpty = false) :
    ∃ states : List Snap,
      metaBlock (commentsMap (s.addComment text none).1.doc) states ∈
        notesOf (rawSegs (commentsMap (s.addComment text none).1.doc) p) ∧
      (∃ snap ∈ states, (s.addComment text none).2 ∈ snap.comments ∧ rev.id ∈ snap.del.map (·.1)) ∧
      ∃ l ∈ (states.foldl (metaStep (commentsMap (s.addComment text none).1.doc)) ([], [], [])).2.1,
        comHead (s.addComment text none).2 <+: l := by
  obtain ⟨dd, hd, _⟩ := addComment_read_back s text none
  exact commented_deletion_rendered _ p pre post _ rev r dd hn hseg hd

theorem C10_commented_replacement_end_to_end (s : Sess) (text : Str) (p : Para) (pre post : List Node) (rd ri : Rev) (dr r : Run)
    (hn : p.nodes = pre ++ ([.cs (s.addComment text none).2, .del rd [dr], .ins ri [.run r], .ce (s.addComment text none).2,
      .run (crefRun (s.addComment text none).2)] ++ post))
    (hst : (stAfter {} pre 0).hide = false) (hr : r.ch.all isT = true)
    (hseg : (applyFormatting (runText r) (runMarkers r).1 (runMarkers r).2).isEmpty = false) :
    ∃ states : List Snap,
      metaBlock (commentsMap (s.addComment text none).1.doc) states ∈
        notesOf (rawSegs (commentsMap (s.addComment text none).1.doc) p) ∧
      (∃ snap ∈ states, (s.addComment text none).2 ∈ snap.comments ∧ ri.id ∈ snap.ins.map (·.1)) ∧
      ∃ l ∈ (states.foldl (metaStep (commentsMap (s.addComment text none).1.doc)) ([], [], [])).2.1,
        comHead (s.addComment text none).2 <+: l := by
  obtain ⟨dd, hd, _⟩ := addComment_read_back s text none
  exact commented_replacement_rendered _ p pre post _ rd ri dr r dd hn hst hr hseg hd

/-- non-vacuity: `Hello {--big--}{++small++} world` with comment 7 on the replacement -/
def shownPara : Para :=
  { style := none, ppr := [], nodes :=
    [.run { b := none, i := none, rest := [], ch := [.t "Hello ".toList] }] ++
    ([.cs "7".toList,
      .del ⟨"1".toList, some "Q7".toList, none⟩ [{ b := none, i := none, rest := [], ch := [.dt "big".toList] }],
      .ins ⟨"2".toList, some "Q7".toList, none⟩ [.run { b := none, i := none, rest := [], ch := [.t "small".toList] }],
      .ce "7".toList, .run (crefRun "7".toList)] ++
     [.run { b := none, i := none, rest := [], ch := [.t " world".toList] }]) }

example : ∃ snap ∈ (metaGroups [] shownPara).flatten, "7".toList ∈ snap.comments ∧ "2".toList ∈ snap.ins.map (·.1) :=
  C10_comment_shown_with_replacement [] shownPara _ _ _ _ _ _ _ rfl (by decide) (by decide) (by decide)

example : paraText false [("7".toList, ⟨"Q7".toList, "why".toList, [], false, none⟩)] shownPara =
    "Hello {--big--}{++small++}{>>[Chg:1] Q7\n[Chg:2] Q7\n[Com:7] Q7: why<<} world".toList := by decide

/-- **A reply is shown with the thread it answers.**  Whenever the reader writes comment `c` into a metadata block
(`c` known to the comment map and not yet in the block), the block afterwards has a line `[Com:r] …` for every comment
`r` whose parent is `c` - for any comment map, any state of the block whose lines match its signatures (the empty block
a metadata block starts from does), any fuel ≥ 2. -/
theorem C10_reply_shown_with_thread (cm : CMap) (n : Nat) (c r : Str) (dc dr : CData)
    (hc : cmGet cm c = some dc) (hr : cmGet cm r = some dr) (hp : dr.parent = some c)
    (lines seen : List Str) (hok : LinesOk (lines, seen)) (hns : seen.contains ("Com:".toList ++ c) = false) :
    ∃ l ∈ (renderComment cm (n + 2) c (lines, seen)).1, comHead r <+: l :=
  reply_line_with_parent cm n c r dc dr hc hr hp lines seen hok hns

def threadMap : CMap :=
  [("7".toList, ⟨"Q7".toList, "why".toList, [], false, none⟩), ("9".toList, ⟨"Q8".toList, "because".toList, [], false, some "7".toList⟩)]

example : (renderComment threadMap 3 "7".toList ([], [])).1 = ["[Com:7] Q7: why".toList, "[Com:9] Q8: because".toList] := by decide
example : LinesOk (([] : List Str), ([] : List Str)) := by intro id h; cases h

/-- Existing comments keep their entry (text, author, date, paragraph ids, threading record) and their
position in all four comment parts, whatever the batch does: the lists only grow at the end. -/
theorem C10_existing_untouched (s : Sess) (edits : List HEdit) :
    s.doc.comments <+: (Doc.applyEdits s edits).1.doc.comments ∧
    s.doc.commentsEx <+: (Doc.applyEdits s edits).1.doc.commentsEx ∧
    s.doc.commentsIds <+: (Doc.applyEdits s edits).1.doc.commentsIds ∧
    s.doc.commentsCex <+: (Doc.applyEdits s edits).1.doc.commentsCex :=
  let g := Grows_applyEdits s edits
  ⟨g.comments, g.commentsEx, g.commentsIds, g.commentsCex⟩

/-- A reply to a comment that does not exist is skipped and adds nothing. -/
theorem C10_reply_unknown_skipped (s : Sess) (tgt tid : Str) (c : Bool) (text : Option Str)
    (hp : parseTarget tgt = (tid, c, true)) (h : s.doc.comments.any (·.id = tid) = false) :
    s.applyAction { kind := .reply, target := tgt, text := text } = (s, false) := by
  simp only [Sess.applyAction, hp, h, Bool.and_false, Bool.false_eq_true, ↓reduceIte]

example : parseTarget "Com:5".toList = ("5".toList, false, true) := by decide

/-- **Who wrote the comment entries of the result.**  After any batch (literal or searched targets, applied or
skipped) every entry of the comments part is an entry the opened document already had, or an entry written by this
run: this run's author, no parent attribute, not resolved, one paragraph, and a numeric id above every numeric id
the document carried - it cannot be taken for, or collide with, an existing comment. -/
theorem C10_new_comments_attributed (d : Document) (author date : Str) (edits : List HEdit) (c : Comment)
    (hc : c ∈ (Doc.applyEdits (Sess.open d author date) edits).1.doc.comments) :
    c ∈ (normalize d).comments ∨
      (c.author = some author ∧ c.legacyParent = none ∧ c.doneAttr = none ∧ c.paras.length = 1 ∧
        ∃ k, c.id = natStr k ∧ ∀ c' ∈ (normalize d).comments, ∀ k', strNat? c'.id = some k' → k' < k) :=
  new_comments_attributed d author date edits c hc

/-- **Comment ids stay unique.**  If the comment ids of the opened document are pairwise distinct, so are those of
the result of any batch: the entries a run adds get consecutive numerals from its counter, which starts above every
numeric id the document carries (and a numeral reads back as its number: `strNat?_natStr`). -/
theorem C10_comment_ids_stay_unique (d : Document) (author date : Str) (edits : List HEdit)
    (hn : ((normalize d).comments.map (·.id)).Nodup) :
    ((Doc.applyEdits (Sess.open d author date) edits).1.doc.comments.map (·.id)).Nodup :=
  comment_ids_stay_unique d author date edits hn

/-- the same for review rounds (replies) -/
theorem C10_comment_ids_stay_unique_actions (d : Document) (author date : Str) (acts : List Action)
    (hn : ((normalize d).comments.map (·.id)).Nodup) :
    (((Sess.open d author date).applyActions acts).1.doc.comments.map (·.id)).Nodup :=
  comment_ids_stay_unique_actions d author date acts hn

example : (([{ id := "1".toList, author := none, date := none, initials := none, paras := [], legacyParent := none, doneAttr := none },
             { id := "x7".toList, author := none, date := none, initials := none, paras := [], legacyParent := none, doneAttr := none }] :
             List Comment).map (·.id)).Nodup := by decide

/-- replies keep the comment parts linked: the reply's entry in commentsExtended (which carries the thread link)
sits at the position of the reply's comment entry -/
theorem C10_comment_parts_stay_linked_actions (d : Document) (author date : Str) (acts : List Action) (h : DocLinked d) :
    DocLinked ((Sess.open d author date).applyActions acts).1.doc :=
  comment_parts_stay_linked_actions d author date acts h

end Adeu.Props.C10
