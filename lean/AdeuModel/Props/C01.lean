import AdeuModel.Lemmas.Engine
import AdeuModel.Lemmas.Grow
import AdeuModel.Lemmas.Attr
/-
C01 — tracked edits are fully reversible: the engine patches, it never rewrites.

Statements about the building blocks of `Adeu.Doc.applyIndexed` (the model of
`_apply_single_edit_indexed`, compared with the implementation on whole documents by the
correspondence of this check). The composition of the blocks inside `applyIndexed` (anchor search,
multi-line and heading insertions, comment attachment) is covered by the correspondence and the
oracle, not by a theorem: the theorems below are therefore labelled `_core`.
-/
namespace Adeu.Props.C01
open Adeu Adeu.Doc

/-- Splitting a run (the only thing the engine does to text it does not change) keeps every
character, its formatting and every other child exactly once and in order. -/
theorem C01_split_neutral_core (r : Run) (k : Nat) :
    canonRun (splitRun r k).1 ++ canonRun (splitRun r k).2 = canonRun r :=
  canonRun_splitRun r k

/-- Restoring a deletion made by the session gives back the original run (text, tabs, breaks,
drawings, run properties). -/
theorem C01_delete_restores_core (r : Run) (rev : Rev) (h : noDt r = true) :
    rejectN rev.id (.del rev [r.deleted]) = [.run r] :=
  reject_trackDelete_node r rev h

/-- A tracked replacement of one run: dropping the session's insertion and restoring the session's
deletion gives back the paragraph's children exactly — everything else (earlier authors' marks,
comment anchors, bookmarks, other runs) is untouched and in its original place. -/
theorem C01_reject_restores_core (ns : List Node) (i : Nat) (r : Run) (dRev iRev : Rev) (ch : List InsChild)
    (hi : ns[i]? = some (.run r)) (hr : noDt r = true) (hne : dRev.id ≠ iRev.id)
    (hfd : ∀ n ∈ ns, hasRevN dRev.id n = false) (hfi : ∀ n ∈ ns, hasRevN iRev.id n = false) :
    ((replaceAt ns i dRev iRev ch).flatMap (rejectN dRev.id)).flatMap (rejectN iRev.id) = ns :=
  reject_replaceAt ns i r dRev iRev ch hi hr hne hfd hfi

/-- The ids the session hands out are new: larger than every numeric revision id present in the
main part and in the reachable header / footer parts at load (so the freshness hypotheses of `C01_reject_restores_core` are met). -/
theorem C01_session_ids_fresh (d : Document) (author date : Str) (bs : List Block) (n : Node) (rev : Rev) (k : Nat)
    (hbs : bs ∈ docParts (normalize d)) (hn : n ∈ allNodesBlocks bs) (hform : revOf n = some rev)
    (hk : strNat? rev.id = some k) :
    k < (Sess.open d author date).nextRev + 1 :=
  newRev_fresh d author date bs n rev k hbs hn hform hk

/-- Whole batches (offset-addressed and searched edits mixed; applied, skipped or matched fuzzily — the
non-literal matcher is an arbitrary parameter): the engine patches, it never rewrites. Every story keeps its
skeleton — each paragraph's style and properties, every table with its properties, grid, rows, cells and
their properties, every other block, all in the original order; the only thing that can be added is a
paragraph — and the story selection flags are untouched. (`skel` is the canonical content stream of a story
without the paragraph children; `Sublist` = the input's items all survive, in order.) -/
theorem C01_skeleton_retained (s : Sess) (edits : List HEdit) :
    (skel s.doc.body).Sublist (skel (Doc.applyEdits s edits).1.doc.body) ∧
    SkelLe s.doc.headers (Doc.applyEdits s edits).1.doc.headers ∧
    SkelLe s.doc.footers (Doc.applyEdits s edits).1.doc.footers :=
  ⟨(Grows_applyEdits s edits).skel.body, (Grows_applyEdits s edits).skel.headers, (Grows_applyEdits s edits).skel.footers⟩

/-- … and everything that is not a tracked change or comment of this run in the comment store stays: the
existing entries of all four comment lists are a prefix of the result's. -/
theorem C01_existing_comments_retained (s : Sess) (edits : List HEdit) :
    s.doc.comments <+: (Doc.applyEdits s edits).1.doc.comments ∧
    s.doc.commentsEx <+: (Doc.applyEdits s edits).1.doc.commentsEx :=
  ⟨(Grows_applyEdits s edits).comments, (Grows_applyEdits s edits).commentsEx⟩

/-- The result differs from the input only by marks attributed to this run: every revision mark of the result is
one of the input's (identical id / author / date) or one created by this session (its author, its date, a fresh
id) — for every mixed batch. Earlier authors' tracked changes are never re-labelled. -/
theorem C01_only_this_runs_marks_are_new (s : Sess) (edits : List HEdit) :
    ∀ x ∈ revsDoc (Doc.applyEdits s edits).1.doc, x ∈ revsDoc s.doc ∨ Fresh s (Doc.applyEdits s edits).1 x :=
  (RevOk_applyEdits s edits).revs

/-! Non-vacuity -/
def sampleRun : Run := { b := some [], i := none, rest := "<w:color w:val=\"FF0000\"/>".toList,
                         ch := [.t "Name:".toList, .tab, .t "John Smith".toList, .other "<w:drawing/>".toList] }

example : (splitRun sampleRun 8).1.ch = [.t "Name:".toList, .tab, .t "Jo".toList] := by
  simp [splitRun, splitAtoms, sampleRun, joinText, Atom.width]
example : noDt sampleRun = true := by decide

end Adeu.Props.C01
